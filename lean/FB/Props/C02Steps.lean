/-
  C02 — why the bookkeeping of a build is `Undoable` at every moment: it is so when the build starts, and each of the
  disk-changing steps of a build keeps it so —
    * making a directory that did not exist and noting it as created             (`Undoable.mkdir`)
    * replacing a target: `back_up_and_remove` (or `record_absent`), then the function writes the file
                                                                               (`Undoable.overwrite`)
    * removing, after a failed call, the file the function had written          (`Undoable.dropOutput`)
  so that `rollBack_restores_files` applies whenever the build fails.  (The steps are the ones the unit models
  `FB.MakeDirs`, `FB.Backups` describe; that `FileBuilder` performs only such steps is what `rbcheck.py` observes on
  every real rollback by evaluating `Undoable`.)
-/
import FB.Props.C02Rollback
import FB.Props.C10MakeDirs
namespace FB
namespace Rollback
open FS Spec Backups BuildDirs

/-- nothing has happened yet -/
theorem Undoable.start (P0 : FS) (oldOutputs oldCreatedDirs : List Path) :
    Undoable P0 P0 { oldOutputs := oldOutputs, oldCreatedDirs := oldCreatedDirs } :=
  ⟨by simp, (fun x hx => nomatch hx), (fun p c m h => Or.inl h), (fun p c m h => Or.inl h), (fun p hp => nomatch hp),
   (fun d hd hd0 => by rw [hd] at hd0; cases hd0)⟩

/-- a directory that did not exist is made and noted -/
theorem Undoable.mkdir {P0 P : FS} {r : RB} (h : Undoable P0 P r) (d : Path) (hd : P.get d = none) (hne : d ≠ []) :
    Undoable P0 (P.set d .dir) { r with createdDirs := d :: r.createdDirs } := by
  refine ⟨h.saved_nodup, h.saved_pre, ?_, ?_, h.moved, ?_⟩
  · intro p c m hp
    rcases h.kept p c m hp with h1 | h1
    · left
      have : p ≠ d := fun e => by rw [e, hd] at h1; cases h1
      rw [get_set_ne _ _ _ _ this]; exact h1
    · exact Or.inr h1
  · intro p c m hp
    by_cases hpd : p = d
    · subst hpd; rw [get_set_self _ _ _ hne] at hp; cases hp
    · rw [get_set_ne _ _ _ _ hpd] at hp; exact h.fresh p c m hp
  · intro x hx hx0
    by_cases hxd : x = d
    · subst hxd; exact List.mem_cons_self ..
    · have : P.isDir x = true := by
        unfold FS.isDir at hx ⊢
        rw [get_set_ne _ _ _ _ hxd] at hx; exact hx
      exact List.mem_cons_of_mem _ (h.newdirs x this hx0)


/-- the bookkeeping after `back_up_and_remove(p)` found a regular file and the function has written the target -/
def afterOverwrite (r : RB) (p : Path) (old : Entry) : RB :=
  { r with bk := { r.bk with saved := r.bk.saved ++ [(p, old)] }, newOutputs := p :: r.newOutputs }

/-- … after `record_absent(p)` (there was nothing to save) and the function has written the target -/
def afterWriteNew (r : RB) (p : Path) : RB :=
  { r with bk := Backups.recordAbsent r.bk p, newOutputs := p :: r.newOutputs }

theorem removable_afterOverwrite (r : RB) (p : Path) (old : Entry) (q : Path) :
    removable (afterOverwrite r p old) q = removable r q := rfl

/-- a target that holds a pre-build file is replaced: the file goes to the undo log first -/
theorem Undoable.overwrite {P0 P : FS} {r : RB} (h : Undoable P0 P r) (p : Path) (c0 : String) (m0 : Nat) (c : String) (m : Nat)
    (hne : p ≠ []) (hg : P.get p = some (.file c0 m0)) (hnew : p ∉ r.newOutputs) (hns : p ∉ r.bk.saved.map (·.1)) :
    Undoable P0 ((P.erase p).set p (.file c m)) (afterOverwrite r p (.file c0 m0)) := by
  have hp0 : P0.get p = some (.file c0 m0) := by
    rcases h.fresh p c0 m0 hg with h1 | h1 | ⟨h1, _⟩
    · exact h1
    · exact absurd h1 hns
    · exact absurd h1 hnew
  have hget : ∀ q, q ≠ p → ((P.erase p).set p (.file c m)).get q = P.get q := by
    intro q hq; rw [get_set_ne _ _ _ _ hq, get_erase_ne _ _ _ hq]
  have hsv : ∀ q, q ∈ r.bk.saved.map (·.1) → q ∈ (afterOverwrite r p (.file c0 m0)).bk.saved.map (·.1) := by
    intro q hq; simp only [afterOverwrite, List.map_append, List.mem_append]; exact Or.inl hq
  have hpsv : p ∈ (afterOverwrite r p (.file c0 m0)).bk.saved.map (·.1) := by simp [afterOverwrite]
  refine ⟨?_, ?_, ?_, ?_, ?_, ?_⟩
  · show ((r.bk.saved ++ [(p, Entry.file c0 m0)]).map (·.1)).Nodup
    rw [List.map_append]
    exact List.nodup_append.mpr ⟨h.saved_nodup, by simp, by
      intro a ha b hb; simp at hb; subst hb; exact fun e => hns (e ▸ ha)⟩
  · intro x hx
    rcases List.mem_append.mp hx with hx | hx
    · exact h.saved_pre x hx
    · simp at hx; subst hx; exact ⟨hp0, c0, m0, rfl⟩
  · intro q c' m' hq
    by_cases hqp : q = p
    · subst hqp; exact Or.inr hpsv
    · rw [hget q hqp]
      rcases h.kept q c' m' hq with h1 | h1
      · exact Or.inl h1
      · exact Or.inr (hsv q h1)
  · intro q c' m' hq
    by_cases hqp : q = p
    · subst hqp; exact Or.inr (Or.inl hpsv)
    · rw [hget q hqp] at hq
      rcases h.fresh q c' m' hq with h1 | h1 | ⟨h1, h2⟩
      · exact Or.inl h1
      · exact Or.inr (Or.inl (hsv q h1))
      · exact Or.inr (Or.inr ⟨List.mem_cons_of_mem _ h1, h2⟩)
  · intro q hq hrem hq0
    rcases List.mem_cons.mp hq with rfl | hq'
    · exact hpsv
    · exact hsv q (h.moved q hq' hrem hq0)
  · intro d hd hd0
    have hdp : d ≠ p := by
      intro e; subst e
      simp [FS.isDir, get_set_self _ _ _ hne] at hd
    apply h.newdirs d _ hd0
    unfold FS.isDir at hd ⊢
    rw [hget d hdp] at hd; exact hd

theorem wasAbsent_record (b : Backups.BK) (p q : Path) :
    Backups.wasAbsent (Backups.recordAbsent b p) q = (decide (q = p) || Backups.wasAbsent b q) := by
  unfold Backups.wasAbsent Backups.recordAbsent
  by_cases hc : b.absent.contains p = true
  · simp only [hc, if_true]
    by_cases hq : q = p
    · subst hq; simpa using hc
    · simp [hq]
  · simp only [hc, Bool.false_eq_true, if_false]
    by_cases hq : q = p
    · subst hq; simp
    · simp [hq]

/-- a target where nothing was is written: `record_absent` makes sure the rollback removes it -/
theorem Undoable.writeNew {P0 P : FS} {r : RB} (h : Undoable P0 P r) (p : Path) (c : String) (m : Nat)
    (hne : p ≠ []) (hg : P.get p = none) (hns : p ∉ r.bk.saved.map (·.1)) :
    Undoable P0 (P.set p (.file c m)) (afterWriteNew r p) := by
  have hp0 : P0.isFile p = false := by
    cases hf : P0.isFile p with
    | false => rfl
    | true =>
      obtain ⟨c', m', hg0⟩ : ∃ c' m', P0.get p = some (.file c' m') := by
        unfold FS.isFile at hf
        cases hg0 : P0.get p with
        | none => simp [hg0] at hf
        | some e => cases e with
          | dir => simp [hg0] at hf
          | file c' m' => exact ⟨c', m', rfl⟩
      rcases h.kept p c' m' hg0 with h1 | h1
      · rw [hg] at h1; cases h1
      · exact absurd h1 hns
  have hrem : ∀ q, removable r q = true → removable (afterWriteNew r p) q = true := by
    intro q hq
    simp only [removable, afterWriteNew, wasAbsent_record, Bool.or_eq_true] at hq ⊢
    rcases hq with h1 | h1
    · exact Or.inl h1
    · exact Or.inr (Or.inr h1)
  have hremp : removable (afterWriteNew r p) p = true := by
    simp [removable, afterWriteNew, wasAbsent_record]
  refine ⟨h.saved_nodup, h.saved_pre, ?_, ?_, ?_, ?_⟩
  · intro q c' m' hq
    by_cases hqp : q = p
    · subst hqp; simp [FS.isFile, hq] at hp0
    · rw [get_set_ne _ _ _ _ hqp]; exact h.kept q c' m' hq
  · intro q c' m' hq
    by_cases hqp : q = p
    · subst hqp; exact Or.inr (Or.inr ⟨List.mem_cons_self .., hremp⟩)
    · rw [get_set_ne _ _ _ _ hqp] at hq
      rcases h.fresh q c' m' hq with h1 | h1 | ⟨h1, h2⟩
      · exact Or.inl h1
      · exact Or.inr (Or.inl h1)
      · exact Or.inr (Or.inr ⟨List.mem_cons_of_mem _ h1, hrem q h2⟩)
  · intro q hq hr hq0
    rcases List.mem_cons.mp hq with rfl | hq'
    · rw [hp0] at hq0; cases hq0
    · by_cases hqp : q = p
      · subst hqp; rw [hp0] at hq0; cases hq0
      · have : removable r q = true := by
          simp only [removable, afterWriteNew, wasAbsent_record, hqp, decide_false, Bool.false_or] at hr
          exact hr
        exact h.moved q hq' this hq0
  · intro d hd hd0
    have hdp : d ≠ p := by
      intro e; subst e
      simp [FS.isDir, get_set_self _ _ _ hne] at hd
    apply h.newdirs d _ hd0
    unfold FS.isDir at hd ⊢
    rw [get_set_ne _ _ _ _ hdp] at hd; exact hd


/-- after a failed call the file its function had written is removed again -/
theorem Undoable.dropOutput {P0 P : FS} {r : RB} (h : Undoable P0 P r) (p : Path)
    (hsv : P0.isFile p = true → p ∈ r.bk.saved.map (·.1)) : Undoable P0 (P.erase p) r := by
  refine ⟨h.saved_nodup, h.saved_pre, ?_, ?_, h.moved, ?_⟩
  · intro q c m hq
    by_cases hqp : q = p
    · subst hqp; exact Or.inr (hsv (by simp [FS.isFile, hq]))
    · rw [get_erase_ne _ _ _ hqp]; exact h.kept q c m hq
  · intro q c m hq
    by_cases hqp : q = p
    · subst hqp
      by_cases hne : q = []
      · subst hne; rw [get_nil] at hq; cases hq
      · rw [get_erase_self _ _ hne] at hq; cases hq
    · rw [get_erase_ne _ _ _ hqp] at hq; exact h.fresh q c m hq
  · intro d hd hd0
    by_cases hdp : d = p
    · subst hdp
      by_cases hne : d = []
      · subst hne; simp [FS.isDir, get_nil] at hd0
      · simp [FS.isDir, get_erase_self _ _ hne] at hd
    · apply h.newdirs d _ hd0
      unfold FS.isDir at hd ⊢
      rw [get_erase_ne _ _ _ hdp] at hd; exact hd

/-- removing directories (the unwinding after a failed call, `_make_room`, the clean-up of the previous build's empty
    directories) never endangers a file -/
theorem Undoable.rmEmpty {P0 P : FS} {r : RB} (h : Undoable P0 P r) (ds : List Path) : Undoable P0 (Spec.rmEmpty P ds) r := by
  refine ⟨h.saved_nodup, h.saved_pre, ?_, ?_, h.moved, ?_⟩
  · intro q c m hq
    rcases h.kept q c m hq with h1 | h1
    · exact Or.inl (rmEmpty_file ds P q c m h1)
    · exact Or.inr h1
  · intro q c m hq
    exact h.fresh q c m (rmEmpty_file_rev ds P q c m hq)
  · intro d hd hd0
    apply h.newdirs d _ hd0
    unfold FS.isDir at hd ⊢
    rcases rmEmpty_get ds P d with h1 | ⟨_, _, h3⟩
    · rw [h1] at hd; exact hd
    · rw [h3] at hd; cases hd

/-- the bookkeeping after a regular file in a directory position was moved to the undo log -/
def afterMoveAside (r : RB) (p : Path) (old : Entry) : RB := { r with bk := { r.bk with saved := r.bk.saved ++ [(p, old)] } }

/-- a pre-build file that is in the way of a directory goes to the undo log -/
theorem Undoable.moveAside {P0 P : FS} {r : RB} (h : Undoable P0 P r) (p : Path) (c0 : String) (m0 : Nat)
    (hg : P.get p = some (.file c0 m0)) (hnew : p ∉ r.newOutputs) (hns : p ∉ r.bk.saved.map (·.1)) :
    Undoable P0 (P.erase p) (afterMoveAside r p (.file c0 m0)) := by
  have hp0 : P0.get p = some (.file c0 m0) := by
    rcases h.fresh p c0 m0 hg with h1 | h1 | ⟨h1, _⟩
    · exact h1
    · exact absurd h1 hns
    · exact absurd h1 hnew
  have hne : p ≠ [] := by intro e; rw [e, get_nil] at hg; cases hg
  have hsv : ∀ q, q ∈ r.bk.saved.map (·.1) → q ∈ (afterMoveAside r p (.file c0 m0)).bk.saved.map (·.1) := by
    intro q hq; simp only [afterMoveAside, List.map_append, List.mem_append]; exact Or.inl hq
  have hpsv : p ∈ (afterMoveAside r p (.file c0 m0)).bk.saved.map (·.1) := by simp [afterMoveAside]
  refine ⟨?_, ?_, ?_, ?_, ?_, ?_⟩
  · show ((r.bk.saved ++ [(p, Entry.file c0 m0)]).map (·.1)).Nodup
    rw [List.map_append]
    exact List.nodup_append.mpr ⟨h.saved_nodup, by simp, by
      intro a ha b hb; simp at hb; subst hb; exact fun e => hns (e ▸ ha)⟩
  · intro x hx
    rcases List.mem_append.mp hx with hx | hx
    · exact h.saved_pre x hx
    · simp at hx; subst hx; exact ⟨hp0, c0, m0, rfl⟩
  · intro q c' m' hq
    by_cases hqp : q = p
    · subst hqp; exact Or.inr hpsv
    · rw [get_erase_ne _ _ _ hqp]
      rcases h.kept q c' m' hq with h1 | h1
      · exact Or.inl h1
      · exact Or.inr (hsv q h1)
  · intro q c' m' hq
    by_cases hqp : q = p
    · subst hqp; rw [get_erase_self _ _ hne] at hq; cases hq
    · rw [get_erase_ne _ _ _ hqp] at hq
      rcases h.fresh q c' m' hq with h1 | h1 | h1
      · exact Or.inl h1
      · exact Or.inr (Or.inl (hsv q h1))
      · exact Or.inr (Or.inr h1)
  · intro q hq hrem hq0
    exact hsv q (h.moved q hq hrem hq0)
  · intro d hd hd0
    by_cases hdp : d = p
    · subst hdp; simp [FS.isDir, get_erase_self _ _ hne] at hd
    · apply h.newdirs d _ hd0
      unfold FS.isDir at hd ⊢
      rw [get_erase_ne _ _ _ hdp] at hd; exact hd

/-- only membership in the list of created directories matters -/
theorem Undoable.dirs_mono {P0 P : FS} {r : RB} (h : Undoable P0 P r) (cd : List Path) (hsub : ∀ d ∈ r.createdDirs, d ∈ cd) :
    Undoable P0 P { r with createdDirs := cd } :=
  ⟨h.saved_nodup, h.saved_pre, h.kept, h.fresh, h.moved, fun d hd hd0 => hsub d (h.newdirs d hd hd0)⟩

/-- the bookkeeping seen from inside `_make_dirs` -/
def rbOf (r : RB) (st : MakeDirs.St) : RB := { r with bk := st.bk, createdDirs := st.made ++ r.createdDirs }

/-- **`_make_dirs` keeps the bookkeeping `Undoable`**, whether it returns or fails part-way -/
theorem makeDirs_undoable (oldCreated : List Path) (failAt : Option Nat) (P0 : FS) (r : RB) :
    ∀ (dirs : List Path) (i : Nat) (st st' : MakeDirs.St), dirs.Nodup →
      (∀ d ∈ dirs, d ∉ r.newOutputs ∧ d ∉ st.bk.saved.map (·.1)) →
      Undoable P0 st.fs (rbOf r st) →
      (MakeDirs.loop oldCreated failAt dirs i st = .ok st' ∨ MakeDirs.loop oldCreated failAt dirs i st = .error st') →
      Undoable P0 st'.fs (rbOf r st') := by
  intro dirs
  induction dirs with
  | nil =>
    intro i st st' _ _ h hr
    simp only [MakeDirs.loop] at hr
    rcases hr with hr | hr
    · simp only [Except.ok.injEq] at hr; rw [← hr]; exact h
    · cases hr
  | cons d rest ih =>
    intro i st st' hnd hcond h hr
    have hnd' := List.nodup_cons.mp hnd
    obtain ⟨hdnew, hdsv⟩ := hcond d (List.mem_cons_self ..)
    simp only [MakeDirs.loop] at hr
    generalize hst1 : (if st.fs.isFile d && oldCreated.contains d then
        ({ st with fs := (Backups.backUpAndRemove st.fs st.bk d).1, bk := (Backups.backUpAndRemove st.fs st.bk d).2.1 } : MakeDirs.St)
      else st) = st1 at hr
    -- after the possible move to the undo log
    have h1 : Undoable P0 st1.fs (rbOf r st1) ∧ st1.made = st.made ∧
        (∀ x ∈ rest, x ∉ r.newOutputs ∧ x ∉ st1.bk.saved.map (·.1)) := by
      rw [← hst1]
      split
      · rename_i hc
        simp only [Bool.and_eq_true] at hc
        obtain ⟨c, m, hg⟩ : ∃ c m, st.fs.get d = some (.file c m) := by
          have := hc.1
          unfold FS.isFile at this
          cases hg : st.fs.get d with
          | none => simp [hg] at this
          | some e => cases e with
            | dir => simp [hg] at this
            | file c m => exact ⟨c, m, rfl⟩
        have hb : Backups.backUpAndRemove st.fs st.bk d =
            (st.fs.erase d, { st.bk with saved := st.bk.saved ++ [(d, .file c m)] }, true) := by
          simp [Backups.backUpAndRemove, hg]
        refine ⟨?_, rfl, ?_⟩
        · have := h.moveAside d c m hg hdnew hdsv
          simp only [hb]
          exact this
        · intro x hx
          obtain ⟨g1, g2⟩ := hcond x (List.mem_cons_of_mem _ hx)
          refine ⟨g1, ?_⟩
          simp only [hb, List.map_append, List.mem_append, not_or]
          refine ⟨g2, ?_⟩
          simp
          exact fun e => hnd'.1 (e ▸ hx)
      · exact ⟨h, rfl, fun x hx => hcond x (List.mem_cons_of_mem _ hx)⟩
    obtain ⟨hu1, hm1, hc1⟩ := h1
    have hunwind : Undoable P0 (Spec.rmEmpty st1.fs st1.made) (rbOf r { st1 with fs := Spec.rmEmpty st1.fs st1.made }) := hu1.rmEmpty st1.made
    by_cases hf : failAt = some i
    · simp only [hf, if_true] at hr
      rcases hr with hr | hr
      · cases hr
      · simp only [Except.error.injEq] at hr; rw [← hr]; exact hunwind
    · simp only [hf, if_false] at hr
      cases hm : st1.fs.mkdir d with
      | error e =>
        rw [hm] at hr
        cases e with
        | fileExists => exact ih (i + 1) st1 st' hnd'.2 hc1 hu1 hr
        | notFound =>
          rcases hr with hr | hr
          · cases hr
          · simp only [Except.error.injEq] at hr; rw [← hr]; exact hunwind
        | notADir =>
          rcases hr with hr | hr
          · cases hr
          · simp only [Except.error.injEq] at hr; rw [← hr]; exact hunwind
        | isADir =>
          rcases hr with hr | hr
          · cases hr
          · simp only [Except.error.injEq] at hr; rw [← hr]; exact hunwind
        | other =>
          rcases hr with hr | hr
          · cases hr
          · simp only [Except.error.injEq] at hr; rw [← hr]; exact hunwind
      | ok fs' =>
        rw [hm] at hr
        have habs := mkdir_absent st1.fs fs' d hm
        have hdne : d ≠ [] := by intro e; subst e; simp [FS.mkdir] at hm
        have hfs' : fs' = st1.fs.set d .dir := by
          unfold FS.mkdir at hm
          simp only [hdne, if_false] at hm
          split at hm <;> try cases hm
          split at hm
          · cases hm
          · simp only [Except.ok.injEq] at hm; exact hm.symm
        simp only at hr
        have hstep : Undoable P0 fs' (rbOf r { fs := fs', bk := st1.bk, made := st1.made ++ [d] }) := by
          have := (hu1.mkdir d habs hdne).dirs_mono ((st1.made ++ [d]) ++ r.createdDirs) (by
            intro x hx
            simp only [rbOf] at hx
            rcases List.mem_cons.mp hx with rfl | hx
            · simp
            · rcases List.mem_append.mp hx with hx | hx
              · simp [hx]
              · simp [hx])
          rw [hfs']
          exact this
        exact ih (i + 1) { fs := fs', bk := st1.bk, made := st1.made ++ [d] } st' hnd'.2 hc1 hstep hr

/-- **whenever a build of such steps fails, rollback restores the regular files** -/
theorem undoable_rollback {P0 P : FS} {r : RB} (hwf0 : TreeWF P0) (h : Undoable P0 P r) :
    ∀ p c m, P0.get p = some (.file c m) ↔ (rollBack P r).get p = some (.file c m) :=
  fun p c m => ⟨(rollBack_restores_files P0 P r hwf0 h).1 p c m, (rollBack_restores_files P0 P r hwf0 h).2.1 p c m⟩

end Rollback
end FB
