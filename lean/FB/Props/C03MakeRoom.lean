/-
  C03/C10 — `_make_room` never destroys anything: whatever it removes from the tree is a regular file that the
  virtual tree does not know and that is now in the undo log, or a directory that the virtual tree does not know
  (or the directory it was asked to clear) — in every outcome, also when it gives up with `IsADirectoryError` half-way.
-/
import FB.MakeRoom
import FB.Lemmas.FS
import FB.Lemmas.Spec
namespace FB
namespace MakeRoom
open FS

/-- `st'` came out of `st` by moving unknown files to the log and removing unknown directories (or `top`) -/
structure Moved (virtDir virtFile : Path → Bool) (top : Path) (st st' : St) : Prop where
  log : ∀ x ∈ st.bk.saved, x ∈ st'.bk.saved
  tree : ∀ q, st'.fs.get q = st.fs.get q ∨
    (st'.fs.get q = none ∧
      ((∃ c m, st.fs.get q = some (.file c m) ∧ virtFile q = false ∧ (q, Entry.file c m) ∈ st'.bk.saved) ∨
       (st.fs.get q = some .dir ∧ (virtDir q = false ∨ q = top))))

theorem Moved.refl (vd vf : Path → Bool) (top : Path) (st : St) : Moved vd vf top st st :=
  ⟨fun _ h => h, fun _ => Or.inl rfl⟩

theorem Moved.trans {vd vf : Path → Bool} {top : Path} {a b c : St} (h1 : Moved vd vf top a b) (h2 : Moved vd vf top b c) :
    Moved vd vf top a c := by
  refine ⟨fun x hx => h2.log x (h1.log x hx), ?_⟩
  intro q
  rcases h2.tree q with e2 | ⟨n2, k2⟩
  · rcases h1.tree q with e1 | ⟨n1, k1⟩
    · left; rw [e2, e1]
    · right
      refine ⟨by rw [e2, n1], ?_⟩
      rcases k1 with ⟨c, m, g1, g2, g3⟩ | g
      · exact Or.inl ⟨c, m, g1, g2, h2.log _ g3⟩
      · exact Or.inr g
  · rcases h1.tree q with e1 | ⟨n1, _⟩
    · right
      refine ⟨n2, ?_⟩
      rw [e1] at k2
      exact k2
    · rcases k2 with ⟨c, m, g1, _, _⟩ | ⟨g1, _⟩ <;> (rw [n1] at g1; cases g1)

/-- a recursive call on a sub-directory that the virtual tree does not know fits the outer call's bill -/
theorem Moved.retop {vd vf : Path → Bool} {sub top : Path} {a b : St} (h : Moved vd vf sub a b) (hs : vd sub = false) :
    Moved vd vf top a b := by
  refine ⟨h.log, fun q => ?_⟩
  rcases h.tree q with e | ⟨n, k⟩
  · exact Or.inl e
  · right
    refine ⟨n, ?_⟩
    rcases k with k | ⟨g1, g2⟩
    · exact Or.inl k
    · right
      refine ⟨g1, Or.inl ?_⟩
      rcases g2 with g2 | g2
      · exact g2
      · rw [g2]; exact hs

theorem backup_moved (vd vf : Path → Bool) (top : Path) (st : St) (sub : Path) (hnd : st.fs.isDir sub = false)
    (hvf : vf sub = false) :
    Moved vd vf top st { fs := (Backups.backUpAndRemove st.fs st.bk sub).1, bk := (Backups.backUpAndRemove st.fs st.bk sub).2.1 } := by
  cases hg : st.fs.get sub with
  | none =>
    have : Backups.backUpAndRemove st.fs st.bk sub = (st.fs, st.bk, false) := by simp [Backups.backUpAndRemove, hg]
    rw [this]; exact Moved.refl ..
  | some e =>
    cases e with
    | dir => simp [FS.isDir, hg] at hnd
    | file c m =>
      have hne : sub ≠ [] := by intro e; rw [e, get_nil] at hg; cases hg
      have : Backups.backUpAndRemove st.fs st.bk sub =
          (st.fs.erase sub, { st.bk with saved := st.bk.saved ++ [(sub, .file c m)] }, true) := by
        simp [Backups.backUpAndRemove, hg]
      rw [this]
      refine ⟨fun x hx => List.mem_append_left _ hx, fun q => ?_⟩
      by_cases hq : q = sub
      · subst hq
        right
        exact ⟨get_erase_self _ _ hne, Or.inl ⟨c, m, hg, hvf, by simp⟩⟩
      · left; exact get_erase_ne _ _ _ hq

/-- the loop over the entries, given the recursive calls at the same fuel -/
theorem entries_moved (vd vf : Path → Bool) (fuel : Nat)
    (hmr : ∀ (st : St) (d : Path), ∀ st', (makeRoom vd vf fuel st d = .ok st' ∨ makeRoom vd vf fuel st d = .error st') → Moved vd vf d st st') :
    ∀ (l : List String) (st : St) (d : Path), ∀ st', (entries vd vf fuel st d l = .ok st' ∨ entries vd vf fuel st d l = .error st') →
      Moved vd vf d st st' := by
  intro l
  induction l with
  | nil =>
    intro st d st' h
    rw [entries] at h
    rcases h with h | h
    · simp only [Except.ok.injEq] at h; rw [← h]; exact Moved.refl ..
    · cases h
  | cons n rest ih =>
    intro st d st' h
    rw [entries] at h
    simp only at h
    by_cases hd : st.fs.isDir (d ++ [n]) = true
    · simp only [hd, if_true] at h
      by_cases hv : vd (d ++ [n]) = true
      · simp only [hv, if_true] at h
        rcases h with h | h
        · cases h
        · simp only [Except.error.injEq] at h; rw [← h]; exact Moved.refl ..
      · have hv' : vd (d ++ [n]) = false := by simpa using hv
        simp only [hv', Bool.false_eq_true, if_false] at h
        cases hr : makeRoom vd vf fuel st (d ++ [n]) with
        | error st1 =>
          rw [hr] at h
          rcases h with h | h
          · cases h
          · simp only [Except.error.injEq] at h; rw [← h]
            exact (hmr st (d ++ [n]) st1 (Or.inr hr)).retop hv'
        | ok st1 =>
          rw [hr] at h
          exact ((hmr st (d ++ [n]) st1 (Or.inl hr)).retop hv').trans (ih st1 d st' h)
    · have hd' : st.fs.isDir (d ++ [n]) = false := by simpa using hd
      simp only [hd', Bool.false_eq_true, if_false] at h
      by_cases hv : vf (d ++ [n]) = true
      · simp only [hv, if_true] at h
        rcases h with h | h
        · cases h
        · simp only [Except.error.injEq] at h; rw [← h]; exact Moved.refl ..
      · have hv' : vf (d ++ [n]) = false := by simpa using hv
        simp only [hv', Bool.false_eq_true, if_false] at h
        exact (backup_moved vd vf d st (d ++ [n]) hd' hv').trans (ih _ d st' h)

/-- **`_make_room` only moves unknown files to the log and removes unknown directories** -/
theorem makeRoom_moved (vd vf : Path → Bool) : ∀ (fuel : Nat) (st : St) (d : Path), ∀ st',
    (makeRoom vd vf fuel st d = .ok st' ∨ makeRoom vd vf fuel st d = .error st') → Moved vd vf d st st' := by
  intro fuel
  induction fuel with
  | zero =>
    intro st d st' h
    rw [makeRoom] at h
    rcases h with h | h
    · cases h
    · simp only [Except.error.injEq] at h; rw [← h]; exact Moved.refl ..
  | succ fuel ihf =>
    intro st d st' h
    rw [makeRoom] at h
    have hen := entries_moved vd vf fuel ihf (st.fs.listdir d) st d
    cases he : entries vd vf fuel st d (st.fs.listdir d) with
    | error st1 =>
      rw [he] at h
      rcases h with h | h
      · cases h
      · simp only [Except.error.injEq] at h; rw [← h]; exact hen st1 (Or.inr he)
    | ok st1 =>
      rw [he] at h
      simp only at h
      have h1 := hen st1 (Or.inl he)
      cases hr : st1.fs.rmdir d with
      | error e =>
        rw [hr] at h
        rcases h with h | h
        · cases h
        · simp only [Except.error.injEq] at h; rw [← h]; exact h1
      | ok fs' =>
        rw [hr] at h
        rcases h with h | h
        · simp only [Except.ok.injEq] at h
          rw [← h]
          refine h1.trans ⟨fun x hx => hx, fun q => ?_⟩
          have hget := get_rmdir st1.fs fs' d q hr
          have hwas := rmdir_was_empty_dir st1.fs fs' d hr
          show fs'.get q = _ ∨ _
          rw [hget]
          by_cases hq : q = d
          · subst hq
            right
            simp only [if_true]
            exact ⟨trivial, Or.inr ⟨hwas.1, Or.inr trivial⟩⟩
          · left; simp [hq]
        · cases h

/-- in particular: a regular file or directory that exists in the virtual tree is never touched -/
theorem makeRoom_keeps_virtual (vd vf : Path → Bool) (fuel : Nat) (st : St) (d : Path) (st' : St)
    (h : makeRoom vd vf fuel st d = .ok st' ∨ makeRoom vd vf fuel st d = .error st') (q : Path) (hq : q ≠ d)
    (hv : (vf q = true ∧ st.fs.isFile q = true) ∨ (vd q = true ∧ st.fs.isDir q = true)) : st'.fs.get q = st.fs.get q := by
  rcases (makeRoom_moved vd vf fuel st d st' h).tree q with e | ⟨_, k⟩
  · exact e
  · exfalso
    rcases k with ⟨c, m, g1, g2, _⟩ | ⟨g1, g2⟩
    · rcases hv with ⟨h1, _⟩ | ⟨_, h2⟩
      · rw [g2] at h1; cases h1
      · simp [FS.isDir, g1] at h2
    · rcases hv with ⟨_, h2⟩ | ⟨h1, _⟩
      · simp [FS.isFile, g1] at h2
      · rcases g2 with g2 | g2
        · rw [g2] at h1; cases h1
        · exact hq g2

end MakeRoom
end FB
