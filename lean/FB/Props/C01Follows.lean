/-
  The records `Impl.run` produces *follow* the program it ran (`Follows`): this is what makes the cache
  written by one build valid for the next one (`CacheOK`), closing the induction over histories.
-/
import FB.Props.C01Run
namespace FB
open FS Spec

/-- the content the running function has written into target `p` so far -/
def PF (s : SpecSt) (p : Path) : Option String := (pendingFind s.pending p).map (·.1)

theorem recOK_of_run (ds : Nat) (f : FS) (q : Query) :
    RecOK ds q (match View.recVal ds f q with | .ok v => v | .error _ => .null)
      (match View.recVal ds f q with | .ok _ => none | .error e => some e) (View.answer ds f q) := by
  cases hrv : View.recVal ds f q with
  | error e =>
    simp only [RecOK]
    exact ⟨trivial, answer_of_recVal_error _ _ _ _ hrv⟩
  | ok v =>
    simp only [RecOK]
    cases q with
    | read p cmp =>
      simp only [View.recVal] at hrv
      simp only [View.answer]
      cases hg : f.get p with
      | none => simp [hg] at hrv
      | some x =>
        cases x with
        | dir => simp [hg] at hrv
        | file b m =>
          simp [hg] at hrv
          exact ⟨b, m, hrv.symm, rfl⟩
    | isFile p => exact ⟨⟨f, hrv⟩, answer_of_recVal_ok _ _ _ _ (fun _ _ h => nomatch h) hrv⟩
    | isDir p => exact ⟨⟨f, hrv⟩, answer_of_recVal_ok _ _ _ _ (fun _ _ h => nomatch h) hrv⟩
    | exists_ p => exact ⟨⟨f, hrv⟩, answer_of_recVal_ok _ _ _ _ (fun _ _ h => nomatch h) hrv⟩
    | listDir p => exact ⟨⟨f, hrv⟩, answer_of_recVal_ok _ _ _ _ (fun _ _ h => nomatch h) hrv⟩
    | walk p td => exact ⟨⟨f, hrv⟩, answer_of_recVal_ok _ _ _ _ (fun _ _ h => nomatch h) hrv⟩
    | getSize p => exact ⟨⟨f, hrv⟩, answer_of_recVal_ok _ _ _ _ (fun _ _ h => nomatch h) hrv⟩

/-- facts about the state after `Impl.run`, obtained from `run_refines` against the reference run from
    the same state -/
structure After (ds : Nat) (t : Option Path) (s s' : KSt) : Prop where
  dsz : s'.sp.dirSize = ds
  ff : s'.sp.failFiles = []
  fsb : s'.sp.failSubs = []
  wf : s'.WF
  pc : PendClaimed s'.sp
  old : s'.old = s.old
  nv : s'.newVersions = s.newVersions
  claimed : ∀ p ∈ s.sp.claimedFiles, p ∈ s'.sp.claimedFiles
  inProg : s'.sp.inProg = s.sp.inProg
  /-- pending content of every target but the run's own is unchanged -/
  other : ∀ q, t ≠ some q → PF s'.sp q = PF s.sp q

theorem after_run {ds : Nat} (prog : Prog) (t : Option Path) (s : KSt)
    (hds : s.sp.dirSize = ds) (hff : s.sp.failFiles = []) (hfs : s.sp.failSubs = []) (hwf : s.WF)
    (hpc : PendClaimed s.sp) (htc : ∀ p, t = some p → p ∈ s.sp.claimedFiles)
    (hok : CacheOK ds s.old s.newVersions prog) : After ds t s (Impl.run prog t s).2.1 := by
  have h := (run_refines (ds := ds) prog t s.sp s (SpecSt.Sim.refl _) hds hff hfs hwf hpc (PendSim.refl _) htc hok).2
  have hrp := run_pending prog t s.sp hpc htc
  refine ⟨by rw [← h.sim.dirSize]; exact h.dsz, by rw [← h.sim.failFiles]; exact h.ff,
    by rw [← h.sim.failSubs]; exact h.fsb, h.wf, ?_, h.old, h.nv, h.claimed, h.inProg, ?_⟩
  · intro q hq
    have h1 : pendingFind (run prog t s.sp).2.1.pending q = none := h.pc q (by rw [h.sim.claimedFiles]; exact hq)
    have h2 := h.ps q
    rw [h1] at h2
    cases h3 : pendingFind (Impl.run prog t s).2.1.sp.pending q with
    | none => rfl
    | some x => rw [h3] at h2; cases h2
  · intro q hq
    unfold PF
    rw [← h.ps q, hrp.2 q hq]

/-- how the last write of a function relates to the pending content of its target -/
def WRel (t : Option Path) (s s' : KSt) (w : Option String) : Prop :=
  ∀ p, t = some p → (w = none → PF s'.sp p = PF s.sp p) ∧ (∀ c, w = some c → PF s'.sp p = some c)

theorem PF_filter (s s' : SpecSt) (path q : Path) (h : s'.pending = s.pending.filter (fun x => x.1 ≠ path)) :
    PF s' q = if q = path then none else PF s q := by
  unfold PF
  rw [h, pendingFind_filter]
  split <;> rfl

theorem bfFinish_keeps (s : SpecSt) (path : Path) (made : List Path) (r : CallRes) :
    (bfFinish s path made r).2.dirSize = s.dirSize ∧ (bfFinish s path made r).2.failFiles = s.failFiles ∧
    (bfFinish s path made r).2.failSubs = s.failSubs := by
  unfold bfFinish
  cases r with
  | error e => exact ⟨rfl, rfl, rfl⟩
  | ok j => simp only; split <;> exact ⟨rfl, rfl, rfl⟩

/-- the state `bfFinish` leaves when the function returned and had written `c` -/
def finOk (s : SpecSt) (path : Path) (made : List Path) (c : String) (m : Nat) : SpecSt :=
  { s with inProg := s.inProg.erase path, pending := s.pending.filter (fun x => x.1 ≠ path),
           fs := s.fs.set path (.file c m), outputs := path :: s.outputs, createdDirs := made ++ s.createdDirs }

theorem bfFinish_ok (s : SpecSt) (path : Path) (made : List Path) (j : Json) (c : String) (m : Nat)
    (h : pendingFind s.pending path = some (c, m)) :
    bfFinish s path made (.ok j) = (.ok j, finOk s path made c m) := by
  unfold bfFinish finOk; simp only [h]

/-- **The records of a run follow the program.** -/
theorem run_follows {ds : Nat} (prog : Prog) : ∀ (t : Option Path) (s : KSt),
    s.sp.dirSize = ds → s.sp.failFiles = [] → s.sp.failSubs = [] → s.WF → PendClaimed s.sp →
    (∀ p, t = some p → p ∈ s.sp.claimedFiles) → CacheOK ds s.old s.newVersions prog →
    ∃ w, Follows ds prog t (Impl.run prog t s).2.2 (Impl.run prog t s).1 w ∧
      WRel t s (Impl.run prog t s).2.1 w := by
  induction prog with
  | ret v =>
    intro t s _ _ _ _ _ _ _
    cases hv : sanitize v with
    | none =>
      simp only [Impl.run, hv]
      exact ⟨none, .retBad v t hv, fun p _ => ⟨fun _ => rfl, fun c hc => nomatch hc⟩⟩
    | some j =>
      simp only [Impl.run, hv]
      exact ⟨none, .retOk v t j hv, fun p _ => ⟨fun _ => rfl, fun c hc => nomatch hc⟩⟩
  | raise e =>
    intro t s _ _ _ _ _ _ _
    exact ⟨none, .raise e t, fun p _ => ⟨fun _ => rfl, fun c hc => nomatch hc⟩⟩
  | query q k ih =>
    intro t s hds hff hfs hwf hpc htc hok
    have hrec := recOK_of_run ds (visible s.sp) q
    obtain ⟨w, hF, hW⟩ := ih (View.answer s.sp.dirSize (visible s.sp) q) t s hds hff hfs hwf hpc htc
      (hok.of_reach (.query q k _ _ (.here _)))
    simp only [Impl.run]
    rw [hds] at hF hW ⊢
    cases hrv : View.recVal ds (visible s.sp) q with
    | ok v =>
      rw [hrv] at hrec
      exact ⟨w, .query q k t _ _ w v none _ hrec hF, hW⟩
    | error e =>
      rw [hrv] at hrec
      exact ⟨w, .query q k t _ _ w .null (some e) _ hrec hF, hW⟩
  | write b mt k ih =>
    intro t s hds hff hfs hwf hpc htc hok
    have hok' := hok.of_reach (.write b mt k _ (.here _))
    cases t with
    | none =>
      obtain ⟨w, hF, hW⟩ := ih none s hds hff hfs hwf hpc htc hok'
      simp only [Impl.run]
      exact ⟨w, .writeNone b mt k _ _ w hF, fun p hp => nomatch hp⟩
    | some p =>
      simp only [Impl.run]
      have hpcl : p ∈ s.sp.claimedFiles := htc p rfl
      generalize hs1 : (Impl.liftSp s fun sp => { sp with pending := (p, b, mt.getD sp.clock) :: sp.pending, clock := sp.clock + 1 }) = s1
      have hpend1 : s1.sp.pending = (p, b, mt.getD s.sp.clock) :: s.sp.pending := by subst hs1; rfl
      have hpc1 : PendClaimed s1.sp := by
        intro q hq
        have hq' : q ∉ s.sp.claimedFiles := by subst hs1; exact hq
        have hne : p ≠ q := fun e => hq' (e ▸ hpcl)
        rw [hpend1, pendingFind_cons_ne _ _ _ _ _ hne]; exact hpc q hq'
      obtain ⟨w, hF, hW⟩ := ih (some p) s1 (by subst hs1; exact hds) (by subst hs1; exact hff) (by subst hs1; exact hfs)
        (by subst hs1; exact hwf) hpc1 (by subst hs1; exact htc) (by subst hs1; exact hok')
      refine ⟨some (w.getD b), .writeSome b mt k p _ _ w hF, ?_⟩
      intro p' hp'
      injection hp' with hp'; subst hp'
      obtain ⟨hn, hsm⟩ := hW p rfl
      refine ⟨(fun hc => nomatch hc), fun c hc => ?_⟩
      cases w with
      | none =>
        simp at hc; subst hc
        rw [hn rfl]; unfold PF; rw [hpend1, pendingFind_cons_self]; rfl
      | some c' =>
        simp at hc; subst hc
        exact hsm c' rfl
  | buildFile path cmp fname args kwargs body k ihb ihk =>
    intro t s hds hff hfs hwf hpc htc hok
    have hokB := hok.of_reach (.bfBody path cmp fname args kwargs body k _ (.here _))
    have hokK := fun r => hok.of_reach (.bfCont path cmp fname args kwargs body k r _ (.here _))
    cases hs : bfSetup s.sp path with
    | error e =>
      simp only [Impl.run, hs]
      generalize hs1 : (Impl.liftSp s fun sp => setupFailState sp path e) = s1
      have hp1 : s1.sp.pending = s.sp.pending := by subst hs1; rfl
      obtain ⟨w, hF, hW⟩ := ihk (.error e) t s1 (by subst hs1; exact hds) (by subst hs1; simp [Impl.liftSp, setupFailState, hff])
        (by subst hs1; exact hfs) (by subst hs1; exact hwf) (by subst hs1; exact hpc) (by subst hs1; exact htc)
        (by subst hs1; exact hokK _)
      refine ⟨w, .bfSetupFail path cmp fname args kwargs body k t _ _ w e hF, ?_⟩
      intro p hp
      obtain ⟨h1, h2⟩ := hW p hp
      have : PF s1.sp p = PF s.sp p := by unfold PF; rw [hp1]
      exact ⟨fun hw => (h1 hw).trans this, h2⟩
    | ok r =>
      obtain ⟨s1, made⟩ := r
      obtain ⟨hs1, hncl, hcf, hnd, hdm, _⟩ := bfSetup_ok_fields _ _ _ _ hs
      subst hs1
      have hpne : path ≠ [] := by intro e; subst e; simp [isDir, get_nil] at hnd
      simp only [Impl.run, hs]
      generalize hk1 : Impl.afterSetup s (setupState s.sp path made) path made = k1
      have hk1sp : k1.sp = setupState s.sp path made := by subst hk1; rfl
      have hk1old : k1.old = s.old := by subst hk1; rfl
      have hk1nv : k1.newVersions = s.newVersions := by subst hk1; rfl
      have hwfk1 : k1.WF := by
        intro p hp
        rw [hk1sp] at hp ⊢
        simp only [setupState, List.mem_cons] at hp ⊢
        rcases hp with rfl | hp
        · exact Or.inl rfl
        · exact Or.inr (hwf p hp)
      have hclk1 : path ∈ k1.sp.claimedFiles := by rw [hk1sp]; simp [setupState]
      have hcl01 : ∀ p ∈ s.sp.claimedFiles, p ∈ k1.sp.claimedFiles := by
        intro p hp; rw [hk1sp]; simp [setupState, hp]
      have hip1 : k1.sp.inProg = path :: s.sp.inProg := by rw [hk1sp]; rfl
      have hpk1 : k1.sp.pending = s.sp.pending := by rw [hk1sp]; rfl
      have hdsk1 : k1.sp.dirSize = ds := by rw [hk1sp]; exact hds
      have hffk1 : k1.sp.failFiles = [] := by rw [hk1sp]; exact hff
      have hfsk1 : k1.sp.failSubs = [] := by rw [hk1sp]; exact hfs
      have hpck1 : PendClaimed k1.sp := by
        intro q hq
        rw [hpk1]; apply hpc q
        intro hc; exact hq (hcl01 q hc)
      have hpath0 : PF s.sp path = none := by unfold PF; rw [hpc path hncl]; rfl
      have hpt : ∀ p, t = some p → p ≠ path := fun p hp e => hncl (e ▸ htc p hp)
      cases hl : Impl.lookupFile k1 path cmp fname args kwargs made with
      | some r =>
        obtain ⟨op, s2⟩ := r
        obtain ⟨p', rcmp, rargs, rkwargs, subs, ret, cmpRes, sf, content, s2', hget, hv, hia, hik, hom, hrep, hnn, hop, hs2⟩ :=
          lookupFile_full _ _ _ _ _ _ _ _ _ hl
        subst hop
        have hvok := versionsOk_of_replay subs k1 s2' hwfk1 hrep
        rw [hk1old, hk1nv] at hvok
        rw [hk1old] at hget
        obtain ⟨hFb, hfa, ⟨m0, hcr⟩, houtF⟩ := hok.file path cmp fname args kwargs body k (.here _) p' rcmp rargs rkwargs subs ret
          cmpRes sf content hget hia hik (by rw [← hk1old, ← hk1nv]; exact hv) hvok
        subst hcr
        obtain ⟨_, bb, mm, hshelf, heqq⟩ := outputMatches_shelf k1 path rcmp content m0 hom
        have hbc : bb = content := houtF bb mm heqq
        have k12 := replayOps_keeps subs k1 s2' hwfk1 hrep
        have hshelf2 : s2'.shelf.get path = some (.file bb mm) := by
          rw [k12.shelfInProg path (by rw [hip1]; simp)]; exact hshelf
        have hnow : Impl.cmpShelf s2' path cmp = View.cmpResult cmp content mm := by
          unfold Impl.cmpShelf; simp only [hshelf2, hpne, if_false, hbc]
        have hs2pend : s2.sp.pending = s.sp.pending := by
          rw [hs2]; simp only [Impl.adopt]
          rw [replayOps_pending subs k1 s2' hrep, hpk1]
        have hip2 : s2.sp.inProg = s.sp.inProg := by
          rw [hs2]; simp only [Impl.adopt]; rw [k12.inProg, hip1]; simp [List.erase_cons_head]
        have hcl2 : ∀ p ∈ s.sp.claimedFiles, p ∈ s2.sp.claimedFiles := by
          intro p hp; rw [hs2]; simp only [Impl.adopt]; exact k12.claimed p (hcl01 p hp)
        have hwf2 : s2.WF := by
          intro p hp; rw [hip2] at hp; exact hcl2 p (hwf p hp)
        have hpc2 : PendClaimed s2.sp := by
          intro q hq
          rw [hs2pend]; apply hpc q
          intro hc; exact hq (hcl2 q hc)
        have hds2 : s2.sp.dirSize = ds := by rw [hs2]; simp only [Impl.adopt]; rw [k12.dirSize]; exact hdsk1
        have hff2 : s2.sp.failFiles = [] := by rw [hs2]; simp only [Impl.adopt]; rw [k12.failFiles]; exact hffk1
        have hfs2 : s2.sp.failSubs = [] := by rw [hs2]; simp only [Impl.adopt]; rw [k12.failSubs]; exact hfsk1
        have hold2 : s2.old = s.old := by rw [hs2]; simp only [Impl.adopt]; rw [k12.old, hk1old]
        have hnv2 : s2.newVersions = s.newVersions := by rw [hs2]; simp only [Impl.adopt]; rw [k12.newVersions, hk1nv]
        obtain ⟨w, hF, hW⟩ := ihk (.ok ret) t s2 hds2 hff2 hfs2 hwf2 hpc2 (fun p hp => hcl2 p (htc p hp))
          (by rw [hold2, hnv2]; exact hokK _)
        simp only
        rw [hnow]
        refine ⟨w, .bfOk path cmp fname args kwargs body k t subs ret content mm _ _ w hFb hF, ?_⟩
        intro p hp
        obtain ⟨h1, h2⟩ := hW p hp
        have : PF s2.sp p = PF s.sp p := by unfold PF; rw [hs2pend]
        exact ⟨fun hw => (h1 hw).trans this, h2⟩
      | none =>
        simp only
        generalize hk1' : Impl.missStart k1 path ⟨fname, some path, args, kwargs⟩ = k1'
        have hk1'f : k1'.sp.pending = k1.sp.pending ∧ k1'.sp.claimedFiles = k1.sp.claimedFiles ∧
            k1'.sp.inProg = k1.sp.inProg ∧ k1'.old = k1.old ∧ k1'.newVersions = k1.newVersions ∧
            k1'.sp.dirSize = k1.sp.dirSize ∧ k1'.sp.failFiles = k1.sp.failFiles ∧ k1'.sp.failSubs = k1.sp.failSubs := by
          subst hk1'; exact ⟨rfl, rfl, rfl, rfl, rfl, rfl, rfl, rfl⟩
        obtain ⟨hp1', hc1', hi1', ho1', hn1', hd1', hf1', hs1'⟩ := hk1'f
        have hwfk1' : k1'.WF := by subst hk1'; exact hwfk1
        have hpck1' : PendClaimed k1'.sp := by
          intro q hq; rw [hp1']; exact hpck1 q (by rw [← hc1']; exact hq)
        have htck1' : ∀ p, some path = some p → p ∈ k1'.sp.claimedFiles := by
          intro p hp; injection hp with hp; subst hp; rw [hc1']; exact hclk1
        have hokB' : CacheOK ds k1'.old k1'.newVersions body := by rw [ho1', hn1', hk1old, hk1nv]; exact hokB
        obtain ⟨wb, hFb, hWb⟩ := ihb (some path) k1' (by rw [hd1']; exact hdsk1) (by rw [hf1']; exact hffk1)
          (by rw [hs1']; exact hfsk1) hwfk1' hpck1' htck1' hokB'
        have haf := after_run (ds := ds) body (some path) k1' (by rw [hd1']; exact hdsk1) (by rw [hf1']; exact hffk1)
          (by rw [hs1']; exact hfsk1) hwfk1' hpck1' htck1' hokB'
        generalize hkb : Impl.run body (some path) k1' = kb at hFb hWb haf ⊢
        obtain ⟨rb, s2, subs2⟩ := kb
        simp only at hFb hWb haf ⊢
        obtain ⟨hWn, hWs⟩ := hWb path rfl
        have hPFk1' : PF k1'.sp path = none := by unfold PF; rw [hp1', hpk1]; exact hpath0
        -- facts about the state after `bfFinish`, whatever its outcome
        have hcl3 : (bfFinish s2.sp path made rb).2.claimedFiles = s2.sp.claimedFiles := bfFinish_claimed _ _ _ _
        have hpend3 : (bfFinish s2.sp path made rb).2.pending = s2.sp.pending.filter (fun x => x.1 ≠ path) :=
          bfFinish_pending _ _ _ _
        have hip3 : (bfFinish s2.sp path made rb).2.inProg = s.sp.inProg := by
          rw [bfFinish_inProg, haf.inProg, hi1', hip1]; simp [List.erase_cons_head]
        obtain ⟨hd3, hf3, hfs3⟩ := bfFinish_keeps s2.sp path made rb
        have hpc3 : PendClaimed (bfFinish s2.sp path made rb).2 := by
          intro q hq
          rw [hcl3] at hq
          rw [hpend3, pendingFind_filter]
          split
          · rfl
          · exact haf.pc q hq
        have hPF3 : ∀ p, p ≠ path → PF (bfFinish s2.sp path made rb).2 p = PF s.sp p := by
          intro p hp
          rw [PF_filter s2.sp _ path p hpend3, if_neg hp,
            haf.other p (fun e => hp (by injection e with e; exact e.symm))]
          unfold PF; rw [hp1', hpk1]
        -- the continuation, from the state `withSp s2 sp3`
        have hcont : ∀ (r3 : CallRes) (sp3 : SpecSt), bfFinish s2.sp path made rb = (r3, sp3) →
            ∃ w, Follows ds (k r3) t (Impl.run (k r3) t (Impl.withSp s2 sp3)).2.2 (Impl.run (k r3) t (Impl.withSp s2 sp3)).1 w ∧
              WRel t s (Impl.run (k r3) t (Impl.withSp s2 sp3)).2.1 w := by
          intro r3 sp3 hfin
          rw [hfin] at hcl3 hip3 hd3 hf3 hfs3 hpc3 hPF3
          simp only at hcl3 hip3 hd3 hf3 hfs3 hpc3 hPF3
          generalize hs3 : Impl.withSp s2 sp3 = s3
          have hs3sp : s3.sp = sp3 := by subst hs3; rfl
          have hs3old : s3.old = s.old := by subst hs3; show s2.old = s.old; rw [haf.old, ho1', hk1old]
          have hs3nv : s3.newVersions = s.newVersions := by subst hs3; show s2.newVersions = s.newVersions; rw [haf.nv, hn1', hk1nv]
          have hcl03 : ∀ p ∈ s.sp.claimedFiles, p ∈ s3.sp.claimedFiles := by
            intro p hp; rw [hs3sp, hcl3]
            exact haf.claimed p (by rw [hc1']; exact hcl01 p hp)
          have hwf3 : s3.WF := by
            intro p hp; rw [hs3sp, hip3] at hp; exact hcl03 p (hwf p hp)
          obtain ⟨w, hF, hW⟩ := ihk r3 t s3 (by rw [hs3sp, hd3]; exact haf.dsz) (by rw [hs3sp, hf3]; exact haf.ff)
            (by rw [hs3sp, hfs3]; exact haf.fsb) hwf3 (by rw [hs3sp]; exact hpc3) (fun p hp => hcl03 p (htc p hp))
            (by rw [hs3old, hs3nv]; exact hokK _)
          refine ⟨w, hF, ?_⟩
          intro p hp
          obtain ⟨h1, h2⟩ := hW p hp
          have : PF s3.sp p = PF s.sp p := by rw [hs3sp]; exact hPF3 p (hpt p hp)
          exact ⟨fun hw => (h1 hw).trans this, h2⟩
        -- the three outcomes of the call
        cases rb with
        | error e =>
          rw [bfFinish_error]
          simp only
          obtain ⟨w, hF, hW⟩ := hcont (.error e) _ (bfFinish_error _ _ _ _)
          exact ⟨w, .bfRaise path cmp fname args kwargs body k t subs2 e .null wb _ _ w hFb hF, hW⟩
        | ok j =>
          cases hpf : pendingFind s2.sp.pending path with
          | none =>
            have hwb : wb = none := by
              cases wb with
              | none => rfl
              | some c => have := hWs c rfl; unfold PF at this; rw [hpf] at this; cases this
            subst hwb
            rw [bfFinish_notCreated _ _ _ _ hpf]
            simp only
            obtain ⟨w, hF, hW⟩ := hcont (.error (notCreatedExc path)) _ (bfFinish_notCreated _ _ _ _ hpf)
            exact ⟨w, .bfNotCreated path cmp fname args kwargs body k t subs2 j _ _ w hFb hF, hW⟩
          | some cm =>
            obtain ⟨c, m⟩ := cm
            have hwb : wb = some c := by
              cases wb with
              | none => have := hWn rfl; rw [hPFk1'] at this; unfold PF at this; rw [hpf] at this; cases this
              | some c' => have := hWs c' rfl; unfold PF at this; rw [hpf] at this; simp at this; rw [this]
            subst hwb
            have hfin := bfFinish_ok s2.sp path made j c m hpf
            rw [hfin]
            simp only
            obtain ⟨w, hF, hW⟩ := hcont (.ok j) _ hfin
            have hget : (finOk s2.sp path made c m).fs.get path = some (.file c m) := get_set_self _ _ _ hpne
            simp only [Impl.withSp, Impl.cmpBuilt, hget]
            exact ⟨w, .bfOk path cmp fname args kwargs body k t subs2 j c m _ _ w hFb hF, hW⟩
  | subbuild fname args kwargs body k ihb ihk =>
    intro t s hds hff hfs hwf hpc htc hok
    have hokB := hok.of_reach (.sbBody fname args kwargs body k _ (.here _))
    have hokK := fun r => hok.of_reach (.sbCont fname args kwargs body k r _ (.here _))
    by_cases hdup : s.sp.claimedSubs.any (heq (subKey fname args kwargs)) = true
    · simp only [Impl.run, hdup, if_true]
      obtain ⟨w, hF, hW⟩ := ihk (.error (.runtime .dupSub)) t s hds hff hfs hwf hpc htc (hokK _)
      exact ⟨w, .sbSetupFail fname args kwargs body k t _ _ w _ hF, hW⟩
    · simp only [Impl.run, hdup, if_false, hfs, List.any_nil, Bool.false_eq_true]
      generalize hk1 : Impl.subClaim s (subKey fname args kwargs) = k1
      have hk1f : k1.sp.pending = s.sp.pending ∧ k1.sp.claimedFiles = s.sp.claimedFiles ∧
          k1.sp.inProg = s.sp.inProg ∧ k1.old = s.old ∧ k1.newVersions = s.newVersions ∧
          k1.sp.dirSize = s.sp.dirSize ∧ k1.sp.failFiles = s.sp.failFiles ∧ k1.sp.failSubs = s.sp.failSubs := by
        subst hk1; exact ⟨rfl, rfl, rfl, rfl, rfl, rfl, rfl, rfl⟩
      obtain ⟨hp1, hc1, hi1, ho1, hn1, hd1, hf1, hs1⟩ := hk1f
      have hwfk1 : k1.WF := by subst hk1; exact hwf
      have hpck1 : PendClaimed k1.sp := by intro q hq; rw [hp1]; exact hpc q (by rw [← hc1]; exact hq)
      cases hl : Impl.lookupSub k1 fname args kwargs with
      | some r =>
        obtain ⟨op, s2⟩ := r
        obtain ⟨f, a, kk, subs, ret, sf, hget, hv, hrep, hop⟩ := lookupSub_some _ _ _ _ _ _ hl
        subst hop
        have hvok := versionsOk_of_replay subs k1 s2 hwfk1 hrep
        rw [ho1, hn1] at hvok
        rw [ho1] at hget
        obtain ⟨wb, hFb, hfa⟩ := hok.sub fname args kwargs body k (.here _) f a kk subs ret sf hget
          (by rw [← ho1, ← hn1]; exact hv) hvok
        have k12 := replayOps_keeps subs k1 s2 hwfk1 hrep
        have hs2pend : s2.sp.pending = s.sp.pending := by rw [replayOps_pending subs k1 s2 hrep, hp1]
        have hcl2 : ∀ p ∈ s.sp.claimedFiles, p ∈ s2.sp.claimedFiles := fun p hp => k12.claimed p (by rw [hc1]; exact hp)
        have hpc2 : PendClaimed s2.sp := by
          intro q hq; rw [hs2pend]; apply hpc q; intro hc; exact hq (hcl2 q hc)
        obtain ⟨w, hF, hW⟩ := ihk (.ok ret) t s2 (by rw [k12.dirSize, hd1]; exact hds) (by rw [k12.failFiles, hf1]; exact hff)
          (by rw [k12.failSubs, hs1]; exact hfs) (k12.wf hwfk1) hpc2 (fun p hp => hcl2 p (htc p hp))
          (by rw [k12.old, k12.newVersions, ho1, hn1]; exact hokK _)
        simp only
        refine ⟨w, .sbOk fname args kwargs body k t subs ret wb _ _ w hFb hF, ?_⟩
        intro p hp
        obtain ⟨h1, h2⟩ := hW p hp
        have : PF s2.sp p = PF s.sp p := by unfold PF; rw [hs2pend]
        exact ⟨fun hw => (h1 hw).trans this, h2⟩
      | none =>
        simp only
        generalize hk1' : Impl.subStart k1 ⟨fname, none, args, kwargs⟩ = k1'
        have hk1'f : k1'.sp.pending = k1.sp.pending ∧ k1'.sp.claimedFiles = k1.sp.claimedFiles ∧
            k1'.sp.inProg = k1.sp.inProg ∧ k1'.old = k1.old ∧ k1'.newVersions = k1.newVersions ∧
            k1'.sp.dirSize = k1.sp.dirSize ∧ k1'.sp.failFiles = k1.sp.failFiles ∧ k1'.sp.failSubs = k1.sp.failSubs := by
          subst hk1'; exact ⟨rfl, rfl, rfl, rfl, rfl, rfl, rfl, rfl⟩
        obtain ⟨hp1', hc1', hi1', ho1', hn1', hd1', hf1', hs1'⟩ := hk1'f
        have hwfk1' : k1'.WF := by subst hk1'; exact hwfk1
        have hpck1' : PendClaimed k1'.sp := by intro q hq; rw [hp1']; exact hpck1 q (by rw [← hc1']; exact hq)
        have hokB' : CacheOK ds k1'.old k1'.newVersions body := by rw [ho1', hn1', ho1, hn1]; exact hokB
        obtain ⟨wb, hFb, _⟩ := ihb none k1' (by rw [hd1', hd1]; exact hds) (by rw [hf1', hf1]; exact hff)
          (by rw [hs1', hs1]; exact hfs) hwfk1' hpck1' (fun p hp => nomatch hp) hokB'
        have haf := after_run (ds := ds) body none k1' (by rw [hd1', hd1]; exact hds) (by rw [hf1', hf1]; exact hff)
          (by rw [hs1', hs1]; exact hfs) hwfk1' hpck1' (fun p hp => nomatch hp) hokB'
        generalize hkb : Impl.run body none k1' = kb at hFb haf ⊢
        obtain ⟨rb, s2, subs2⟩ := kb
        simp only at hFb haf ⊢
        have hcl2 : ∀ p ∈ s.sp.claimedFiles, p ∈ s2.sp.claimedFiles := by
          intro p hp; exact haf.claimed p (by rw [hc1', hc1]; exact hp)
        obtain ⟨w, hF, hW⟩ := ihk rb t s2 haf.dsz haf.ff haf.fsb haf.wf haf.pc (fun p hp => hcl2 p (htc p hp))
          (by rw [haf.old, haf.nv, ho1', hn1', ho1, hn1]; exact hokK _)
        have hWR : WRel t s (Impl.run (k rb) t s2).2.1 w := by
          intro p hp
          obtain ⟨h1, h2⟩ := hW p hp
          have : PF s2.sp p = PF s.sp p := by
            rw [haf.other p (by simp)]; unfold PF; rw [hp1', hp1]
          exact ⟨fun hw => (h1 hw).trans this, h2⟩
        cases rb with
        | ok j => exact ⟨w, .sbOk fname args kwargs body k t subs2 j wb _ _ w hFb hF, hWR⟩
        | error e => exact ⟨w, .sbRaise fname args kwargs body k t subs2 e wb _ _ w hFb hF, hWR⟩

end FB
