/-
  C05 — two whole builds of a program of ANY nesting depth in which no call fails: the second build invokes no user
  function.  The bridge from the end of the first build to the start of the second (what `Cache.write` registers
  and `read_immutable` returns, what the pre-clean recovers, what lies on the shelf) is proved here for record
  forests of arbitrary depth: `registeredL_paths` / `registeredL_okTop` / `registeredL_filter` (the registered
  records of a forest), `cachedIn_nested` (each top-level call finds its own record again), `nested_ok_run` (the
  first build only inserts entries under its own keys), `nested_first_facts`, `outputs_eq_targetsDeep`; then
  `C05_nested_rebuild` composes them with `nested_second_run`.
-/
import FB.Props.C05Nested
import FB.Props.C05Whole
import FB.Lemmas.Hashable
namespace FB
open FS Spec Impl

/-! ### the registered records of a record forest -/

def pathOf : Op → Option Path
  | .buildFile p _ _ _ _ _ _ _ _ _ _ => some p
  | _ => none

def keyOf : Op → Option H
  | .subbuild f a k _ _ _ _ => some (subKey f a k)
  | _ => none

/-- the keys of all registered `subbuild` records, at every depth -/
def subKeysDeepL (ops : List Op) : List H := (registeredL ops).filterMap keyOf

mutual
theorem registered_paths : (o : Op) → (registered o).filterMap pathOf = targetsDeep o
  | .simple _ _ _ _ => by simp [registered, targetsDeep]
  | .buildFile p c f a k subs r cr raised sf ct => by
    have ih := registeredL_paths subs
    cases sf <;> simp [registered, targetsDeep, List.filterMap_append, ih, pathOf]
  | .subbuild f a k subs r raised sf => by
    have ih := registeredL_paths subs
    cases sf <;> simp [registered, targetsDeep, List.filterMap_append, ih, pathOf]
theorem registeredL_paths : (os : List Op) → (registeredL os).filterMap pathOf = targetsDeepL os
  | [] => by simp [registeredL, targetsDeepL]
  | o :: os => by
    have h1 := registered_paths o
    have h2 := registeredL_paths os
    simp [registeredL, targetsDeepL, List.filterMap_append, h1, h2]
end

/-- `raised = false ∧ setup_failed = false` at the top of a record -/
def okTop : Op → Bool
  | .buildFile _ _ _ _ _ _ _ _ raised sf _ => !raised && !sf
  | .subbuild _ _ _ _ _ raised sf => !raised && !sf
  | .simple _ _ _ _ => true

mutual
theorem registered_okTop : (o : Op) → okDeep o = true → ∀ x ∈ registered o, okTop x = true
  | .simple _ _ _ _, _ => by simp [registered]
  | .buildFile p c f a k subs r cr raised sf ct, h => by
    simp only [okDeep, Bool.and_eq_true, Bool.not_eq_true'] at h
    obtain ⟨⟨h1, h2⟩, h3⟩ := h
    subst h1 h2
    have ih := registeredL_okTop subs h3
    intro x hx
    simp only [registered, Bool.false_eq_true, if_false, List.mem_append, List.mem_singleton] at hx
    rcases hx with hx | hx
    · exact ih x hx
    · subst hx; simp [okTop]
  | .subbuild f a k subs r raised sf, h => by
    simp only [okDeep, Bool.and_eq_true, Bool.not_eq_true'] at h
    obtain ⟨⟨h1, h2⟩, h3⟩ := h
    subst h1 h2
    have ih := registeredL_okTop subs h3
    intro x hx
    simp only [registered, Bool.false_eq_true, if_false, List.mem_append, List.mem_singleton] at hx
    rcases hx with hx | hx
    · exact ih x hx
    · subst hx; simp [okTop]
theorem registeredL_okTop : (os : List Op) → okDeepL os = true → ∀ x ∈ registeredL os, okTop x = true
  | [], _ => by simp [registeredL]
  | o :: os, h => by
    simp only [okDeepL, Bool.and_eq_true] at h
    have h1 := registered_okTop o h.1
    have h2 := registeredL_okTop os h.2
    intro x hx
    simp only [registeredL, List.mem_append] at hx
    rcases hx with hx | hx
    · exact h1 x hx
    · exact h2 x hx
end

theorem registeredL_filter (ops : List Op) (h : okDeepL ops = true) :
    registeredL (ops.filter isComplexRegistered) = registeredL ops := by
  induction ops with
  | nil => rfl
  | cons o r ih =>
    simp only [okDeepL, Bool.and_eq_true] at h
    have ihr := ih h.2
    cases o with
    | simple _ _ _ _ => simp [List.filter, isComplexRegistered, registeredL, registered, ihr]
    | buildFile p c f a k subs rr cr raised sf ct =>
      have := h.1
      simp only [okDeep, Bool.and_eq_true, Bool.not_eq_true'] at this
      obtain ⟨⟨h1, h2⟩, _⟩ := this
      subst h1 h2
      simp [List.filter, isComplexRegistered, registeredL, ihr]
    | subbuild f a k subs rr raised sf =>
      have := h.1
      simp only [okDeep, Bool.and_eq_true, Bool.not_eq_true'] at this
      obtain ⟨⟨h1, h2⟩, _⟩ := this
      subst h1 h2
      simp [List.filter, isComplexRegistered, registeredL, ihr]

theorem mem_registeredL_top (ops : List Op) (o : Op) (ho : o ∈ ops) (hc : isComplexRegistered o = true) :
    o ∈ registeredL ops := by
  induction ops with
  | nil => cases ho
  | cons x r ih =>
    simp only [registeredL, List.mem_append]
    rcases List.mem_cons.mp ho with rfl | ho'
    · left
      cases o with
      | simple _ _ _ _ => simp [isComplexRegistered] at hc
      | buildFile p c f a k subs rr cr raised sf ct =>
        simp only [isComplexRegistered, Bool.not_eq_true'] at hc
        subst hc; simp [registered]
      | subbuild f a k subs rr raised sf =>
        simp only [isComplexRegistered, Bool.not_eq_true'] at hc
        subst hc; simp [registered]
    · right; exact ih ho'

theorem filterMap_unique {α β : Type} (f : α → Option β) (l : List α) (h : (l.filterMap f).Pairwise (· ≠ ·))
    (x y : α) (hx : x ∈ l) (hy : y ∈ l) (b : β) (hfx : f x = some b) (hfy : f y = some b) : x = y := by
  induction l with
  | nil => cases hx
  | cons a r ih =>
    have hr : (r.filterMap f).Pairwise (· ≠ ·) := by
      cases hfa : f a with
      | none => simpa [List.filterMap_cons, hfa] using h
      | some c => rw [List.filterMap_cons, hfa] at h; exact (List.pairwise_cons.mp h).2
    rcases List.mem_cons.mp hx with rfl | hx'
    · rcases List.mem_cons.mp hy with rfl | hy'
      · rfl
      · exfalso
        rw [List.filterMap_cons, hfx] at h
        have := (List.pairwise_cons.mp h).1 b (List.mem_filterMap.mpr ⟨y, hy', hfy⟩)
        exact this rfl
    · rcases List.mem_cons.mp hy with rfl | hy'
      · exfalso
        rw [List.filterMap_cons, hfy] at h
        have := (List.pairwise_cons.mp h).1 b (List.mem_filterMap.mpr ⟨x, hx', hfx⟩)
        exact this rfl
      · exact ih hr hx' hy'

/-- **the record a clean first build writes returns each of its top-level calls' records**, whatever is nested in
    them: targets are pairwise different at every depth, subbuild keys pairwise unequal at every depth -/
theorem cachedIn_nested (ops : List Op) (hok : okDeepL ops = true)
    (hnd : (targetsDeepL ops).Pairwise (· ≠ ·))
    (hkeys : (subKeysDeepL ops).Pairwise (fun x y => heq x y = false ∧ heq y x = false))
    (rec : CacheRec) (hroots : rec.roots = ops.filter isComplexRegistered) :
    ∀ o ∈ ops, okTop o = true → cachedIn rec o := by
  intro o ho hoko
  have hreg : registeredL rec.roots = registeredL ops := by rw [hroots]; exact registeredL_filter ops hok
  cases o with
  | simple _ _ _ _ => trivial
  | buildFile p c f a k subs r cr raised sf ct =>
    simp only [okTop, Bool.and_eq_true, Bool.not_eq_true'] at hoko
    obtain ⟨h1, h2⟩ := hoko
    subst h1 h2
    simp only [cachedIn, CacheRec.getFile, hreg]
    have hmem := mem_registeredL_top ops _ ho (by simp [isComplexRegistered])
    apply find_unique
    · exact List.mem_reverse.mpr hmem
    · simp [Op.isFileAt]
    · intro y hy hp
      have hy' := List.mem_reverse.mp hy
      cases y with
      | simple _ _ _ _ => simp [Op.isFileAt] at hp
      | subbuild _ _ _ _ _ _ _ => simp [Op.isFileAt] at hp
      | buildFile p' c' f' a' k' subs' r' cr' raised' sf' ct' =>
        simp only [Op.isFileAt, decide_eq_true_eq] at hp
        subst hp
        exact filterMap_unique pathOf (registeredL ops) (by rw [registeredL_paths]; exact hnd) _ _ hy' hmem p' rfl rfl
  | subbuild f a k subs r raised sf =>
    simp only [okTop, Bool.and_eq_true, Bool.not_eq_true'] at hoko
    obtain ⟨h1, h2⟩ := hoko
    subst h1 h2
    simp only [cachedIn, CacheRec.getSub, hreg]
    have hmem := mem_registeredL_top ops _ ho (by simp [isComplexRegistered])
    have hkmem : subKey f a k ∈ subKeysDeepL ops := List.mem_filterMap.mpr ⟨_, hmem, rfl⟩
    apply find_unique
    · exact List.mem_reverse.mpr hmem
    · simp only [Op.isSubWith]; exact heq_refl _
    · intro y hy hp
      have hy' := List.mem_reverse.mp hy
      cases y with
      | simple _ _ _ _ => simp [Op.isSubWith] at hp
      | buildFile _ _ _ _ _ _ _ _ _ _ _ => simp [Op.isSubWith] at hp
      | subbuild f' a' k' subs' r' raised' sf' =>
        simp only [Op.isSubWith] at hp
        -- two registered subbuild records with `heq` keys are the same element
        by_contra hne
        have : ∀ (l : List Op), (l.filterMap keyOf).Pairwise (fun x y => heq x y = false ∧ heq y x = false) →
            ∀ x y : Op, x ∈ l → y ∈ l → x ≠ y → ∀ kx ky, keyOf x = some kx → keyOf y = some ky → heq kx ky = false := by
          intro l
          induction l with
          | nil => intro _ x _ hx; cases hx
          | cons a0 r0 ih =>
            intro hpw x y hx hy hxy kx ky hkx hky
            have hr : (r0.filterMap keyOf).Pairwise (fun x y => heq x y = false ∧ heq y x = false) := by
              cases hfa : keyOf a0 with
              | none => simpa [List.filterMap_cons, hfa] using hpw
              | some c => rw [List.filterMap_cons, hfa] at hpw; exact (List.pairwise_cons.mp hpw).2
            rcases List.mem_cons.mp hx with rfl | hx'
            · rcases List.mem_cons.mp hy with rfl | hy'
              · exact absurd rfl hxy
              · rw [List.filterMap_cons, hkx] at hpw
                exact ((List.pairwise_cons.mp hpw).1 ky (List.mem_filterMap.mpr ⟨y, hy', hky⟩)).1
            · rcases List.mem_cons.mp hy with rfl | hy'
              · rw [List.filterMap_cons, hky] at hpw
                exact ((List.pairwise_cons.mp hpw).1 kx (List.mem_filterMap.mpr ⟨x, hx', hkx⟩)).2
              · exact ih hr x y hx' hy' hxy kx ky hkx hky
        have := this (registeredL ops) hkeys _ _ hy' hmem hne _ _ rfl rfl
        rw [hp] at this; cases this



theorem targetsDeepL_append (a b : List Op) : targetsDeepL (a ++ b) = targetsDeepL a ++ targetsDeepL b := by
  induction a with
  | nil => simp [targetsDeepL]
  | cons x r ih => simp [targetsDeepL, ih]

/-- what a first run in which every call (at any depth) succeeded does to the tree: it only inserts entries under
    its own keys (targets and directories it made), and those sets only grow -/
theorem nested_ok_run (prog : Prog) : ∀ (t : Option Path) (s : KSt), s.old.roots = [] → s.sp.failFiles = [] →
    s.sp.failSubs = [] → okDeepL (Impl.run prog t s).2.2 = true → OkRun s (Impl.run prog t s).2.1 := by
  induction prog with
  | ret v => intro t s _ _ _ _; simp only [Impl.run]; split <;> exact OkRun.refl s
  | raise e => intro t s _ _ _ _; simp only [Impl.run]; exact OkRun.refl s
  | query q k ih =>
    intro t s h0 h1 h2 hok
    simp only [Impl.run] at hok ⊢
    rw [okDeepL_cons, Bool.and_eq_true] at hok
    exact ih _ t s h0 h1 h2 hok.2
  | write b mt k ih =>
    intro t s h0 h1 h2 hok
    simp only [Impl.run] at hok ⊢
    cases t with
    | none => exact ih none s h0 h1 h2 hok
    | some p =>
      have := ih (some p) (liftSp s fun sp => { sp with pending := (p, b, mt.getD sp.clock) :: sp.pending, clock := sp.clock + 1 }) h0 h1 h2 hok
      exact ⟨this.claimed, this.dirs, this.strip, this.cacheFile, this.dirSize⟩
  | buildFile path cmp fname args kwargs body k ihb ihk =>
    intro t s h0 h1 h2 hok
    cases hsetup : bfSetup s.sp path with
    | error e =>
      exfalso
      have := run_bf_setupfail s t path cmp fname args kwargs body k e hsetup
      cases hops : (Impl.run (.buildFile path cmp fname args kwargs body k) t s).2.2 with
      | nil => rw [hops] at this; cases this
      | cons o os =>
        rw [hops] at this hok
        simp only [List.head?_cons, Option.some.injEq] at this
        subst this
        simp [okDeepL, okDeep] at hok
    | ok x =>
      obtain ⟨sp1, made⟩ := x
      obtain ⟨hsp1, _, _, hnd, _, _⟩ := bfSetup_ok_fields s.sp sp1 path made hsetup
      have hlook := lookupFile_empty (afterSetup s sp1 path made) h0 path cmp fname args kwargs made
      rw [run_bf_miss s t path cmp fname args kwargs body k sp1 made hsetup hlook] at hok ⊢
      simp only at hok ⊢
      have hk1ff : (missStart (afterSetup s sp1 path made) path ⟨fname, some path, args, kwargs⟩).sp.failFiles = [] := by
        show sp1.failFiles = []; rw [hsp1]; exact h1
      have hk1fs : (missStart (afterSetup s sp1 path made) path ⟨fname, some path, args, kwargs⟩).sp.failSubs = [] := by
        show sp1.failSubs = []; rw [hsp1]; exact h2
      have hkb := run_keeps body (some path) (missStart (afterSetup s sp1 path made) path ⟨fname, some path, args, kwargs⟩) h0 hk1ff hk1fs
      have ihb' := ihb (some path) (missStart (afterSetup s sp1 path made) path ⟨fname, some path, args, kwargs⟩) h0 hk1ff hk1fs
      generalize hout : Impl.run body (some path) (missStart (afterSetup s sp1 path made) path ⟨fname, some path, args, kwargs⟩) = out
        at hok hkb ihb' ⊢
      rw [okDeepL_cons, Bool.and_eq_true] at hok
      obtain ⟨⟨⟨j, hj⟩, hoksubs⟩, hokrest⟩ := And.intro (okDeep_bfRecord _ _ _ _ _ _ _ _ _ hok.1) hok.2
      obtain ⟨c, m, _, _, hfinOk⟩ := bfFinish_ok_inv out.2.1.sp path made out.1 j hj
      have hb := ihb' hoksubs
      have hs3 : OkRun s (withSp out.2.1 (bfFinish out.2.1.sp path made out.1).2) := by
        refine ⟨?_, ?_, ?_, ?_, ?_⟩
        · intro p hp
          show p ∈ (bfFinish _ path made out.1).2.claimedFiles
          rw [bfFinish_claimed]; apply hb.claimed
          show p ∈ sp1.claimedFiles; rw [hsp1]; exact List.mem_cons_of_mem _ hp
        · intro d hd
          show d ∈ (bfFinish _ path made out.1).2.createdDirs
          rw [hfinOk]
          show d ∈ made ++ out.2.1.sp.createdDirs
          apply List.mem_append_right; apply hb.dirs
          show d ∈ sp1.createdDirs; rw [hsp1]; exact hd
        · intro K hK1 hK2
          have hK1' : ∀ p ∈ out.2.1.sp.claimedFiles, p ∈ K := by
            intro p hp; apply hK1
            show p ∈ (bfFinish _ path made out.1).2.claimedFiles
            rw [bfFinish_claimed]; exact hp
          have hK2' : ∀ d ∈ made ++ out.2.1.sp.createdDirs, d ∈ K := by
            intro d hd; apply hK2
            show d ∈ (bfFinish _ path made out.1).2.createdDirs
            rw [hfinOk]; exact hd
          have hpK : path ∈ K := hK1' path (hb.claimed path (by show path ∈ sp1.claimedFiles; rw [hsp1]; exact List.mem_cons_self ..))
          have hmK : ∀ d ∈ made, d ∈ K := fun d hd => hK2' d (List.mem_append_left _ hd)
          show strip K (bfFinish _ path made out.1).2.fs = _
          rw [hfinOk]
          show strip K (out.2.1.sp.fs.set path (.file c m)) = _
          rw [strip_set K _ path _ hpK, hb.strip K hK1' (fun d hd => hK2' d (List.mem_append_right _ hd))]
          show strip K sp1.fs = _
          rw [hsp1, strip_setupState K s.sp path made hpK hmK]
        · show (bfFinish _ path made out.1).2.cacheFile = _
          rw [hfinOk]; show out.2.1.sp.cacheFile = _; rw [hb.cacheFile]; show sp1.cacheFile = _; rw [hsp1]; rfl
        · show (bfFinish _ path made out.1).2.dirSize = _
          rw [hfinOk]; show out.2.1.sp.dirSize = _; rw [hb.dirSize]; show sp1.dirSize = _; rw [hsp1]; rfl
      obtain ⟨_, hk2, hk3⟩ := bfFinish_keeps out.2.1.sp path made out.1
      have hkk := ihk (bfFinish out.2.1.sp path made out.1).1 t (withSp out.2.1 (bfFinish out.2.1.sp path made out.1).2)
        (by show out.2.1.old.roots = []; rw [hkb.old]; exact h0)
        (by show (bfFinish _ path made out.1).2.failFiles = []; rw [hk2]; exact hkb.ff)
        (by show (bfFinish _ path made out.1).2.failSubs = []; rw [hk3]; exact hkb.fsb) hokrest
      exact hs3.trans hkk
  | subbuild fname args kwargs body k ihb ihk =>
    intro t s h0 h1 h2 hok
    have hfs : s.sp.failSubs.any (heq (subKey fname args kwargs)) = false := by simp [h2]
    by_cases hcl : s.sp.claimedSubs.any (heq (subKey fname args kwargs)) = true
    · exfalso
      simp only [Impl.run, hcl, if_true] at hok
      simp [okDeepL, okDeep] at hok
    · have hcl0 : s.sp.claimedSubs.any (heq (subKey fname args kwargs)) = false := by simpa using hcl
      have hlook := lookupSub_empty (subClaim s (subKey fname args kwargs)) h0 fname args kwargs
      rw [run_sb_miss' s t fname args kwargs body k hcl0 hfs hlook] at hok ⊢
      simp only at hok ⊢
      have hkb := run_keeps body none (Impl.subStart (subClaim s (subKey fname args kwargs)) ⟨fname, none, args, kwargs⟩) h0 h1 h2
      have ihb' := ihb none (Impl.subStart (subClaim s (subKey fname args kwargs)) ⟨fname, none, args, kwargs⟩) h0 h1 h2
      generalize hout : Impl.run body none (Impl.subStart (subClaim s (subKey fname args kwargs)) ⟨fname, none, args, kwargs⟩) = out
        at hok hkb ihb' ⊢
      rw [okDeepL_cons, Bool.and_eq_true] at hok
      obtain ⟨_, hoksubs⟩ := okDeep_sbRecord _ _ _ _ _ hok.1
      have hb := ihb' hoksubs
      have hs2 : OkRun s out.2.1 := ⟨hb.claimed, hb.dirs, hb.strip, hb.cacheFile, hb.dirSize⟩
      have hkk := ihk out.1 t out.2.1 (by rw [hkb.old]; exact h0) hkb.ff hkb.fsb hok.2
      exact hs2.trans hkk

/-- facts about a first run in which every call succeeded, for every target at every depth -/
structure FirstFactsDeep (s s2 : KSt) (ops : List Op) : Prop where
  outs : ∀ p ∈ targetsDeepL ops, (∃ c m, s2.sp.fs.get p = some (.file c m)) ∧ p ∈ s2.sp.claimedFiles ∧ p ≠ s.sp.cacheFile
  claimed : ∀ p ∈ s2.sp.claimedFiles, p ∈ s.sp.claimedFiles ∨ p ∈ targetsDeepL ops
  fresh : ∀ p ∈ targetsDeepL ops, p ∉ s.sp.claimedFiles

theorem FirstFactsDeep.congr {s s2 : KSt} {ops ops' : List Op} (h : targetsDeepL ops' = targetsDeepL ops)
    (hf : FirstFactsDeep s s2 ops) : FirstFactsDeep s s2 ops' :=
  ⟨by rw [h]; exact hf.outs, by rw [h]; exact hf.claimed, by rw [h]; exact hf.fresh⟩

theorem nested_first_facts (prog : Prog) : ∀ (t : Option Path) (s : KSt), s.old.roots = [] → s.sp.failFiles = [] →
    s.sp.failSubs = [] → okDeepL (Impl.run prog t s).2.2 = true →
    FirstFactsDeep s (Impl.run prog t s).2.1 (Impl.run prog t s).2.2 := by
  induction prog with
  | ret v =>
    intro t s _ _ _ _; simp only [Impl.run]
    split <;> exact ⟨(fun p hp => nomatch hp), (fun p hp => Or.inl hp), (fun p hp => nomatch hp)⟩
  | raise e =>
    intro t s _ _ _ _; simp only [Impl.run]
    exact ⟨(fun p hp => nomatch hp), (fun p hp => Or.inl hp), (fun p hp => nomatch hp)⟩
  | query q k ih =>
    intro t s h0 h1 h2 hok
    simp only [Impl.run] at hok ⊢
    rw [okDeepL_cons, Bool.and_eq_true] at hok
    have := ih _ t s h0 h1 h2 hok.2
    cases hrv : View.recVal s.sp.dirSize (visible s.sp) q with
    | ok v =>
      simp only
      exact this.congr (by rw [targetsDeepL_cons]; simp [targetsDeep])
    | error e =>
      simp only
      exact this.congr (by rw [targetsDeepL_cons]; simp [targetsDeep])
  | write b mt k ih =>
    intro t s h0 h1 h2 hok
    simp only [Impl.run] at hok ⊢
    cases t with
    | none => exact ih none s h0 h1 h2 hok
    | some p =>
      have := ih (some p) (liftSp s fun sp => { sp with pending := (p, b, mt.getD sp.clock) :: sp.pending, clock := sp.clock + 1 }) h0 h1 h2 hok
      exact ⟨this.outs, this.claimed, this.fresh⟩
  | buildFile path cmp fname args kwargs body k ihb ihk =>
    intro t s h0 h1 h2 hok
    cases hsetup : bfSetup s.sp path with
    | error e =>
      exfalso
      have := run_bf_setupfail s t path cmp fname args kwargs body k e hsetup
      cases hops : (Impl.run (.buildFile path cmp fname args kwargs body k) t s).2.2 with
      | nil => rw [hops] at this; cases this
      | cons o os =>
        rw [hops] at this hok
        simp only [List.head?_cons, Option.some.injEq] at this
        subst this
        simp [okDeepL, okDeep] at hok
    | ok x =>
      obtain ⟨sp1, made⟩ := x
      obtain ⟨hsp1, hnc, hncf, hnd, _, _⟩ := bfSetup_ok_fields s.sp sp1 path made hsetup
      have hpne : path ≠ [] := by intro e; subst e; simp [FS.isDir, get_nil] at hnd
      have hlook := lookupFile_empty (afterSetup s sp1 path made) h0 path cmp fname args kwargs made
      rw [run_bf_miss s t path cmp fname args kwargs body k sp1 made hsetup hlook] at hok ⊢
      simp only at hok ⊢
      have hk1ff : (missStart (afterSetup s sp1 path made) path ⟨fname, some path, args, kwargs⟩).sp.failFiles = [] := by
        show sp1.failFiles = []; rw [hsp1]; exact h1
      have hk1fs : (missStart (afterSetup s sp1 path made) path ⟨fname, some path, args, kwargs⟩).sp.failSubs = [] := by
        show sp1.failSubs = []; rw [hsp1]; exact h2
      have hkb := run_keeps body (some path) (missStart (afterSetup s sp1 path made) path ⟨fname, some path, args, kwargs⟩) h0 hk1ff hk1fs
      have ihb' := ihb (some path) (missStart (afterSetup s sp1 path made) path ⟨fname, some path, args, kwargs⟩) h0 hk1ff hk1fs
      have hokr := nested_ok_run body (some path) (missStart (afterSetup s sp1 path made) path ⟨fname, some path, args, kwargs⟩) h0 hk1ff hk1fs
      generalize hout : Impl.run body (some path) (missStart (afterSetup s sp1 path made) path ⟨fname, some path, args, kwargs⟩) = out
        at hok hkb ihb' hokr ⊢
      rw [okDeepL_cons, Bool.and_eq_true] at hok
      obtain ⟨⟨⟨j, hj⟩, hoksubs⟩, hokrest⟩ := And.intro (okDeep_bfRecord _ _ _ _ _ _ _ _ _ hok.1) hok.2
      obtain ⟨c, m, _, _, hfinOk⟩ := bfFinish_ok_inv out.2.1.sp path made out.1 j hj
      have hb := ihb' hoksubs
      obtain ⟨_, hk2, hk3⟩ := bfFinish_keeps out.2.1.sp path made out.1
      have hk3old : (withSp out.2.1 (bfFinish out.2.1.sp path made out.1).2).old.roots = [] := by
        show out.2.1.old.roots = []; rw [hkb.old]; exact h0
      have hk3ff : (withSp out.2.1 (bfFinish out.2.1.sp path made out.1).2).sp.failFiles = [] := by
        show (bfFinish _ path made out.1).2.failFiles = []; rw [hk2]; exact hkb.ff
      have hk3fs : (withSp out.2.1 (bfFinish out.2.1.sp path made out.1).2).sp.failSubs = [] := by
        show (bfFinish _ path made out.1).2.failSubs = []; rw [hk3]; exact hkb.fsb
      have hkeep3 := run_keeps (k (bfFinish out.2.1.sp path made out.1).1) t (withSp out.2.1 (bfFinish out.2.1.sp path made out.1).2) hk3old hk3ff hk3fs
      have hkk := ihk (bfFinish out.2.1.sp path made out.1).1 t (withSp out.2.1 (bfFinish out.2.1.sp path made out.1).2) hk3old hk3ff hk3fs hokrest
      have hcl3 : (withSp out.2.1 (bfFinish out.2.1.sp path made out.1).2).sp.claimedFiles = out.2.1.sp.claimedFiles := bfFinish_claimed _ _ _ _
      have hcf3 : (withSp out.2.1 (bfFinish out.2.1.sp path made out.1).2).sp.cacheFile = s.sp.cacheFile := by
        show (bfFinish _ path made out.1).2.cacheFile = _
        rw [hfinOk]; show out.2.1.sp.cacheFile = _
        rw [(hokr hoksubs).cacheFile]; show sp1.cacheFile = _; rw [hsp1]; rfl
      have hpath_cl : path ∈ out.2.1.sp.claimedFiles := hkb.claimed path (by show path ∈ sp1.claimedFiles; rw [hsp1]; exact List.mem_cons_self ..)
      apply FirstFactsDeep.congr (ops := out.2.2 ++ [Op.buildFile path cmp fname args kwargs [] .null .null false false ""] ++
        (Impl.run (k (bfFinish out.2.1.sp path made out.1).1) t (withSp out.2.1 (bfFinish out.2.1.sp path made out.1).2)).2.2)
        (by rw [targetsDeepL_cons, targetsDeep_bfRecord, targetsDeepL_append, targetsDeepL_append]; simp [targetsDeepL, targetsDeep])
      have htg : targetsDeepL (out.2.2 ++ [Op.buildFile path cmp fname args kwargs [] .null .null false false ""] ++
          (Impl.run (k (bfFinish out.2.1.sp path made out.1).1) t (withSp out.2.1 (bfFinish out.2.1.sp path made out.1).2)).2.2) =
          targetsDeepL out.2.2 ++ [path] ++ targetsDeepL (Impl.run (k (bfFinish out.2.1.sp path made out.1).1) t (withSp out.2.1 (bfFinish out.2.1.sp path made out.1).2)).2.2 := by
        rw [targetsDeepL_append, targetsDeepL_append]; simp [targetsDeepL, targetsDeep]
      refine ⟨?_, ?_, ?_⟩ <;> rw [htg]
      · intro p hp
        rcases List.mem_append.mp hp with hp | hp
        · rcases List.mem_append.mp hp with hp | hp
          · -- a nested target
            obtain ⟨⟨c', m', hg⟩, hcl, hne⟩ := hb.outs p hp
            have hpp : p ≠ path := by
              intro e
              have := hb.fresh p hp
              apply this
              show p ∈ sp1.claimedFiles
              rw [hsp1, e]; exact List.mem_cons_self ..
            have hg3 : (withSp out.2.1 (bfFinish out.2.1.sp path made out.1).2).sp.fs.get p = some (.file c' m') :=
              bfFinish_file_other _ _ _ _ _ _ _ hpp hg
            refine ⟨⟨c', m', hkeep3.files p c' m' hg3 (by rw [hcl3]; exact hcl)⟩, hkeep3.claimed p (by rw [hcl3]; exact hcl), ?_⟩
            have : (missStart (afterSetup s sp1 path made) path ⟨fname, some path, args, kwargs⟩).sp.cacheFile = s.sp.cacheFile := by
              show sp1.cacheFile = _; rw [hsp1]; rfl
            rw [← this]; exact hne
          · -- the call's own target
            simp only [List.mem_singleton] at hp; subst hp
            have hg3 : (withSp out.2.1 (bfFinish out.2.1.sp p made out.1).2).sp.fs.get p = some (.file c m) := by
              show (bfFinish _ p made out.1).2.fs.get p = _
              rw [hfinOk]; exact get_set_self _ _ _ hpne
            exact ⟨⟨c, m, hkeep3.files p c m hg3 (by rw [hcl3]; exact hpath_cl)⟩, hkeep3.claimed p (by rw [hcl3]; exact hpath_cl), hncf⟩
        · obtain ⟨h1', h2', h3'⟩ := hkk.outs p hp
          exact ⟨h1', h2', by rw [← hcf3]; exact h3'⟩
      · intro p hp
        rcases hkk.claimed p hp with h | h
        · rw [hcl3] at h
          rcases hb.claimed p h with h' | h'
          · have : p ∈ sp1.claimedFiles := h'
            rw [hsp1] at this
            rcases List.mem_cons.mp this with rfl | h''
            · right; simp
            · left; exact h''
          · right; simp [h']
        · right; simp [h]
      · intro p hp
        rcases List.mem_append.mp hp with hp | hp
        · rcases List.mem_append.mp hp with hp | hp
          · intro hc
            apply hb.fresh p hp
            show p ∈ sp1.claimedFiles; rw [hsp1]; exact List.mem_cons_of_mem _ hc
          · simp only [List.mem_singleton] at hp; subst hp; exact hnc
        · intro hc
          apply hkk.fresh p hp
          rw [hcl3]; apply hkb.claimed
          show p ∈ sp1.claimedFiles; rw [hsp1]; exact List.mem_cons_of_mem _ hc
  | subbuild fname args kwargs body k ihb ihk =>
    intro t s h0 h1 h2 hok
    have hfs : s.sp.failSubs.any (heq (subKey fname args kwargs)) = false := by simp [h2]
    by_cases hcl : s.sp.claimedSubs.any (heq (subKey fname args kwargs)) = true
    · exfalso
      simp only [Impl.run, hcl, if_true] at hok
      simp [okDeepL, okDeep] at hok
    · have hcl0 : s.sp.claimedSubs.any (heq (subKey fname args kwargs)) = false := by simpa using hcl
      have hlook := lookupSub_empty (subClaim s (subKey fname args kwargs)) h0 fname args kwargs
      rw [run_sb_miss' s t fname args kwargs body k hcl0 hfs hlook] at hok ⊢
      simp only at hok ⊢
      have hkb := run_keeps body none (Impl.subStart (subClaim s (subKey fname args kwargs)) ⟨fname, none, args, kwargs⟩) h0 h1 h2
      have ihb' := ihb none (Impl.subStart (subClaim s (subKey fname args kwargs)) ⟨fname, none, args, kwargs⟩) h0 h1 h2
      have hokr := nested_ok_run body none (Impl.subStart (subClaim s (subKey fname args kwargs)) ⟨fname, none, args, kwargs⟩) h0 h1 h2
      generalize hout : Impl.run body none (Impl.subStart (subClaim s (subKey fname args kwargs)) ⟨fname, none, args, kwargs⟩) = out
        at hok hkb ihb' hokr ⊢
      rw [okDeepL_cons, Bool.and_eq_true] at hok
      obtain ⟨_, hoksubs⟩ := okDeep_sbRecord _ _ _ _ _ hok.1
      have hb := ihb' hoksubs
      have hkeep3 := run_keeps (k out.1) t out.2.1 (by rw [hkb.old]; exact h0) hkb.ff hkb.fsb
      have hkk := ihk out.1 t out.2.1 (by rw [hkb.old]; exact h0) hkb.ff hkb.fsb hok.2
      have hcf2 : out.2.1.sp.cacheFile = s.sp.cacheFile := (hokr hoksubs).cacheFile
      apply FirstFactsDeep.congr (ops := out.2.2 ++ (Impl.run (k out.1) t out.2.1).2.2)
        (by rw [targetsDeepL_cons, targetsDeep_sbRecord, targetsDeepL_append])
      refine ⟨?_, ?_, ?_⟩ <;> rw [targetsDeepL_append]
      · intro p hp
        rcases List.mem_append.mp hp with hp | hp
        · obtain ⟨⟨c', m', hg⟩, hcl', hne⟩ := hb.outs p hp
          exact ⟨⟨c', m', hkeep3.files p c' m' hg hcl'⟩, hkeep3.claimed p hcl', hne⟩
        · obtain ⟨h1', h2', h3'⟩ := hkk.outs p hp
          exact ⟨h1', h2', by rw [← hcf2]; exact h3'⟩
      · intro p hp
        rcases hkk.claimed p hp with h | h
        · rcases hb.claimed p h with h' | h'
          · left; exact h'
          · right; simp [h']
        · right; simp [h]
      · intro p hp
        rcases List.mem_append.mp hp with hp | hp
        · exact hb.fresh p hp
        · intro hc
          exact hkk.fresh p hp (hkb.claimed p hc)

theorem outputs_eq_targetsDeep (n : String) (ops : List Op) (hok : okDeepL ops = true) :
    CacheRec.outputs { buildName := n, roots := ops.filter isComplexRegistered } = targetsDeepL ops := by
  unfold CacheRec.outputs
  simp only
  rw [registeredL_filter ops hok, ← registeredL_paths]
  apply List.filterMap_congr
  intro x hx
  have := registeredL_okTop ops hok x hx
  cases x with
  | simple _ _ _ _ => rfl
  | subbuild _ _ _ _ _ _ _ => rfl
  | buildFile p c f a k subs r cr raised sf ct =>
    simp only [okTop, Bool.and_eq_true, Bool.not_eq_true'] at this
    obtain ⟨h1, h2⟩ := this
    subst h1 h2
    rfl

def keysOfL (l : List Op) : List H := l.filterMap keyOf

theorem subKeysDeepL_cons (o : Op) (os : List Op) : subKeysDeepL (o :: os) = keysOfL (registered o) ++ subKeysDeepL os := by
  simp [subKeysDeepL, keysOfL, registeredL, List.filterMap_append]

theorem keys_bfRecord (path : Path) (cmp : Cmp) (fname : String) (args kwargs : Json) (subs : List Op)
    (rb r' : CallRes) (s3 : KSt) :
    keysOfL (registered (bfRecord path cmp fname args kwargs subs rb r' s3)) = subKeysDeepL subs := by
  unfold bfRecord
  cases r' <;> simp [registered, keysOfL, subKeysDeepL, List.filterMap_append, keyOf]

theorem keys_sbRecord_ok (fname : String) (args kwargs : Json) (subs : List Op) (j : Json) :
    keysOfL (registered (sbRecord fname args kwargs subs (.ok j))) = subKeysDeepL subs ++ [subKey fname args kwargs] := by
  simp [sbRecord, registered, keysOfL, subKeysDeepL, List.filterMap_append, keyOf]

theorem registeredL_append (a b : List Op) : registeredL (a ++ b) = registeredL a ++ registeredL b := by
  induction a with
  | nil => simp [registeredL]
  | cons x r ih => simp [registeredL, ih]

/-- the relation "different keys" -/
def KeyNe (x y : H) : Prop := heq x y = false ∧ heq y x = false

structure RunKeys (s s2 : KSt) (ops : List Op) : Prop where
  fresh : ∀ k ∈ subKeysDeepL ops, s.sp.claimedSubs.any (heq k) = false
  claimed : ∀ k ∈ subKeysDeepL ops, s2.sp.claimedSubs.any (heq k) = true
  pw : (subKeysDeepL ops).Pairwise KeyNe
  mono : ∀ k, s.sp.claimedSubs.any (heq k) = true → s2.sp.claimedSubs.any (heq k) = true

theorem RunKeys.nil (s : KSt) : RunKeys s s [] :=
  ⟨fun k hk => by simp [subKeysDeepL, registeredL] at hk, fun k hk => by simp [subKeysDeepL, registeredL] at hk,
   by simp [subKeysDeepL, registeredL], fun _ h => h⟩

theorem RunKeys.congr {s s2 : KSt} {ops ops' : List Op} (h : subKeysDeepL ops' = subKeysDeepL ops) (hr : RunKeys s s2 ops) :
    RunKeys s s2 ops' :=
  ⟨by rw [h]; exact hr.fresh, by rw [h]; exact hr.claimed, by rw [h]; exact hr.pw, hr.mono⟩

/-- two runs one after the other -/
theorem RunKeys.append {a b c : KSt} {o1 o2 : List Op} {ks : List H}
    (hk : ks = subKeysDeepL o1 ++ subKeysDeepL o2) (h1 : RunKeys a b o1) (h2 : RunKeys b c o2) :
    (∀ k ∈ ks, a.sp.claimedSubs.any (heq k) = false) ∧ (∀ k ∈ ks, c.sp.claimedSubs.any (heq k) = true) ∧ ks.Pairwise KeyNe := by
  subst hk
  refine ⟨?_, ?_, ?_⟩
  · intro k hk
    rcases List.mem_append.mp hk with hk | hk
    · exact h1.fresh k hk
    · cases hc : a.sp.claimedSubs.any (heq k) with
      | false => rfl
      | true => have := h1.mono k hc; rw [h2.fresh k hk] at this; cases this
  · intro k hk
    rcases List.mem_append.mp hk with hk | hk
    · exact h2.mono k (h1.claimed k hk)
    · exact h2.claimed k hk
  · rw [List.pairwise_append]
    refine ⟨h1.pw, h2.pw, ?_⟩
    intro x hx y hy
    -- `y` is fresh with respect to the claims after the first run, among which there is a key `heq` to `x`
    have hxc := h1.claimed x hx
    have hyf := h2.fresh y hy
    obtain ⟨c0, hc0, hxc0⟩ := List.any_eq_true.mp hxc
    have hyc0 : heq y c0 = false := by
      cases hh : heq y c0 with
      | false => rfl
      | true => have := List.any_eq_true.mpr ⟨c0, hc0, hh⟩; rw [hyf] at this; cases this
    constructor
    · cases hh : heq x y with
      | false => rfl
      | true =>
        have h1' : heq y x = true := by rw [heq_symm]; exact hh
        have := heq_trans y x c0 h1' hxc0
        rw [hyc0] at this; cases this
    · cases hh : heq y x with
      | false => rfl
      | true =>
        have := heq_trans y x c0 hh hxc0
        rw [hyc0] at this; cases this

theorem any_cons_heq (k key : H) (l : List H) : (key :: l).any (heq k) = (heq k key || l.any (heq k)) := by
  simp [List.any_cons]

/-- **in a run in which every call succeeded, the keys of the subbuild records are pairwise different** (at every
    depth): a key is claimed before its function starts, and a claimed key is refused -/
theorem run_keys (prog : Prog) : ∀ (t : Option Path) (s : KSt), s.old.roots = [] → s.sp.failFiles = [] →
    s.sp.failSubs = [] → okDeepL (Impl.run prog t s).2.2 = true →
    RunKeys s (Impl.run prog t s).2.1 (Impl.run prog t s).2.2 := by
  induction prog with
  | ret v => intro t s _ _ _ _; simp only [Impl.run]; split <;> exact RunKeys.nil s
  | raise e => intro t s _ _ _ _; simp only [Impl.run]; exact RunKeys.nil s
  | query q k ih =>
    intro t s h0 h1 h2 hok
    simp only [Impl.run] at hok ⊢
    rw [okDeepL_cons, Bool.and_eq_true] at hok
    have := ih _ t s h0 h1 h2 hok.2
    cases hrv : View.recVal s.sp.dirSize (visible s.sp) q with
    | ok v => simp only; exact this.congr (by rw [subKeysDeepL_cons]; simp [registered, keysOfL])
    | error e => simp only; exact this.congr (by rw [subKeysDeepL_cons]; simp [registered, keysOfL])
  | write b mt k ih =>
    intro t s h0 h1 h2 hok
    simp only [Impl.run] at hok ⊢
    cases t with
    | none => exact ih none s h0 h1 h2 hok
    | some p =>
      have := ih (some p) (liftSp s fun sp => { sp with pending := (p, b, mt.getD sp.clock) :: sp.pending, clock := sp.clock + 1 }) h0 h1 h2 hok
      exact ⟨this.fresh, this.claimed, this.pw, this.mono⟩
  | buildFile path cmp fname args kwargs body k ihb ihk =>
    intro t s h0 h1 h2 hok
    cases hsetup : bfSetup s.sp path with
    | error e =>
      exfalso
      have := run_bf_setupfail s t path cmp fname args kwargs body k e hsetup
      cases hops : (Impl.run (.buildFile path cmp fname args kwargs body k) t s).2.2 with
      | nil => rw [hops] at this; cases this
      | cons o os =>
        rw [hops] at this hok
        simp only [List.head?_cons, Option.some.injEq] at this
        subst this
        simp [okDeepL, okDeep] at hok
    | ok x =>
      obtain ⟨sp1, made⟩ := x
      obtain ⟨hsp1, _, _, _, _, _⟩ := bfSetup_ok_fields s.sp sp1 path made hsetup
      have hlook := lookupFile_empty (afterSetup s sp1 path made) h0 path cmp fname args kwargs made
      rw [run_bf_miss s t path cmp fname args kwargs body k sp1 made hsetup hlook] at hok ⊢
      simp only at hok ⊢
      have hk1ff : (missStart (afterSetup s sp1 path made) path ⟨fname, some path, args, kwargs⟩).sp.failFiles = [] := by
        show sp1.failFiles = []; rw [hsp1]; exact h1
      have hk1fs : (missStart (afterSetup s sp1 path made) path ⟨fname, some path, args, kwargs⟩).sp.failSubs = [] := by
        show sp1.failSubs = []; rw [hsp1]; exact h2
      have hkb := run_keeps body (some path) (missStart (afterSetup s sp1 path made) path ⟨fname, some path, args, kwargs⟩) h0 hk1ff hk1fs
      have ihb' := ihb (some path) (missStart (afterSetup s sp1 path made) path ⟨fname, some path, args, kwargs⟩) h0 hk1ff hk1fs
      generalize hout : Impl.run body (some path) (missStart (afterSetup s sp1 path made) path ⟨fname, some path, args, kwargs⟩) = out
        at hok hkb ihb' ⊢
      rw [okDeepL_cons, Bool.and_eq_true] at hok
      obtain ⟨⟨⟨j, hj⟩, hoksubs⟩, hokrest⟩ := And.intro (okDeep_bfRecord _ _ _ _ _ _ _ _ _ hok.1) hok.2
      obtain ⟨c, m, _, _, hfinOk⟩ := bfFinish_ok_inv out.2.1.sp path made out.1 j hj
      have hb := ihb' hoksubs
      obtain ⟨_, hk2, hk3⟩ := bfFinish_keeps out.2.1.sp path made out.1
      have hkk := ihk (bfFinish out.2.1.sp path made out.1).1 t (withSp out.2.1 (bfFinish out.2.1.sp path made out.1).2)
        (by show out.2.1.old.roots = []; rw [hkb.old]; exact h0)
        (by show (bfFinish _ path made out.1).2.failFiles = []; rw [hk2]; exact hkb.ff)
        (by show (bfFinish _ path made out.1).2.failSubs = []; rw [hk3]; exact hkb.fsb) hokrest
      -- the claims are those of the state the function started in resp. ended in
      have hcs1 : (missStart (afterSetup s sp1 path made) path ⟨fname, some path, args, kwargs⟩).sp.claimedSubs = s.sp.claimedSubs := by
        show sp1.claimedSubs = _; rw [hsp1]; rfl
      have hcs3 : (withSp out.2.1 (bfFinish out.2.1.sp path made out.1).2).sp.claimedSubs = out.2.1.sp.claimedSubs := by
        show (bfFinish _ path made out.1).2.claimedSubs = _; rw [hfinOk]; rfl
      have hb' : RunKeys s out.2.1 out.2.2 := ⟨by rw [← hcs1]; exact hb.fresh, hb.claimed, hb.pw, by rw [← hcs1]; exact hb.mono⟩
      have hkk' : RunKeys out.2.1 (Impl.run (k (bfFinish out.2.1.sp path made out.1).1) t (withSp out.2.1 (bfFinish out.2.1.sp path made out.1).2)).2.1
          (Impl.run (k (bfFinish out.2.1.sp path made out.1).1) t (withSp out.2.1 (bfFinish out.2.1.sp path made out.1).2)).2.2 :=
        ⟨by rw [← hcs3]; exact hkk.fresh, hkk.claimed, hkk.pw, by rw [← hcs3]; exact hkk.mono⟩
      obtain ⟨a1, a2, a3⟩ := RunKeys.append (ks := subKeysDeepL (bfRecord path cmp fname args kwargs out.2.2 out.1 (bfFinish out.2.1.sp path made out.1).1
          (withSp out.2.1 (bfFinish out.2.1.sp path made out.1).2) :: (Impl.run (k (bfFinish out.2.1.sp path made out.1).1) t (withSp out.2.1 (bfFinish out.2.1.sp path made out.1).2)).2.2))
        (by rw [subKeysDeepL_cons, keys_bfRecord]) hb' hkk'
      exact ⟨a1, a2, a3, fun k hk => hkk'.mono k (hb'.mono k hk)⟩
  | subbuild fname args kwargs body k ihb ihk =>
    intro t s h0 h1 h2 hok
    have hfs : s.sp.failSubs.any (heq (subKey fname args kwargs)) = false := by simp [h2]
    by_cases hcl : s.sp.claimedSubs.any (heq (subKey fname args kwargs)) = true
    · exfalso
      simp only [Impl.run, hcl, if_true] at hok
      simp [okDeepL, okDeep] at hok
    · have hcl0 : s.sp.claimedSubs.any (heq (subKey fname args kwargs)) = false := by simpa using hcl
      have hlook := lookupSub_empty (subClaim s (subKey fname args kwargs)) h0 fname args kwargs
      rw [run_sb_miss' s t fname args kwargs body k hcl0 hfs hlook] at hok ⊢
      simp only at hok ⊢
      have hkb := run_keeps body none (Impl.subStart (subClaim s (subKey fname args kwargs)) ⟨fname, none, args, kwargs⟩) h0 h1 h2
      have ihb' := ihb none (Impl.subStart (subClaim s (subKey fname args kwargs)) ⟨fname, none, args, kwargs⟩) h0 h1 h2
      generalize hout : Impl.run body none (Impl.subStart (subClaim s (subKey fname args kwargs)) ⟨fname, none, args, kwargs⟩) = out
        at hok hkb ihb' ⊢
      rw [okDeepL_cons, Bool.and_eq_true] at hok
      obtain ⟨⟨j, hj⟩, hoksubs⟩ := okDeep_sbRecord _ _ _ _ _ hok.1
      have hb := ihb' hoksubs
      have hkk := ihk out.1 t out.2.1 (by rw [hkb.old]; exact h0) hkb.ff hkb.fsb hok.2
      have hcs1 : (Impl.subStart (subClaim s (subKey fname args kwargs)) ⟨fname, none, args, kwargs⟩).sp.claimedSubs =
          subKey fname args kwargs :: s.sp.claimedSubs := rfl
      -- the run of the function together with the claim of its key, as a run from `s`
      have hkeyc : out.2.1.sp.claimedSubs.any (heq (subKey fname args kwargs)) = true :=
        hb.mono _ (by rw [hcs1, any_cons_heq, heq_refl]; rfl)
      have hb' : RunKeys s out.2.1 (out.2.2 ++ [Op.subbuild fname args kwargs [] .null false false]) := by
        have hkeys : subKeysDeepL (out.2.2 ++ [Op.subbuild fname args kwargs [] .null false false]) =
            subKeysDeepL out.2.2 ++ [subKey fname args kwargs] := by
          simp [subKeysDeepL, registeredL_append, registeredL, registered, List.filterMap_append, keyOf]
        refine ⟨?_, ?_, ?_, ?_⟩
        · intro k hk
          rw [hkeys] at hk
          rcases List.mem_append.mp hk with hk | hk
          · have := hb.fresh k hk
            rw [hcs1, any_cons_heq, Bool.or_eq_false_iff] at this
            exact this.2
          · simp only [List.mem_singleton] at hk; subst hk; exact hcl0
        · intro k hk
          rw [hkeys] at hk
          rcases List.mem_append.mp hk with hk | hk
          · exact hb.claimed k hk
          · simp only [List.mem_singleton] at hk; subst hk; exact hkeyc
        · rw [hkeys, List.pairwise_append]
          refine ⟨hb.pw, by simp, ?_⟩
          intro x hx y hy
          simp only [List.mem_singleton] at hy; subst hy
          have := hb.fresh x hx
          rw [hcs1, any_cons_heq, Bool.or_eq_false_iff] at this
          exact ⟨this.1, by rw [heq_symm]; exact this.1⟩
        · intro k hk
          exact hb.mono k (by rw [hcs1, any_cons_heq, hk]; simp)
      obtain ⟨a1, a2, a3⟩ := RunKeys.append (ks := subKeysDeepL (sbRecord fname args kwargs out.2.2 out.1 :: (Impl.run (k out.1) t out.2.1).2.2))
        (by
          rw [subKeysDeepL_cons, hj, keys_sbRecord_ok]
          simp [subKeysDeepL, registeredL_append, registeredL, registered, List.filterMap_append, keyOf]) hb' hkk
      exact ⟨a1, a2, a3, fun k hk => hkk.mono k (hb'.mono k hk)⟩

theorem mkdirStep_makes (fs : FS) (d : Path) (hd : d ≠ []) (hp : fs.isDir d.dropLast = true) (ha : fs.get d = none) :
    (mkdirStep fs d).get d = some .dir ∧ ∀ q, q ≠ d → (mkdirStep fs d).get q = fs.get q := by
  have hpar : fs.get (FS.parent d) = some .dir := by
    unfold FS.isDir at hp
    unfold FS.parent
    cases hg : fs.get d.dropLast with
    | none => simp [hg] at hp
    | some e => cases e with
      | dir => rfl
      | file c m => simp [hg] at hp
  have hmk : fs.mkdir d = .ok (fs.set d .dir) := by
    unfold FS.mkdir
    simp [hd, hpar, ha]
  unfold mkdirStep
  rw [hmk]
  exact ⟨get_set_self _ _ _ hd, fun q hq => get_set_ne _ _ _ _ hq⟩

theorem isDir_of_get {fs : FS} {d : Path} (h : fs.get d = some .dir) : fs.isDir d = true := by
  simp [FS.isDir, h]

/-- making the directories `_dirs_to_make` lists, in order, makes every one of them a directory (and keeps the
    directories that were there) -/
theorem mkdirs_dirsToMake (vfs : FS) (cf : Path) (bl : List Path) : ∀ (n : Nat) (d : Path) (ds : List Path) (fs : FS),
    d.length = n → dirsToMake vfs cf bl d = .ok ds → (∀ a, vfs.isDir a = true → fs.isDir a = true) →
    (∀ x ∈ ds, fs.get x = none) →
    (mkdirs fs ds).isDir d = true ∧ (∀ x ∈ ds, (mkdirs fs ds).isDir x = true) ∧
      (∀ q, fs.isDir q = true → (mkdirs fs ds).isDir q = true) := by
  intro n
  induction n with
  | zero =>
    intro d ds fs hl h _ _
    have : d = [] := List.length_eq_zero_iff.mp hl
    subst this
    rw [dirsToMake] at h
    simp at h; subst h
    exact ⟨by simp [mkdirs, FS.isDir, get_nil], (fun x hx => nomatch hx), fun q hq => hq⟩
  | succ n ih =>
    intro d ds fs hl h hv habs
    have hd : d ≠ [] := by intro e; subst e; simp at hl
    rw [dirsToMake] at h
    simp only [hd, dite_false] at h
    by_cases h1 : vfs.isDir d = true
    · simp only [h1, if_true, Except.ok.injEq] at h
      subst h
      exact ⟨hv d h1, (fun x hx => nomatch hx), fun q hq => hq⟩
    · simp only [h1, Bool.false_eq_true, if_false] at h
      split at h; · cases h
      split at h; · cases h
      split at h; · cases h
      cases hr : dirsToMake vfs cf bl d.dropLast with
      | error e => rw [hr] at h; cases h
      | ok r =>
        rw [hr] at h
        simp only [Except.ok.injEq] at h
        subst h
        have hrabs : ∀ x ∈ r, fs.get x = none := fun x hx => habs x (List.mem_append_left _ hx)
        obtain ⟨i1, i2, i3⟩ := ih d.dropLast r fs (by simp [List.length_dropLast, hl]) hr hv hrabs
        have hstep : mkdirs fs (r ++ [d]) = mkdirStep (mkdirs fs r) d := by simp [mkdirs, List.foldl_append]
        rw [hstep]
        have hdr : d ∉ r := by
          intro hm
          have := (Backups.dirsToMake_prefix _ _ _ _ _ _ rfl hr d hm).length_le
          rw [List.length_dropLast] at this
          have : d.length ≠ 0 := by simpa using hd
          omega
        have hda : (mkdirs fs r).get d = none := by
          rcases Rollback.mkdirs_get_mem r fs d with h' | ⟨hm, _, _⟩
          · rw [h']; exact habs d (by simp)
          · exact absurd hm hdr
        obtain ⟨m1, m2⟩ := mkdirStep_makes (mkdirs fs r) d hd i1 hda
        refine ⟨isDir_of_get m1, ?_, ?_⟩
        · intro x hx
          rcases List.mem_append.mp hx with hx | hx
          · have hne : x ≠ d := fun e => hdr (e ▸ hx)
            unfold FS.isDir; rw [m2 x hne]; exact i2 x hx
          · simp only [List.mem_singleton] at hx; subst hx; exact isDir_of_get m1
        · intro q hq
          by_cases hqd : q = d
          · subst hqd; exact isDir_of_get m1
          · unfold FS.isDir; rw [m2 q hqd]; exact i3 q hq

theorem visible_isDir (sp : SpecSt) (a : Path) (h : (visible sp).isDir a = true) : sp.fs.isDir a = true := by
  unfold FS.isDir at h ⊢
  cases hg : (visible sp).get a with
  | none => simp [hg] at h
  | some e =>
    rw [visible_get_some sp a e hg]
    rw [hg] at h; exact h

/-- `_dirs_to_make` never lists the cache file -/
theorem dirsToMake_not_cf (vfs : FS) (cf : Path) (bl : List Path) : ∀ (n : Nat) (d : Path) (ds : List Path),
    d.length = n → dirsToMake vfs cf bl d = .ok ds → cf ∈ ds → False := by
  intro n
  induction n with
  | zero =>
    intro d ds hl h hm
    have : d = [] := List.length_eq_zero_iff.mp hl
    subst this
    rw [dirsToMake] at h
    simp at h; subst h; cases hm
  | succ n ih =>
    intro d ds hl h hm
    have hd : d ≠ [] := by intro e; subst e; simp at hl
    rw [dirsToMake] at h
    simp only [hd, dite_false] at h
    split at h
    · simp only [Except.ok.injEq] at h; subst h; cases hm
    · split at h; · cases h
      split at h; · cases h
      rename_i hcf
      split at h; · cases h
      cases hr : dirsToMake vfs cf bl d.dropLast with
      | error e => rw [hr] at h; cases h
      | ok r =>
        rw [hr] at h
        simp only [Except.ok.injEq] at h
        subst h
        rcases List.mem_append.mp hm with hm | hm
        · exact ih d.dropLast r (by simp [List.length_dropLast, hl]) hr hm
        · simp only [List.mem_singleton] at hm; exact hcf hm.symm

/-- directories are never removed, nor turned into something else, by a run in which every call succeeds, and the
    directories it records as created are directories when it ends -/
theorem run_dirs_kept (prog : Prog) : ∀ (t : Option Path) (s : KSt), s.old.roots = [] → s.sp.failFiles = [] →
    s.sp.failSubs = [] → okDeepL (Impl.run prog t s).2.2 = true →
    Antichain (targetsDeepL (Impl.run prog t s).2.2) →
    (∀ p ∈ targetsDeepL (Impl.run prog t s).2.2, s.sp.fs.get p = none) →
    (∀ q, s.sp.fs.isDir q = true → (Impl.run prog t s).2.1.sp.fs.isDir q = true) ∧
    (∀ d ∈ (Impl.run prog t s).2.1.sp.createdDirs, d ∈ s.sp.createdDirs ∨
      ((Impl.run prog t s).2.1.sp.fs.isDir d = true ∧ d ≠ s.sp.cacheFile)) := by
  induction prog with
  | ret v => intro t s _ _ _ _ _ _; simp only [Impl.run]; split <;> exact ⟨fun q h => h, fun d h => Or.inl h⟩
  | raise e => intro t s _ _ _ _ _ _; simp only [Impl.run]; exact ⟨fun q h => h, fun d h => Or.inl h⟩
  | query q k ih =>
    intro t s h0 h1 h2 hok hanti habs
    simp only [Impl.run] at hok hanti habs ⊢
    rw [okDeepL_cons, Bool.and_eq_true] at hok
    cases hrv : View.recVal s.sp.dirSize (visible s.sp) q with
    | ok v =>
      simp only [hrv] at hanti habs
      rw [targetsDeepL_cons] at hanti habs
      simp only [targetsDeep, List.nil_append] at hanti habs
      exact ih _ t s h0 h1 h2 hok.2 hanti habs
    | error e =>
      simp only [hrv] at hanti habs
      rw [targetsDeepL_cons] at hanti habs
      simp only [targetsDeep, List.nil_append] at hanti habs
      exact ih _ t s h0 h1 h2 hok.2 hanti habs
  | write b mt k ih =>
    intro t s h0 h1 h2 hok hanti habs
    simp only [Impl.run] at hok hanti habs ⊢
    cases t with
    | none => exact ih none s h0 h1 h2 hok hanti habs
    | some p => exact ih (some p) (liftSp s fun sp => { sp with pending := (p, b, mt.getD sp.clock) :: sp.pending, clock := sp.clock + 1 }) h0 h1 h2 hok hanti habs
  | buildFile path cmp fname args kwargs body k ihb ihk =>
    intro t s h0 h1 h2 hok hanti habs
    cases hsetup : bfSetup s.sp path with
    | error e =>
      exfalso
      have := run_bf_setupfail s t path cmp fname args kwargs body k e hsetup
      cases hops : (Impl.run (.buildFile path cmp fname args kwargs body k) t s).2.2 with
      | nil => rw [hops] at this; cases this
      | cons o os =>
        rw [hops] at this hok
        simp only [List.head?_cons, Option.some.injEq] at this
        subst this
        simp [okDeepL, okDeep] at hok
    | ok x =>
      obtain ⟨sp1, made⟩ := x
      obtain ⟨hsp1, _, hncf, hnd, hdm, _⟩ := bfSetup_ok_fields s.sp sp1 path made hsetup
      have hpne : path ≠ [] := by intro e; subst e; simp [FS.isDir, get_nil] at hnd
      have hlook := lookupFile_empty (afterSetup s sp1 path made) h0 path cmp fname args kwargs made
      rw [run_bf_miss s t path cmp fname args kwargs body k sp1 made hsetup hlook] at hok hanti habs ⊢
      simp only at hok hanti habs ⊢
      have hk1ff : (missStart (afterSetup s sp1 path made) path ⟨fname, some path, args, kwargs⟩).sp.failFiles = [] := by
        show sp1.failFiles = []; rw [hsp1]; exact h1
      have hk1fs : (missStart (afterSetup s sp1 path made) path ⟨fname, some path, args, kwargs⟩).sp.failSubs = [] := by
        show sp1.failSubs = []; rw [hsp1]; exact h2
      have hkb := run_keeps body (some path) (missStart (afterSetup s sp1 path made) path ⟨fname, some path, args, kwargs⟩) h0 hk1ff hk1fs
      have hab := run_absent body (some path) (missStart (afterSetup s sp1 path made) path ⟨fname, some path, args, kwargs⟩)
      have hokr := nested_ok_run body (some path) (missStart (afterSetup s sp1 path made) path ⟨fname, some path, args, kwargs⟩) h0 hk1ff hk1fs
      have ihb' := ihb (some path) (missStart (afterSetup s sp1 path made) path ⟨fname, some path, args, kwargs⟩) h0 hk1ff hk1fs
      generalize hout : Impl.run body (some path) (missStart (afterSetup s sp1 path made) path ⟨fname, some path, args, kwargs⟩) = out
        at hok hanti habs hkb hab hokr ihb' ⊢
      rw [targetsDeepL_cons, targetsDeep_bfRecord] at hanti habs
      rw [okDeepL_cons, Bool.and_eq_true] at hok
      obtain ⟨⟨⟨j, hj⟩, hoksubs⟩, hokrest⟩ := And.intro (okDeep_bfRecord _ _ _ _ _ _ _ _ _ hok.1) hok.2
      obtain ⟨c, m, _, _, hfinOk⟩ := bfFinish_ok_inv out.2.1.sp path made out.1 j hj
      have hsub_path : ∀ p ∈ targetsDeepL out.2.2, p ≠ path ∧ ¬ p <+: path ∧ ¬ path <+: p := by
        intro p hp
        exact Antichain.ne_of_mem_append hanti.left hp (List.mem_singleton.mpr rfl)
      have hmade_pre : ∀ d ∈ made, d <+: path := fun d hd =>
        (Backups.dirsToMake_prefix _ _ _ _ _ _ rfl hdm d hd).trans (List.dropLast_prefix path)
      have hpath_made : path ∉ made := by
        intro hm
        have := Backups.dirsToMake_prefix _ _ _ _ _ _ rfl hdm path hm
        have hl := this.length_le
        simp [List.length_dropLast] at hl
        have : path.length ≠ 0 := by simpa using hpne
        omega
      have hnot_made : ∀ p, ¬ p <+: path → p ∉ made := fun p hp hm => hp (hmade_pre p hm)
      have habs_path : s.sp.fs.get path = none := habs path (by simp)
      have hk1fs' : sp1.fs = Spec.mkdirs s.sp.fs made := by
        rw [hsp1]; unfold setupState; simp only
        have : (Spec.mkdirs s.sp.fs made).get path = none := by
          rcases Rollback.mkdirs_get_mem made s.sp.fs path with h' | ⟨hm, _, _⟩
          · rw [h', habs_path]
          · exact absurd hm hpath_made
        simp [FS.isFile, this]
      have habs1 : ∀ p ∈ targetsDeepL out.2.2, (missStart (afterSetup s sp1 path made) path ⟨fname, some path, args, kwargs⟩).sp.fs.get p = none := by
        intro p hp
        show sp1.fs.get p = none
        rw [hsp1]
        exact setupState_absent _ _ _ _ (hsub_path p hp).1 (hnot_made p (hsub_path p hp).2.1) (habs p (by simp [hp]))
      have hpath_out : out.2.1.sp.fs.get path = none := by
        apply hab path h0 hk1ff hk1fs
        · show sp1.fs.get path = none
          rw [hk1fs']
          rcases Rollback.mkdirs_get_mem made s.sp.fs path with h' | ⟨hm, _, _⟩
          · rw [h', habs_path]
          · exact absurd hm hpath_made
        · intro p hp; exact (hsub_path p hp).2.2
      obtain ⟨hb1, hb2⟩ := ihb' hoksubs hanti.left.left habs1
      obtain ⟨_, hk2, hk3⟩ := bfFinish_keeps out.2.1.sp path made out.1
      have hrest_path : ∀ p ∈ targetsDeepL (Impl.run (k (bfFinish out.2.1.sp path made out.1).1) t (withSp out.2.1 (bfFinish out.2.1.sp path made out.1).2)).2.2,
          p ≠ path ∧ ¬ p <+: path ∧ ¬ path <+: p := by
        intro p hp
        have := Antichain.ne_of_mem_append hanti (List.mem_append_right _ (List.mem_singleton.mpr rfl)) hp
        exact ⟨fun e => this.1 e.symm, this.2.2, this.2.1⟩
      have hrest_sub : ∀ p ∈ targetsDeepL (Impl.run (k (bfFinish out.2.1.sp path made out.1).1) t (withSp out.2.1 (bfFinish out.2.1.sp path made out.1).2)).2.2,
          ∀ p' ∈ targetsDeepL out.2.2, ¬ p <+: p' := by
        intro p hp p' hp'
        exact (Antichain.ne_of_mem_append hanti (List.mem_append_left _ hp') hp).2.2
      have habs3 : ∀ p ∈ targetsDeepL (Impl.run (k (bfFinish out.2.1.sp path made out.1).1) t (withSp out.2.1 (bfFinish out.2.1.sp path made out.1).2)).2.2,
          (withSp out.2.1 (bfFinish out.2.1.sp path made out.1).2).sp.fs.get p = none := by
        intro p hp
        apply bfFinish_absent _ _ _ _ _ (hrest_path p hp).1
        apply hab p h0 hk1ff hk1fs
        · show sp1.fs.get p = none
          rw [hsp1]
          exact setupState_absent _ _ _ _ (hrest_path p hp).1 (hnot_made p (hrest_path p hp).2.1) (habs p (by simp [hp]))
        · exact hrest_sub p hp
      obtain ⟨hk1', hk2'⟩ := ihk (bfFinish out.2.1.sp path made out.1).1 t (withSp out.2.1 (bfFinish out.2.1.sp path made out.1).2)
        (by show out.2.1.old.roots = []; rw [hkb.old]; exact h0)
        (by show (bfFinish _ path made out.1).2.failFiles = []; rw [hk2]; exact hkb.ff)
        (by show (bfFinish _ path made out.1).2.failSubs = []; rw [hk3]; exact hkb.fsb) hokrest hanti.right habs3
      -- the set-up makes the directories
      have habsm := dirsToMake_absent s.sp _ path.dropLast made rfl hdm
      obtain ⟨_, g2, g3⟩ := mkdirs_dirsToMake (visible s.sp) s.sp.cacheFile s.sp.inProg _ path.dropLast made s.sp.fs rfl hdm
        (fun a ha => visible_isDir s.sp a ha) habsm
      have hfinDir : ∀ q, out.2.1.sp.fs.isDir q = true → (withSp out.2.1 (bfFinish out.2.1.sp path made out.1).2).sp.fs.isDir q = true := by
        intro q hq
        show (bfFinish _ path made out.1).2.fs.isDir q = true
        rw [hfinOk]
        show (out.2.1.sp.fs.set path (.file c m)).isDir q = true
        have hne : q ≠ path := by
          intro e; subst e
          simp [FS.isDir, hpath_out] at hq
        unfold FS.isDir; rw [get_set_ne _ _ _ _ hne]; exact hq
      have hcf1 : (missStart (afterSetup s sp1 path made) path ⟨fname, some path, args, kwargs⟩).sp.cacheFile = s.sp.cacheFile := by
        show sp1.cacheFile = _; rw [hsp1]; rfl
      have hcf3 : (withSp out.2.1 (bfFinish out.2.1.sp path made out.1).2).sp.cacheFile = s.sp.cacheFile := by
        show (bfFinish _ path made out.1).2.cacheFile = _
        rw [hfinOk]; show out.2.1.sp.cacheFile = _
        rw [(hokr hoksubs).cacheFile]; exact hcf1
      refine ⟨?_, ?_⟩
      · intro q hq
        apply hk1'; apply hfinDir; apply hb1
        show sp1.fs.isDir q = true
        rw [hk1fs']; exact g3 q hq
      · intro d hd
        rcases hk2' d hd with h' | ⟨h', h''⟩
        · -- recorded by this call: one of `made`, or recorded during the function
          have : d ∈ made ++ out.2.1.sp.createdDirs := by
            have : (withSp out.2.1 (bfFinish out.2.1.sp path made out.1).2).sp.createdDirs = made ++ out.2.1.sp.createdDirs := by
              show (bfFinish _ path made out.1).2.createdDirs = _; rw [hfinOk]; rfl
            rw [← this]; exact h'
          rcases List.mem_append.mp this with hm | hm
          · right
            refine ⟨?_, ?_⟩
            · apply hk1'; apply hfinDir; apply hb1
              show sp1.fs.isDir d = true
              rw [hk1fs']; exact g2 d hm
            · -- `_dirs_to_make` refuses the cache file
              intro e
              subst e
              have hpre := Backups.dirsToMake_prefix _ _ _ _ _ _ rfl hdm _ hm
              exact dirsToMake_not_cf _ _ _ _ _ _ rfl hdm hm
          · rcases hb2 d hm with h3 | ⟨h3, h4⟩
            · left
              have : (missStart (afterSetup s sp1 path made) path ⟨fname, some path, args, kwargs⟩).sp.createdDirs = s.sp.createdDirs := by
                show sp1.createdDirs = _; rw [hsp1]; rfl
              rw [← this]; exact h3
            · right
              exact ⟨hk1' d (hfinDir d h3), by rw [← hcf1]; exact h4⟩
        · right; exact ⟨h', by rw [← hcf3]; exact h''⟩
  | subbuild fname args kwargs body k ihb ihk =>
    intro t s h0 h1 h2 hok hanti habs
    have hfs : s.sp.failSubs.any (heq (subKey fname args kwargs)) = false := by simp [h2]
    by_cases hcl : s.sp.claimedSubs.any (heq (subKey fname args kwargs)) = true
    · exfalso
      simp only [Impl.run, hcl, if_true] at hok
      simp [okDeepL, okDeep] at hok
    · have hcl0 : s.sp.claimedSubs.any (heq (subKey fname args kwargs)) = false := by simpa using hcl
      have hlook := lookupSub_empty (subClaim s (subKey fname args kwargs)) h0 fname args kwargs
      rw [run_sb_miss' s t fname args kwargs body k hcl0 hfs hlook] at hok hanti habs ⊢
      simp only at hok hanti habs ⊢
      have hkb := run_keeps body none (Impl.subStart (subClaim s (subKey fname args kwargs)) ⟨fname, none, args, kwargs⟩) h0 h1 h2
      have hab := run_absent body none (Impl.subStart (subClaim s (subKey fname args kwargs)) ⟨fname, none, args, kwargs⟩)
      have hokr := nested_ok_run body none (Impl.subStart (subClaim s (subKey fname args kwargs)) ⟨fname, none, args, kwargs⟩) h0 h1 h2
      have ihb' := ihb none (Impl.subStart (subClaim s (subKey fname args kwargs)) ⟨fname, none, args, kwargs⟩) h0 h1 h2
      generalize hout : Impl.run body none (Impl.subStart (subClaim s (subKey fname args kwargs)) ⟨fname, none, args, kwargs⟩) = out
        at hok hanti habs hkb hab hokr ihb' ⊢
      rw [targetsDeepL_cons, targetsDeep_sbRecord] at hanti habs
      rw [okDeepL_cons, Bool.and_eq_true] at hok
      obtain ⟨_, hoksubs⟩ := okDeep_sbRecord _ _ _ _ _ hok.1
      obtain ⟨hb1, hb2⟩ := ihb' hoksubs hanti.left (fun p hp => habs p (by simp [hp]))
      have hrest_sub : ∀ p ∈ targetsDeepL (Impl.run (k out.1) t out.2.1).2.2, ∀ p' ∈ targetsDeepL out.2.2, ¬ p <+: p' := by
        intro p hp p' hp'
        exact (Antichain.ne_of_mem_append hanti hp' hp).2.2
      have habs3 : ∀ p ∈ targetsDeepL (Impl.run (k out.1) t out.2.1).2.2, out.2.1.sp.fs.get p = none := by
        intro p hp
        exact hab p h0 h1 h2 (habs p (by simp [hp])) (hrest_sub p hp)
      obtain ⟨hk1', hk2'⟩ := ihk out.1 t out.2.1 (by rw [hkb.old]; exact h0) hkb.ff hkb.fsb hok.2 hanti.right habs3
      have hcf2 : out.2.1.sp.cacheFile = s.sp.cacheFile := (hokr hoksubs).cacheFile
      refine ⟨fun q hq => hk1' q (hb1 q hq), ?_⟩
      intro d hd
      rcases hk2' d hd with h' | ⟨h', h''⟩
      · rcases hb2 d h' with h3 | ⟨h3, h4⟩
        · exact Or.inl h3
        · exact Or.inr ⟨hk1' d h3, h4⟩
      · exact Or.inr ⟨h', by rw [← hcf2]; exact h''⟩

theorem okTop_of_okDeep (o : Op) (h : okDeep o = true) : okTop o = true := by
  cases o with
  | simple _ _ _ _ => rfl
  | buildFile p c f a k subs r cr raised sf ct =>
    simp only [okDeep, Bool.and_eq_true] at h; simp only [okTop, Bool.and_eq_true]; exact h.1
  | subbuild f a k subs r raised sf =>
    simp only [okDeep, Bool.and_eq_true] at h; simp only [okTop, Bool.and_eq_true]; exact h.1

theorem okDeep_of_mem (ops : List Op) (h : okDeepL ops = true) : ∀ o ∈ ops, okDeep o = true := by
  induction ops with
  | nil => intro o ho; cases ho
  | cons x r ih =>
    simp only [okDeepL, Bool.and_eq_true] at h
    intro o ho
    rcases List.mem_cons.mp ho with rfl | ho
    · exact h.1
    · exact ih h.2 o ho

/-- **C05 for programs of any nesting depth, two whole builds**: a first build (no cache file) of ANY program in which
    every call succeeds, whose outputs (at every depth) are unrelated by the prefix order, on a tree that holds none
    of the paths the build is going to create — followed by a second build with nothing changed: the second build
    invokes NO user function and returns the same value. -/
theorem C05_nested_rebuild (w : KWorld) (cf : Path) (name : String) (versions : List (String × Json)) (prog : Prog)
    (hwf : BuildDirs.TreeWF w.fs) (hnocache : w.fs.get cf = none) (cds : List Path)
    (hcds : dirsToMake (visible (Impl.buildStart w cf versions [] [] (noRec name versions) []).sp) cf [] cf.dropLast = .ok cds)
    (v : Json) (s2 : KSt) (ops : List Op)
    (hrun : Impl.run prog none (Impl.buildStart w cf versions [] [] (noRec name versions) cds) = (.ok v, s2, ops))
    (hok : okDeepL ops = true) (hanti : Antichain (targetsDeepL ops))
    (hargs : ∀ o ∈ ops, argsRefl o = true)
    (hfresh : ∀ k, (k ∈ s2.sp.claimedFiles ∨ k ∈ s2.sp.createdDirs ∨ k ∈ cds ∨ k = cf) → w.fs.get k = none)
    (hcdsT : ∀ d ∈ cds, d ∉ targetsDeepL ops)
    (hver : ∀ f, isEqual (verOf versions f) (verOf versions f) = true) :
    (Impl.build w cf name versions prog).res = .ok v ∧
    (Impl.build (Impl.build w cf name versions prog).world cf name versions prog).res = .ok v ∧
    (Impl.build (Impl.build w cf name versions prog).world cf name versions prog).invLog = [] := by
  -- the first build
  have hcs : w.cacheState cf = .absent := by simp [KWorld.cacheState, hnocache]
  have hb1 : Impl.build w cf name versions prog = Impl.buildGo w cf name versions prog [] [] 0 (noRec name versions) := by
    simp [Impl.build, hcs, noRec]
  have hgo1 := buildGo_ok w cf name versions prog (noRec name versions) cds s2 ops v hcds hrun
  have hcfne : cf ≠ [] := by intro e; rw [e, get_nil] at hnocache; cases hnocache
  have hs1fs := buildStart_noRec_fs w cf name versions cds hnocache
  have hr1 : (Impl.run prog none (Impl.buildStart w cf versions [] [] (noRec name versions) cds)).2.1 = s2 := by rw [hrun]
  have hr2 : (Impl.run prog none (Impl.buildStart w cf versions [] [] (noRec name versions) cds)).2.2 = ops := by rw [hrun]
  have hold0 : (Impl.buildStart w cf versions [] [] (noRec name versions) cds).old.roots = [] := rfl
  have hfacts := nested_first_facts prog none _ hold0 rfl rfl (by rw [hr2]; exact hok)
  rw [hr1, hr2] at hfacts
  have hokrun := nested_ok_run prog none _ hold0 rfl rfl (by rw [hr2]; exact hok)
  rw [hr1] at hokrun
  have hkeeps := run_keeps prog none _ hold0 rfl rfl
  rw [hr1] at hkeeps
  -- the directories the first build records are directories when it ends (derived, not assumed)
  have hcdsDir := mkdirs_dirsToMake (visible (Impl.buildStart w cf versions [] [] (noRec name versions) []).sp) cf [] _ cf.dropLast cds w.fs rfl hcds
    (fun a ha => by
      have := visible_isDir _ a ha
      rw [buildStart_noRec_fs w cf name versions [] hnocache] at this
      exact this)
    (fun x hx => hfresh x (Or.inr (Or.inr (Or.inl hx))))
  have habs0 : ∀ p ∈ targetsDeepL ops, (Impl.buildStart w cf versions [] [] (noRec name versions) cds).sp.fs.get p = none := by
    intro p hp
    rw [hs1fs]
    obtain ⟨_, hcl, _⟩ := hfacts.outs p hp
    rcases Rollback.mkdirs_get_mem cds w.fs p with h' | ⟨hm, _, _⟩
    · rw [h']; exact hfresh p (Or.inl hcl)
    · exact absurd hp (hcdsT p hm)
  have hkept := run_dirs_kept prog none _ hold0 rfl rfl (by rw [hr2]; exact hok) (by rw [hr2]; exact hanti) (by rw [hr2]; exact habs0)
  rw [hr1] at hkept
  have hdirs : ∀ d, (d ∈ s2.sp.createdDirs ∨ d ∈ cds) → s2.sp.fs.isDir d = true ∧ d ≠ cf := by
    intro d hd
    rcases hd with hd | hd
    · rcases hkept.2 d hd with h' | h'
      · cases h'
      · exact h'
    · refine ⟨hkept.1 d (by rw [hs1fs]; exact hcdsDir.2.1 d hd), ?_⟩
      intro e; subst e
      exact dirsToMake_not_cf _ _ _ _ _ _ rfl hcds hd
  -- the world it leaves
  rw [hb1, hgo1]
  refine ⟨rfl, ?_⟩
  simp only
  generalize hw1 : nextWorld w cf s2 (writtenRec name versions ops s2 cds) = w1
  have hw1fs : w1.fs = s2.sp.fs.set cf (.file (cacheToken w.nextSerial) 0) := by rw [← hw1]; rfl
  have hw1ds : w1.dirSize = w.dirSize := by rw [← hw1]; rfl
  have hcs1 : w1.cacheState cf = .valid (writtenRec name versions ops s2 cds) := by
    rw [← hw1]
    simp [KWorld.cacheState, nextWorld, FS.write, get_set_self _ _ _ hcfne]
  have hb2 : Impl.build w1 cf name versions prog =
      Impl.buildGo w1 cf name versions prog [] [] 0 (writtenRec name versions ops s2 cds) := by
    simp [Impl.build, hcs1, writtenRec]
  rw [hb2]
  -- clean recovers the start tree
  have houts : (writtenRec name versions ops s2 cds).toRec.outputs = Spec.dedup (targetsDeepL ops) := by
    show Spec.dedup (CacheRec.outputs _) = _
    have := outputs_eq_targetsDeep name ops hok
    unfold CacheRec.outputs at this ⊢
    exact congrArg Spec.dedup this
  have hcd : (writtenRec name versions ops s2 cds).toRec.createdDirs = Spec.dedup (s2.sp.createdDirs.reverse ++ cds) := rfl
  have hclaimed_out : ∀ p ∈ s2.sp.claimedFiles, p ∈ targetsDeepL ops := by
    intro p hp
    rcases hfacts.claimed p hp with h | h
    · cases h
    · exact h
  have hpre : preClean w1.fs cf (writtenRec name versions ops s2 cds).toRec = w.fs := by
    apply preClean_recovers w1.fs w.fs cf _ hwf
    · intro k hk
      rw [houts, hcd] at hk
      apply hfresh
      rcases List.mem_append.mp hk with h | h
      · rcases List.mem_append.mp h with h' | h'
        · exact Or.inl ((hfacts.outs k ((mem_dedup _ _).mp h')).2.1)
        · rcases List.mem_append.mp ((mem_dedup _ _).mp h') with h'' | h''
          · exact Or.inr (Or.inl (List.mem_reverse.mp h''))
          · exact Or.inr (Or.inr (Or.inl h''))
      · simp at h; exact Or.inr (Or.inr (Or.inr h))
    · have hK1 : ∀ p ∈ s2.sp.claimedFiles, p ∈ (writtenRec name versions ops s2 cds).toRec.outputs ++
          (writtenRec name versions ops s2 cds).toRec.createdDirs ++ [cf] := by
        intro p hp; rw [houts]; simp [mem_dedup, hclaimed_out p hp]
      have hK2 : ∀ d ∈ s2.sp.createdDirs, d ∈ (writtenRec name versions ops s2 cds).toRec.outputs ++
          (writtenRec name versions ops s2 cds).toRec.createdDirs ++ [cf] := by
        intro d hd; rw [hcd]; simp [mem_dedup, hd]
      have hK3 : ∀ d ∈ cds, d ∈ (writtenRec name versions ops s2 cds).toRec.outputs ++
          (writtenRec name versions ops s2 cds).toRec.createdDirs ++ [cf] := by
        intro d hd; rw [hcd]; simp [mem_dedup, hd]
      rw [hw1fs, strip_set _ _ cf _ (by simp), hokrun.strip _ hK1 hK2, hs1fs, strip_mkdirs _ cds hK3]
      apply strip_idem_of_none
      · intro hm
        have : w.fs.get [] = none := by
          apply hfresh
          rw [houts, hcd] at hm
          rcases List.mem_append.mp hm with h | h
          · rcases List.mem_append.mp h with h' | h'
            · exact Or.inl ((hfacts.outs _ ((mem_dedup _ _).mp h')).2.1)
            · rcases List.mem_append.mp ((mem_dedup _ _).mp h') with h'' | h''
              · exact Or.inr (Or.inl (List.mem_reverse.mp h''))
              · exact Or.inr (Or.inr (Or.inl h''))
          · simp at h; exact Or.inr (Or.inr (Or.inr h.symm))
        rw [get_nil] at this; cases this
      · intro k hk
        rw [houts, hcd] at hk
        apply hfresh
        rcases List.mem_append.mp hk with h | h
        · rcases List.mem_append.mp h with h' | h'
          · exact Or.inl ((hfacts.outs k ((mem_dedup _ _).mp h')).2.1)
          · rcases List.mem_append.mp ((mem_dedup _ _).mp h') with h'' | h''
            · exact Or.inr (Or.inl (List.mem_reverse.mp h''))
            · exact Or.inr (Or.inr (Or.inl h''))
        · simp at h; exact Or.inr (Or.inr (Or.inr h))
    · intro p hp
      rw [houts] at hp
      obtain ⟨⟨c, m, hg⟩, _, hne⟩ := hfacts.outs p ((mem_dedup _ _).mp hp)
      have hne' : p ≠ cf := hne
      rw [hw1fs]
      simp [FS.isFile, get_set_ne _ _ _ _ hne', hg]
    · rw [hw1fs]; simp [FS.isFile, get_set_self _ _ _ hcfne]
    · intro d hd
      rw [hcd] at hd
      have hd' : d ∈ s2.sp.createdDirs ∨ d ∈ cds := by
        rcases List.mem_append.mp ((mem_dedup _ _).mp hd) with h | h
        · exact Or.inl (List.mem_reverse.mp h)
        · exact Or.inr h
      obtain ⟨h1, h2⟩ := hdirs d hd'
      rw [hw1fs]
      unfold FS.isDir at h1 ⊢
      rw [get_set_ne _ _ _ _ h2]; exact h1
  -- the second build starts from the same tree
  have hsp0 : (Impl.buildStart w cf versions [] [] (noRec name versions) []).sp.fs = w.fs := by
    rw [buildStart_noRec_fs w cf name versions [] hnocache]; rfl
  have hsp0' : (Impl.buildStart w1 cf versions [] [] (writtenRec name versions ops s2 cds) []).sp.fs = w.fs := by
    show mkdirs (preClean w1.fs cf (writtenRec name versions ops s2 cds).toRec) [] = _
    rw [hpre]; rfl
  have hvis : visible (Impl.buildStart w1 cf versions [] [] (writtenRec name versions ops s2 cds) []).sp =
      visible (Impl.buildStart w cf versions [] [] (noRec name versions) []).sp := by
    unfold Spec.visible
    rw [hsp0, hsp0']
    rfl
  have hcds' : dirsToMake (visible (Impl.buildStart w1 cf versions [] [] (writtenRec name versions ops s2 cds) []).sp) cf []
      cf.dropLast = .ok cds := by rw [hvis]; exact hcds
  obtain ⟨hinv2, hres2⟩ := buildGo_invLog w1 cf name versions prog (writtenRec name versions ops s2 cds) cds hcds'
  have hs1'fs : (Impl.buildStart w1 cf versions [] [] (writtenRec name versions ops s2 cds) cds).sp.fs = mkdirs w.fs cds := by
    show mkdirs (preClean w1.fs cf (writtenRec name versions ops s2 cds).toRec) cds = _
    rw [hpre]
  have hsame : Same (Impl.buildStart w cf versions [] [] (noRec name versions) cds)
      (Impl.buildStart w1 cf versions [] [] (writtenRec name versions ops s2 cds) cds) :=
    ⟨by rw [hs1'fs, hs1fs], rfl, hw1ds, rfl, rfl, rfl, rfl, rfl, rfl, rfl⟩
  have hkeys : (subKeysDeepL ops).Pairwise (fun x y => heq x y = false ∧ heq y x = false) := by
    have := (run_keys prog none _ hold0 rfl rfl (by rw [hr2]; exact hok)).pw
    rw [hr2] at this; exact this
  have hcached := cachedIn_nested ops hok (hanti.imp (fun h => h.1)) hkeys
    (writtenRec name versions ops s2 cds) rfl
  have hsecond := nested_second_run prog none _ _ s2 hold0 hsame
    (fun f _ => by
      show isEqual (verOf (writtenRec name versions ops s2 cds).versions f) (verOf versions f) = true
      exact hver f)
    (by rw [hr2]; exact hok)
    (by rw [hr2]; exact fun o ho => ⟨hcached o ho (okTop_of_okDeep o (okDeep_of_mem ops hok o ho)), hargs o ho⟩)
    (by rw [hr2]; exact hanti)
    (by rw [hr2]; exact habs0)
    (by rw [hr1]; exact FirstKeeps.refl s2 hkeeps.ff hkeeps.fsb)
    (by
      rw [hr2]
      intro p hp
      obtain ⟨⟨c, m, hg⟩, _, hne⟩ := hfacts.outs p hp
      have hne' : p ≠ cf := hne
      have hpne : p ≠ [] := by intro e; rw [e, get_nil] at hg; cases hg
      rw [buildStart_shelf_get w1 cf versions _ cds p hpne, houts]
      have hw1g : w1.fs.get p = some (.file c m) := by rw [hw1fs, get_set_ne _ _ _ _ hne']; exact hg
      simp [mem_dedup, hp, hw1g, hg])
  obtain ⟨e1, e2, _, _, _⟩ := hsecond
  refine ⟨?_, ?_⟩
  · apply hres2
    rw [e1, hrun]
  · rw [hinv2, e2]
    rfl

/-! ### non-vacuity: a `build_file` inside a `subbuild`, built twice on an empty tree -/

set_option maxRecDepth 4000 in
theorem n_first_sets : (Impl.run nRoot none fxS).2.1.sp.claimedFiles = [["x"]] ∧ (Impl.run nRoot none fxS).2.1.sp.createdDirs = [] ∧
    (Impl.run nRoot none fxS).1 = .ok .null := by
  have h : dirsToMake (visible fxS.sp) fxS.sp.cacheFile fxS.sp.inProg [] = .ok [] := by rw [dirsToMake]; simp
  simp [nRoot, exRoot, exBody, Impl.run, bfSetup, fxS, FS.isDir, FS.get, lookupFile, lookupSub, CacheRec.getFile, CacheRec.getSub, registeredL,
    afterSetup, missStart, liftSp, sanitize, bfFinish, pendingFind, withSp, cmpBuilt, View.cmpResult, setupState, mkdirs,
    FS.isFile, FS.set, FS.erase, clearWay, subClaim, Impl.subStart, Spec.visible] at h ⊢
  rw [h]
  simp [pendingFind, FS.set, FS.erase, FS.get, cmpBuilt, View.cmpResult, withSp, sanitize]

example : (Impl.build fxW ["c"] "n" [] nRoot).res = .ok .null ∧
    (Impl.build (Impl.build fxW ["c"] "n" [] nRoot).world ["c"] "n" [] nRoot).res = .ok .null ∧
    (Impl.build (Impl.build fxW ["c"] "n" [] nRoot).world ["c"] "n" [] nRoot).invLog = [] := by
  obtain ⟨hops, hfs, _⟩ := n_first
  obtain ⟨hcl, hcd, hres⟩ := n_first_sets
  have hcds : dirsToMake (visible (Impl.buildStart fxW ["c"] [] [] [] (noRec "n" []) []).sp) ["c"] [] (["c"] : Path).dropLast = .ok [] := by
    rw [dirsToMake]; simp
  have hrun : Impl.run nRoot none (Impl.buildStart fxW ["c"] [] [] [] (noRec "n" []) []) =
      (.ok .null, (Impl.run nRoot none fxS).2.1, (Impl.run nRoot none fxS).2.2) := by
    rw [fxW_start, ← hres]
  exact C05_nested_rebuild fxW ["c"] "n" [] nRoot (fun p hp hg => by simp [fxW, FS.get, hp] at hg)
    (by simp [fxW, FS.get]) [] hcds .null _ _ hrun
    (by rw [hops]; simp [okDeepL, okDeep])
    (by rw [hops]; simp [targetsDeepL, targetsDeep, Antichain])
    (by rw [hops]; intro o ho; simp at ho; subst ho; rfl)
    (by
      intro k hk
      rw [hcl, hcd] at hk
      have hkne : k ≠ [] := by
        rcases hk with h | h | h | h
        · simp at h; rw [h]; simp
        · simp at h
        · simp at h
        · rw [h]; simp
      simp [fxW, FS.get, hkne])
    (by intro d hd; cases hd)
    (by intro f; simp [verOf, isEqual])

end FB
