/-
  C15 — refused calls have no side effects (model: FB.Spec.build/clean and FB.Impl.build/clean).
  The wrong-argument-type refusals of the Python API layer are not modelled; they are decided by
  the correspondence check on the real code alone.
-/
import FB.Impl
namespace FB

/-- the cache file makes `build(name)` refuse -/
def RefusesBuild (cs : CacheState) (name : String) : Prop :=
  match cs with
  | .isDir => True
  | .corrupt => True
  | .valid r => r.buildName ≠ name
  | .absent => False

def KRefusesBuild (cs : KCacheState) (name : String) : Prop :=
  match cs with
  | .isDir => True
  | .corrupt => True
  | .valid r => r.buildName ≠ name
  | .absent => False

/-- C15 (reference): a refused build raises, changes nothing and calls no user function —
    whatever the program is. -/
theorem C15_spec_build_refused (w : World) (cf : Path) (name : String) (root : Prog)
    (h : RefusesBuild (w.cacheState cf) name) :
    (∃ e, (Spec.build w cf name root).res = .error e) ∧
    (Spec.build w cf name root).world = w ∧ (Spec.build w cf name root).invLog = [] := by
  unfold Spec.build
  cases hc : w.cacheState cf with
  | absent => simp [RefusesBuild, hc] at h
  | isDir => simp
  | corrupt => simp
  | valid r =>
    have hn : r.buildName ≠ name := by simpa [RefusesBuild, hc] using h
    simp [hn]

/-- C15 (cache logic): the same for the implementation model. -/
theorem C15_impl_build_refused (w : KWorld) (cf : Path) (name : String)
    (vs : List (String × Json)) (root : Prog) (h : KRefusesBuild (w.cacheState cf) name) :
    (∃ e, (Impl.build w cf name vs root).res = .error e) ∧
    (Impl.build w cf name vs root).world = w ∧ (Impl.build w cf name vs root).invLog = [] ∧
    (Impl.build w cf name vs root).written = none := by
  unfold Impl.build
  cases hc : w.cacheState cf with
  | absent => simp [KRefusesBuild, hc] at h
  | isDir => simp
  | corrupt => simp
  | valid r =>
    have hn : r.buildName ≠ name := by simpa [KRefusesBuild, hc] using h
    simp [hn]

/-- the cache file makes `clean(name?)` refuse -/
def RefusesClean (cs : CacheState) (name : Option String) : Prop :=
  match cs with
  | .isDir => True
  | .corrupt => True
  | .valid r => name.isSome ∧ name ≠ some r.buildName
  | .absent => False

/-- C15: a refused clean raises and changes nothing. -/
theorem C15_spec_clean_refused (w : World) (cf : Path) (name : Option String)
    (h : RefusesClean (w.cacheState cf) name) :
    (∃ e, (Spec.clean w cf name).res = .error e) ∧ (Spec.clean w cf name).world = w := by
  unfold Spec.clean
  cases hc : w.cacheState cf with
  | absent => simp [RefusesClean, hc] at h
  | isDir => simp
  | corrupt => simp
  | valid r =>
    have hn : name.isSome ∧ name ≠ some r.buildName := by simpa [RefusesClean, hc] using h
    simp [hn]

/-- the hypotheses are satisfiable: a world whose cache path is a directory -/
example : RefusesBuild (({ fs := [(["c"], .dir)] } : World).cacheState ["c"]) "n" := by
  simp [World.cacheState, FS.get, RefusesBuild]

end FB
