/-
  C08 — at most one execution per key (sequential part; the thread clause is `FB.Conc`).
-/
import FB.Lemmas.ReplayBasic
import FB.Lemmas.RunPending
namespace FB
open FS Spec

/-- C08: a second `build_file` for a claimed path (being built, built, failed, or registered by a
    reused subtree) is rejected before anything happens. -/
theorem C08_dup_file_rejected (sp : SpecSt) (path : Path) (h : path ∈ sp.claimedFiles) :
    bfSetup sp path = .error (.runtime .dupFile) := by
  unfold bfSetup; simp [h]

/-- C08: the rejected call invokes nothing and disturbs neither the tree, nor the claims, nor the
    outputs, nor what the first call has written — for the reference and for the cache logic. -/
theorem C08_dup_file_no_effect (path : Path) (cmp : Cmp) (fname : String) (args kwargs : Json)
    (body : Prog) (k : CallRes → Prog) (t : Option Path) (sp : SpecSt) (h : path ∈ sp.claimedFiles) :
    run (.buildFile path cmp fname args kwargs body k) t sp =
      (let rk := run (k (.error (.runtime .dupFile))) t (setupFailState sp path (.runtime .dupFile))
       (rk.1, rk.2.1, CallNode.mk fname (some path) args kwargs "setup:RuntimeError" [] :: rk.2.2)) ∧
    (setupFailState sp path (.runtime .dupFile)).fs = sp.fs ∧
    (setupFailState sp path (.runtime .dupFile)).claimedFiles = sp.claimedFiles ∧
    (setupFailState sp path (.runtime .dupFile)).outputs = sp.outputs ∧
    (setupFailState sp path (.runtime .dupFile)).pending = sp.pending ∧
    (setupFailState sp path (.runtime .dupFile)).invLog = sp.invLog := by
  refine ⟨?_, rfl, rfl, rfl, rfl, rfl⟩
  simp only [run, C08_dup_file_rejected sp path h]
  rfl

/-- C08: a second `subbuild` with a JSON-equal key is rejected the same way. -/
theorem C08_dup_sub_no_effect (fname : String) (args kwargs : Json) (body : Prog) (k : CallRes → Prog)
    (t : Option Path) (sp : SpecSt) (h : sp.claimedSubs.any (heq (subKey fname args kwargs)) = true) :
    run (.subbuild fname args kwargs body k) t sp =
      (let rk := run (k (.error (.runtime .dupSub))) t sp
       (rk.1, rk.2.1, CallNode.mk fname none args kwargs "setup:RuntimeError" [] :: rk.2.2)) := by
  simp only [run, h, if_true]

/-- C08 (implied duplicates): reusing a recorded subtree registers its keys, so that a later call with
    one of them is rejected; and the subtree is reused only if none of its keys is claimed yet. -/
theorem C08_reuse_checks_and_claims (path : Path) (cmp : Cmp) (fname : String) (args kwargs : Json)
    (subs : List Op) (ret cmpRes : Json) (raised sf : Bool) (content : String) (s s' : KSt) (hwf : s.WF)
    (h : Impl.replayOp (.buildFile path cmp fname args kwargs subs ret cmpRes raised sf content) s = some s') :
    path ∉ s.sp.claimedFiles ∧ path ∈ s'.sp.claimedFiles := by
  obtain ⟨_, _, _, hncl, _, _, made, s2, _, _, hs2, hs'⟩ := replayOp_buildFile_some _ _ _ _ _ _ _ _ _ _ _ _ _ h
  refine ⟨hncl, ?_⟩
  have hwf1 : (replayS1 s path made raised).WF := by
    intro p hp
    simp only [replayS1, List.mem_cons] at hp ⊢
    rcases hp with rfl | hp
    · exact Or.inl rfl
    · exact Or.inr (hwf p hp)
  have k12 := replayOps_keeps subs _ s2 hwf1 hs2
  have : path ∈ s2.sp.claimedFiles := k12.claimed path (by simp [replayS1])
  subst hs'
  cases raised <;> simpa [Impl.unwind, Impl.adopt] using this

/-- C08: a rejected attempt (`setup_failed`) is never served from the cache: replay refuses every tree
    that contains one at its root, and `registered` never lists one. -/
theorem C08_rejected_never_served_file (path : Path) (cmp : Cmp) (fname : String) (args kwargs : Json)
    (subs : List Op) (ret cmpRes : Json) (raised : Bool) (content : String) (s : KSt) :
    Impl.replayOp (.buildFile path cmp fname args kwargs subs ret cmpRes raised true content) s = none := by
  cases h : Impl.replayOp (.buildFile path cmp fname args kwargs subs ret cmpRes raised true content) s with
  | none => rfl
  | some s' =>
    obtain ⟨_, _, hsf, _⟩ := replayOp_buildFile_some _ _ _ _ _ _ _ _ _ _ _ _ _ h
    cases hsf

theorem C08_rejected_never_served_sub (fname : String) (args kwargs : Json) (subs : List Op) (ret : Json)
    (raised : Bool) (s : KSt) :
    Impl.replayOp (.subbuild fname args kwargs subs ret raised true) s = none := by
  cases h : Impl.replayOp (.subbuild fname args kwargs subs ret raised true) s with
  | none => rfl
  | some s' =>
    obtain ⟨_, hsf, _⟩ := replayOp_subbuild_some _ _ _ _ _ _ _ _ _ h
    cases hsf

end FB
