/-
  C04 — the reference model's start-of-build tree (`Spec.preClean`: erase the old outputs and the cache file,
  then `rmdir` the old created directories deepest first) removes exactly the directories that are `Gone`
  (`FB.BuildDirs.Gone`, the declarative notion the memoised scan of `build_dirs.py` is proved to decide).
  Hence what `SimpleOperationExecutor` answers at the start of a build (`C04_start_exists`) is what the
  reference model's tree says.
-/
import FB.Props.C02Rollback
import FB.Props.C04Start
import FB.Props.C12
namespace FB
namespace BuildDirs
open FS Spec

theorem eraseFiles_get : ∀ (ps : List Path) (fs : FS) (q : Path),
    (ps.foldl (fun fs p => if fs.isFile p then fs.erase p else fs) fs).get q =
      if q ∈ ps ∧ fs.isFile q = true then none else fs.get q := by
  intro ps
  induction ps with
  | nil => intro fs q; simp
  | cons f rest ih =>
    intro fs q
    simp only [List.foldl]
    rw [ih]
    by_cases hf : fs.isFile f = true
    · simp only [hf, if_true]
      have hfne : f ≠ [] := by intro e; subst e; simp [FS.isFile, get_nil] at hf
      by_cases hqf : q = f
      · subst hqf
        have h1 : (fs.erase q).isFile q = false := by simp [FS.isFile, get_erase_self _ _ hfne]
        simp [h1, hf, get_erase_self _ _ hfne]
      · have h1 : (fs.erase f).get q = fs.get q := get_erase_ne _ _ _ hqf
        have h2 : (fs.erase f).isFile q = fs.isFile q := by simp [FS.isFile, h1]
        simp [h1, h2, hqf]
    · simp only [hf, Bool.false_eq_true, if_false]
      by_cases hqf : q = f
      · subst hqf; simp [hf]
      · simp [hqf]

/-- the tree after the two erasing steps of `preClean` -/
def erased (fs : FS) (cf : Path) (outputs : List Path) : FS :=
  let fs1 := outputs.foldl (fun fs p => if fs.isFile p then fs.erase p else fs) fs
  if fs1.isFile cf then fs1.erase cf else fs1

theorem preClean_eq (fs : FS) (cf : Path) (r : Rec) : preClean fs cf r = rmEmpty (erased fs cf r.outputs) r.createdDirs := rfl

theorem isFile_eq_of_get {a b : FS} {q : Path} (h : a.get q = b.get q) : a.isFile q = b.isFile q := by
  simp [FS.isFile, h]

theorem erased_get (fs : FS) (cf : Path) (outputs : List Path) (q : Path) :
    (erased fs cf outputs).get q = if q ∈ outputs ++ [cf] ∧ fs.isFile q = true then none else fs.get q := by
  have h1 := eraseFiles_get outputs fs
  generalize hfs1 : (outputs.foldl (fun fs p => if fs.isFile p then fs.erase p else fs) fs) = fs1 at h1
  have hdef : erased fs cf outputs = if fs1.isFile cf then fs1.erase cf else fs1 := by
    unfold erased; simp only [hfs1]
  rw [hdef]
  have hcf : fs1.isFile cf = (if cf ∈ outputs ∧ fs.isFile cf = true then false else fs.isFile cf) := by
    by_cases ho : cf ∈ outputs ∧ fs.isFile cf = true
    · have : fs1.get cf = none := by rw [h1]; simp [ho]
      simp [FS.isFile, this, ho]
    · have : fs1.get cf = fs.get cf := by rw [h1]; simp [ho]
      rw [isFile_eq_of_get this]; simp [ho]
  by_cases hc : fs1.isFile cf = true
  · simp only [hc, if_true]
    have hcne : cf ≠ [] := by intro e; subst e; simp [FS.isFile, get_nil] at hc
    have hfcf : fs.isFile cf = true := by
      rw [hcf] at hc
      by_cases ho : cf ∈ outputs ∧ fs.isFile cf = true
      · exact ho.2
      · simpa [ho] using hc
    by_cases hq : q = cf
    · subst hq
      rw [get_erase_self _ _ hcne]
      simp [hfcf]
    · rw [get_erase_ne _ _ _ hq, h1]
      simp [hq]
  · simp only [hc, Bool.false_eq_true, if_false]
    rw [h1]
    by_cases hq : q = cf
    · subst hq
      have hc' : fs1.isFile q = false := by simpa using hc
      rw [hcf] at hc'
      by_cases ho : q ∈ outputs ∧ fs.isFile q = true
      · simp [ho]
      · simp only [ho, if_false] at hc'
        simp [ho, hc']
    · simp [hq]

theorem isDir_false_of_isFile {fs : FS} {q : Path} (h : fs.isFile q = true) : fs.isDir q = false := by
  unfold FS.isFile at h; unfold FS.isDir
  cases hg : fs.get q with
  | none => rfl
  | some e =>
    cases e with
    | dir => rw [hg] at h; cases h
    | file c m => rfl

theorem isFile_of_exists_not_dir {fs : FS} {q : Path} (hex : fs.get q ≠ none) (h : fs.isDir q = false) : fs.isFile q = true := by
  unfold FS.isDir at h; unfold FS.isFile
  cases hg : fs.get q with
  | none => exact absurd hg hex
  | some e =>
    cases e with
    | dir => rw [hg] at h; cases h
    | file c m => rfl

theorem notUnderFile_of_exists {fs : FS} (hwf : TreeWF fs) {d : Path} (hd : fs.get d ≠ none) : underFile fs d = false := by
  cases hu : underFile fs d with
  | false => rfl
  | true =>
    obtain ⟨g, hp, hne, hf⟩ := (underFile_iff fs d).mp hu
    have hlt : g.length < d.length := by
      rcases Nat.lt_or_ge g.length d.length with h | h
      · exact h
      · exact absurd (hp.eq_of_length_le h) hne
    have := hwf.isDir_prefix (d.length - g.length - 1) g d hp (by omega) hd
    unfold FS.isFile at hf; unfold FS.isDir at this
    cases hg : fs.get g with
    | none => simp [hg] at hf
    | some e => cases e <;> simp_all


/-- `rmdir` over listed directories, starting from the erased tree, removes only directories that are `Gone` -/
theorem foldl_rmdir_only_gone (fs fs2 : FS) (dirs files : List Path) (hwf : TreeWF fs) (hv : Valid dirs files)
    (herased : ∀ q, fs2.get q = if q ∈ files ∧ fs.isFile q = true then none else fs.get q) :
    ∀ (l : List Path) (cur : FS), (∀ x ∈ l, x ∈ dirs) →
      (∀ q, cur.get q = fs2.get q ∨ (fs2.get q = some .dir ∧ q ∈ dirs ∧ Gone fs dirs files q ∧ cur.get q = none)) →
      ∀ q, (l.foldl rmdirStep cur).get q = fs2.get q ∨
        (fs2.get q = some .dir ∧ q ∈ dirs ∧ Gone fs dirs files q ∧ (l.foldl rmdirStep cur).get q = none) := by
  intro l
  induction l with
  | nil => intro cur _ h q; exact h q
  | cons d rest ih =>
    intro cur hl hinv
    simp only [List.foldl]
    apply ih (rmdirStep cur d) (fun x hx => hl x (List.mem_cons_of_mem _ hx))
    intro q
    rcases rmdirStep_get cur d q with h' | ⟨hqd, hdir, hempty, hnone⟩
    · rw [h']; exact hinv q
    · subst hqd
      right
      -- `q` was a directory without entries in `cur`
      have hq2 : fs2.get q = some .dir := by
        rcases hinv q with h1 | ⟨_, _, _, h4⟩
        · rw [← h1, hdir]
        · rw [hdir] at h4; cases h4
      have hqfs : fs.get q = some .dir := by
        rw [herased] at hq2
        split at hq2
        · cases hq2
        · exact hq2
      refine ⟨hq2, hl q (List.mem_cons_self ..), ?_, hnone⟩
      have hchild : ∀ n, n ∈ fs.listdir q → GoneChild fs dirs files (q ++ [n]) := by
        intro n hn
        have hex : fs.get (q ++ [n]) ≠ none := (mem_listdir fs q n).mp hn
        have hcur : cur.get (q ++ [n]) = none := (childNames_eq_nil_iff cur q).mp hempty n
        rcases hinv (q ++ [n]) with h1 | ⟨_, h2, h3, _⟩
        · rw [hcur] at h1
          have h1' := h1.symm
          rw [herased] at h1'
          split at h1'
          · rename_i hc
            have hnd : (q ++ [n]) ∉ dirs := fun hd => hv _ hc.1 _ hd (List.prefix_refl _)
            have hisd : fs.isDir (q ++ [n]) = false := isDir_false_of_isFile hc.2
            exact Or.inr ⟨hnd, hc.1, hisd⟩
          · exact absurd h1' hex
        · exact Or.inl ⟨h2, h3⟩
      refine Gone.empty q (notUnderFile_of_exists hwf (by rw [hqfs]; simp)) hqfs ?_ ?_
      · intro n hn ho
        rcases hchild n hn with ⟨_, h2⟩ | ⟨h1, _, _⟩
        · exact h2
        · exact absurd ho h1
      · intro n hn ho
        rcases hchild n hn with ⟨h1, _⟩ | ⟨_, h2, h3⟩
        · exact absurd h1 ho
        · exact ⟨h2, h3⟩

/-- **`preClean` removes exactly the old directories that are `Gone`** -/
theorem preClean_gone_iff (fs : FS) (cf : Path) (r : Rec) (hwf : TreeWF fs) (hv : Valid r.createdDirs (r.outputs ++ [cf]))
    (hroot : ([] : Path) ∉ r.createdDirs) (d : Path) (hd : fs.isDir d = true) :
    (preClean fs cf r).get d = none ↔ d ∈ r.createdDirs ∧ Gone fs r.createdDirs (r.outputs ++ [cf]) d := by
  have herased := erased_get fs cf r.outputs
  have hdir_kept : ∀ x, fs.isDir x = true → (erased fs cf r.outputs).get x = some .dir := by
    intro x hx
    have hg : fs.get x = some .dir := by
      unfold FS.isDir at hx
      cases hg : fs.get x with
      | none => simp [hg] at hx
      | some e => cases e <;> simp_all
    rw [herased]
    have : fs.isFile x = false := by simp [FS.isFile, hg]
    simp [this, hg]
  rw [preClean_eq]
  constructor
  · intro hnone
    have hinv := foldl_rmdir_only_gone fs (erased fs cf r.outputs) r.createdDirs (r.outputs ++ [cf]) hwf hv herased
      (r.createdDirs.mergeSort (fun a b => a.length ≥ b.length)) (erased fs cf r.outputs)
      (fun x hx => List.mem_mergeSort.mp hx) (fun q => Or.inl rfl) d
    rw [← rmEmpty_eq] at hinv
    rcases hinv with h1 | ⟨_, h2, h3, _⟩
    · rw [hnone, hdir_kept d hd] at h1; cases h1
    · exact ⟨h2, h3⟩
  · rintro ⟨hdm, hg⟩
    apply Rollback.rmEmpty_removes (fun x => x ∈ r.createdDirs ∧ Gone fs r.createdDirs (r.outputs ++ [cf]) x ∧ fs.isDir x = true)
      (erased fs cf r.outputs) r.createdDirs
    · intro x ⟨hx, _, hxd⟩
      exact ⟨fun e => hroot (e ▸ hx), Or.inr (hdir_kept x hxd)⟩
    · intro x ⟨_, hgx, hxd⟩ n hn
      have hex : fs.get (x ++ [n]) ≠ none := by
        intro e
        apply hn
        rw [herased]; split
        · rfl
        · exact e
      rcases hgx.children fs _ _ hwf n hex with ⟨h1, h2⟩ | ⟨_, h2, h3⟩
      · refine ⟨h1, h2, ?_⟩
        cases h2 with
        | absent _ _ hg0 => exact absurd hg0 hex
        | empty _ _ hg0 _ _ => simp [FS.isDir, hg0]
      · exfalso
        apply hn
        rw [herased]
        have : fs.isFile (x ++ [n]) = true := isFile_of_exists_not_dir hex h3
        simp [h2, this]
    · intro x ⟨hx, _, _⟩ _; exact hx
    · exact ⟨hdm, hg, hd⟩


theorem preClean_isFile_iff (fs : FS) (cf : Path) (r : Rec) (p : Path) :
    (preClean fs cf r).isFile p = true ↔ fs.isFile p = true ∧ p ∉ r.outputs ++ [cf] := by
  rw [preClean_eq]
  have herased := erased_get fs cf r.outputs p
  constructor
  · intro h
    obtain ⟨c, m, hg⟩ : ∃ c m, (rmEmpty (erased fs cf r.outputs) r.createdDirs).get p = some (.file c m) := by
      unfold FS.isFile at h
      cases hg : (rmEmpty (erased fs cf r.outputs) r.createdDirs).get p with
      | none => simp [hg] at h
      | some e => cases e with
        | dir => simp [hg] at h
        | file c m => exact ⟨c, m, rfl⟩
    have h1 := rmEmpty_file_rev _ _ p c m hg
    rw [herased] at h1
    split at h1
    · cases h1
    · rename_i hc
      have hf : fs.isFile p = true := by simp [FS.isFile, h1]
      exact ⟨hf, fun hm => hc ⟨hm, hf⟩⟩
  · rintro ⟨hf, hnm⟩
    obtain ⟨c, m, hg⟩ : ∃ c m, fs.get p = some (.file c m) := by
      unfold FS.isFile at hf
      cases hg : fs.get p with
      | none => simp [hg] at hf
      | some e => cases e with
        | dir => simp [hg] at hf
        | file c m => exact ⟨c, m, rfl⟩
    have h1 : (erased fs cf r.outputs).get p = some (.file c m) := by
      rw [herased]; simp [hnm, hg]
    simp [FS.isFile, rmEmpty_file _ _ p c m h1]

theorem preClean_isDir_iff (fs : FS) (cf : Path) (r : Rec) (hwf : TreeWF fs) (hv : Valid r.createdDirs (r.outputs ++ [cf]))
    (hroot : ([] : Path) ∉ r.createdDirs) (d : Path) :
    (preClean fs cf r).isDir d = true ↔
      fs.isDir d = true ∧ ¬ (d ∈ r.createdDirs ∧ Gone fs r.createdDirs (r.outputs ++ [cf]) d) := by
  have hframe := C12_preClean_frame fs cf r d
  constructor
  · intro h
    have hg : (preClean fs cf r).get d = some .dir := by
      unfold FS.isDir at h
      cases hg : (preClean fs cf r).get d with
      | none => simp [hg] at h
      | some e => cases e with
        | dir => rfl
        | file c m => simp [hg] at h
    have hd : fs.isDir d = true := by
      rcases hframe with h1 | ⟨h1, _⟩
      · simp [FS.isDir, ← h1, hg]
      · rw [hg] at h1; cases h1
    refine ⟨hd, fun hgone => ?_⟩
    have := (preClean_gone_iff fs cf r hwf hv hroot d hd).mpr hgone
    rw [hg] at this; cases this
  · rintro ⟨hd, hng⟩
    have hne : (preClean fs cf r).get d ≠ none := fun e => hng ((preClean_gone_iff fs cf r hwf hv hroot d hd).mp e)
    rcases hframe with h1 | ⟨h1, _⟩
    · unfold FS.isDir at hd ⊢
      rw [h1]; exact hd
    · exact absurd h1 hne

end BuildDirs

namespace Overlay
open BuildDirs Spec

/-- **C04, start of a build: the algorithm answers what the reference model's tree says.**
    `SimpleOperationExecutor.is_file/is_dir` on top of the memoising `BuildDirs` (constructed, as `FileBuilder`
    does, from the previous build's created directories and its outputs plus the cache file), in every state
    reachable by such queries, return exactly `isFile`/`isDir` of `Spec.preClean` — the tree `FB.Spec` starts
    every build from. -/
theorem C04_start_matches_spec (c : Ctx) (r : Rec) (hs : AtStart c (r.outputs ++ [c.cacheFile])) (hwf : TreeWF c.fs)
    (hv : Valid r.createdDirs (r.outputs ++ [c.cacheFile])) (hroot : ([] : Path) ∉ r.createdDirs)
    (b : BD) (hb : QReach c.fs r.createdDirs (r.outputs ++ [c.cacheFile]) b) (p : Path) :
    (isFile c b p).1 = (preClean c.fs c.cacheFile r).isFile p ∧
    ∀ rr b', isDir c b p = some (rr, b') → rr = (preClean c.fs c.cacheFile r).isDir p := by
  constructor
  · have h1 := (start_isFile c r.createdDirs _ hs hwf b hb p).1
    have h2 := preClean_isFile_iff c.fs c.cacheFile r p
    cases ha : (isFile c b p).1 <;> cases hb' : (preClean c.fs c.cacheFile r).isFile p <;> simp_all
  · intro rr b' hrun
    have h1 := (start_isDir c r.createdDirs _ hs hwf hv b hb p rr b' hrun).1
    have h2 := preClean_isDir_iff c.fs c.cacheFile r hwf hv hroot p
    cases rr <;> cases hb' : (preClean c.fs c.cacheFile r).isDir p <;> simp_all

end Overlay
end FB
