import FB.Props.C04
import Mathlib.Data.List.Perm.Basic
namespace FB
open FS View

/-- what `walk` reports for the directory `x` -/
def walkEntryOf (fs : FS) (x : Path) : Json :=
  .tup [.str (renderPath x),
        strArr ((names fs x).filter (fun n => !fs.isFile (x ++ [n]) && fs.isDir (x ++ [n]))),
        strArr ((names fs x).filter (fun n => fs.isFile (x ++ [n])))]

/-- **C04, `walk` agrees with `list_dir` / `is_dir` / `is_file` recursively**: every entry `walk(d)` reports is the
    entry of a directory `x` at or below `d` that is reached through directories only, and its two name lists are the
    names `list_dir(x)` reports, split by `is_dir` / `is_file` -/
theorem walkAux_entries : ∀ (fuel : Nat) (fs : FS) (d : Path) (td : Bool) (j : Json), j ∈ walkAux fuel fs d td →
    ∃ x, j = walkEntryOf fs x ∧ d <+: x ∧ (x = d ∨ fs.isDir x = true) := by
  intro fuel
  induction fuel with
  | zero => intro fs d td j hj; simp [walkAux] at hj
  | succ n ih =>
    intro fs d td j hj
    simp only [walkAux] at hj
    have hcases : j = walkEntryOf fs d ∨ j ∈ ((names fs d).filter (fun n => !fs.isFile (d ++ [n]) && fs.isDir (d ++ [n]))).flatMap
        (fun m => walkAux n fs (d ++ [m]) td) := by
      cases td with
      | true => simp only [if_true, List.mem_cons] at hj; exact hj
      | false =>
        simp only [Bool.false_eq_true, if_false, List.mem_append, List.mem_singleton] at hj
        rcases hj with h | h
        · exact Or.inr h
        · exact Or.inl h
    rcases hcases with h | h
    · exact ⟨d, h, List.prefix_refl d, Or.inl rfl⟩
    · obtain ⟨m, hm, hj'⟩ := List.mem_flatMap.mp h
      obtain ⟨x, hx, hpre, hdir⟩ := ih fs (d ++ [m]) td j hj'
      have hmd : fs.isDir (d ++ [m]) = true := by
        have := (List.mem_filter.mp hm).2
        simp only [Bool.and_eq_true] at this
        exact this.2
      refine ⟨x, hx, (List.prefix_append d [m]).trans hpre, Or.inr ?_⟩
      rcases hdir with rfl | h'
      · exact hmd
      · exact h'

/-- the two name lists of an entry: exactly the listed names, each in exactly one of the two -/
theorem walkEntryOf_lists (fs : FS) (x : Path) (n : String) :
    (n ∈ (names fs x).filter (fun n => fs.isFile (x ++ [n])) ↔ n ∈ names fs x ∧ fs.isFile (x ++ [n]) = true) ∧
    (n ∈ (names fs x).filter (fun n => !fs.isFile (x ++ [n]) && fs.isDir (x ++ [n])) ↔ n ∈ names fs x ∧ fs.isDir (x ++ [n]) = true) ∧
    (n ∈ names fs x → (fs.isFile (x ++ [n]) = true ∨ fs.isDir (x ++ [n]) = true)) := by
  refine ⟨by simp [List.mem_filter], ?_, ?_⟩
  · simp only [List.mem_filter, Bool.and_eq_true, Bool.not_eq_true']
    constructor
    · rintro ⟨h1, _, h3⟩; exact ⟨h1, h3⟩
    · rintro ⟨h1, h3⟩
      refine ⟨h1, ?_, h3⟩
      cases hf : fs.isFile (x ++ [n]) with
      | false => rfl
      | true => exact absurd ⟨hf, h3⟩ (C04_not_both fs (x ++ [n]))
  · intro h
    have := (List.mem_filter.mp h).2
    simpa [View.exists_] using this

/-- the order (`top_down`) changes the order of the entries only -/
theorem walkAux_perm : ∀ (fuel : Nat) (fs : FS) (d : Path), (walkAux fuel fs d true).Perm (walkAux fuel fs d false) := by
  intro fuel
  induction fuel with
  | zero => intro fs d; simp [walkAux]
  | succ n ih =>
    intro fs d
    simp only [walkAux, if_true, Bool.false_eq_true, if_false]
    have hb : ∀ (l : List String), (l.flatMap (fun m => walkAux n fs (d ++ [m]) true)).Perm (l.flatMap (fun m => walkAux n fs (d ++ [m]) false)) := by
      intro l
      induction l with
      | nil => simp
      | cons a r ihr => simp only [List.flatMap_cons]; exact (ih fs (d ++ [a])).append ihr
    exact ((List.perm_cons _).mpr (hb _)).trans (List.perm_append_singleton _ _).symm

theorem C04_walk_order (fs : FS) (d : Path) : (walk fs d true).Perm (walk fs d false) := by
  unfold walk
  split
  · exact walkAux_perm _ fs d
  · exact List.Perm.refl _

theorem C04_walk_consistent (fs : FS) (d : Path) (td : Bool) (j : Json) (hj : j ∈ walk fs d td) :
    ∃ x, j = walkEntryOf fs x ∧ d <+: x ∧ fs.isDir x = true := by
  unfold walk at hj
  split at hj
  · rename_i hd
    obtain ⟨x, h1, h2, h3⟩ := walkAux_entries _ fs d td j hj
    refine ⟨x, h1, h2, ?_⟩
    rcases h3 with rfl | h
    · exact hd
    · exact h
  · cases hj

theorem names_of_isDir (fs : FS) (d : Path) (n : String) (hd : fs.isDir d = true) (h : fs.isDir (d ++ [n]) = true) :
    n ∈ names fs d := by
  have hl : View.listDir fs d = .ok (names fs d) := by simp [View.listDir, hd]
  exact (C04_listDir_iff fs d _ hl n).mpr (by simp [View.exists_, h])

/-- **`walk` misses nothing**: every directory below `d` that is reached through directories (within the depth bound of
    the model) has its entry -/
theorem walkAux_complete : ∀ (fuel : Nat) (fs : FS) (d : Path) (td : Bool) (rest : List String),
    rest.length < fuel → (∀ k, k ≤ rest.length → fs.isDir (d ++ rest.take k) = true) →
    walkEntryOf fs (d ++ rest) ∈ walkAux fuel fs d td := by
  intro fuel
  induction fuel with
  | zero => intro fs d td rest h; omega
  | succ n ih =>
    intro fs d td rest hlen hdirs
    simp only [walkAux]
    have hmem : walkEntryOf fs (d ++ rest) = walkEntryOf fs d ∨ walkEntryOf fs (d ++ rest) ∈
        ((names fs d).filter (fun m => !fs.isFile (d ++ [m]) && fs.isDir (d ++ [m]))).flatMap (fun m => walkAux n fs (d ++ [m]) td) := by
      cases rest with
      | nil => left; simp
      | cons m r =>
        right
        have hd0 : fs.isDir d = true := by simpa using hdirs 0 (by simp)
        have hd1 : fs.isDir (d ++ [m]) = true := by simpa using hdirs 1 (by simp)
        apply List.mem_flatMap.mpr
        refine ⟨m, ?_, ?_⟩
        · apply List.mem_filter.mpr
          refine ⟨names_of_isDir fs d m hd0 hd1, ?_⟩
          have hnf : fs.isFile (d ++ [m]) = false := by
            cases hf : fs.isFile (d ++ [m]) with
            | false => rfl
            | true => exact absurd ⟨hf, hd1⟩ (C04_not_both fs _)
          simp [hnf, hd1]
        · have := ih fs (d ++ [m]) td r (by simp at hlen; omega) (fun k hk => by
            have := hdirs (k + 1) (by simp; omega)
            simpa [List.take_succ_cons, List.append_assoc] using this)
          simpa [List.append_assoc] using this
    cases td with
    | true =>
      simp only [if_true, List.mem_cons]
      exact hmem
    | false =>
      simp only [Bool.false_eq_true, if_false, List.mem_append, List.mem_singleton]
      rcases hmem with h | h
      · exact Or.inr h
      · exact Or.inl h

end FB
