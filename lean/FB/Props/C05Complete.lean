/-
  C05 — completeness of reuse, the part that is proved (`…_partial`).

  Full statement of C05's second half: *if nothing a record observed has changed, the record is reused*.
  `replay_sound`/`run_refines` prove the converse direction (a reuse is never wrong).  Here:

  * `replay_simple_complete` — a recorded query is accepted in every state that shows the same tree
    (no restriction);
  * `leaf_run_replays` — the record list of a function that only queries, writes its target and returns is
    accepted again, and leaves the state as it was, in every state that shows the same tree;
  * `C05_leaf_file_reused_partial`, `C05_leaf_sub_reused_partial` — hence an unchanged *leaf* call (a call
    whose function makes no nested `build_file`/`subbuild` call) is never re-executed.

  What is missing for the full statement: calls whose functions make nested calls (the shelf of leftovers
  has to supply every nested output at the moment its record is replayed — a forward-looking invariant
  over the whole record forest).  That part of C05 is decided per run by the from-scratch call tree
  (oracle categories `unjustified`, `rewritten`) and by the tie on `impl_inv`.
-/
import FB.Props.C01Follows
namespace FB
open FS Spec Impl

theorem isEqualL_strs_refl (l : List String) : isEqualL (l.map .str) (l.map .str) = true := by
  induction l with
  | nil => simp [isEqualL]
  | cons x r ih => simp [isEqualL, isEqual, ih]

theorem isEqual_strArr_refl (l : List String) : isEqual (strArr l) (strArr l) = true := by
  simp only [strArr, isEqual]; exact isEqualL_strs_refl l

theorem isEqualL_walk_refl (l : List Json) (hl : IsWalkList l) : isEqualL l l = true := by
  induction l with
  | nil => simp [isEqualL]
  | cons x r ih =>
    obtain ⟨p, ds, fs, rfl⟩ := hl x (List.mem_cons_self ..)
    have := ih (fun y hy => hl y (List.mem_cons_of_mem _ hy))
    simp [isEqualL, walkEntry, isEqual, isEqual_strArr_refl, this]

theorem cmpResult_refl (cmp : Cmp) (b : String) (m : Nat) : isEqual (View.cmpResult cmp b m) (View.cmpResult cmp b m) = true := by
  cases cmp <;> simp [View.cmpResult, isEqual, subObj, lookupWith, Num.eq]

/-- every value a query records equals itself (values are lists of names, numbers, booleans, comparison results) -/
theorem recVal_refl (ds : Nat) (f : FS) (q : Query) (v : Json) (h : View.recVal ds f q = .ok v) : isEqual v v = true := by
  cases q with
  | isFile p => simp [View.recVal] at h; subst h; simp [isEqual]
  | isDir p => simp [View.recVal] at h; subst h; simp [isEqual]
  | exists_ p => simp [View.recVal] at h; subst h; simp [isEqual]
  | listDir p =>
    simp only [View.recVal] at h
    cases hl : View.listDir f p with
    | error e => simp [hl] at h
    | ok l => simp [hl] at h; subst h; exact isEqual_strArr_refl l
  | walk p td =>
    simp [View.recVal] at h; subst h
    simp only [isEqual]
    exact isEqualL_walk_refl _ (isWalkList_walk _ _ _)
  | getSize p =>
    simp only [View.recVal] at h
    cases hl : View.getSize ds f p with
    | error e => simp [hl] at h
    | ok n => simp [hl] at h; subst h; simp [isEqual, Num.eq]
  | read p cmp =>
    simp only [View.recVal] at h
    cases hg : f.get p with
    | none => simp [hg] at h
    | some x =>
      cases x with
      | dir => simp [hg] at h
      | file b m => simp [hg] at h; subst h; exact cmpResult_refl cmp b m

/-- the record `Impl.run` writes for a query answered from the tree `f` -/
def recordOf (ds : Nat) (f : FS) (q : Query) : Op :=
  match View.recVal ds f q with
  | .ok v => Op.simple q v none (View.answer ds f q)
  | .error e => Op.simple q .null (some e) (View.answer ds f q)

/-- **a recorded query is accepted wherever the tree looks the same** -/
theorem replay_simple_complete (s : KSt) (q : Query) :
    replayOp (recordOf s.sp.dirSize (visible s.sp) q) s = some s := by
  unfold recordOf
  cases h : View.recVal s.sp.dirSize (visible s.sp) q with
  | ok v => simp [replayOp, h, recVal_refl _ _ _ _ h]
  | error e => simp [replayOp, h, isEqual]


/-- functions that only query, write their target and return: no nested `build_file`/`subbuild` -/
inductive Leaf : Prog → Prop
  | ret (v : PyVal) : Leaf (.ret v)
  | raise (e : Exc) : Leaf (.raise e)
  | query (q : Query) (k : UAns → Prog) : (∀ a, Leaf (k a)) → Leaf (.query q k)
  | write (b : String) (mt : Option Nat) (k : Prog) : Leaf k → Leaf (.write b mt k)

/-- the state with other pending writes and another clock -/
def setPC (s : KSt) (pend : List (Path × String × Nat)) (clk : Nat) : KSt :=
  { s with sp := { s.sp with pending := pend, clock := clk } }

/-- a leaf function changes nothing but its own pending output and the clock, and its record list is
    accepted again — leaving the state as it is — wherever the tree looks the same -/
theorem leaf_run_replays {prog : Prog} (h : Leaf prog) : ∀ (t : Option Path) (s : KSt),
    (∃ pend clk, (Impl.run prog t s).2.1 = setPC s pend clk) ∧
    ∀ s' : KSt, visible s'.sp = visible s.sp → s'.sp.dirSize = s.sp.dirSize →
      replayOps (Impl.run prog t s).2.2 s' = some s' := by
  induction h with
  | ret v =>
    intro t s
    simp only [Impl.run]
    split
    · exact ⟨⟨s.sp.pending, s.sp.clock, rfl⟩, fun s' _ _ => by simp [replayOps]⟩
    · exact ⟨⟨s.sp.pending, s.sp.clock, rfl⟩, fun s' _ _ => by simp [replayOps]⟩
  | raise e =>
    intro t s
    simp only [Impl.run]
    exact ⟨⟨s.sp.pending, s.sp.clock, rfl⟩, fun s' _ _ => by simp [replayOps]⟩
  | query q k _ ih =>
    intro t s
    obtain ⟨hst, hrep⟩ := ih (View.answer s.sp.dirSize (visible s.sp) q) t s
    simp only [Impl.run]
    refine ⟨hst, ?_⟩
    intro s' hv hd
    have hop := replay_simple_complete s' q
    rw [hv, hd] at hop
    unfold recordOf at hop
    simp only [replayOps]
    cases hrv : View.recVal s.sp.dirSize (visible s.sp) q with
    | ok v =>
      rw [hrv] at hop
      simp only [hop]
      exact hrep s' hv hd
    | error e =>
      rw [hrv] at hop
      simp only [hop]
      exact hrep s' hv hd
  | write b mt k _ ih =>
    intro t s
    cases t with
    | none => simp only [Impl.run]; exact ih none s
    | some p =>
      simp only [Impl.run]
      obtain ⟨⟨pend, clk, hst⟩, hrep⟩ := ih (some p) (liftSp s fun sp => { sp with pending := (p, b, mt.getD sp.clock) :: sp.pending, clock := sp.clock + 1 })
      exact ⟨⟨pend, clk, hst⟩, fun s' hv hd => hrep s' hv hd⟩

theorem cmpResult_ne_null (cmp : Cmp) (b : String) (m : Nat) : View.cmpResult cmp b m ≠ .null := by
  cases cmp <;> simp [View.cmpResult]

/-- **C05, leaf `build_file` (partial)**: a call whose function made no nested calls and succeeded is served
    from its record in every later state in which the tree looks as it did when the function started, the
    output file lies where and as it was written, the function's version is unchanged and the arguments are
    equal: the function is not run again. -/
theorem C05_leaf_file_reused_partial
    (s : KSt) (path : Path) (cmp : Cmp) (fname : String) (args kwargs : Json) (body : Prog) (hleaf : Leaf body)
    (sp1 : SpecSt) (made : List Path) (_hsetup : bfSetup s.sp path = .ok (sp1, made)) (j : Json)
    -- the original call ran its function (a miss) and succeeded
    (hfin : (bfFinish (Impl.run body (some path) (missStart (afterSetup s sp1 path made) path ⟨fname, some path, args, kwargs⟩)).2.1.sp
              path made (Impl.run body (some path) (missStart (afterSetup s sp1 path made) path ⟨fname, some path, args, kwargs⟩)).1).1 = .ok j)
    -- a later call, after its own setup
    (s' : KSt) (sp1' : SpecSt) (made' : List Path) (args' kwargs' : Json)
    (hne : path ≠ [])
    (hview : visible sp1' = visible sp1) (hds : sp1'.dirSize = sp1.dirSize)
    (hver : versionOk (afterSetup s' sp1' path made') fname = true)
    (hargs : isEqual args args' = true) (hkw : isEqual kwargs kwargs' = true) :
    let s1 := missStart (afterSetup s sp1 path made) path ⟨fname, some path, args, kwargs⟩
    let out := Impl.run body (some path) s1
    let sp3 := (bfFinish out.2.1.sp path made out.1).2
    let s3 := withSp out.2.1 sp3
    let content := match s3.sp.fs.get path with | some (.file b _) => b | _ => ""
    let op := Op.buildFile path cmp fname args kwargs out.2.2 j (cmpBuilt s3 path cmp) false false content
    -- the record is the one in the cache and the output is still there as it was written
    (afterSetup s' sp1' path made').old.getFile path = some op →
    (afterSetup s' sp1' path made').shelf.get path = s3.sp.fs.get path →
    ∃ r, lookupFile (afterSetup s' sp1' path made') path cmp fname args' kwargs' made' = some r := by
  intro s1 out sp3 s3 content op hold hshelf
  obtain ⟨⟨pend, clk, hst⟩, hrep⟩ := leaf_run_replays hleaf (some path) s1
  -- the written file
  have hfile : ∃ b m, s3.sp.fs.get path = some (.file b m) := by
    show ∃ b m, sp3.fs.get path = some (.file b m)
    have hfin' : (bfFinish out.2.1.sp path made out.1).1 = .ok j := hfin
    show ∃ b m, (bfFinish out.2.1.sp path made out.1).2.fs.get path = some (.file b m)
    unfold bfFinish at hfin' ⊢
    cases hr : out.1 with
    | error e => rw [hr] at hfin'; simp at hfin'
    | ok v =>
      rw [hr] at hfin'
      simp only at hfin' ⊢
      cases hw : pendingFind out.2.1.sp.pending path with
      | none => rw [hw] at hfin'; simp at hfin'
      | some x =>
        obtain ⟨b, m⟩ := x
        simp only
        exact ⟨b, m, get_set_self _ _ _ hne⟩
  obtain ⟨b, m, hget⟩ := hfile
  rw [hget] at hshelf
  have hcs : ∀ st : KSt, st.shelf = (afterSetup s' sp1' path made').shelf → cmpShelf st path cmp = View.cmpResult cmp b m := by
    intro st hst'
    simp [cmpShelf, hst', hshelf, hne]
  have hcb : cmpBuilt s3 path cmp = View.cmpResult cmp b m := by simp [cmpBuilt, hget]
  have hrep' := hrep (afterSetup s' sp1' path made') (by
      show visible sp1' = visible sp1
      exact hview) (by show sp1'.dirSize = sp1.dirSize; exact hds)
  unfold lookupFile
  rw [hold]
  have hcs0 := hcs (afterSetup s' sp1' path made') rfl
  simp only [op, hver, hargs, hkw, outputMatches, hcb, hcs0, cmpResult_refl, decide_true, Bool.and_self, Bool.true_and, if_true]
  rw [hrep']
  simp only [hcs0]
  have := cmpResult_ne_null cmp b m
  cases hc : View.cmpResult cmp b m <;> first | exact absurd hc this | exact ⟨_, rfl⟩


/-- **C05, leaf `subbuild` (partial)**: a subbuild whose function made no nested calls and returned is served
    from its record in every later state in which the tree looks the same and the version is unchanged. -/
theorem C05_leaf_sub_reused_partial
    (s : KSt) (fname : String) (args kwargs : Json) (body : Prog) (hleaf : Leaf body) (j : Json)
    (hok : (Impl.run body none (Impl.subStart (Impl.subClaim s (subKey fname args kwargs)) (⟨fname, none, args, kwargs⟩ : Inv))).1 = .ok j)
    (s' : KSt) (args' kwargs' : Json)
    (hview : visible s'.sp = visible s.sp) (hds : s'.sp.dirSize = s.sp.dirSize)
    (hver : versionOk s' fname = true)
    (hold : s'.old.getSub (subKey fname args' kwargs') =
      some (Op.subbuild fname args kwargs
        (Impl.run body none (Impl.subStart (Impl.subClaim s (subKey fname args kwargs)) (⟨fname, none, args, kwargs⟩ : Inv))).2.2 j false false)) :
    lookupSub (Impl.subClaim s' (subKey fname args' kwargs')) fname args' kwargs' =
      some (Op.subbuild fname args' kwargs'
        (Impl.run body none (Impl.subStart (Impl.subClaim s (subKey fname args kwargs)) (⟨fname, none, args, kwargs⟩ : Inv))).2.2 j false false,
        Impl.subClaim s' (subKey fname args' kwargs')) := by
  have _ := hok
  obtain ⟨_, hrep⟩ := leaf_run_replays hleaf none (Impl.subStart (Impl.subClaim s (subKey fname args kwargs)) (⟨fname, none, args, kwargs⟩ : Inv))
  have hrep' := hrep (Impl.subClaim s' (subKey fname args' kwargs')) hview hds
  unfold lookupSub
  have h1 : (Impl.subClaim s' (subKey fname args' kwargs')).old = s'.old := rfl
  have h2 : versionOk (Impl.subClaim s' (subKey fname args' kwargs')) fname = true := hver
  rw [h1, hold]
  simp only [h2, if_true, hrep']


/-! ### the hypotheses of `C05_leaf_file_reused_partial` are satisfiable: a function that asks one question and
    writes its target; a later state whose cache holds its record and whose shelf holds the file it wrote -/

def c5Body : Prog := .query (.isFile ["i"]) (fun _ => .write "o" none (.ret .null))
def c5S : KSt := { sp := { fs := [(["i"], .file "in" 3)], cacheFile := ["c"], dirSize := 4096, clock := 7 }, old := { buildName := "n" } }
theorem c5_leaf : Leaf c5Body := .query _ _ (fun _ => .write _ _ _ (.ret _))

def c5sp1 : SpecSt := setupState c5S.sp ["x"] []
def c5out := Impl.run c5Body (some ["x"]) (missStart (afterSetup c5S c5sp1 ["x"] []) ["x"] ⟨"f", some ["x"], .null, .null⟩)
def c5op : Op := Op.buildFile ["x"] .hash "f" .null .null c5out.2.2 .null (.str "sha:o") false false "o"
def c5S' : KSt := { sp := { fs := [(["i"], .file "in" 3)], cacheFile := ["c"], dirSize := 4096, clock := 20 },
                    old := { buildName := "n", roots := [c5op] }, shelf := [(["x"], .file "o" 7)] }
def c5sp1' : SpecSt := setupState c5S'.sp ["x"] []

theorem c5_setup : bfSetup c5S.sp ["x"] = .ok (c5sp1, []) := by
  have h : dirsToMake (visible c5S.sp) c5S.sp.cacheFile c5S.sp.inProg [] = .ok [] := by rw [dirsToMake]; simp
  simp [bfSetup, c5S, c5sp1, FS.isDir, FS.get] at h ⊢
  rw [h]; simp

example : ∃ r, lookupFile (afterSetup c5S' c5sp1' ["x"] []) ["x"] .hash "f" .null .null [] = some r := by
  refine C05_leaf_file_reused_partial c5S ["x"] .hash "f" .null .null c5Body c5_leaf c5sp1 [] c5_setup .null ?_
    c5S' c5sp1' [] .null .null (by simp) ?_ ?_ ?_ (by simp [isEqual]) (by simp [isEqual]) ?_ ?_
  · simp [Impl.run, c5Body, bfFinish, pendingFind, missStart, afterSetup, liftSp, sanitize]
  · simp [c5sp1', c5sp1, c5S', c5S, setupState, visible, mkdirs, FS.isFile, FS.get, FS.erase]
  · rfl
  · simp [versionOk, afterSetup, c5S', verOf, isEqual]
  · simp [afterSetup, c5S', CacheRec.getFile, registeredL, registered, c5op, c5out, Op.isFileAt, Impl.run, c5Body, bfFinish,
      pendingFind, missStart, liftSp, sanitize, withSp, cmpBuilt, View.cmpResult, FS.get, FS.set, FS.erase, c5sp1, c5S, setupState, mkdirs, FS.isFile]
  · simp [afterSetup, c5S', Impl.run, c5Body, bfFinish, clearWay, properAncestor,
      pendingFind, missStart, liftSp, sanitize, withSp, FS.get, FS.set, FS.erase, c5sp1, c5S, setupState, mkdirs, FS.isFile]
end FB
