/-
  C05 — "a rebuild re-runs only calls that raised last time", for programs of ANY nesting depth.
  `nested_rerun` / `C05_nested_rerun`: the second run of any program, in a state that looks the same, with the first
  run's records in the cache and its outputs on the shelf, invokes exactly the functions of the calls that raised in the
  first run and — inside those — of the nested calls that raised (`rerunDeepL`, in the order of the invocation log),
  and returns the same value.  A call that returned is served from its record even when calls nested in it had
  raised (`replay_runF`: those are re-enacted by `unwind`, not re-executed); a call nested in a re-executed function
  is looked up again and served from its record if it had returned.  Only set-up failures are excluded (`noSFL`): a
  record containing one is never reusable, its function runs again and — having succeeded — rewrites its output with a
  new modification time, after which the two runs legitimately differ.
  The two runs are kept in step by `SameW` (equal trees and claims; a target has been written in the one run iff in
  the other) and `FI` (what the first run's state satisfies, so that an executed call provably leaves the pending
  writes of the enclosing targets alone: `after_run`).
-/
import FB.Props.C05NestedFail
import FB.Props.C01Follows
namespace FB
open FS Spec Impl

theorem CacheOK_nil (ds : Nat) (old : CacheRec) (h : old.roots = []) (vs : List (String × Json)) (prog : Prog) :
    CacheOK ds old vs prog := by
  constructor
  · intro path cmp fname args kwargs body k _ p' rcmp rargs rkwargs subs ret cmpRes sf content hget
    simp [CacheRec.getFile, h, registeredL] at hget
  · intro fname args kwargs body k _ f a kk subs ret sf hget
    simp [CacheRec.getSub, h, registeredL] at hget

mutual
/-- the invocations a second run repeats: the calls that raised and, inside them, the nested calls that raised
    (newest first, like `invLog`); a call that returned is served from its record, whatever raised inside it -/
def rerunDeep : Op → List Inv
  | .simple _ _ _ _ => []
  | .buildFile p _ f a k subs _ _ raised sf _ => if raised && !sf then rerunDeepL subs ++ [⟨f, some p, a, k⟩] else []
  | .subbuild f a k subs _ raised sf => if raised && !sf then rerunDeepL subs ++ [⟨f, none, a, k⟩] else []
def rerunDeepL : List Op → List Inv
  | [] => []
  | o :: os => rerunDeepL os ++ rerunDeep o
end

theorem rerunDeepL_cons (o : Op) (os : List Op) : rerunDeepL (o :: os) = rerunDeepL os ++ rerunDeep o := by
  simp [rerunDeepL]

/-- corresponding points of the two runs: the trees and claims are equal, and a target has been written into in the
    one run iff in the other -/
structure SameW (s s' : KSt) : Prop where
  same : Same s s'
  pw : ∀ q, (PF s.sp q).isSome = (PF s'.sp q).isSome

/-- what the first run's state satisfies at every point (needed to know that an executed call leaves the pending
    writes of the enclosing targets alone) -/
structure FI (ds : Nat) (t : Option Path) (s : KSt) : Prop where
  dsz : s.sp.dirSize = ds
  wf : s.WF
  pc : PendClaimed s.sp
  tc : ∀ p, t = some p → p ∈ s.sp.claimedFiles

/-- `q` is unrelated to every target of the record list -/
def Unrel (q : Path) (tg : List Path) : Prop := ∀ p ∈ tg, ¬ q <+: p ∧ ¬ p <+: q

structure RerunPost (s s' e e' : KSt) (r r' : CallRes) (ops : List Op) : Prop where
  res : r' = r
  inv : e'.sp.invLog = rerunDeepL ops ++ s'.sp.invLog
  sw : SameW e e'
  old : e'.old = s'.old
  nv : e'.newVersions = s'.newVersions
  shelf : ∀ q, Unrel q (targetsDeepL ops) → e'.shelf.get q = s'.shelf.get q

theorem RerunPost.cons_simple {s s' e e' : KSt} {r r' : CallRes} {ops : List Op} (o : Op)
    (ht : targetsDeep o = []) (hr : rerunDeep o = []) (h : RerunPost s s' e e' r r' ops) : RerunPost s s' e e' r r' (o :: ops) :=
  ⟨h.res, by rw [rerunDeepL_cons, hr, List.append_nil]; exact h.inv, h.sw, h.old, h.nv,
   fun q hq => h.shelf q (by rw [targetsDeepL_cons, ht, List.nil_append] at hq; exact hq)⟩

theorem bfFinish_fail_both (sp sp' : SpecSt) (path : Path) (made : List Path) (r : CallRes) (e : Exc)
    (h : (bfFinish sp path made r).1 = .error e) (hw : (PF sp path).isSome = (PF sp' path).isSome) :
    (bfFinish sp' path made r).1 = .error e := by
  cases r with
  | error e' => simp only [bfFinish] at h ⊢; exact h
  | ok j =>
    have hnone : pendingFind sp.pending path = none := by
      cases hw' : pendingFind sp.pending path with
      | none => rfl
      | some x => obtain ⟨c, m⟩ := x; rw [bfFinish_ok sp path made j c m hw'] at h; cases h
    have hnone' : pendingFind sp'.pending path = none := by
      unfold PF at hw
      rw [hnone] at hw
      cases hw' : pendingFind sp'.pending path with
      | none => rfl
      | some x => rw [hw'] at hw; simp at hw
    simp only [bfFinish, hnone, hnone'] at h ⊢
    exact h

theorem nested_rerun (prog : Prog) : ∀ (t : Option Path) (s s' fin : KSt) (ds : Nat),
    s.old.roots = [] → SameW s s' → FI ds t s →
    (∀ f ∈ fnamesDeepL (Impl.run prog t s).2.2, versionOk s' f = true) →
    noSFL (Impl.run prog t s).2.2 = true →
    (∀ o ∈ registeredL (Impl.run prog t s).2.2, cachedIn s'.old o ∧ argsRefl o = true) →
    Antichain (targetsDeepL (Impl.run prog t s).2.2) →
    (∀ p ∈ targetsDeepL (Impl.run prog t s).2.2, s.sp.fs.get p = none) →
    FirstKeeps (Impl.run prog t s).2.1 fin →
    (∀ p ∈ targetsDeepL (Impl.run prog t s).2.2, s'.shelf.get p = fin.sp.fs.get p) →
    RerunPost s s' (Impl.run prog t s).2.1 (Impl.run prog t s').2.1 (Impl.run prog t s).1 (Impl.run prog t s').1
      (Impl.run prog t s).2.2 ∧ FI ds t (Impl.run prog t s).2.1 := by
  induction prog with
  | ret v =>
    intro t s s' fin ds _ hsw hfi _ _ _ _ _ _ _
    simp only [Impl.run]
    split <;> exact ⟨⟨rfl, by simp [rerunDeepL], hsw, rfl, rfl, fun _ _ => rfl⟩, hfi⟩
  | raise e =>
    intro t s s' fin ds _ hsw hfi _ _ _ _ _ _ _
    simp only [Impl.run]
    exact ⟨⟨rfl, by simp [rerunDeepL], hsw, rfl, rfl, fun _ _ => rfl⟩, hfi⟩
  | query q k ih =>
    intro t s s' fin ds h0 hsw hfi hv hok hc hanti habs hfin hsup
    simp only [Impl.run] at hv hok hc hanti habs hfin hsup ⊢
    rw [hsw.same.visible, hsw.same.dirSize]
    cases hrv : View.recVal s.sp.dirSize (visible s.sp) q with
    | ok v =>
      simp only [hrv] at hv hok hc hanti habs hsup ⊢
      rw [fnamesDeepL_cons] at hv
      simp only [fnamesDeep, List.nil_append] at hv
      rw [targetsDeepL_cons] at hanti habs hsup
      simp only [targetsDeep, List.nil_append] at hanti habs hsup
      rw [noSFL_cons] at hok
      simp only [noSF, Bool.true_and] at hok
      simp only [registeredL, registered, List.nil_append] at hc
      obtain ⟨hp, hfi'⟩ := ih _ t s s' fin ds h0 hsw hfi hv hok hc hanti habs hfin hsup
      exact ⟨hp.cons_simple _ (by simp [targetsDeep]) (by simp [rerunDeep]), hfi'⟩
    | error e =>
      simp only [hrv] at hv hok hc hanti habs hsup ⊢
      rw [fnamesDeepL_cons] at hv
      simp only [fnamesDeep, List.nil_append] at hv
      rw [targetsDeepL_cons] at hanti habs hsup
      simp only [targetsDeep, List.nil_append] at hanti habs hsup
      rw [noSFL_cons] at hok
      simp only [noSF, Bool.true_and] at hok
      simp only [registeredL, registered, List.nil_append] at hc
      obtain ⟨hp, hfi'⟩ := ih _ t s s' fin ds h0 hsw hfi hv hok hc hanti habs hfin hsup
      exact ⟨hp.cons_simple _ (by simp [targetsDeep]) (by simp [rerunDeep]), hfi'⟩
  | write b mt k ih =>
    intro t s s' fin ds h0 hsw hfi hv hok hc hanti habs hfin hsup
    simp only [Impl.run] at hv hok hc hanti habs hfin hsup ⊢
    cases t with
    | none => exact ih none s s' fin ds h0 hsw hfi hv hok hc hanti habs hfin hsup
    | some p =>
      simp only at hv hok hc hanti habs hfin hsup ⊢
      have hpcl : p ∈ s.sp.claimedFiles := hfi.tc p rfl
      have hsw1 : SameW (liftSp s fun sp => { sp with pending := (p, b, mt.getD sp.clock) :: sp.pending, clock := sp.clock + 1 })
          (liftSp s' fun sp => { sp with pending := (p, b, mt.getD sp.clock) :: sp.pending, clock := sp.clock + 1 }) := by
        refine ⟨⟨hsw.same.fs, hsw.same.cacheFile, hsw.same.dirSize, hsw.same.claimedFiles, hsw.same.claimedSubs, hsw.same.inProg,
          hsw.same.ff, hsw.same.ff', hsw.same.fsb, hsw.same.fsb'⟩, ?_⟩
        intro q
        by_cases hqp : p = q
        · subst hqp
          simp [PF, liftSp, pendingFind_cons_self]
        · have := hsw.pw q
          simp only [PF, liftSp] at this ⊢
          rw [pendingFind_cons_ne _ _ _ _ _ hqp, pendingFind_cons_ne _ _ _ _ _ hqp]
          exact this
      have hfi1 : FI ds (some p) (liftSp s fun sp => { sp with pending := (p, b, mt.getD sp.clock) :: sp.pending, clock := sp.clock + 1 }) := by
        refine ⟨hfi.dsz, hfi.wf, ?_, hfi.tc⟩
        intro q hq
        have hq' : q ∉ s.sp.claimedFiles := hq
        have hne : p ≠ q := fun e => hq' (e ▸ hpcl)
        show pendingFind ((p, b, mt.getD s.sp.clock) :: s.sp.pending) q = none
        rw [pendingFind_cons_ne _ _ _ _ _ hne]; exact hfi.pc q hq'
      obtain ⟨hp, hfi'⟩ := ih (some p) (liftSp s fun sp => { sp with pending := (p, b, mt.getD sp.clock) :: sp.pending, clock := sp.clock + 1 })
        (liftSp s' fun sp => { sp with pending := (p, b, mt.getD sp.clock) :: sp.pending, clock := sp.clock + 1 }) fin ds h0 hsw1 hfi1
        (fun f hf => by exact (versionOk_congr (b := s') rfl rfl f).trans (hv f hf)) hok hc hanti habs hfin hsup
      exact ⟨⟨hp.res, hp.inv, hp.sw, hp.old, hp.nv, hp.shelf⟩, hfi'⟩
  | buildFile path cmp fname args kwargs body k ihb ihk =>
    intro t s s' fin ds h0 hsw hfi hv hok hc hanti habs hfin hsup
    have hsame := hsw.same
    cases hsetup : bfSetup s.sp path with
    | error e =>
      exfalso
      have := run_bf_setupfail s t path cmp fname args kwargs body k e hsetup
      cases hops : (Impl.run (.buildFile path cmp fname args kwargs body k) t s).2.2 with
      | nil => rw [hops] at this; cases this
      | cons o os =>
        rw [hops] at this hok
        simp only [List.head?_cons, Option.some.injEq] at this
        subst this
        simp [noSFL, noSF] at hok
    | ok x =>
      obtain ⟨sp1, made⟩ := x
      obtain ⟨hsp1, hnc, hncf, hnd, hdm, _⟩ := bfSetup_ok_fields s.sp sp1 path made hsetup
      have hpne : path ≠ [] := by intro e; subst e; simp [FS.isDir, get_nil] at hnd
      have hlook := lookupFile_empty (afterSetup s sp1 path made) h0 path cmp fname args kwargs made
      rw [run_bf_miss s t path cmp fname args kwargs body k sp1 made hsetup hlook] at hv hok hc hanti habs hfin hsup ⊢
      simp only at hv hok hc hanti habs hfin hsup ⊢
      have hk1ff : (missStart (afterSetup s sp1 path made) path ⟨fname, some path, args, kwargs⟩).sp.failFiles = [] := by
        show sp1.failFiles = []; rw [hsp1]; exact hsame.ff
      have hk1fs : (missStart (afterSetup s sp1 path made) path ⟨fname, some path, args, kwargs⟩).sp.failSubs = [] := by
        show sp1.failSubs = []; rw [hsp1]; exact hsame.fsb
      -- the first run's state when the function starts
      have hfi1 : FI ds (some path) (missStart (afterSetup s sp1 path made) path ⟨fname, some path, args, kwargs⟩) := by
        refine ⟨?_, ?_, ?_, ?_⟩
        · show sp1.dirSize = ds; rw [hsp1]; exact hfi.dsz
        · intro p hp
          have hp' : p ∈ sp1.inProg := hp
          show p ∈ sp1.claimedFiles
          rw [hsp1] at hp' ⊢
          simp only [setupState, List.mem_cons] at hp' ⊢
          rcases hp' with rfl | hp'
          · exact Or.inl rfl
          · exact Or.inr (hfi.wf p hp')
        · intro q hq
          have hq' : q ∉ sp1.claimedFiles := hq
          show pendingFind sp1.pending q = none
          rw [hsp1] at hq' ⊢
          simp only [setupState, List.mem_cons, not_or] at hq'
          exact hfi.pc q hq'.2
        · intro p hp
          injection hp with hp
          show p ∈ sp1.claimedFiles
          rw [hsp1, ← hp]; simp [setupState]
      have hpf1 : ∀ q, PF (missStart (afterSetup s sp1 path made) path ⟨fname, some path, args, kwargs⟩).sp q = PF s.sp q := by
        intro q; show PF sp1 q = _; rw [hsp1]; rfl
      have hpath0 : PF s.sp path = none := by unfold PF; rw [hfi.pc path hnc]; rfl
      have hkb := run_keeps body (some path) (missStart (afterSetup s sp1 path made) path ⟨fname, some path, args, kwargs⟩) h0 hk1ff hk1fs
      have hab := run_absent body (some path) (missStart (afterSetup s sp1 path made) path ⟨fname, some path, args, kwargs⟩)
      have haf := after_run (ds := ds) body (some path) (missStart (afterSetup s sp1 path made) path ⟨fname, some path, args, kwargs⟩)
        hfi1.dsz hk1ff hk1fs hfi1.wf hfi1.pc hfi1.tc (CacheOK_nil ds _ h0 _ body)
      have hrr := replay_runF body (some path) (missStart (afterSetup s sp1 path made) path ⟨fname, some path, args, kwargs⟩)
        (afterSetup s' (setupState s'.sp path made) path made)
      have ihbM := ihb (some path) (missStart (afterSetup s sp1 path made) path ⟨fname, some path, args, kwargs⟩)
        (missStart (afterSetup s' (setupState s'.sp path made) path made) path ⟨fname, some path, args, kwargs⟩) fin ds h0
      generalize hout : Impl.run body (some path) (missStart (afterSetup s sp1 path made) path ⟨fname, some path, args, kwargs⟩) = out
        at hv hok hc hanti habs hfin hsup hkb hab haf hrr ihbM ⊢
      rw [fnamesDeepL_cons, fnamesDeep_bfRecord] at hv
      rw [targetsDeepL_cons, targetsDeep_bfRecord] at hanti habs hsup
      rw [noSFL_cons, Bool.and_eq_true] at hok
      have hoksubs : noSFL out.2.2 = true := noSF_bfRecord _ _ _ _ _ _ _ _ _ hok.1
      have hokrest := hok.2
      have hanti_sub : Antichain (targetsDeepL out.2.2) := hanti.left.left
      have hsub_path : ∀ p ∈ targetsDeepL out.2.2, p ≠ path ∧ ¬ p <+: path ∧ ¬ path <+: p := by
        intro p hp
        exact Antichain.ne_of_mem_append hanti.left hp (List.mem_singleton.mpr rfl)
      have hmade_pre : ∀ d ∈ made, d <+: path := fun d hd =>
        (Backups.dirsToMake_prefix _ _ _ _ _ _ rfl hdm d hd).trans (List.dropLast_prefix path)
      have hpath_made : path ∉ made := by
        intro hm
        have := Backups.dirsToMake_prefix _ _ _ _ _ _ rfl hdm path hm
        have hl := this.length_le
        simp [List.length_dropLast] at hl
        have : path.length ≠ 0 := by simpa using hpne
        omega
      have hnot_made : ∀ p, ¬ p <+: path → p ∉ made := fun p hp hm => hp (hmade_pre p hm)
      have habs_path : s.sp.fs.get path = none := habs path (by simp)
      have hk1fs' : sp1.fs = Spec.mkdirs s.sp.fs made := by
        rw [hsp1]; unfold setupState; simp only
        have : (Spec.mkdirs s.sp.fs made).get path = none := by
          rcases Rollback.mkdirs_get_mem made s.sp.fs path with h' | ⟨hm, _, _⟩
          · rw [h', habs_path]
          · exact absurd hm hpath_made
        simp [FS.isFile, this]
      have hsetup' := bfSetup_same hsame path sp1 made hsetup
      have hsame1 : Same (missStart (afterSetup s sp1 path made) path ⟨fname, some path, args, kwargs⟩)
          (afterSetup s' (setupState s'.sp path made) path made) := by
        refine ⟨?_, ?_, ?_, ?_, ?_, ?_, hk1ff, hsame.ff', hk1fs, hsame.fsb'⟩
        · show (setupState s'.sp path made).fs = sp1.fs
          rw [hsp1]; exact setupState_fs _ _ path made hsame.fs
        · show s'.sp.cacheFile = sp1.cacheFile
          rw [hsp1]; exact hsame.cacheFile
        · show s'.sp.dirSize = sp1.dirSize
          rw [hsp1]; exact hsame.dirSize
        · show path :: s'.sp.claimedFiles = sp1.claimedFiles
          rw [hsp1, hsame.claimedFiles]; rfl
        · show s'.sp.claimedSubs = sp1.claimedSubs
          rw [hsp1]; exact hsame.claimedSubs
        · show path :: s'.sp.inProg = sp1.inProg
          rw [hsp1, hsame.inProg]; rfl
      have habs1 : ∀ p ∈ targetsDeepL out.2.2, (missStart (afterSetup s sp1 path made) path ⟨fname, some path, args, kwargs⟩).sp.fs.get p = none := by
        intro p hp
        show sp1.fs.get p = none
        rw [hsp1]
        exact setupState_absent _ _ _ _ (hsub_path p hp).1 (hnot_made p (hsub_path p hp).2.1) (habs p (by simp [hp]))
      obtain ⟨_, hk2, hk3⟩ := bfFinish_keeps out.2.1.sp path made out.1
      have hk3old : (withSp out.2.1 (bfFinish out.2.1.sp path made out.1).2).old.roots = [] := by
        show out.2.1.old.roots = []; rw [hkb.old]; exact h0
      have hk3ff : (withSp out.2.1 (bfFinish out.2.1.sp path made out.1).2).sp.failFiles = [] := by
        show (bfFinish _ path made out.1).2.failFiles = []; rw [hk2]; exact hkb.ff
      have hk3fs : (withSp out.2.1 (bfFinish out.2.1.sp path made out.1).2).sp.failSubs = [] := by
        show (bfFinish _ path made out.1).2.failSubs = []; rw [hk3]; exact hkb.fsb
      have hkeep3 := run_keeps (k (bfFinish out.2.1.sp path made out.1).1) t (withSp out.2.1 (bfFinish out.2.1.sp path made out.1).2) hk3old hk3ff hk3fs
      have hfin3 : FirstKeeps (withSp out.2.1 (bfFinish out.2.1.sp path made out.1).2) fin := hkeep3.trans hfin
      have hrest_path : ∀ p ∈ targetsDeepL (Impl.run (k (bfFinish out.2.1.sp path made out.1).1) t (withSp out.2.1 (bfFinish out.2.1.sp path made out.1).2)).2.2,
          p ≠ path ∧ ¬ p <+: path ∧ ¬ path <+: p := by
        intro p hp
        have := Antichain.ne_of_mem_append hanti (List.mem_append_right _ (List.mem_singleton.mpr rfl)) hp
        exact ⟨fun e => this.1 e.symm, this.2.2, this.2.1⟩
      have hrest_sub : ∀ p ∈ targetsDeepL (Impl.run (k (bfFinish out.2.1.sp path made out.1).1) t (withSp out.2.1 (bfFinish out.2.1.sp path made out.1).2)).2.2,
          ∀ p' ∈ targetsDeepL out.2.2, ¬ p <+: p' ∧ ¬ p' <+: p := by
        intro p hp p' hp'
        have := Antichain.ne_of_mem_append hanti (List.mem_append_left _ hp') hp
        exact ⟨this.2.2, this.2.1⟩
      have habs3 : ∀ p ∈ targetsDeepL (Impl.run (k (bfFinish out.2.1.sp path made out.1).1) t (withSp out.2.1 (bfFinish out.2.1.sp path made out.1).2)).2.2,
          (withSp out.2.1 (bfFinish out.2.1.sp path made out.1).2).sp.fs.get p = none := by
        intro p hp
        apply bfFinish_absent _ _ _ _ _ (hrest_path p hp).1
        apply hab p h0 hk1ff hk1fs
        · show sp1.fs.get p = none
          rw [hsp1]
          exact setupState_absent _ _ _ _ (hrest_path p hp).1 (hnot_made p (hrest_path p hp).2.1) (habs p (by simp [hp]))
        · exact fun p' hp' => (hrest_sub p hp p' hp').1
      -- the first run's state after the call (whatever its outcome)
      have hip3 : (bfFinish out.2.1.sp path made out.1).2.inProg = s.sp.inProg := by
        rw [bfFinish_inProg, haf.inProg]
        show sp1.inProg.erase path = _
        rw [hsp1]; simp [setupState, List.erase_cons_head]
      have hcl3 : (bfFinish out.2.1.sp path made out.1).2.claimedFiles = out.2.1.sp.claimedFiles := bfFinish_claimed _ _ _ _
      have hpend3 : (bfFinish out.2.1.sp path made out.1).2.pending = out.2.1.sp.pending.filter (fun x => x.1 ≠ path) := bfFinish_pending _ _ _ _
      have hcl03 : ∀ p ∈ s.sp.claimedFiles, p ∈ out.2.1.sp.claimedFiles := by
        intro p hp
        apply haf.claimed
        show p ∈ sp1.claimedFiles
        rw [hsp1]; simp [setupState, hp]
      have hfi3 : FI ds t (withSp out.2.1 (bfFinish out.2.1.sp path made out.1).2) := by
        refine ⟨?_, ?_, ?_, ?_⟩
        · show (bfFinish _ path made out.1).2.dirSize = ds
          rw [(bfFinish_keeps _ _ _ _).1]; exact haf.dsz
        · intro p hp
          have hp' : p ∈ (bfFinish out.2.1.sp path made out.1).2.inProg := hp
          rw [hip3] at hp'
          show p ∈ (bfFinish _ path made out.1).2.claimedFiles
          rw [hcl3]; exact hcl03 p (hfi.wf p hp')
        · intro q hq
          have hq' : q ∉ out.2.1.sp.claimedFiles := by rw [← hcl3]; exact hq
          show pendingFind (bfFinish _ path made out.1).2.pending q = none
          rw [hpend3, pendingFind_filter]
          split
          · rfl
          · exact haf.pc q hq'
        · intro p hp
          show p ∈ (bfFinish _ path made out.1).2.claimedFiles
          rw [hcl3]; exact hcl03 p (hfi.tc p hp)
      have hpf3 : ∀ q, PF (withSp out.2.1 (bfFinish out.2.1.sp path made out.1).2).sp q = PF s.sp q := by
        intro q
        show PF (bfFinish _ path made out.1).2 q = _
        rw [PF_filter out.2.1.sp _ path q hpend3]
        by_cases hq : q = path
        · subst hq; rw [if_pos rfl, hpath0]
        · rw [if_neg hq, haf.other q (fun e => hq (by injection e with e; exact e.symm)), hpf1 q]
      have hdm' : Spec.dirsToMake (Spec.visible s'.sp) s'.sp.cacheFile s'.sp.inProg path.dropLast = .ok made := by
        rw [hsame.visible, hsame.cacheFile, hsame.inProg]; exact hdm
      have hregs : ∀ o ∈ registeredL out.2.2, cachedIn s'.old o ∧ argsRefl o = true := by
        intro o ho
        apply hc o
        simp only [registeredL, List.mem_append]
        left
        unfold bfRecord
        cases (bfFinish out.2.1.sp path made out.1).1 <;> simp [registered, ho]
      have hregr : ∀ o ∈ registeredL (Impl.run (k (bfFinish out.2.1.sp path made out.1).1) t (withSp out.2.1 (bfFinish out.2.1.sp path made out.1).2)).2.2,
          cachedIn s'.old o ∧ argsRefl o = true := by
        intro o ho
        apply hc o
        simp only [registeredL, List.mem_append]
        right; exact ho
      have hop : bfRecord path cmp fname args kwargs out.2.2 out.1 (bfFinish out.2.1.sp path made out.1).1 (withSp out.2.1 (bfFinish out.2.1.sp path made out.1).2) ∈
          registeredL (bfRecord path cmp fname args kwargs out.2.2 out.1 (bfFinish out.2.1.sp path made out.1).1 (withSp out.2.1 (bfFinish out.2.1.sp path made out.1).2) ::
            (Impl.run (k (bfFinish out.2.1.sp path made out.1).1) t (withSp out.2.1 (bfFinish out.2.1.sp path made out.1).2)).2.2) := by
        simp only [registeredL, List.mem_append]
        left
        unfold bfRecord
        cases (bfFinish out.2.1.sp path made out.1).1 <;> simp [registered]
      have hcw : ∀ q, ¬ path <+: q ∨ q = path → q ∉ made →
          (afterSetup s' (setupState s'.sp path made) path made).shelf.get q = s'.shelf.get q := by
        intro q hq hqm
        show (clearWay s'.shelf path made).get q = _
        apply clearWay_get
        · rcases hq with hq | hq
          · simp [properAncestor, hq]
          · simp [properAncestor, hq]
        · simpa using hqm
      have hpend1' : ∀ q, PF (afterSetup s' (setupState s'.sp path made) path made).sp q = PF s'.sp q := fun q => rfl
      rcases (show (∃ j, (bfFinish out.2.1.sp path made out.1).1 = .ok j) ∨ (∃ e, (bfFinish out.2.1.sp path made out.1).1 = .error e) from by
          cases (bfFinish out.2.1.sp path made out.1).1 with
          | ok j => exact Or.inl ⟨j, rfl⟩
          | error e => exact Or.inr ⟨e, rfl⟩) with ⟨j, hj⟩ | ⟨e, hfe⟩
      · -- the call returned: served from its record
        obtain ⟨c, m, hpf, hrb, hfinOk⟩ := bfFinish_ok_inv out.2.1.sp path made out.1 j hj
        have hs3fs : (withSp out.2.1 (bfFinish out.2.1.sp path made out.1).2).sp.fs = out.2.1.sp.fs.set path (.file c m) := by
          show (bfFinish out.2.1.sp path made out.1).2.fs = _
          rw [hfinOk]; rfl
        have hpath_out : out.2.1.sp.fs.get path = none := by
          apply hab path h0 hk1ff hk1fs
          · show sp1.fs.get path = none
            rw [hk1fs']
            rcases Rollback.mkdirs_get_mem made s.sp.fs path with h' | ⟨hm, _, _⟩
            · rw [h', habs_path]
            · exact absurd hm hpath_made
          · intro p hp; exact (hsub_path p hp).2.2
        have hfin2 : FirstKeeps out.2.1 fin := by
          have h23 : FirstKeeps out.2.1 (withSp out.2.1 (bfFinish out.2.1.sp path made out.1).2) := by
            refine ⟨rfl, hk3ff, hk3fs, ?_, ?_⟩
            · intro p hp
              show p ∈ (bfFinish _ path made out.1).2.claimedFiles
              rw [bfFinish_claimed]; exact hp
            · intro p b' m' hg _
              have hne : p ≠ path := by intro e; rw [e, hpath_out] at hg; cases hg
              rw [hs3fs, get_set_ne _ _ _ _ hne]; exact hg
          exact h23.trans hfin3
        have hpath_fin : fin.sp.fs.get path = some (.file c m) := by
          apply hfin3.files path c m
          · rw [hs3fs]; exact get_set_self _ _ _ hpne
          · show path ∈ (bfFinish _ path made out.1).2.claimedFiles
            rw [bfFinish_claimed]
            apply hkb.claimed
            show path ∈ sp1.claimedFiles
            rw [hsp1]; simp [setupState]
        have hshelf_path : s'.shelf.get path = some (.file c m) := by rw [hsup path (by simp), hpath_fin]
        have hshelf1_path : (afterSetup s' (setupState s'.sp path made) path made).shelf.get path = some (.file c m) := by
          rw [hcw path (Or.inr rfl) hpath_made]; exact hshelf_path
        have hv1 : ∀ f ∈ fname :: fnamesDeepL out.2.2, versionOk (afterSetup s' (setupState s'.sp path made) path made) f = true := fun f hf => by
          exact (versionOk_congr (b := s') rfl rfl f).trans (hv f (by simp at hf; rcases hf with hf | hf <;> simp [hf]))
        obtain ⟨s2', hrep2, hsame2, hR2⟩ := hrr fin h0 hsame1 (fun f hf => hv1 f (List.mem_cons_of_mem _ hf)) hoksubs hanti_sub habs1 hfin2 (by
          intro p hp
          rw [hcw p (Or.inl (hsub_path p hp).2.2) (hnot_made p (hsub_path p hp).2.1)]
          exact hsup p (by simp [hp]))
        have hshelf2_path : s2'.shelf.get path = some (.file c m) := by
          rw [hR2.shelf path (fun p hp => (hsub_path p hp).2.2)]; exact hshelf1_path
        have hcmpB : cmpBuilt (withSp out.2.1 (bfFinish out.2.1.sp path made out.1).2) path cmp = View.cmpResult cmp c m := by
          unfold cmpBuilt; rw [hs3fs, get_set_self _ _ _ hpne]
        have hrec : bfRecord path cmp fname args kwargs out.2.2 out.1 (bfFinish out.2.1.sp path made out.1).1
            (withSp out.2.1 (bfFinish out.2.1.sp path made out.1).2) =
            Op.buildFile path cmp fname args kwargs out.2.2 j (View.cmpResult cmp c m) false false c := by
          unfold bfRecord
          rw [hj]
          simp only [hcmpB, hs3fs, get_set_self _ _ _ hpne]
        obtain ⟨hold', hargs⟩ := hc _ hop
        rw [hrec] at hold' hargs
        simp only [cachedIn] at hold'
        simp only [argsRefl, Bool.and_eq_true] at hargs
        have hlook' := lookupFile_hit' (afterSetup s' (setupState s'.sp path made) path made) s2' path cmp fname args kwargs made
          out.2.2 j (View.cmpResult cmp c m) c c m c m hold' (hv1 fname (List.mem_cons_self ..)) hargs.1 hargs.2 hpne hshelf1_path (cmpResult_refl cmp c m) hrep2 hshelf2_path
        rw [run_bf_hit s' t path cmp fname args kwargs body k _ made _ _ hsetup' hlook']
        simp only [opRet]
        have hsame3 : Same (withSp out.2.1 (bfFinish out.2.1.sp path made out.1).2) (adopt s2' path made) := by
          refine ⟨?_, ?_, ?_, ?_, ?_, ?_, hk3ff, hsame2.ff', hk3fs, hsame2.fsb'⟩
          · show (adopt s2' path made).sp.fs = _
            rw [hs3fs]
            simp only [adopt, hshelf2_path, hpne, if_false]
            rw [hsame2.fs]
          · show s2'.sp.cacheFile = (bfFinish _ path made out.1).2.cacheFile
            rw [hfinOk]; exact hsame2.cacheFile
          · show s2'.sp.dirSize = (bfFinish _ path made out.1).2.dirSize
            rw [hfinOk]; exact hsame2.dirSize
          · show s2'.sp.claimedFiles = (bfFinish _ path made out.1).2.claimedFiles
            rw [hfinOk]; exact hsame2.claimedFiles
          · show s2'.sp.claimedSubs = (bfFinish _ path made out.1).2.claimedSubs
            rw [hfinOk]; exact hsame2.claimedSubs
          · show s2'.sp.inProg.erase path = (bfFinish _ path made out.1).2.inProg
            rw [hfinOk, hsame2.inProg]; rfl
        have hsw3 : SameW (withSp out.2.1 (bfFinish out.2.1.sp path made out.1).2) (adopt s2' path made) := by
          refine ⟨hsame3, fun q => ?_⟩
          rw [hpf3 q]
          have : PF (adopt s2' path made).sp q = PF s'.sp q := by
            show PF s2'.sp q = _
            unfold PF; rw [replayOps_pending _ _ _ hrep2]; rfl
          rw [this]; exact hsw.pw q
        have hold3 : (adopt s2' path made).old = s'.old := hR2.old
        have hnv3 : (adopt s2' path made).newVersions = s'.newVersions := hR2.nv
        have hv3 : ∀ f ∈ fnamesDeepL (Impl.run (k (bfFinish out.2.1.sp path made out.1).1) t (withSp out.2.1 (bfFinish out.2.1.sp path made out.1).2)).2.2,
            versionOk (adopt s2' path made) f = true := fun f hf => by
          rw [versionOk_congr (b := s') hold3 hnv3]; exact hv f (by simp [hf])
        obtain ⟨hp, hfiE⟩ := ihk (bfFinish out.2.1.sp path made out.1).1 t (withSp out.2.1 (bfFinish out.2.1.sp path made out.1).2) (adopt s2' path made) fin ds
          hk3old hsw3 hfi3 hv3 hokrest (fun o ho => by rw [hold3]; exact hregr o ho) hanti.right habs3 hfin (by
            intro p hp
            show (s2'.shelf.erase path).get p = _
            rw [get_erase_ne _ _ _ (hrest_path p hp).1, hR2.shelf p (fun p' hp' => (hrest_sub p hp p' hp').1),
              hcw p (Or.inl (hrest_path p hp).2.2) (hnot_made p (hrest_path p hp).2.1)]
            exact hsup p (by simp [hp]))
        rw [hj] at hp hfiE ⊢
        refine ⟨⟨hp.res, ?_, hp.sw, by rw [hp.old]; exact hold3, by rw [hp.nv]; exact hnv3, ?_⟩, hfiE⟩
        · rw [hp.inv, rerunDeepL_cons]
          have : (adopt s2' path made).sp.invLog = s'.sp.invLog := hR2.inv
          rw [this]
          unfold bfRecord
          simp [rerunDeep]
        · intro q hq
          have hqp : ¬ q <+: path ∧ ¬ path <+: q := hq path (by rw [targetsDeepL_cons, targetsDeep_bfRecord]; simp)
          have hq1 : Unrel q (targetsDeepL (Impl.run (k (Except.ok j)) t (withSp out.2.1 (bfFinish out.2.1.sp path made out.1).2)).2.2) := by
            intro p hp'; exact hq p (by rw [targetsDeepL_cons, targetsDeep_bfRecord]; simp [hp'])
          rw [hp.shelf q hq1]
          show (s2'.shelf.erase path).get q = _
          rw [get_erase_ne _ _ _ (fun e => hqp.1 (by rw [e]; exact List.prefix_refl _)),
            hR2.shelf q (fun p hp' => (hq p (by rw [targetsDeepL_cons, targetsDeep_bfRecord]; simp [hp'])).1),
            hcw q (Or.inl hqp.2) (hnot_made q hqp.1)]
      · -- the call raised: the function runs again, and fails again
        have hfs3 : (bfFinish out.2.1.sp path made out.1).2 = failState out.2.1.sp path made := bfFinish_error_state _ _ _ _ e hfe
        have hs3fs : (withSp out.2.1 (bfFinish out.2.1.sp path made out.1).2).sp.fs = rmEmpty out.2.1.sp.fs made := by
          show (bfFinish out.2.1.sp path made out.1).2.fs = _
          rw [hfs3]; rfl
        have hfin2 : FirstKeeps out.2.1 fin := by
          have h23 : FirstKeeps out.2.1 (withSp out.2.1 (bfFinish out.2.1.sp path made out.1).2) := by
            refine ⟨rfl, hk3ff, hk3fs, ?_, ?_⟩
            · intro p hp
              show p ∈ (bfFinish _ path made out.1).2.claimedFiles
              rw [bfFinish_claimed]; exact hp
            · intro p b' m' hg _
              rw [hs3fs]; exact rmEmpty_file _ _ p b' m' hg
          exact h23.trans hfin3
        obtain ⟨kept, hrec⟩ : ∃ kept, bfRecord path cmp fname args kwargs out.2.2 out.1 (bfFinish out.2.1.sp path made out.1).1
            (withSp out.2.1 (bfFinish out.2.1.sp path made out.1).2) =
            Op.buildFile path cmp fname args kwargs out.2.2 kept .null true false "" := by
          unfold bfRecord
          rw [hfe]
          exact ⟨_, rfl⟩
        obtain ⟨hold', _⟩ := hc _ hop
        rw [hrec] at hold'
        simp only [cachedIn] at hold'
        have hlook' : lookupFile (afterSetup s' (setupState s'.sp path made) path made) path cmp fname args kwargs made = none :=
          lookupFile_raised _ path cmp fname args kwargs made _ _ _ _ _ _ _ _ _ hold'
        rw [run_bf_miss s' t path cmp fname args kwargs body k _ made hsetup' hlook']
        simp only
        have hsw1 : SameW (missStart (afterSetup s sp1 path made) path ⟨fname, some path, args, kwargs⟩)
            (missStart (afterSetup s' (setupState s'.sp path made) path made) path ⟨fname, some path, args, kwargs⟩) := by
          refine ⟨⟨hsame1.fs, hsame1.cacheFile, hsame1.dirSize, hsame1.claimedFiles, hsame1.claimedSubs, hsame1.inProg,
            hk1ff, hsame.ff', hk1fs, hsame.fsb'⟩, fun q => ?_⟩
          rw [hpf1 q]
          exact hsw.pw q
        obtain ⟨hpb, _⟩ := ihbM hsw1 hfi1
          (fun f hf => by exact (versionOk_congr (b := s') rfl rfl f).trans (hv f (by simp [hf]))) hoksubs hregs hanti_sub habs1 hfin2 (by
            intro p hp
            show ((clearWay s'.shelf path made).erase path).get p = _
            rw [get_erase_ne _ _ _ (hsub_path p hp).1]
            have := hcw p (Or.inl (hsub_path p hp).2.2) (hnot_made p (hsub_path p hp).2.1)
            rw [show (clearWay s'.shelf path made).get p = s'.shelf.get p from this]
            exact hsup p (by simp [hp]))
        generalize hout' : Impl.run body (some path) (missStart (afterSetup s' (setupState s'.sp path made) path made) path ⟨fname, some path, args, kwargs⟩) = out' at hpb ⊢
        have hres : out'.1 = out.1 := hpb.res
        have hfe' : (bfFinish out'.2.1.sp path made out'.1).1 = .error e := by
          rw [hres]; exact bfFinish_fail_both _ _ _ _ _ _ hfe (hpb.sw.pw path)
        have hfs3' : (bfFinish out'.2.1.sp path made out'.1).2 = failState out'.2.1.sp path made := bfFinish_error_state _ _ _ _ e hfe'
        have hsw3 : SameW (withSp out.2.1 (bfFinish out.2.1.sp path made out.1).2) (withSp out'.2.1 (bfFinish out'.2.1.sp path made out'.1).2) := by
          have hS := hpb.sw.same
          refine ⟨⟨?_, ?_, ?_, ?_, ?_, ?_, hk3ff, ?_, hk3fs, ?_⟩, fun q => ?_⟩
          · show (bfFinish out'.2.1.sp path made out'.1).2.fs = (bfFinish out.2.1.sp path made out.1).2.fs
            rw [hfs3, hfs3']; show rmEmpty out'.2.1.sp.fs made = rmEmpty out.2.1.sp.fs made; rw [hS.fs]
          · show (bfFinish out'.2.1.sp path made out'.1).2.cacheFile = (bfFinish out.2.1.sp path made out.1).2.cacheFile
            rw [hfs3, hfs3']; exact hS.cacheFile
          · show (bfFinish out'.2.1.sp path made out'.1).2.dirSize = (bfFinish out.2.1.sp path made out.1).2.dirSize
            rw [hfs3, hfs3']; exact hS.dirSize
          · show (bfFinish out'.2.1.sp path made out'.1).2.claimedFiles = (bfFinish out.2.1.sp path made out.1).2.claimedFiles
            rw [hfs3, hfs3']; exact hS.claimedFiles
          · show (bfFinish out'.2.1.sp path made out'.1).2.claimedSubs = (bfFinish out.2.1.sp path made out.1).2.claimedSubs
            rw [hfs3, hfs3']; exact hS.claimedSubs
          · show (bfFinish out'.2.1.sp path made out'.1).2.inProg = (bfFinish out.2.1.sp path made out.1).2.inProg
            rw [hfs3, hfs3']; show out'.2.1.sp.inProg.erase path = out.2.1.sp.inProg.erase path; rw [hS.inProg]
          · show (bfFinish out'.2.1.sp path made out'.1).2.failFiles = []
            rw [(bfFinish_keeps _ _ _ _).2.1]; exact hS.ff'
          · show (bfFinish out'.2.1.sp path made out'.1).2.failSubs = []
            rw [(bfFinish_keeps _ _ _ _).2.2]; exact hS.fsb'
          · show (PF (bfFinish out.2.1.sp path made out.1).2 q).isSome = (PF (bfFinish out'.2.1.sp path made out'.1).2 q).isSome
            rw [PF_filter out.2.1.sp _ path q hpend3, PF_filter out'.2.1.sp _ path q (bfFinish_pending _ _ _ _)]
            split
            · rfl
            · exact hpb.sw.pw q
        have hold3 : (withSp out'.2.1 (bfFinish out'.2.1.sp path made out'.1).2).old = s'.old := hpb.old
        have hnv3 : (withSp out'.2.1 (bfFinish out'.2.1.sp path made out'.1).2).newVersions = s'.newVersions := hpb.nv
        have hv3 : ∀ f ∈ fnamesDeepL (Impl.run (k (bfFinish out.2.1.sp path made out.1).1) t (withSp out.2.1 (bfFinish out.2.1.sp path made out.1).2)).2.2,
            versionOk (withSp out'.2.1 (bfFinish out'.2.1.sp path made out'.1).2) f = true := fun f hf => by
          rw [versionOk_congr (b := s') hold3 hnv3]; exact hv f (by simp [hf])
        have hshelf1 : ∀ q, ¬ q <+: path → ¬ path <+: q →
            (missStart (afterSetup s' (setupState s'.sp path made) path made) path ⟨fname, some path, args, kwargs⟩).shelf.get q = s'.shelf.get q := by
          intro q h1 h2
          show ((clearWay s'.shelf path made).erase path).get q = _
          rw [get_erase_ne _ _ _ (fun e => h1 (by rw [e]; exact List.prefix_refl _))]
          exact hcw q (Or.inl h2) (hnot_made q h1)
        obtain ⟨hp, hfiE⟩ := ihk (bfFinish out.2.1.sp path made out.1).1 t (withSp out.2.1 (bfFinish out.2.1.sp path made out.1).2)
          (withSp out'.2.1 (bfFinish out'.2.1.sp path made out'.1).2) fin ds
          hk3old hsw3 hfi3 hv3 hokrest (fun o ho => by rw [hold3]; exact hregr o ho) hanti.right habs3 hfin (by
            intro p hp
            show out'.2.1.shelf.get p = _
            rw [hpb.shelf p (fun p' hp' => hrest_sub p hp p' hp'), hshelf1 p (hrest_path p hp).2.1 (hrest_path p hp).2.2]
            exact hsup p (by simp [hp]))
        rw [hfe'] 
        rw [hfe] at hp hfiE ⊢
        refine ⟨⟨hp.res, ?_, hp.sw, by rw [hp.old]; exact hold3, by rw [hp.nv]; exact hnv3, ?_⟩, hfiE⟩
        · rw [hp.inv, rerunDeepL_cons]
          have : (withSp out'.2.1 (bfFinish out'.2.1.sp path made out'.1).2).sp.invLog = out'.2.1.sp.invLog := by
            show (bfFinish out'.2.1.sp path made out'.1).2.invLog = _
            rw [hfs3']; rfl
          rw [this, hpb.inv]
          simp [bfRecord, rerunDeep, missStart, afterSetup, setupState]
        · intro q hq
          have hqp : ¬ q <+: path ∧ ¬ path <+: q := hq path (by rw [targetsDeepL_cons, targetsDeep_bfRecord]; simp)
          have hq1 : Unrel q (targetsDeepL (Impl.run (k (Except.error e)) t (withSp out.2.1 (bfFinish out.2.1.sp path made out.1).2)).2.2) := by
            intro p hp'; exact hq p (by rw [targetsDeepL_cons, targetsDeep_bfRecord]; simp [hp'])
          have hq2 : Unrel q (targetsDeepL out.2.2) := by
            intro p hp'; exact hq p (by rw [targetsDeepL_cons, targetsDeep_bfRecord]; simp [hp'])
          rw [hp.shelf q hq1]
          show out'.2.1.shelf.get q = _
          rw [hpb.shelf q hq2, hshelf1 q hqp.1 hqp.2]
  | subbuild fname args kwargs body k ihb ihk =>
    intro t s s' fin ds h0 hsw hfi hv hok hc hanti habs hfin hsup
    have hsame := hsw.same
    have hfs : s.sp.failSubs.any (heq (subKey fname args kwargs)) = false := by simp [hsame.fsb]
    have hfs' : s'.sp.failSubs.any (heq (subKey fname args kwargs)) = false := by simp [hsame.fsb']
    by_cases hcl : s.sp.claimedSubs.any (heq (subKey fname args kwargs)) = true
    · exfalso
      simp only [Impl.run, hcl, if_true] at hok
      simp [noSFL, noSF] at hok
    · have hcl0 : s.sp.claimedSubs.any (heq (subKey fname args kwargs)) = false := by simpa using hcl
      have hcl' : s'.sp.claimedSubs.any (heq (subKey fname args kwargs)) = false := by rw [hsame.claimedSubs]; exact hcl0
      have hlook := lookupSub_empty (subClaim s (subKey fname args kwargs)) h0 fname args kwargs
      rw [run_sb_miss' s t fname args kwargs body k hcl0 hfs hlook] at hv hok hc hanti habs hfin hsup ⊢
      simp only at hv hok hc hanti habs hfin hsup ⊢
      -- the state the function starts in (first run)
      have hfi1 : FI ds none (Impl.subStart (subClaim s (subKey fname args kwargs)) ⟨fname, none, args, kwargs⟩) :=
        ⟨hfi.dsz, hfi.wf, hfi.pc, fun p hp => nomatch hp⟩
      have hkb := run_keeps body none (Impl.subStart (subClaim s (subKey fname args kwargs)) ⟨fname, none, args, kwargs⟩) h0 hsame.ff hsame.fsb
      have hab := run_absent body none (Impl.subStart (subClaim s (subKey fname args kwargs)) ⟨fname, none, args, kwargs⟩)
      have haf := after_run (ds := ds) body none (Impl.subStart (subClaim s (subKey fname args kwargs)) ⟨fname, none, args, kwargs⟩)
        hfi.dsz hsame.ff hsame.fsb hfi.wf hfi.pc (fun p hp => nomatch hp) (CacheOK_nil ds _ h0 _ body)
      have hrr := replay_runF body none (Impl.subStart (subClaim s (subKey fname args kwargs)) ⟨fname, none, args, kwargs⟩) (subClaim s' (subKey fname args kwargs))
      have ihbM := ihb none (Impl.subStart (subClaim s (subKey fname args kwargs)) ⟨fname, none, args, kwargs⟩)
        (Impl.subStart (subClaim s' (subKey fname args kwargs)) ⟨fname, none, args, kwargs⟩) fin ds h0
      generalize hout : Impl.run body none (Impl.subStart (subClaim s (subKey fname args kwargs)) ⟨fname, none, args, kwargs⟩) = out
        at hv hok hc hanti habs hfin hsup hkb hab haf hrr ihbM ⊢
      rw [fnamesDeepL_cons, fnamesDeep_sbRecord] at hv
      rw [targetsDeepL_cons, targetsDeep_sbRecord] at hanti habs hsup
      rw [noSFL_cons, Bool.and_eq_true] at hok
      have hoksubs : noSFL out.2.2 = true := noSF_sbRecord _ _ _ _ _ hok.1
      have hokrest := hok.2
      have hsame1 : Same (Impl.subStart (subClaim s (subKey fname args kwargs)) ⟨fname, none, args, kwargs⟩) (subClaim s' (subKey fname args kwargs)) := by
        refine ⟨hsame.fs, hsame.cacheFile, hsame.dirSize, hsame.claimedFiles, ?_, hsame.inProg, hsame.ff, hsame.ff', hsame.fsb, hsame.fsb'⟩
        show subKey fname args kwargs :: s'.sp.claimedSubs = subKey fname args kwargs :: s.sp.claimedSubs
        rw [hsame.claimedSubs]
      have hkeep3 := run_keeps (k out.1) t out.2.1 (by rw [hkb.old]; exact h0) hkb.ff hkb.fsb
      have hfin2 : FirstKeeps out.2.1 fin := hkeep3.trans hfin
      have hrest_sub : ∀ p ∈ targetsDeepL (Impl.run (k out.1) t out.2.1).2.2, ∀ p' ∈ targetsDeepL out.2.2, ¬ p <+: p' ∧ ¬ p' <+: p := by
        intro p hp p' hp'
        have := Antichain.ne_of_mem_append hanti hp' hp
        exact ⟨this.2.2, this.2.1⟩
      have habs3 : ∀ p ∈ targetsDeepL (Impl.run (k out.1) t out.2.1).2.2, out.2.1.sp.fs.get p = none := by
        intro p hp
        exact hab p h0 hsame.ff hsame.fsb (habs p (by simp [hp])) (fun p' hp' => (hrest_sub p hp p' hp').1)
      -- the first run's state after the call
      have hfi3 : FI ds t out.2.1 := ⟨haf.dsz, haf.wf, haf.pc, fun p hp => haf.claimed p (hfi.tc p hp)⟩
      have hpf1 : ∀ q, PF out.2.1.sp q = PF s.sp q := fun q => haf.other q (fun e => nomatch e)
      have hregs : ∀ o ∈ registeredL out.2.2, cachedIn s'.old o ∧ argsRefl o = true := by
        intro o ho
        apply hc o
        simp only [registeredL, List.mem_append]
        left
        cases out.1 <;> simp [sbRecord, registered, ho]
      have hregr : ∀ o ∈ registeredL (Impl.run (k out.1) t out.2.1).2.2, cachedIn s'.old o ∧ argsRefl o = true := by
        intro o ho
        apply hc o
        simp only [registeredL, List.mem_append]
        right; exact ho
      cases hr1 : out.1 with
      | ok j =>
        -- served from the record
        have hop : sbRecord fname args kwargs out.2.2 out.1 ∈ registeredL (sbRecord fname args kwargs out.2.2 out.1 :: (Impl.run (k out.1) t out.2.1).2.2) := by
          simp only [registeredL, List.mem_append]; left; rw [hr1]; simp [sbRecord, registered]
        obtain ⟨hold', _⟩ := hc _ hop
        rw [hr1] at hold'
        simp only [sbRecord, cachedIn] at hold'
        have hv1 : ∀ f ∈ fnamesDeepL out.2.2, versionOk (subClaim s' (subKey fname args kwargs)) f = true := fun f hf => by
          exact (versionOk_congr (b := s') rfl rfl f).trans (hv f (by simp [hf]))
        obtain ⟨s2', hrep2, hsame2, hR2⟩ := hrr fin h0 hsame1 hv1 hoksubs hanti.left
          (fun p hp => habs p (by simp [hp])) hfin2 (fun p hp => hsup p (by simp [hp]))
        have hlook' := lookupSub_hit (subClaim s' (subKey fname args kwargs)) s2' fname args kwargs out.2.2 j hold'
          ((versionOk_congr (b := s') rfl rfl fname).trans (hv fname (by simp))) hrep2
        rw [run_sb_hit s' t fname args kwargs body k _ _ hcl' hfs' hlook']
        simp only [opRet]
        have hsw3 : SameW out.2.1 s2' := by
          refine ⟨hsame2, fun q => ?_⟩
          rw [hpf1 q]
          have : PF s2'.sp q = PF s'.sp q := by
            unfold PF; rw [replayOps_pending _ _ _ hrep2]; rfl
          rw [this]; exact hsw.pw q
        have hv3 : ∀ f ∈ fnamesDeepL (Impl.run (k out.1) t out.2.1).2.2, versionOk s2' f = true := fun f hf => by
          rw [versionOk_congr (b := s') hR2.old hR2.nv]; exact hv f (by simp [hf])
        obtain ⟨hp, hfiE⟩ := ihk out.1 t out.2.1 s2' fin ds (by rw [hkb.old]; exact h0) hsw3 hfi3 hv3 hokrest
          (fun o ho => by rw [hR2.old]; exact hregr o ho) hanti.right habs3 hfin (by
            intro p hp
            rw [hR2.shelf p (fun p' hp' => (hrest_sub p hp p' hp').1)]
            exact hsup p (by simp [hp]))
        rw [hr1] at hp hfiE
        refine ⟨⟨hp.res, ?_, hp.sw, by rw [hp.old]; exact hR2.old, by rw [hp.nv]; exact hR2.nv, ?_⟩, hfiE⟩
        · rw [hp.inv, hR2.inv, rerunDeepL_cons]
          simp [sbRecord, rerunDeep, subClaim, liftSp]
        · intro q hq
          have hq1 : Unrel q (targetsDeepL (Impl.run (k (Except.ok j)) t out.2.1).2.2) := by
            intro p hp'; exact hq p (by rw [targetsDeepL_cons, targetsDeep_sbRecord]; simp [hp'])
          rw [hp.shelf q hq1, hR2.shelf q (fun p hp' => (hq p (by rw [targetsDeepL_cons, targetsDeep_sbRecord]; simp [hp'])).1)]
          rfl
      | error e =>
        -- the call raised: nothing is cached for it, the function runs again
        have hop : sbRecord fname args kwargs out.2.2 out.1 ∈ registeredL (sbRecord fname args kwargs out.2.2 out.1 :: (Impl.run (k out.1) t out.2.1).2.2) := by
          simp only [registeredL, List.mem_append]; left; rw [hr1]; simp [sbRecord, registered]
        obtain ⟨hold', _⟩ := hc _ hop
        rw [hr1] at hold'
        simp only [sbRecord, cachedIn] at hold'
        have hlook' : lookupSub (subClaim s' (subKey fname args kwargs)) fname args kwargs = none :=
          lookupSub_raised _ fname args kwargs _ _ _ _ _ _ hold'
        rw [run_sb_miss' s' t fname args kwargs body k hcl' hfs' hlook']
        simp only
        have hsw1 : SameW (Impl.subStart (subClaim s (subKey fname args kwargs)) ⟨fname, none, args, kwargs⟩)
            (Impl.subStart (subClaim s' (subKey fname args kwargs)) ⟨fname, none, args, kwargs⟩) :=
          ⟨⟨hsame1.fs, hsame1.cacheFile, hsame1.dirSize, hsame1.claimedFiles, hsame1.claimedSubs, hsame1.inProg,
            hsame.ff, hsame.ff', hsame.fsb, hsame.fsb'⟩, hsw.pw⟩
        obtain ⟨hpb, _⟩ := ihbM hsw1 hfi1
          (fun f hf => by exact (versionOk_congr (b := s') rfl rfl f).trans (hv f (by simp [hf]))) hoksubs hregs hanti.left
          (fun p hp => habs p (by simp [hp])) hfin2 (fun p hp => hsup p (by simp [hp]))
        generalize hout' : Impl.run body none (Impl.subStart (subClaim s' (subKey fname args kwargs)) ⟨fname, none, args, kwargs⟩) = out' at hpb ⊢
        have hres : out'.1 = out.1 := hpb.res
        rw [hres]
        have hv3 : ∀ f ∈ fnamesDeepL (Impl.run (k out.1) t out.2.1).2.2, versionOk out'.2.1 f = true := fun f hf => by
          rw [versionOk_congr (b := s') hpb.old hpb.nv]; exact hv f (by simp [hf])
        obtain ⟨hp, hfiE⟩ := ihk out.1 t out.2.1 out'.2.1 fin ds (by rw [hkb.old]; exact h0) hpb.sw hfi3 hv3 hokrest
          (fun o ho => by rw [hpb.old]; exact hregr o ho) hanti.right habs3 hfin (by
            intro p hp
            rw [hpb.shelf p (fun p' hp' => hrest_sub p hp p' hp')]
            exact hsup p (by simp [hp]))
        rw [hr1] at hp hfiE hpb ⊢
        refine ⟨⟨hp.res, ?_, hp.sw, by rw [hp.old]; exact hpb.old, by rw [hp.nv]; exact hpb.nv, ?_⟩, hfiE⟩
        · rw [hp.inv, hpb.inv, rerunDeepL_cons]
          simp [sbRecord, rerunDeep, Impl.subStart, subClaim, liftSp]
        · intro q hq
          have hq1 : Unrel q (targetsDeepL (Impl.run (k (Except.error e)) t out.2.1).2.2) := by
            intro p hp'; exact hq p (by rw [targetsDeepL_cons, targetsDeep_sbRecord]; simp [hp'])
          have hq2 : Unrel q (targetsDeepL out.2.2) := by
            intro p hp'; exact hq p (by rw [targetsDeepL_cons, targetsDeep_sbRecord]; simp [hp'])
          rw [hp.shelf q hq1, hpb.shelf q hq2]
          rfl

end FB

namespace FB
open FS Spec Impl

/-- **C05 with failures, any nesting**: a second run, in a state that looks the same, with the first run's records in
    the cache and its outputs on the shelf, invokes exactly the functions of the calls that raised in the first run
    (and, inside those, of the nested calls that raised) — `rerunDeepL`, in order — and returns the same value.  A call
    that returned is served from its record even if calls nested in it had raised.  (No call may have failed in its
    set-up: a record containing such a failure is never reusable.) -/
theorem C05_nested_rerun (prog : Prog) (t : Option Path) (s s' fin : KSt) (ds : Nat)
    (h0 : s.old.roots = []) (hsw : SameW s s') (hfi : FI ds t s)
    (hv : ∀ f ∈ fnamesDeepL (Impl.run prog t s).2.2, versionOk s' f = true)
    (hok : noSFL (Impl.run prog t s).2.2 = true)
    (hc : ∀ o ∈ registeredL (Impl.run prog t s).2.2, cachedIn s'.old o ∧ argsRefl o = true)
    (hanti : Antichain (targetsDeepL (Impl.run prog t s).2.2))
    (habs : ∀ p ∈ targetsDeepL (Impl.run prog t s).2.2, s.sp.fs.get p = none)
    (hfin : FirstKeeps (Impl.run prog t s).2.1 fin)
    (hsup : ∀ p ∈ targetsDeepL (Impl.run prog t s).2.2, s'.shelf.get p = fin.sp.fs.get p) :
    (Impl.run prog t s').1 = (Impl.run prog t s).1 ∧
    (Impl.run prog t s').2.1.sp.invLog = rerunDeepL (Impl.run prog t s).2.2 ++ s'.sp.invLog :=
  let h := (nested_rerun prog t s s' fin ds h0 hsw hfi hv hok hc hanti habs hfin hsup).1
  ⟨h.res, h.inv⟩

/-! ### non-vacuity: a subbuild that returns although the `build_file` it called raised (it caught the exception):
    in the second run nothing runs — the record of the subbuild is reused, the failure inside it re-enacted -/

def fRoot : Prog := .subbuild "g" .null .null (.buildFile ["x"] .hash "f" .null .null (.raise (.user 1)) (fun _ => .ret .null)) (fun _ => .ret .null)
def fOps : List Op := (Impl.run fRoot none fxS).2.2
def fS' : KSt := { sp := { fs := [], cacheFile := ["c"], dirSize := 4096, clock := 99 }, old := { buildName := "n", roots := fOps } }

set_option maxRecDepth 4000 in
theorem f_first : (Impl.run fRoot none fxS).2.2 =
      [.subbuild "g" .null .null [.buildFile ["x"] .hash "f" .null .null [] .null .null true false ""] .null false false] ∧
    (Impl.run fRoot none fxS).2.1.sp.fs.get ["x"] = none ∧ (Impl.run fRoot none fxS).2.1.sp.invLog.length = 2 := by
  have h : dirsToMake (visible fxS.sp) fxS.sp.cacheFile fxS.sp.inProg [] = .ok [] := by rw [dirsToMake]; simp
  simp [fRoot, Impl.run, bfSetup, fxS, FS.isDir, FS.get, lookupFile, lookupSub, CacheRec.getFile, CacheRec.getSub, registeredL,
    afterSetup, missStart, liftSp, sanitize, bfFinish, pendingFind, withSp, cmpBuilt, View.cmpResult, setupState, mkdirs,
    FS.isFile, FS.set, FS.erase, clearWay, subClaim, Impl.subStart, Spec.visible, rmEmpty] at h ⊢
  rw [h]
  simp [pendingFind, FS.set, FS.erase, FS.get, cmpBuilt, View.cmpResult, withSp, rmEmpty, mkdirs]

example : (Impl.run fRoot none fS').2.1.sp.invLog = [] ∧ (Impl.run fRoot none fxS).2.1.sp.invLog.length = 2 := by
  obtain ⟨hops, hfs, hlen⟩ := f_first
  have hkeep := run_keeps fRoot none fxS rfl rfl rfl
  have h := C05_nested_rerun fRoot none fxS fS' (Impl.run fRoot none fxS).2.1 4096 rfl
    ⟨⟨rfl, rfl, rfl, rfl, rfl, rfl, rfl, rfl, rfl, rfl⟩, fun q => rfl⟩
    ⟨rfl, (fun p hp => nomatch hp), (fun q _ => rfl), (fun p hp => nomatch hp)⟩
    (fun f _ => by simp [versionOk, fS', verOf, isEqual])
    (by rw [hops]; simp [noSFL, noSF])
    (by rw [hops]; intro o ho
        simp [registeredL, registered] at ho
        rcases ho with rfl | rfl
        · simp [cachedIn, argsRefl, fS', fOps, CacheRec.getFile, hops, registeredL, registered, Op.isFileAt, isEqual]
        · simp [cachedIn, argsRefl, fS', fOps, CacheRec.getSub, hops, registeredL, registered, Op.isSubWith, FB.heq, FB.heqL, subKey, toH, toHL, Num.eq])
    (by rw [hops]; simp [targetsDeepL, targetsDeep, Antichain])
    (by rw [hops]; intro p hp; simp [targetsDeepL, targetsDeep] at hp; subst hp; simp [fxS, FS.get])
    (FirstKeeps.refl _ hkeep.ff hkeep.fsb)
    (by
      rw [hops]; intro p hp; simp [targetsDeepL, targetsDeep] at hp; subst hp
      rw [hfs]; simp [fS', FS.get])
  refine ⟨?_, hlen⟩
  rw [h.2, hops]
  simp [rerunDeepL, rerunDeep, fS']


/-! ### … and a subbuild that raised after the `build_file` it called had succeeded: in the second run the subbuild's
    function runs again (one invocation), the nested `build_file` is served from its record -/

def gRoot : Prog := .subbuild "g" .null .null (.buildFile ["x"] .hash "f" .null .null exBody (fun _ => .raise (.user 2))) (fun _ => .ret .null)
def gOps : List Op := (Impl.run gRoot none fxS).2.2
def gS' : KSt := { sp := { fs := [], cacheFile := ["c"], dirSize := 4096, clock := 99 },
                   old := { buildName := "n", roots := gOps }, shelf := [(["x"], .file "o" 7)] }

set_option maxRecDepth 4000 in
theorem g_first : (Impl.run gRoot none fxS).2.2 =
      [.subbuild "g" .null .null [.buildFile ["x"] .hash "f" .null .null [] .null (.str "sha:o") false false "o"] .null true false] ∧
    (Impl.run gRoot none fxS).2.1.sp.fs.get ["x"] = some (.file "o" 7) ∧ (Impl.run gRoot none fxS).2.1.sp.invLog.length = 2 := by
  have h : dirsToMake (visible fxS.sp) fxS.sp.cacheFile fxS.sp.inProg [] = .ok [] := by rw [dirsToMake]; simp
  simp [gRoot, exBody, Impl.run, bfSetup, fxS, FS.isDir, FS.get, lookupFile, lookupSub, CacheRec.getFile, CacheRec.getSub, registeredL,
    afterSetup, missStart, liftSp, sanitize, bfFinish, pendingFind, withSp, cmpBuilt, View.cmpResult, setupState, mkdirs,
    FS.isFile, FS.set, FS.erase, clearWay, subClaim, Impl.subStart, Spec.visible] at h ⊢
  rw [h]
  simp [pendingFind, FS.set, FS.erase, FS.get, cmpBuilt, View.cmpResult, withSp]

example : (Impl.run gRoot none gS').2.1.sp.invLog = [⟨"g", none, .null, .null⟩] ∧ (Impl.run gRoot none fxS).2.1.sp.invLog.length = 2 := by
  obtain ⟨hops, hfs, hlen⟩ := g_first
  have hkeep := run_keeps gRoot none fxS rfl rfl rfl
  have h := C05_nested_rerun gRoot none fxS gS' (Impl.run gRoot none fxS).2.1 4096 rfl
    ⟨⟨rfl, rfl, rfl, rfl, rfl, rfl, rfl, rfl, rfl, rfl⟩, fun q => rfl⟩
    ⟨rfl, (fun p hp => nomatch hp), (fun q _ => rfl), (fun p hp => nomatch hp)⟩
    (fun f _ => by simp [versionOk, gS', verOf, isEqual])
    (by rw [hops]; simp [noSFL, noSF])
    (by rw [hops]; intro o ho
        simp [registeredL, registered] at ho
        rcases ho with rfl | rfl
        · simp [cachedIn, argsRefl, gS', gOps, CacheRec.getFile, hops, registeredL, registered, Op.isFileAt, isEqual]
        · simp [cachedIn, argsRefl, gS', gOps, CacheRec.getSub, hops, registeredL, registered, Op.isSubWith, FB.heq, FB.heqL, subKey, toH, toHL, Num.eq])
    (by rw [hops]; simp [targetsDeepL, targetsDeep, Antichain])
    (by rw [hops]; intro p hp; simp [targetsDeepL, targetsDeep] at hp; subst hp; simp [fxS, FS.get])
    (FirstKeeps.refl _ hkeep.ff hkeep.fsb)
    (by
      rw [hops]; intro p hp; simp [targetsDeepL, targetsDeep] at hp; subst hp
      rw [hfs]; simp [gS', FS.get])
  refine ⟨?_, hlen⟩
  rw [h.2, hops]
  simp [rerunDeepL, rerunDeep, gS']

end FB
