/-
  C01 / C05 — soundness of reuse.  If the cache logic (`FB.Impl`) accepts a recorded operation tree
  (`replayOps ops s = some s'`), then calling the recorded function from scratch in the current state
  gives the recorded result and leaves the state the replay computed — for every program, every
  record that follows it, every tree.  "Stale results are never served."

  Hypotheses, all explicit:
  * `Follows`: the record is one the function can produce (this is what the cache holds when function
    bodies change only together with their version);
  * `FaithfulOps`: the comparison modes' own obligation (automatic for HASH, see `faithful_hash`);
  * no injected faults; the state is well formed (`KSt.WF`, `PendClaimed`).
  The relation between the two final states is `SpecSt.Sim`: equal up to modification times of files,
  clocks and logs — a from-scratch run rewrites outputs, a reuse keeps them.
-/
import FB.Lemmas.SoundAux
namespace FB
open FS Spec

/-- what the soundness theorem concludes about running `prog` from scratch in `sp` -/
def SoundConcl (prog : Prog) (t : Option Path) (sp : SpecSt) (r : CallRes) (w : Option String)
    (s' : KSt) : Prop :=
  (run prog t sp).1 = r ∧ SpecSt.Sim (run prog t sp).2.1 s'.sp ∧ PendClaimed (run prog t sp).2.1 ∧
  (∀ p, t = some p →
    (w = none → pendingFind (run prog t sp).2.1.pending p = pendingFind sp.pending p) ∧
    (∀ c, w = some c → ∃ m, pendingFind (run prog t sp).2.1.pending p = some (c, m)))

theorem setup_match (sp : SpecSt) (s : KSt) (path : Path) (made : List Path) (raised : Bool)
    (hsim : SpecSt.Sim sp s.sp) (hff : sp.failFiles = [])
    (hncl : ¬ path ∈ s.sp.claimedFiles) (hcf : path ≠ s.sp.cacheFile) (habs : s.sp.fs.get path = none)
    (hdm : dirsToMake (visible s.sp) s.sp.cacheFile s.sp.inProg path.dropLast = .ok made)
    (hlong : made.any Path.tooLong = false) :
    ∃ sp1, bfSetup sp path = .ok (sp1, made) ∧ SpecSt.Sim sp1 (replayS1 s path made raised).sp ∧
      sp1.pending = sp.pending ∧ sp1.claimedFiles = path :: sp.claimedFiles := by
  have hffs : s.sp.failFiles = [] := by rw [← hsim.failFiles, hff]
  have hdir : s.sp.fs.isDir path = false := by simp [FS.isDir, habs]
  have hb : bfSetup s.sp path = .ok (setupState s.sp path made, made) := by
    unfold bfSetup
    simp [hncl, hcf, hdir, hdm, hffs, hlong]
  rcases sim_bfSetup hsim path with ⟨e, _, he⟩ | ⟨a1, b1, made', ha, hb', hs, hp1, _⟩
  · rw [hb] at he; cases he
  · rw [hb] at hb'
    simp only [Except.ok.injEq, Prod.mk.injEq] at hb'
    obtain ⟨hb1, hm⟩ := hb'
    subst hm hb1
    refine ⟨a1, ha, hs.trans ?_, hp1, ?_⟩
    · have hnf : (mkdirs s.sp.fs made).isFile path = false := by
        rcases mkdirs_get made s.sp.fs path with h' | ⟨_, h2⟩
        · simp [FS.isFile, h', habs]
        · simp [FS.isFile, h2]
      constructor <;> simp [setupState, replayS1, hnf, FS.Sim.refl]
    · obtain ⟨h1, _⟩ := bfSetup_ok_fields _ _ _ _ ha
      rw [h1]; simp [setupState]

theorem run_buildFile_eq (path : Path) (cmp : Cmp) (fname : String) (args kwargs : Json) (body : Prog)
    (k : CallRes → Prog) (t : Option Path) (sp sp1 : SpecSt) (made : List Path)
    (h : bfSetup sp path = .ok (sp1, made)) :
    run (.buildFile path cmp fname args kwargs body k) t sp =
      (let s1 := { sp1 with invLog := ⟨fname, some path, args, kwargs⟩ :: sp1.invLog }
       let rb := run body (some path) s1
       let fin := bfFinish rb.2.1 path made rb.1
       let rk := run (k fin.1) t fin.2
       (rk.1, rk.2.1, CallNode.mk fname (some path) args kwargs (statusOf fin.1) rb.2.2 :: rk.2.2)) := by
  simp only [run, h]

/-- the state in which the function of a subbuild starts -/
def subStart (sp : SpecSt) (fname : String) (args kwargs : Json) : SpecSt :=
  { sp with
    claimedSubs := subKey fname args kwargs :: sp.claimedSubs
    invLog := ⟨fname, none, args, kwargs⟩ :: sp.invLog }

theorem run_subbuild_eq (fname : String) (args kwargs : Json) (body : Prog) (k : CallRes → Prog)
    (t : Option Path) (sp : SpecSt)
    (h1 : sp.claimedSubs.any (heq (subKey fname args kwargs)) = false) (h2 : sp.failSubs = []) :
    run (.subbuild fname args kwargs body k) t sp =
      (let s1 := subStart sp fname args kwargs
       let rb := run body none s1
       let rk := run (k rb.1) t rb.2.1
       (rk.1, rk.2.1, CallNode.mk fname none args kwargs (statusOf rb.1) rb.2.2 :: rk.2.2)) := by
  simp only [run, h1, h2, List.any_nil, Bool.false_eq_true, if_false, subStart]

theorem run_buildFile_proj (path : Path) (cmp : Cmp) (fname : String) (args kwargs : Json) (body : Prog)
    (k : CallRes → Prog) (t : Option Path) (sp sp1 s1' : SpecSt) (made : List Path)
    (h : bfSetup sp path = .ok (sp1, made))
    (hs1' : s1' = { sp1 with invLog := ⟨fname, some path, args, kwargs⟩ :: sp1.invLog })
    (r2 : CallRes) (sp2 : SpecSt) (tr2 : List CallNode) (hrb : run body (some path) s1' = (r2, sp2, tr2)) :
    (run (.buildFile path cmp fname args kwargs body k) t sp).1 =
      (run (k (bfFinish sp2 path made r2).1) t (bfFinish sp2 path made r2).2).1 ∧
    (run (.buildFile path cmp fname args kwargs body k) t sp).2.1 =
      (run (k (bfFinish sp2 path made r2).1) t (bfFinish sp2 path made r2).2).2.1 := by
  subst hs1'
  rw [run_buildFile_eq _ _ _ _ _ _ _ _ _ _ _ h]
  simp only [hrb]
  constructor <;> first | rfl | trivial

theorem run_subbuild_proj (fname : String) (args kwargs : Json) (body : Prog) (k : CallRes → Prog)
    (t : Option Path) (sp s1 : SpecSt)
    (h1 : sp.claimedSubs.any (heq (subKey fname args kwargs)) = false) (h2 : sp.failSubs = [])
    (hs1 : s1 = subStart sp fname args kwargs)
    (r2 : CallRes) (sp2 : SpecSt) (tr2 : List CallNode) (hrb : run body none s1 = (r2, sp2, tr2)) :
    (run (.subbuild fname args kwargs body k) t sp).1 = (run (k r2) t sp2).1 ∧
    (run (.subbuild fname args kwargs body k) t sp).2.1 = (run (k r2) t sp2).2.1 := by
  subst hs1
  rw [run_subbuild_eq _ _ _ _ _ _ _ h1 h2]
  simp only [hrb]
  constructor <;> first | rfl | trivial

/-- the state `bfFinish` leaves when the call fails -/
def failSt (s : SpecSt) (path : Path) (made : List Path) : SpecSt :=
  { s with inProg := s.inProg.erase path, pending := s.pending.filter (fun x => x.1 ≠ path),
           fs := rmEmpty s.fs made,
           createdDirs := (made.filter (rmEmpty s.fs made).isDir) ++ s.createdDirs }

theorem bfFinish_error (s : SpecSt) (path : Path) (made : List Path) (e : Exc) :
    bfFinish s path made (.error e) = (.error e, failSt s path made) := by
  unfold bfFinish failSt; rfl

theorem bfFinish_notCreated (s : SpecSt) (path : Path) (made : List Path) (j : Json)
    (h : pendingFind s.pending path = none) :
    bfFinish s path made (.ok j) = (.error (notCreatedExc path), failSt s path made) := by
  unfold bfFinish failSt; simp only [h]

theorem failSt_sim (sp2 : SpecSt) (s2 : KSt) (path : Path) (made : List Path) (h : SpecSt.Sim sp2 s2.sp) :
    SpecSt.Sim (failSt sp2 path made) (Impl.unwind s2 path made).sp := by
  have hfs := sim_rmEmpty made h.fs
  have hfilter : made.filter (rmEmpty sp2.fs made).isDir = made.filter (rmEmpty s2.sp.fs made).isDir := by
    apply List.filter_congr
    intro x _; exact hfs.isDir x
  simp only [failSt, Impl.unwind]
  exact ⟨hfs, h.cacheFile, h.dirSize, h.claimedFiles, h.claimedSubs, by simp [h.inProg], h.outputs,
    by simp [hfilter, h.createdDirs], h.failFiles, h.failSubs⟩

/-- **Soundness of replay.** -/
theorem replay_sound {ds : Nat} {prog : Prog} {t : Option Path} {ops : List Op} {r : CallRes}
    {w : Option String} (hF : Follows ds prog t ops r w) :
    ∀ (sp : SpecSt) (s s' : KSt), SpecSt.Sim sp s.sp → sp.dirSize = ds → sp.failFiles = [] →
      sp.failSubs = [] → s.WF → PendClaimed sp → (∀ p, t = some p → p ∈ s.sp.claimedFiles) →
      FaithfulOps s.InU ops → Impl.replayOps ops s = some s' → SoundConcl prog t sp r w s' := by
  induction hF with
  | retOk v t j hj =>
    intro sp s s' hsim _ _ _ _ hpc _ _ hr
    simp [Impl.replayOps] at hr; subst hr
    refine ⟨by simp [run, hj], by simpa [run, hj] using hsim, by simpa [run, hj] using hpc, ?_⟩
    intro p _; simp [run, hj]
  | retBad v t hj =>
    intro sp s s' hsim _ _ _ _ hpc _ _ hr
    simp [Impl.replayOps] at hr; subst hr
    refine ⟨by simp [run, hj], by simpa [run, hj] using hsim, by simpa [run, hj] using hpc, ?_⟩
    intro p _; simp [run, hj]
  | raise e t =>
    intro sp s s' hsim _ _ _ _ hpc _ _ hr
    simp [Impl.replayOps] at hr; subst hr
    exact ⟨rfl, hsim, hpc, fun p _ => ⟨fun _ => rfl, fun c hc => by cases hc⟩⟩
  | query q k t ops r w ret exc ans hrec _ ih =>
    intro sp s s' hsim hds hff hfs hwf hpc htc hfa hr
    obtain ⟨sm, h1, h2⟩ := (replayOps_cons _ _ _ _).mp hr
    unfold FaithfulOps at hfa
    have hds' : s.sp.dirSize = ds := by rw [← hsim.dirSize, hds]
    obtain ⟨hsm, hans⟩ := replay_simple_sound s sm q ret exc ans (hds' ▸ hrec) hfa.1 h1
    subst hsm
    have hrun : run (.query q k) t sp = run (k ans) t sp := by
      simp only [run]
      rw [View.sim_answer (sim_visible hsim), hsim.dirSize, hans]
    have := ih sp sm s' hsim hds hff hfs hwf hpc htc hfa.2 h2
    unfold SoundConcl at this ⊢
    rw [hrun]; exact this
  | writeSome b mt k p ops r w _ ih =>
    intro sp s s' hsim hds hff hfs hwf hpc htc hfa hr
    have hpcl : p ∈ sp.claimedFiles := by rw [hsim.claimedFiles]; exact htc p rfl
    let sp' : SpecSt := { sp with pending := (p, b, mt.getD sp.clock) :: sp.pending, clock := sp.clock + 1 }
    have hsim' : SpecSt.Sim sp' s.sp := ⟨hsim.fs, hsim.cacheFile, hsim.dirSize, hsim.claimedFiles,
      hsim.claimedSubs, hsim.inProg, hsim.outputs, hsim.createdDirs, hsim.failFiles, hsim.failSubs⟩
    have hpc' : PendClaimed sp' := by
      intro q hq
      have hne : p ≠ q := fun e => hq (e ▸ hpcl)
      show pendingFind ((p, b, mt.getD sp.clock) :: sp.pending) q = none
      rw [pendingFind_cons_ne _ _ _ _ _ hne]; exact hpc q hq
    have := ih sp' s s' hsim' hds hff hfs hwf hpc' htc hfa hr
    have hrun : run (.write b mt k) (some p) sp = run k (some p) sp' := by
      show _ = run k (some p) { sp with pending := (p, b, mt.getD sp.clock) :: sp.pending, clock := sp.clock + 1 }
      simp only [run]
    unfold SoundConcl at this ⊢
    rw [hrun]
    refine ⟨this.1, this.2.1, this.2.2.1, ?_⟩
    intro p' hp'
    injection hp' with hp'; subst hp'
    obtain ⟨hnone, hsome⟩ := this.2.2.2 p rfl
    refine ⟨(fun hc => nomatch hc), fun c hc => ?_⟩
    cases w with
    | none =>
      simp at hc; subst hc
      exact ⟨mt.getD sp.clock, (by rw [hnone rfl]; exact pendingFind_cons_self _ _ _ _)⟩
    | some c' =>
      simp at hc; subst hc
      exact hsome c' rfl
  | writeNone b mt k ops r w _ ih =>
    intro sp s s' hsim hds hff hfs hwf hpc htc hfa hr
    have := ih sp s s' hsim hds hff hfs hwf hpc htc hfa hr
    have hrun : run (.write b mt k) none sp = run k none sp := by simp only [run]
    unfold SoundConcl at this ⊢
    rw [hrun]
    exact ⟨this.1, this.2.1, this.2.2.1, fun p hp => by cases hp⟩
  | bfSetupFail path cmp fname args kwargs body k t ops r w e _ _ =>
    intro sp s s' _ _ _ _ _ _ _ _ hr
    obtain ⟨sm, h1, _⟩ := (replayOps_cons _ _ _ _).mp hr
    obtain ⟨_, _, hsf, _⟩ := replayOp_buildFile_some _ _ _ _ _ _ _ _ _ _ _ _ _ h1
    cases hsf
  | bfOk path cmp fname args kwargs body k t subs j c m0 ops r w _ _ ihb ihk =>
    intro sp s s' hsim hds hff hfs hwf hpc htc hfa hr
    obtain ⟨sm, h1, h2⟩ := (replayOps_cons _ _ _ _).mp hr
    obtain ⟨_, hom, _, hncl, hcf, habs, made, s2, hdm, hlong, hs2, hsm⟩ :=
      replayOp_buildFile_some _ _ _ _ _ _ _ _ _ _ _ _ _ h1
    simp only [Bool.false_eq_true, if_false] at hsm
    obtain ⟨hpne, b, m, hshelf, heq⟩ := outputMatches_shelf s path cmp c m0 (hom rfl)
    unfold FaithfulOps at hfa
    obtain ⟨hfop, hfrest⟩ := hfa
    unfold FaithfulOp at hfop
    have hbc : b = c := hfop.1 rfl b m (Or.inr hshelf) heq
    obtain ⟨sp1, hsetup, hsim1, hpend1, hcl1⟩ := setup_match sp s path made false hsim hff hncl hcf habs hdm hlong
    -- the function body, from scratch
    obtain ⟨s1', hs1'⟩ : ∃ x : SpecSt, x = { sp1 with invLog := ⟨fname, some path, args, kwargs⟩ :: sp1.invLog } :=
      ⟨_, rfl⟩
    have hsim1' : SpecSt.Sim s1' (replayS1 s path made false).sp := by
      rw [hs1']
      exact ⟨hsim1.fs, hsim1.cacheFile, hsim1.dirSize, hsim1.claimedFiles, hsim1.claimedSubs, hsim1.inProg,
       hsim1.outputs, hsim1.createdDirs, hsim1.failFiles, hsim1.failSubs⟩
    have hwf1 : (replayS1 s path made false).WF := by
      intro p hp
      simp only [replayS1, List.mem_cons] at hp ⊢
      rcases hp with rfl | hp
      · exact Or.inl rfl
      · exact Or.inr (hwf p hp)
    have hds1 : s1'.dirSize = ds := by
      rw [hs1']; show sp1.dirSize = ds
      rw [hsim1.dirSize]; simp only [replayS1]; rw [← hsim.dirSize, hds]
    have hff1 : s1'.failFiles = [] := by
      rw [hs1']; show sp1.failFiles = []
      rw [hsim1.failFiles]; simp only [replayS1]; rw [← hsim.failFiles, hff]
    have hfs1 : s1'.failSubs = [] := by
      rw [hs1']; show sp1.failSubs = []
      rw [hsim1.failSubs]; simp only [replayS1]; rw [← hsim.failSubs, hfs]
    have hpc1 : PendClaimed s1' := by
      intro q hq
      rw [hs1'] at hq ⊢
      show pendingFind sp1.pending q = none
      rw [hpend1]
      apply hpc q
      intro hc; apply hq
      show q ∈ sp1.claimedFiles
      rw [hcl1]; exact List.mem_cons_of_mem _ hc
    have hu1 : ∀ p b m, (replayS1 s path made false).InU p b m → s.InU p b m := by
      intro p b m hu
      rcases hu with hu | hu
      · exact Or.inl (mkdirs_file_rev _ _ _ _ _ hu)
      · exact Or.inr (get_filter_key_some s.shelf (fun q => !made.contains q) _ _ hu)
    have hbody := ihb s1' (replayS1 s path made false) s2 hsim1' hds1 hff1 hfs1 hwf1 hpc1
      (fun p hp => by injection hp with hp; subst hp; simp [replayS1])
      (FaithfulOps.mono hu1 subs hfop.2) hs2
    obtain ⟨hrb, hsim2, hpc2, hpend2⟩ := hbody
    obtain ⟨_, hwritten⟩ := hpend2 path rfl
    obtain ⟨mw, hwr⟩ := hwritten c rfl
    -- finishing the call
    have k12 := replayOps_keeps subs _ s2 hwf1 hs2
    have hshelf2 : s2.shelf.get path = some (.file b m) := by
      rw [k12.shelfInProg path (by simp [replayS1])]
      simp only [replayS1, Bool.false_eq_true, if_false]
      rw [get_filter_key s.shelf (fun q => !made.contains q) _ hpne]
      have : path ∉ made := path_not_in_made _ _ _ _ _ hpne hdm
      simp [this, hshelf]
    generalize hrbdef : run body (some path) s1' = rb at hrb hsim2 hpc2 hwr
    obtain ⟨r2, sp2, tr2⟩ := rb
    simp only at hrb hsim2 hpc2 hwr
    subst hrb
    have hfin : bfFinish sp2 path made (.ok j) =
        (.ok j, { sp2 with inProg := sp2.inProg.erase path,
                           pending := sp2.pending.filter (fun x => x.1 ≠ path),
                           fs := sp2.fs.set path (.file c mw), outputs := path :: sp2.outputs,
                           createdDirs := made ++ sp2.createdDirs }) := by
      unfold bfFinish
      simp only [hwr]
    have hsim3 : SpecSt.Sim (bfFinish sp2 path made (.ok j)).2 sm.sp := by
      rw [hfin, hsm]
      simp only [Impl.adopt, hshelf2, hpne, if_false]
      exact ⟨hsim2.fs.set path _ _ (by simp [Entry.sim, hbc]), hsim2.cacheFile, hsim2.dirSize,
        hsim2.claimedFiles, hsim2.claimedSubs, by simp [hsim2.inProg], by simp [hsim2.outputs],
        by simp [hsim2.createdDirs], hsim2.failFiles, hsim2.failSubs⟩
    have k01 := replayOp_keeps _ s sm hwf h1
    have hpc3 : PendClaimed (bfFinish sp2 path made (.ok j)).2 := by
      intro q hq
      rw [bfFinish_claimed] at hq
      rw [bfFinish_pending]
      by_cases hqp : q = path
      · subst hqp; exact pendingFind_filter_self _ _
      · rw [pendingFind_filter_ne _ _ _ hqp]; exact hpc2 q hq
    have hds3 : (bfFinish sp2 path made (.ok j)).2.dirSize = ds := by
      rw [hsim3.dirSize, k01.dirSize, ← hsim.dirSize, hds]
    have hff3 : (bfFinish sp2 path made (.ok j)).2.failFiles = [] := by
      rw [hsim3.failFiles, k01.failFiles, ← hsim.failFiles, hff]
    have hfs3 : (bfFinish sp2 path made (.ok j)).2.failSubs = [] := by
      rw [hsim3.failSubs, k01.failSubs, ← hsim.failSubs, hfs]
    have hcont := ihk (bfFinish sp2 path made (.ok j)).2 sm s' hsim3 hds3 hff3 hfs3 (k01.wf hwf) hpc3
      (fun p hp => k01.claimed p (htc p hp)) (FaithfulOps.mono k01.univ ops hfrest) h2
    have hfin1 : (bfFinish sp2 path made (.ok j)).1 = .ok j := by rw [hfin]
    obtain ⟨hp1, hp2⟩ := run_buildFile_proj path cmp fname args kwargs body k t sp sp1 s1' made hsetup hs1'
      (.ok j) sp2 tr2 hrbdef
    rw [hfin1] at hp1 hp2
    unfold SoundConcl at hcont ⊢
    rw [hp1, hp2]
    refine ⟨hcont.1, hcont.2.1, hcont.2.2.1, ?_⟩
    intro p hp
    have hpcl : p ∈ s.sp.claimedFiles := htc p hp
    have hpp : p ≠ path := fun e => hncl (e ▸ hpcl)
    have hkeep : pendingFind (bfFinish sp2 path made (.ok j)).2.pending p = pendingFind sp.pending p := by
      rw [bfFinish_pending, pendingFind_filter_ne _ _ _ hpp]
      have hk := (run_keeps_claimed body (some path) s1').2 p
        (by rw [hs1']; show p ∈ sp1.claimedFiles; rw [hcl1, hsim.claimedFiles]; exact List.mem_cons_of_mem _ hpcl)
        (fun e => hpp (by injection e with e; exact e.symm))
      rw [hrbdef] at hk
      simp only at hk
      rw [hk, hs1']; show pendingFind sp1.pending p = _; rw [hpend1]
    obtain ⟨hn, hs_⟩ := hcont.2.2.2 p hp
    exact ⟨fun hw => by rw [hn hw, hkeep], hs_⟩
  | bfRaise path cmp fname args kwargs body k t subs e kept wb ops r w _ _ ihb ihk =>
    intro sp s s' hsim hds hff hfs hwf hpc htc hfa hr
    obtain ⟨sm, h1, h2⟩ := (replayOps_cons _ _ _ _).mp hr
    obtain ⟨_, _, _, hncl, hcf, habs, made, s2, hdm, hlong, hs2, hsm⟩ :=
      replayOp_buildFile_some _ _ _ _ _ _ _ _ _ _ _ _ _ h1
    simp only [if_true] at hsm
    unfold FaithfulOps at hfa
    obtain ⟨hfop, hfrest⟩ := hfa
    unfold FaithfulOp at hfop
    obtain ⟨sp1, hsetup, hsim1, hpend1, hcl1⟩ := setup_match sp s path made true hsim hff hncl hcf habs hdm hlong
    obtain ⟨s1', hs1'⟩ : ∃ x : SpecSt, x = { sp1 with invLog := ⟨fname, some path, args, kwargs⟩ :: sp1.invLog } :=
      ⟨_, rfl⟩
    have hsim1' : SpecSt.Sim s1' (replayS1 s path made true).sp := by
      rw [hs1']
      exact ⟨hsim1.fs, hsim1.cacheFile, hsim1.dirSize, hsim1.claimedFiles, hsim1.claimedSubs, hsim1.inProg,
       hsim1.outputs, hsim1.createdDirs, hsim1.failFiles, hsim1.failSubs⟩
    have hwf1 : (replayS1 s path made true).WF := by
      intro p hp
      simp only [replayS1, List.mem_cons] at hp ⊢
      rcases hp with rfl | hp
      · exact Or.inl rfl
      · exact Or.inr (hwf p hp)
    have hds1 : s1'.dirSize = ds := by
      rw [hs1']; show sp1.dirSize = ds
      rw [hsim1.dirSize]; simp only [replayS1]; rw [← hsim.dirSize, hds]
    have hff1 : s1'.failFiles = [] := by
      rw [hs1']; show sp1.failFiles = []
      rw [hsim1.failFiles]; simp only [replayS1]; rw [← hsim.failFiles, hff]
    have hfs1 : s1'.failSubs = [] := by
      rw [hs1']; show sp1.failSubs = []
      rw [hsim1.failSubs]; simp only [replayS1]; rw [← hsim.failSubs, hfs]
    have hpc1 : PendClaimed s1' := by
      intro q hq
      rw [hs1'] at hq ⊢
      show pendingFind sp1.pending q = none
      rw [hpend1]
      apply hpc q
      intro hc; apply hq
      show q ∈ sp1.claimedFiles
      rw [hcl1]; exact List.mem_cons_of_mem _ hc
    have hu1 : ∀ p b m, (replayS1 s path made true).InU p b m → s.InU p b m := by
      intro p b m hu
      rcases hu with hu | hu
      · exact Or.inl (mkdirs_file_rev _ _ _ _ _ hu)
      · exact Or.inr hu
    have hbody := ihb s1' (replayS1 s path made true) s2 hsim1' hds1 hff1 hfs1 hwf1 hpc1
      (fun p hp => by injection hp with hp; subst hp; simp [replayS1])
      (FaithfulOps.mono hu1 subs hfop.2) hs2
    obtain ⟨hrb, hsim2, hpc2, hpend2⟩ := hbody
    have k01 := replayOp_keeps _ s sm hwf h1
    generalize hrbdef : run body (some path) s1' = rb at hrb hsim2 hpc2 hpend2
    obtain ⟨r2, sp2, tr2⟩ := rb
    simp only at hrb hsim2 hpc2 hpend2
    subst hrb
    obtain ⟨hp1, hp2⟩ := run_buildFile_proj path cmp fname args kwargs body k t sp sp1 s1' made hsetup hs1'
      (.error e) sp2 tr2 hrbdef
    rw [bfFinish_error] at hp1 hp2
    simp only at hp1 hp2
    have hsim3 : SpecSt.Sim (failSt sp2 path made) sm.sp := by
      rw [hsm]; exact failSt_sim sp2 s2 path made hsim2
    have hpc3 : PendClaimed (failSt sp2 path made) := by
      intro q hq
      have hq' : q ∉ sp2.claimedFiles := hq
      show pendingFind (sp2.pending.filter (fun x => x.1 ≠ path)) q = none
      by_cases hqp : q = path
      · subst hqp; exact pendingFind_filter_self _ _
      · rw [pendingFind_filter_ne _ _ _ hqp]; exact hpc2 q hq'
    have hds3 : (failSt sp2 path made).dirSize = ds := by
      rw [hsim3.dirSize, k01.dirSize, ← hsim.dirSize, hds]
    have hff3 : (failSt sp2 path made).failFiles = [] := by
      rw [hsim3.failFiles, k01.failFiles, ← hsim.failFiles, hff]
    have hfs3 : (failSt sp2 path made).failSubs = [] := by
      rw [hsim3.failSubs, k01.failSubs, ← hsim.failSubs, hfs]
    have hcont := ihk (failSt sp2 path made) sm s' hsim3 hds3 hff3 hfs3 (k01.wf hwf) hpc3
      (fun p hp => k01.claimed p (htc p hp)) (FaithfulOps.mono k01.univ ops hfrest) h2
    unfold SoundConcl at hcont ⊢
    rw [hp1, hp2]
    refine ⟨hcont.1, hcont.2.1, hcont.2.2.1, ?_⟩
    intro p hp
    have hpcl : p ∈ s.sp.claimedFiles := htc p hp
    have hpp : p ≠ path := fun e => hncl (e ▸ hpcl)
    have hkeep : pendingFind (failSt sp2 path made).pending p = pendingFind sp.pending p := by
      show pendingFind (sp2.pending.filter (fun x => x.1 ≠ path)) p = _
      rw [pendingFind_filter_ne _ _ _ hpp]
      have hk := (run_keeps_claimed body (some path) s1').2 p
        (by rw [hs1']; show p ∈ sp1.claimedFiles; rw [hcl1, hsim.claimedFiles]; exact List.mem_cons_of_mem _ hpcl)
        (fun e => hpp (by injection e with e; exact e.symm))
      rw [hrbdef] at hk
      simp only at hk
      rw [hk, hs1']; show pendingFind sp1.pending p = _; rw [hpend1]
    obtain ⟨hn, hs_⟩ := hcont.2.2.2 p hp
    exact ⟨fun hw => by rw [hn hw, hkeep], hs_⟩
  | bfNotCreated path cmp fname args kwargs body k t subs j ops r w _ _ ihb ihk =>
    intro sp s s' hsim hds hff hfs hwf hpc htc hfa hr
    obtain ⟨sm, h1, h2⟩ := (replayOps_cons _ _ _ _).mp hr
    obtain ⟨_, _, _, hncl, hcf, habs, made, s2, hdm, hlong, hs2, hsm⟩ :=
      replayOp_buildFile_some _ _ _ _ _ _ _ _ _ _ _ _ _ h1
    simp only [if_true] at hsm
    unfold FaithfulOps at hfa
    obtain ⟨hfop, hfrest⟩ := hfa
    unfold FaithfulOp at hfop
    obtain ⟨sp1, hsetup, hsim1, hpend1, hcl1⟩ := setup_match sp s path made true hsim hff hncl hcf habs hdm hlong
    obtain ⟨s1', hs1'⟩ : ∃ x : SpecSt, x = { sp1 with invLog := ⟨fname, some path, args, kwargs⟩ :: sp1.invLog } :=
      ⟨_, rfl⟩
    have hsim1' : SpecSt.Sim s1' (replayS1 s path made true).sp := by
      rw [hs1']
      exact ⟨hsim1.fs, hsim1.cacheFile, hsim1.dirSize, hsim1.claimedFiles, hsim1.claimedSubs, hsim1.inProg,
       hsim1.outputs, hsim1.createdDirs, hsim1.failFiles, hsim1.failSubs⟩
    have hwf1 : (replayS1 s path made true).WF := by
      intro p hp
      simp only [replayS1, List.mem_cons] at hp ⊢
      rcases hp with rfl | hp
      · exact Or.inl rfl
      · exact Or.inr (hwf p hp)
    have hds1 : s1'.dirSize = ds := by
      rw [hs1']; show sp1.dirSize = ds
      rw [hsim1.dirSize]; simp only [replayS1]; rw [← hsim.dirSize, hds]
    have hff1 : s1'.failFiles = [] := by
      rw [hs1']; show sp1.failFiles = []
      rw [hsim1.failFiles]; simp only [replayS1]; rw [← hsim.failFiles, hff]
    have hfs1 : s1'.failSubs = [] := by
      rw [hs1']; show sp1.failSubs = []
      rw [hsim1.failSubs]; simp only [replayS1]; rw [← hsim.failSubs, hfs]
    have hpc1 : PendClaimed s1' := by
      intro q hq
      rw [hs1'] at hq ⊢
      show pendingFind sp1.pending q = none
      rw [hpend1]
      apply hpc q
      intro hc; apply hq
      show q ∈ sp1.claimedFiles
      rw [hcl1]; exact List.mem_cons_of_mem _ hc
    have hu1 : ∀ p b m, (replayS1 s path made true).InU p b m → s.InU p b m := by
      intro p b m hu
      rcases hu with hu | hu
      · exact Or.inl (mkdirs_file_rev _ _ _ _ _ hu)
      · exact Or.inr hu
    have hbody := ihb s1' (replayS1 s path made true) s2 hsim1' hds1 hff1 hfs1 hwf1 hpc1
      (fun p hp => by injection hp with hp; subst hp; simp [replayS1])
      (FaithfulOps.mono hu1 subs hfop.2) hs2
    obtain ⟨hrb, hsim2, hpc2, hpend2⟩ := hbody
    have k01 := replayOp_keeps _ s sm hwf h1
    generalize hrbdef : run body (some path) s1' = rb at hrb hsim2 hpc2 hpend2
    obtain ⟨r2, sp2, tr2⟩ := rb
    simp only at hrb hsim2 hpc2 hpend2
    subst hrb
    have hnone : pendingFind sp2.pending path = none := by
      rw [(hpend2 path rfl).1 trivial, hs1']
      show pendingFind sp1.pending path = none
      rw [hpend1]
      exact hpc path (by rw [hsim.claimedFiles]; exact hncl)
    obtain ⟨hp1, hp2⟩ := run_buildFile_proj path cmp fname args kwargs body k t sp sp1 s1' made hsetup hs1'
      (.ok j) sp2 tr2 hrbdef
    rw [bfFinish_notCreated _ _ _ _ hnone] at hp1 hp2
    simp only at hp1 hp2
    have hsim3 : SpecSt.Sim (failSt sp2 path made) sm.sp := by
      rw [hsm]; exact failSt_sim sp2 s2 path made hsim2
    have hpc3 : PendClaimed (failSt sp2 path made) := by
      intro q hq
      have hq' : q ∉ sp2.claimedFiles := hq
      show pendingFind (sp2.pending.filter (fun x => x.1 ≠ path)) q = none
      by_cases hqp : q = path
      · subst hqp; exact pendingFind_filter_self _ _
      · rw [pendingFind_filter_ne _ _ _ hqp]; exact hpc2 q hq'
    have hds3 : (failSt sp2 path made).dirSize = ds := by
      rw [hsim3.dirSize, k01.dirSize, ← hsim.dirSize, hds]
    have hff3 : (failSt sp2 path made).failFiles = [] := by
      rw [hsim3.failFiles, k01.failFiles, ← hsim.failFiles, hff]
    have hfs3 : (failSt sp2 path made).failSubs = [] := by
      rw [hsim3.failSubs, k01.failSubs, ← hsim.failSubs, hfs]
    have hcont := ihk (failSt sp2 path made) sm s' hsim3 hds3 hff3 hfs3 (k01.wf hwf) hpc3
      (fun p hp => k01.claimed p (htc p hp)) (FaithfulOps.mono k01.univ ops hfrest) h2
    unfold SoundConcl at hcont ⊢
    rw [hp1, hp2]
    refine ⟨hcont.1, hcont.2.1, hcont.2.2.1, ?_⟩
    intro p hp
    have hpcl : p ∈ s.sp.claimedFiles := htc p hp
    have hpp : p ≠ path := fun e => hncl (e ▸ hpcl)
    have hkeep : pendingFind (failSt sp2 path made).pending p = pendingFind sp.pending p := by
      show pendingFind (sp2.pending.filter (fun x => x.1 ≠ path)) p = _
      rw [pendingFind_filter_ne _ _ _ hpp]
      have hk := (run_keeps_claimed body (some path) s1').2 p
        (by rw [hs1']; show p ∈ sp1.claimedFiles; rw [hcl1, hsim.claimedFiles]; exact List.mem_cons_of_mem _ hpcl)
        (fun e => hpp (by injection e with e; exact e.symm))
      rw [hrbdef] at hk
      simp only at hk
      rw [hk, hs1']; show pendingFind sp1.pending p = _; rw [hpend1]
    obtain ⟨hn, hs_⟩ := hcont.2.2.2 p hp
    exact ⟨fun hw => by rw [hn hw, hkeep], hs_⟩
  | sbSetupFail fname args kwargs body k t ops r w e _ _ =>
    intro sp s s' _ _ _ _ _ _ _ _ hr
    obtain ⟨sm, h1, _⟩ := (replayOps_cons _ _ _ _).mp hr
    obtain ⟨_, hsf, _⟩ := replayOp_subbuild_some _ _ _ _ _ _ _ _ _ h1
    cases hsf
  | sbOk fname args kwargs body k t subs j wb ops r w _ _ ihb ihk =>
    intro sp s s' hsim hds hff hfs hwf hpc htc hfa hr
    obtain ⟨sm, h1, h2⟩ := (replayOps_cons _ _ _ _).mp hr
    obtain ⟨_, _, hkey, hsubs⟩ := replayOp_subbuild_some _ _ _ _ _ _ _ _ _ h1
    unfold FaithfulOps at hfa
    obtain ⟨hfop, hfrest⟩ := hfa
    unfold FaithfulOp at hfop
    obtain ⟨s1, hs1⟩ : ∃ x : SpecSt, x = subStart sp fname args kwargs := ⟨_, rfl⟩
    obtain ⟨k1, hk1⟩ : ∃ x : KSt, x = claimSub s (subKey fname args kwargs) := ⟨_, rfl⟩
    rw [← hk1] at hsubs
    have hsim1 : SpecSt.Sim s1 k1.sp := by
      rw [hs1, hk1]
      simp only [claimSub, subStart]
      exact ⟨hsim.fs, hsim.cacheFile, hsim.dirSize, hsim.claimedFiles, by simp [hsim.claimedSubs], hsim.inProg,
        hsim.outputs, hsim.createdDirs, hsim.failFiles, hsim.failSubs⟩
    have hwf1 : k1.WF := by rw [hk1]; exact hwf
    have hpc1 : PendClaimed s1 := by rw [hs1]; exact hpc
    have hfa1 : FaithfulOps k1.InU subs := by
      apply FaithfulOps.mono _ subs hfop
      intro p b m hu; rw [hk1] at hu; exact hu
    have hbody := ihb s1 k1 sm hsim1 (by rw [hs1]; exact hds) (by rw [hs1]; exact hff) (by rw [hs1]; exact hfs)
      hwf1 hpc1 (fun p hp => nomatch hp) hfa1 hsubs
    obtain ⟨hrb, hsim2, hpc2, _⟩ := hbody
    have k01 := replayOp_keeps _ s sm hwf h1
    generalize hrbdef : run body none s1 = rb at hrb hsim2 hpc2
    obtain ⟨r2, sp2, tr2⟩ := rb
    simp only at hrb hsim2 hpc2
    subst hrb
    have hkey' : sp.claimedSubs.any (heq (subKey fname args kwargs)) = false := by rw [hsim.claimedSubs]; exact hkey
    obtain ⟨hp1, hp2⟩ := run_subbuild_proj fname args kwargs body k t sp s1 hkey' hfs hs1 _ sp2 tr2 hrbdef
    have hds3 : sp2.dirSize = ds := by rw [hsim2.dirSize, k01.dirSize, ← hsim.dirSize, hds]
    have hff3 : sp2.failFiles = [] := by rw [hsim2.failFiles, k01.failFiles, ← hsim.failFiles, hff]
    have hfs3 : sp2.failSubs = [] := by rw [hsim2.failSubs, k01.failSubs, ← hsim.failSubs, hfs]
    have hcont := ihk sp2 sm s' hsim2 hds3 hff3 hfs3 (k01.wf hwf) hpc2
      (fun p hp => k01.claimed p (htc p hp)) (FaithfulOps.mono k01.univ ops hfrest) h2
    unfold SoundConcl at hcont ⊢
    rw [hp1, hp2]
    refine ⟨hcont.1, hcont.2.1, hcont.2.2.1, ?_⟩
    intro p hp
    have hpcl : p ∈ s.sp.claimedFiles := htc p hp
    have hkeep : pendingFind sp2.pending p = pendingFind sp.pending p := by
      have hk := (run_keeps_claimed body none s1).2 p
        (by rw [hs1]; show p ∈ sp.claimedFiles; rw [hsim.claimedFiles]; exact hpcl) (by simp)
      rw [hrbdef] at hk
      simp only at hk
      rw [hk, hs1]; rfl
    obtain ⟨hn, hs_⟩ := hcont.2.2.2 p hp
    exact ⟨fun hw => by rw [hn hw, hkeep], hs_⟩
  | sbRaise fname args kwargs body k t subs e wb ops r w _ _ ihb ihk =>
    intro sp s s' hsim hds hff hfs hwf hpc htc hfa hr
    obtain ⟨sm, h1, h2⟩ := (replayOps_cons _ _ _ _).mp hr
    obtain ⟨_, _, hkey, hsubs⟩ := replayOp_subbuild_some _ _ _ _ _ _ _ _ _ h1
    unfold FaithfulOps at hfa
    obtain ⟨hfop, hfrest⟩ := hfa
    unfold FaithfulOp at hfop
    obtain ⟨s1, hs1⟩ : ∃ x : SpecSt, x = subStart sp fname args kwargs := ⟨_, rfl⟩
    obtain ⟨k1, hk1⟩ : ∃ x : KSt, x = claimSub s (subKey fname args kwargs) := ⟨_, rfl⟩
    rw [← hk1] at hsubs
    have hsim1 : SpecSt.Sim s1 k1.sp := by
      rw [hs1, hk1]
      simp only [claimSub, subStart]
      exact ⟨hsim.fs, hsim.cacheFile, hsim.dirSize, hsim.claimedFiles, by simp [hsim.claimedSubs], hsim.inProg,
        hsim.outputs, hsim.createdDirs, hsim.failFiles, hsim.failSubs⟩
    have hwf1 : k1.WF := by rw [hk1]; exact hwf
    have hpc1 : PendClaimed s1 := by rw [hs1]; exact hpc
    have hfa1 : FaithfulOps k1.InU subs := by
      apply FaithfulOps.mono _ subs hfop
      intro p b m hu; rw [hk1] at hu; exact hu
    have hbody := ihb s1 k1 sm hsim1 (by rw [hs1]; exact hds) (by rw [hs1]; exact hff) (by rw [hs1]; exact hfs)
      hwf1 hpc1 (fun p hp => nomatch hp) hfa1 hsubs
    obtain ⟨hrb, hsim2, hpc2, _⟩ := hbody
    have k01 := replayOp_keeps _ s sm hwf h1
    generalize hrbdef : run body none s1 = rb at hrb hsim2 hpc2
    obtain ⟨r2, sp2, tr2⟩ := rb
    simp only at hrb hsim2 hpc2
    subst hrb
    have hkey' : sp.claimedSubs.any (heq (subKey fname args kwargs)) = false := by rw [hsim.claimedSubs]; exact hkey
    obtain ⟨hp1, hp2⟩ := run_subbuild_proj fname args kwargs body k t sp s1 hkey' hfs hs1 _ sp2 tr2 hrbdef
    have hds3 : sp2.dirSize = ds := by rw [hsim2.dirSize, k01.dirSize, ← hsim.dirSize, hds]
    have hff3 : sp2.failFiles = [] := by rw [hsim2.failFiles, k01.failFiles, ← hsim.failFiles, hff]
    have hfs3 : sp2.failSubs = [] := by rw [hsim2.failSubs, k01.failSubs, ← hsim.failSubs, hfs]
    have hcont := ihk sp2 sm s' hsim2 hds3 hff3 hfs3 (k01.wf hwf) hpc2
      (fun p hp => k01.claimed p (htc p hp)) (FaithfulOps.mono k01.univ ops hfrest) h2
    unfold SoundConcl at hcont ⊢
    rw [hp1, hp2]
    refine ⟨hcont.1, hcont.2.1, hcont.2.2.1, ?_⟩
    intro p hp
    have hpcl : p ∈ s.sp.claimedFiles := htc p hp
    have hkeep : pendingFind sp2.pending p = pendingFind sp.pending p := by
      have hk := (run_keeps_claimed body none s1).2 p
        (by rw [hs1]; show p ∈ sp.claimedFiles; rw [hsim.claimedFiles]; exact hpcl) (by simp)
      rw [hrbdef] at hk
      simp only at hk
      rw [hk, hs1]; rfl
    obtain ⟨hn, hs_⟩ := hcont.2.2.2 p hp
    exact ⟨fun hw => by rw [hn hw, hkeep], hs_⟩

/-! ### HASH needs no assumption -/

mutual
/-- every comparison in the record tree is a HASH comparison -/
def Op.allHash : Op → Bool
  | .simple q _ _ _ => match q with
    | .read _ cmp => cmp == .hash
    | _ => true
  | .buildFile _ cmp _ _ _ subs _ _ _ _ _ => cmp == .hash && Op.allHashL subs
  | .subbuild _ _ _ subs _ _ _ => Op.allHashL subs
def Op.allHashL : List Op → Bool
  | [] => true
  | o :: os => Op.allHash o && Op.allHashL os
end

/-- With HASH, `FaithfulOps` is a theorem, not an assumption: a file whose hash equals the recorded one
    has the recorded bytes. -/
theorem faithful_of_hash {ds : Nat} {prog : Prog} {t : Option Path} {ops : List Op} {r : CallRes}
    {w : Option String} (hF : Follows ds prog t ops r w) (U : Path → String → Nat → Prop) :
    Op.allHashL ops = true → FaithfulOps U ops := by
  induction hF with
  | retOk _ _ _ _ => intro _; unfold FaithfulOps; trivial
  | retBad _ _ _ => intro _; unfold FaithfulOps; trivial
  | raise _ _ => intro _; unfold FaithfulOps; trivial
  | query q k t ops r w ret exc ans hrec _ ih =>
    intro h
    simp only [Op.allHashL, Bool.and_eq_true] at h
    unfold FaithfulOps
    refine ⟨?_, ih h.2⟩
    unfold FaithfulOp
    cases exc with
    | some e => simp
    | none =>
      cases q with
      | read p cmp =>
        unfold RecOK at hrec
        simp only at hrec
        obtain ⟨c', m', hret, hans⟩ := hrec
        subst hans hret
        simp only
        intro b m _ he
        have hc : cmp = Cmp.hash := by simpa [Op.allHash] using h.1
        subst hc
        exact cmpResult_hash_inj _ _ _ _ he
      | _ => simp
  | writeSome _ _ _ _ _ _ _ _ ih => exact ih
  | writeNone _ _ _ _ _ _ _ ih => exact ih
  | bfSetupFail _ _ _ _ _ _ _ _ _ _ _ _ _ ih =>
    intro h
    simp only [Op.allHashL, Bool.and_eq_true] at h
    unfold FaithfulOps
    refine ⟨?_, ih h.2⟩
    unfold FaithfulOp
    exact ⟨(fun hr => by cases hr), (by unfold FaithfulOps; trivial)⟩
  | bfOk path cmp _ _ _ _ _ _ subs j c m0 _ _ _ _ _ ihb ihk =>
    intro h
    simp only [Op.allHashL, Op.allHash, Bool.and_eq_true, beq_iff_eq] at h
    unfold FaithfulOps
    refine ⟨?_, ihk h.2⟩
    unfold FaithfulOp
    refine ⟨fun _ b m _ he => ?_, ihb h.1.2⟩
    have hc : cmp = Cmp.hash := h.1.1
    subst hc
    exact (cmpResult_hash_inj _ _ _ _ he).symm
  | bfRaise _ _ _ _ _ _ _ _ _ _ _ _ _ _ _ _ _ ihb ihk =>
    intro h
    simp only [Op.allHashL, Op.allHash, Bool.and_eq_true] at h
    unfold FaithfulOps
    refine ⟨?_, ihk h.2⟩
    unfold FaithfulOp
    exact ⟨(fun hr => by cases hr), ihb h.1.2⟩
  | bfNotCreated _ _ _ _ _ _ _ _ _ _ _ _ _ _ _ ihb ihk =>
    intro h
    simp only [Op.allHashL, Op.allHash, Bool.and_eq_true] at h
    unfold FaithfulOps
    refine ⟨?_, ihk h.2⟩
    unfold FaithfulOp
    exact ⟨(fun hr => by cases hr), ihb h.1.2⟩
  | sbSetupFail _ _ _ _ _ _ _ _ _ _ _ ih =>
    intro h
    simp only [Op.allHashL, Bool.and_eq_true] at h
    unfold FaithfulOps
    refine ⟨?_, ih h.2⟩
    unfold FaithfulOp FaithfulOps; trivial
  | sbOk _ _ _ _ _ _ _ _ _ _ _ _ _ _ ihb ihk =>
    intro h
    simp only [Op.allHashL, Op.allHash, Bool.and_eq_true] at h
    unfold FaithfulOps
    refine ⟨?_, ihk h.2⟩
    unfold FaithfulOp
    exact ihb h.1
  | sbRaise _ _ _ _ _ _ _ _ _ _ _ _ _ _ ihb ihk =>
    intro h
    simp only [Op.allHashL, Op.allHash, Bool.and_eq_true] at h
    unfold FaithfulOps
    refine ⟨?_, ihk h.2⟩
    unfold FaithfulOp
    exact ihb h.1

/-! ### the theorem at the API edge: a subbuild served from the cache -/

/-- what a successful `_subbuild_cache_lookup` means -/
theorem lookupSub_some (s : KSt) (fname : String) (args kwargs : Json) (op : Op) (s2 : KSt)
    (h : Impl.lookupSub s fname args kwargs = some (op, s2)) :
    ∃ f a k subs ret sf, s.old.getSub (subKey fname args kwargs) = some (.subbuild f a k subs ret false sf) ∧
      Impl.versionOk s fname = true ∧ Impl.replayOps subs s = some s2 ∧
      op = .subbuild fname args kwargs subs ret false false := by
  unfold Impl.lookupSub at h
  split at h
  · rename_i f a k subs ret sf hget
    split at h
    · rename_i hv
      split at h
      · cases h
      · rename_i s2' hs2
        simp only [Option.some.injEq, Prod.mk.injEq] at h
        exact ⟨f, a, k, subs, ret, sf, hget, hv, by rw [hs2, h.2], h.1.symm⟩
    · cases h
  · cases h

/-- **C01, cache transparency for one call**: when `subbuild` is served from the cache, calling the
    function from scratch instead would return the cached value and leave the same state (up to
    modification times, clocks and logs). -/
theorem C01_subbuild_hit_transparent {ds : Nat} (fname : String) (args kwargs : Json) (body : Prog)
    (s s2 : KSt) (sp : SpecSt) (op : Op) (subs : List Op) (ret : Json) (wb : Option String)
    (hl : Impl.lookupSub s fname args kwargs = some (op, s2))
    (hrec : ∀ f a k subs' ret' sf, s.old.getSub (subKey fname args kwargs) = some (.subbuild f a k subs' ret' false sf) →
      subs' = subs ∧ ret' = ret)
    (hF : Follows ds body none subs (.ok ret) wb)
    (hsim : SpecSt.Sim sp s.sp) (hds : sp.dirSize = ds) (hff : sp.failFiles = []) (hfs : sp.failSubs = [])
    (hwf : s.WF) (hpc : PendClaimed sp) (hfa : FaithfulOps s.InU subs) :
    (run body none sp).1 = .ok ret ∧ SpecSt.Sim (run body none sp).2.1 s2.sp := by
  obtain ⟨f, a, k, subs', ret', sf, hget, _, hrep, _⟩ := lookupSub_some _ _ _ _ _ _ hl
  obtain ⟨rfl, rfl⟩ := hrec f a k subs' ret' sf hget
  have := replay_sound hF sp s s2 hsim hds hff hfs hwf hpc (fun p hp => nomatch hp) hfa hrep
  exact ⟨this.1, this.2.1⟩

/-! ### the hypotheses are satisfiable -/

/-- a record that follows a program and replays in a concrete state -/
example :
    let prog : Prog := .query (.isFile ["a"]) (fun _ => .ret .null)
    let ops : List Op := [.simple (.isFile ["a"]) (.bool false) none (.ok (.bool false))]
    let s : KSt := { sp := { fs := [], cacheFile := ["c"], dirSize := 4096, clock := 0 }, old := { buildName := "n" } }
    Follows 4096 prog none ops (.ok .null) none ∧ Impl.replayOps ops s = some s ∧ s.WF ∧
      FaithfulOps s.InU ops ∧ PendClaimed s.sp := by
  refine ⟨?_, ?_, ?_, ?_, ?_⟩
  · exact Follows.query _ _ _ _ _ _ _ _ _ ⟨⟨[], rfl⟩, rfl⟩ (Follows.retOk _ _ _ rfl)
  · simp [Impl.replayOps, Impl.replayOp, View.recVal, visible, FS.isFile, FS.get, FS.erase, isEqual]
  · intro p hp; cases hp
  · unfold FaithfulOps FaithfulOp FaithfulOps; exact ⟨trivial, trivial⟩
  · intro q _; rfl

end FB
