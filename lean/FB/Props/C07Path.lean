/-
  C07, the path half: `_sanitize_filename` (`FB.PathNorm.abspath`) maps every spelling of a path — redundant
  separators, `.` components, `name/..` detours, a trailing separator, relative to the working directory — to
  the same absolute path, whose components contain no empty name, no `.` and no `..`; normalising twice is
  normalising once.
-/
import FB.PathNorm
import Mathlib.Data.List.Basic
namespace FB
namespace PathNorm

theorem loop_append (abs : Bool) (a b : List String) : ∀ st, loop abs st (a ++ b) = loop abs (loop abs st a) b := by
  induction a with
  | nil => intro st; rfl
  | cons c r ih =>
    intro st
    simp only [List.cons_append, loop]
    split
    · exact ih st
    · split
      · exact ih _
      · exact ih _

/-- redundant separators (`a//b`, a trailing `/`) and `.` components do not matter -/
theorem loop_skip (abs : Bool) (a b : List String) (st : List String) (c : String) (hc : c = "" ∨ c = ".") :
    loop abs st (a ++ c :: b) = loop abs st (a ++ b) := by
  rw [loop_append, loop_append]
  simp only [loop, hc, if_true]

/-- a detour `name/..` does not matter -/
theorem loop_detour (abs : Bool) (a b : List String) (st : List String) (c : String)
    (h1 : c ≠ "") (h2 : c ≠ ".") (h3 : c ≠ "..") :
    loop abs st (a ++ c :: ".." :: b) = loop abs st (a ++ b) := by
  rw [loop_append, loop_append]
  generalize loop abs st a = st'
  simp only [loop, h1, h2, h3, false_or, ne_eq, not_false_eq_true, true_or, if_true, if_false]
  have : ¬ (".." = "" ∨ ".." = ".") := by decide
  simp only [this, if_false, not_true_eq_false, List.head?_cons, Option.some.injEq, false_or]
  have h3' : ¬ c = ".." := h3
  simp [h3']

/-- what a normalised component list looks like -/
def Clean (abs : Bool) (l : List String) : Prop :=
  (∀ c ∈ l, c ≠ "" ∧ c ≠ ".") ∧ (abs = true → ".." ∉ l)

theorem loop_clean (abs : Bool) : ∀ (comps st : List String), Clean abs st → Clean abs (loop abs st comps) := by
  intro comps
  induction comps with
  | nil => intro st h; exact h
  | cons c r ih =>
    intro st h
    simp only [loop]
    split
    · exact ih st h
    · rename_i hc
      have hc1 : c ≠ "" := fun e => hc (Or.inl e)
      have hc2 : c ≠ "." := fun e => hc (Or.inr e)
      split
      · rename_i hpush
        apply ih
        refine ⟨?_, ?_⟩
        · intro x hx
          rcases List.mem_cons.mp hx with rfl | hx
          · exact ⟨hc1, hc2⟩
          · exact h.1 x hx
        · intro ha hm
          rcases List.mem_cons.mp hm with hcd | hm
          · -- `..` is pushed only for relative paths, or on top of another `..`
            rcases hpush with hne | ⟨hrel, _⟩ | hhead
            · exact hne hcd.symm
            · simp [ha] at hrel
            · have : ".." ∈ st := by
                cases st with
                | nil => simp at hhead
                | cons x xs => simp at hhead; simp [hhead]
              exact h.2 ha this
          · exact h.2 ha hm
      · apply ih
        refine ⟨fun x hx => h.1 x (List.mem_of_mem_tail hx), fun ha hm => h.2 ha (List.mem_of_mem_tail hm)⟩

/-- **C07 (path)**: a sanitised file name is absolute and its components contain no empty name, no `.`
    and no `..` -/
theorem abspath_clean (cwd comps : List String) (slashes : Nat) (hcwd : Clean true cwd) :
    let r := abspath cwd slashes comps
    (r.1 = 1 ∨ r.1 = 2) ∧ (∀ c ∈ r.2, c ≠ "" ∧ c ≠ "." ∧ c ≠ "..") := by
  simp only [abspath]
  split
  · rename_i hs
    simp only [normpath]
    refine ⟨by unfold initSlashes; rw [if_neg hs]; split <;> simp, ?_⟩
    have := loop_clean (decide (slashes ≠ 0)) comps [] ⟨(fun c hc => nomatch hc), (fun _ hm => nomatch hm)⟩
    intro c hc
    rw [List.mem_reverse] at hc
    exact ⟨(this.1 c hc).1, (this.1 c hc).2, fun e => this.2 (by simpa using hs) (e ▸ hc)⟩
  · simp only [normpath]
    refine ⟨Or.inl rfl, ?_⟩
    have := loop_clean true (cwd ++ comps) [] ⟨(fun c hc => nomatch hc), (fun _ hm => nomatch hm)⟩
    intro c hc
    rw [List.mem_reverse] at hc
    have h1 : decide ((1 : Nat) ≠ 0) = true := by decide
    rw [h1] at hc
    exact ⟨(this.1 c hc).1, (this.1 c hc).2, fun e => this.2 rfl (e ▸ hc)⟩

/-- on a clean absolute component list the loop is the identity -/
theorem loop_id_of_clean : ∀ (l st : List String), Clean true l → loop true st l = l.reverse ++ st := by
  intro l
  induction l with
  | nil => intro st _; simp [loop]
  | cons c r ih =>
    intro st h
    have hc := h.1 c (List.mem_cons_self ..)
    have hdd : c ≠ ".." := fun e => h.2 rfl (e ▸ List.mem_cons_self ..)
    simp only [loop, hc.1, hc.2, false_or, if_false, ne_eq, hdd, not_false_eq_true, true_or, if_true]
    rw [ih _ ⟨fun x hx => h.1 x (List.mem_cons_of_mem _ hx), fun ha hm => h.2 ha (List.mem_cons_of_mem _ hm)⟩]
    simp

/-- **C07 (path)**: sanitising is idempotent: a sanitised file name is its own sanitised form -/
theorem abspath_idempotent (cwd comps : List String) (slashes : Nat) (hcwd : Clean true cwd) :
    abspath cwd (abspath cwd slashes comps).1 (abspath cwd slashes comps).2 = abspath cwd slashes comps := by
  obtain ⟨hs, hcl⟩ := abspath_clean cwd comps slashes hcwd
  have hclean : Clean true (abspath cwd slashes comps).2 :=
    ⟨fun c hc => ⟨(hcl c hc).1, (hcl c hc).2.1⟩, fun _ hm => (hcl _ hm).2.2 rfl⟩
  generalize abspath cwd slashes comps = r at hs hcl hclean
  obtain ⟨n, l⟩ := r
  simp only at hs hclean
  have hn : n ≠ 0 := by rcases hs with rfl | rfl <;> decide
  have hd : decide (n ≠ 0) = true := by simpa using hn
  simp only [abspath, hn, ne_eq, not_false_eq_true, if_true, normpath, decide_true]
  rw [loop_id_of_clean l [] hclean]
  rcases hs with rfl | rfl <;> simp [initSlashes]

/-- **C07 (path)**: a relative spelling and the absolute spelling of the same file are sanitised to the same
    name -/
theorem abspath_relative (cwd comps : List String) : abspath cwd 0 comps = abspath cwd 1 (cwd ++ comps) := by
  simp [abspath]

example : abspath ["tmp", "w"] 0 ["a", "", ".", "x", "..", "b", ""] = (1, ["tmp", "w", "a", "b"]) := by decide
example : abspath ["tmp", "w"] 2 ["a", "..", "..", "b"] = (2, ["b"]) := by decide
example : abspath ["tmp", "w"] 3 ["a"] = (1, ["a"]) := by decide

end PathNorm
end FB
