import FB.Props.C12
namespace FB
open FS Spec

/-- **C12: a build after `clean` behaves like a first build** — after a successful `clean` the cache file is gone, so
    the next `build` takes the branch of a build that finds no cache file: it starts from an empty record on the tree
    `clean` left (which is the tree a first build would clean to: `preClean` with an empty record changes nothing
    there), whatever the program, the fault plan and the build name -/
theorem C12_build_after_clean (w : World) (cf : Path) (r : Rec) (n : Option String) (bn : String) (root : Prog)
    (ff : List Path) (fsb : List H) (ab : Nat)
    (hc : w.cacheState cf = .valid r) (hn : ¬ (n.isSome ∧ n ≠ some r.buildName)) :
    (Spec.clean w cf n).res = .ok .null ∧
    (Spec.clean w cf n).world.fs = preClean w.fs cf r ∧
    (Spec.clean w cf n).world.cacheState cf = .absent ∧
    Spec.build (Spec.clean w cf n).world cf bn root ff fsb ab =
      Spec.buildGo (Spec.clean w cf n).world cf bn root ff fsb ab { buildName := bn, outputs := [], createdDirs := [] } := by
  have hfile : ∃ b m, w.fs.get cf = some (.file b m) := by
    unfold World.cacheState at hc
    split at hc <;> try cases hc
    rename_i b m hg
    exact ⟨b, m, hg⟩
  obtain ⟨b, m, hg⟩ := hfile
  have hgone := preClean_cf_gone w.fs cf r b m hg
  have hw : (Spec.clean w cf n).world = { w with fs := preClean w.fs cf r } := by
    simp [Spec.clean, hc, hn]
  have habs : (Spec.clean w cf n).world.cacheState cf = .absent := by
    rw [hw]; simp [World.cacheState, hgone]
  refine ⟨by simp [Spec.clean, hc, hn], by rw [hw], habs, ?_⟩
  simp [Spec.build, habs]

end FB
