import FB.Props.C02Steps
import FB.Props.C03MakeRoom
namespace FB
namespace Rollback
open FS Spec Backups BuildDirs

/-- removing one directory keeps the bookkeeping `Undoable` -/
theorem Undoable.eraseDir {P0 P : FS} {r : RB} (h : Undoable P0 P r) (d : Path) (hd : P.get d = some .dir) :
    Undoable P0 (P.erase d) r := by
  refine ⟨h.saved_nodup, h.saved_pre, ?_, ?_, h.moved, ?_⟩
  · intro q c m hq
    rcases h.kept q c m hq with h1 | h1
    · left
      have : q ≠ d := fun e => by rw [e, hd] at h1; cases h1
      rw [get_erase_ne _ _ _ this]; exact h1
    · exact Or.inr h1
  · intro q c m hq
    by_cases hqd : q = d
    · subst hqd
      by_cases hne : q = []
      · subst hne; rw [get_nil] at hq; cases hq
      · rw [get_erase_self _ _ hne] at hq; cases hq
    · rw [get_erase_ne _ _ _ hqd] at hq; exact h.fresh q c m hq
  · intro x hx hx0
    by_cases hxd : x = d
    · subst hxd
      by_cases hne : x = []
      · subst hne; simp [FS.isDir, get_nil] at hx0
      · simp [FS.isDir, get_erase_self _ _ hne] at hx
    · apply h.newdirs x _ hx0
      unfold FS.isDir at hx ⊢
      rw [get_erase_ne _ _ _ hxd] at hx; exact hx

/-- the bookkeeping seen from inside `_make_room` -/
def rbOfR (r : RB) (st : MakeRoom.St) : RB := { r with bk := st.bk }

/-- what holds between the steps of `_make_room`: the bookkeeping is `Undoable`, and what it has logged below `top` is
    gone from the tree -/
def RoomOK (P0 : FS) (r : RB) (top : Path) (st : MakeRoom.St) : Prop :=
  Undoable P0 st.fs (rbOfR r st) ∧ ∀ q, top <+: q → q ∈ st.bk.saved.map (·.1) → st.fs.get q = none

theorem roomOK_backup (vd vf : Path → Bool) (P0 : FS) (r : RB) (top : Path) (hclean : ∀ q, top <+: q → q ∉ r.newOutputs)
    (st : MakeRoom.St) (sub : Path) (htop : top <+: sub) (hnd : st.fs.isDir sub = false) (h : RoomOK P0 r top st) :
    RoomOK P0 r top { fs := (Backups.backUpAndRemove st.fs st.bk sub).1, bk := (Backups.backUpAndRemove st.fs st.bk sub).2.1 } := by
  cases hg : st.fs.get sub with
  | none =>
    have : Backups.backUpAndRemove st.fs st.bk sub = (st.fs, st.bk, false) := by simp [Backups.backUpAndRemove, hg]
    rw [this]; exact h
  | some e =>
    cases e with
    | dir => simp [FS.isDir, hg] at hnd
    | file c m =>
      have hne : sub ≠ [] := by intro e; rw [e, get_nil] at hg; cases hg
      have hb : Backups.backUpAndRemove st.fs st.bk sub =
          (st.fs.erase sub, { st.bk with saved := st.bk.saved ++ [(sub, .file c m)] }, true) := by
        simp [Backups.backUpAndRemove, hg]
      rw [hb]
      have hns : sub ∉ st.bk.saved.map (·.1) := fun hm => by rw [h.2 sub htop hm] at hg; cases hg
      refine ⟨h.1.moveAside sub c m hg (hclean sub htop) hns, ?_⟩
      intro q hq hm
      show (st.fs.erase sub).get q = none
      by_cases hqs : q = sub
      · subst hqs; exact get_erase_self _ _ hne
      · rw [get_erase_ne _ _ _ hqs]
        apply h.2 q hq
        simp only [List.map_append, List.mem_append] at hm
        rcases hm with hm | hm
        · exact hm
        · simp at hm; exact absurd hm hqs

theorem entries_undoable (vd vf : Path → Bool) (P0 : FS) (r : RB) (top : Path) (hclean : ∀ q, top <+: q → q ∉ r.newOutputs) (fuel : Nat)
    (hmr : ∀ (st st' : MakeRoom.St) (d : Path), top <+: d → RoomOK P0 r top st →
      (MakeRoom.makeRoom vd vf fuel st d = .ok st' ∨ MakeRoom.makeRoom vd vf fuel st d = .error st') → RoomOK P0 r top st') :
    ∀ (l : List String) (st st' : MakeRoom.St) (d : Path), top <+: d → RoomOK P0 r top st →
      (MakeRoom.entries vd vf fuel st d l = .ok st' ∨ MakeRoom.entries vd vf fuel st d l = .error st') → RoomOK P0 r top st' := by
  intro l
  induction l with
  | nil =>
    intro st st' d _ h hr
    rw [MakeRoom.entries] at hr
    rcases hr with hr | hr
    · simp only [Except.ok.injEq] at hr; rw [← hr]; exact h
    · cases hr
  | cons n rest ih =>
    intro st st' d htop h hr
    rw [MakeRoom.entries] at hr
    simp only at hr
    have hsub : top <+: d ++ [n] := htop.trans (List.prefix_append _ _)
    by_cases hd : st.fs.isDir (d ++ [n]) = true
    · simp only [hd, if_true] at hr
      by_cases hv : vd (d ++ [n]) = true
      · simp only [hv, if_true] at hr
        rcases hr with hr | hr
        · cases hr
        · simp only [Except.error.injEq] at hr; rw [← hr]; exact h
      · have hv' : vd (d ++ [n]) = false := by simpa using hv
        simp only [hv', Bool.false_eq_true, if_false] at hr
        cases hm : MakeRoom.makeRoom vd vf fuel st (d ++ [n]) with
        | error st1 =>
          rw [hm] at hr
          rcases hr with hr | hr
          · cases hr
          · simp only [Except.error.injEq] at hr; rw [← hr]; exact hmr st st1 _ hsub h (Or.inr hm)
        | ok st1 =>
          rw [hm] at hr
          exact ih st1 st' d htop (hmr st st1 _ hsub h (Or.inl hm)) hr
    · have hd' : st.fs.isDir (d ++ [n]) = false := by simpa using hd
      simp only [hd', Bool.false_eq_true, if_false] at hr
      by_cases hv : vf (d ++ [n]) = true
      · simp only [hv, if_true] at hr
        rcases hr with hr | hr
        · cases hr
        · simp only [Except.error.injEq] at hr; rw [← hr]; exact h
      · have hv' : vf (d ++ [n]) = false := by simpa using hv
        simp only [hv', Bool.false_eq_true, if_false] at hr
        exact ih _ st' d htop (roomOK_backup vd vf P0 r top hclean st (d ++ [n]) hsub hd' h) hr

/-- **`_make_room` keeps the bookkeeping `Undoable`**, whether it returns or gives up: provided nothing below the
    directory it clears is an output of this build -/
theorem makeRoom_undoable (vd vf : Path → Bool) (P0 : FS) (r : RB) (top : Path)
    (hclean : ∀ q, top <+: q → q ∉ r.newOutputs) : ∀ (fuel : Nat) (st st' : MakeRoom.St) (d : Path), top <+: d →
      RoomOK P0 r top st →
      (MakeRoom.makeRoom vd vf fuel st d = .ok st' ∨ MakeRoom.makeRoom vd vf fuel st d = .error st') → RoomOK P0 r top st' := by
  intro fuel
  induction fuel with
  | zero =>
    intro st st' d _ h hr
    rw [MakeRoom.makeRoom] at hr
    rcases hr with hr | hr
    · cases hr
    · simp only [Except.error.injEq] at hr; rw [← hr]; exact h
  | succ fuel ihf =>
    intro st st' d htop h hr
    rw [MakeRoom.makeRoom] at hr
    have hen := entries_undoable vd vf P0 r top hclean fuel ihf (st.fs.listdir d) st
    cases he : MakeRoom.entries vd vf fuel st d (st.fs.listdir d) with
    | error st1 =>
      rw [he] at hr
      rcases hr with hr | hr
      · cases hr
      · simp only [Except.error.injEq] at hr; rw [← hr]; exact hen st1 d htop h (Or.inr he)
    | ok st1 =>
      rw [he] at hr
      simp only at hr
      have h1 := hen st1 d htop h (Or.inl he)
      cases hrm : st1.fs.rmdir d with
      | error e =>
        rw [hrm] at hr
        rcases hr with hr | hr
        · cases hr
        · simp only [Except.error.injEq] at hr; rw [← hr]; exact h1
      | ok fs' =>
        rw [hrm] at hr
        rcases hr with hr | hr
        · simp only [Except.ok.injEq] at hr
          rw [← hr]
          have hwas := rmdir_was_empty_dir st1.fs fs' d hrm
          have hget := fun q => get_rmdir st1.fs fs' d q hrm
          have hfs' : ∀ q, fs'.get q = (st1.fs.erase d).get q := by
            intro q
            rw [hget q]
            by_cases hq : q = d
            · subst hq
              by_cases hne : q = []
              · subst hne; simp [FS.rmdir] at hrm
              · simp [get_erase_self _ _ hne]
            · simp [hq, get_erase_ne _ _ _ hq]
          refine ⟨?_, ?_⟩
          · -- `rmdir` is `erase` of a directory
            have hu := h1.1.eraseDir d hwas.1
            refine ⟨hu.saved_nodup, hu.saved_pre, ?_, ?_, hu.moved, ?_⟩
            · intro q c m hq; have := hu.kept q c m hq; rw [← hfs' q] at this; exact this
            · intro q c m hq; show _; rw [show ({ st1 with fs := fs' } : MakeRoom.St).fs.get q = fs'.get q from rfl, hfs' q] at hq; exact hu.fresh q c m hq
            · intro x hx hx0
              apply hu.newdirs x _ hx0
              unfold FS.isDir at hx ⊢
              rw [show ({ st1 with fs := fs' } : MakeRoom.St).fs.get x = fs'.get x from rfl, hfs' x] at hx; exact hx
          · intro q hq hm
            show fs'.get q = none
            rw [hget q]
            by_cases hqd : q = d
            · simp [hqd]
            · simp only [hqd, if_false]; exact h1.2 q hq hm
        · cases hr

end Rollback
end FB
