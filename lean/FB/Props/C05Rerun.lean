/-
  C05 — "a rebuild re-runs only calls that raised last time" for flat programs: the second run of a flat program,
  in a state that looks the same, with the first run's records in the cache and its outputs on the shelf, invokes
  exactly the functions of the calls that raised in the first run (failures are never cached), in the same order,
  and returns the same value.
-/
import FB.Props.C05Whole
namespace FB
open FS Spec Impl

/-- a leaf function run from two states that show the same tree: same result, same records, and it has written
    into its target in the one run iff in the other -/
theorem leaf_lockstep {body : Prog} (h : Leaf body) : ∀ (t : Option Path) (a b : KSt),
    visible b.sp = visible a.sp → b.sp.dirSize = a.sp.dirSize →
    (Impl.run body t b).1 = (Impl.run body t a).1 ∧ (Impl.run body t b).2.2 = (Impl.run body t a).2.2 ∧
    ∃ (Wa Wb : List (Path × String × Nat)) (ca cb : Nat),
      (Impl.run body t a).2.1 = setPC a (Wa ++ a.sp.pending) ca ∧ (Impl.run body t b).2.1 = setPC b (Wb ++ b.sp.pending) cb ∧
      (Wa = [] ↔ Wb = []) ∧ (∀ x ∈ Wa, some x.1 = t) ∧ (∀ x ∈ Wb, some x.1 = t) := by
  induction h with
  | ret v =>
    intro t a b _ _
    simp only [Impl.run]
    split <;> exact ⟨rfl, rfl, [], [], a.sp.clock, b.sp.clock, rfl, rfl, Iff.rfl, (fun x hx => nomatch hx), (fun x hx => nomatch hx)⟩
  | raise e =>
    intro t a b _ _
    simp only [Impl.run]
    exact ⟨trivial, trivial, [], [], a.sp.clock, b.sp.clock, rfl, rfl, Iff.rfl, (fun x hx => nomatch hx), (fun x hx => nomatch hx)⟩
  | query q k _ ih =>
    intro t a b hv hd
    simp only [Impl.run]
    rw [hv, hd]
    obtain ⟨h1, h2, Wa, Wb, ca, cb, h3, h4, h5, h6, h7⟩ := ih (View.answer a.sp.dirSize (visible a.sp) q) t a b hv hd
    exact ⟨h1, by rw [h2], Wa, Wb, ca, cb, h3, h4, h5, h6, h7⟩
  | write bytes mt k _ ih =>
    intro t a b hv hd
    cases t with
    | none => simp only [Impl.run]; exact ih none a b hv hd
    | some p =>
      simp only [Impl.run]
      obtain ⟨h1, h2, Wa, Wb, ca, cb, h3, h4, h5, h6, h7⟩ := ih (some p)
        (liftSp a fun sp => { sp with pending := (p, bytes, mt.getD sp.clock) :: sp.pending, clock := sp.clock + 1 })
        (liftSp b fun sp => { sp with pending := (p, bytes, mt.getD sp.clock) :: sp.pending, clock := sp.clock + 1 }) hv hd
      refine ⟨h1, h2, Wa ++ [(p, bytes, mt.getD a.sp.clock)], Wb ++ [(p, bytes, mt.getD b.sp.clock)], ca, cb, ?_, ?_, ?_, ?_, ?_⟩
      · rw [h3]; simp [setPC, liftSp]
      · rw [h4]; simp [setPC, liftSp]
      · simp
      · intro x hx
        rcases List.mem_append.mp hx with hx | hx
        · exact h6 x hx
        · simp at hx; rw [hx]
      · intro x hx
        rcases List.mem_append.mp hx with hx | hx
        · exact h7 x hx
        · simp at hx; rw [hx]


/-- the invocations a rebuild has to repeat: the calls that raised (newest first, like `invLog`) -/
def rerunInvs : List Op → List Inv
  | [] => []
  | .buildFile p _ f a k _ _ _ true false _ :: r => rerunInvs r ++ [⟨f, some p, a, k⟩]
  | .subbuild f a k _ _ true false :: r => rerunInvs r ++ [⟨f, none, a, k⟩]
  | _ :: r => rerunInvs r

/-- the targets of all `build_file` calls that got past their set-up -/
def allTargets : List Op → List Path
  | [] => []
  | .buildFile p _ _ _ _ _ _ _ _ false _ :: r => p :: allTargets r
  | _ :: r => allTargets r

theorem lookupFile_raised (st : KSt) (path : Path) (cmp : Cmp) (fname : String) (args kwargs : Json) (made : List Path)
    (c : Cmp) (f : String) (a k : Json) (subs : List Op) (r cr : Json) (sf : Bool) (ct : String)
    (hold : st.old.getFile path = some (.buildFile path c f a k subs r cr true sf ct)) :
    lookupFile st path cmp fname args kwargs made = none := by
  unfold lookupFile; rw [hold]

theorem lookupSub_raised (st : KSt) (fname : String) (args kwargs : Json) (f : String) (a k : Json) (subs : List Op) (r : Json) (sf : Bool)
    (hold : st.old.getSub (subKey fname args kwargs) = some (.subbuild f a k subs r true sf)) :
    lookupSub st fname args kwargs = none := by
  unfold lookupSub; rw [hold]

theorem pendingFind_all_key (W : List (Path × String × Nat)) (path : Path) (hW : ∀ x ∈ W, some x.1 = some path) :
    pendingFind W path = none ↔ W = [] := by
  cases W with
  | nil => simp [pendingFind]
  | cons x r =>
    have hx : x.1 = path := by have := hW x (List.mem_cons_self ..); simpa using this
    obtain ⟨p, b, m⟩ := x
    simp only at hx
    subst hx
    simp [pendingFind_cons_self]

/-- the state `bfFinish` leaves when the call failed -/
def failState (sp : SpecSt) (path : Path) (made : List Path) : SpecSt :=
  { sp with inProg := sp.inProg.erase path, pending := sp.pending.filter (fun x => x.1 ≠ path), fs := rmEmpty sp.fs made, createdDirs := (made.filter (rmEmpty sp.fs made).isDir) ++ sp.createdDirs }

/-- a `build_file` whose function failed fails alike in both runs -/
theorem bfFinish_fail_same (sp sp' : SpecSt) (path : Path) (made : List Path) (r : CallRes) (e : Exc)
    (Wa Wb : List (Path × String × Nat)) (hp : sp.pending = Wa) (hp' : sp'.pending = Wb)
    (hiff : Wa = [] ↔ Wb = []) (hWa : ∀ x ∈ Wa, some x.1 = some path) (hWb : ∀ x ∈ Wb, some x.1 = some path)
    (h : (bfFinish sp path made r).1 = .error e) :
    (bfFinish sp' path made r).1 = .error e ∧
    (bfFinish sp path made r).2 = failState sp path made ∧ (bfFinish sp' path made r).2 = failState sp' path made := by
  cases r with
  | error e' =>
    simp only [bfFinish] at h ⊢
    exact ⟨h, rfl, rfl⟩
  | ok j =>
    have hnone : pendingFind sp.pending path = none := by
      cases hw : pendingFind sp.pending path with
      | none => rfl
      | some x => obtain ⟨c, m⟩ := x; rw [bfFinish_ok sp path made j c m hw] at h; cases h
    have hWa0 : Wa = [] := by rw [hp] at hnone; exact (pendingFind_all_key Wa path hWa).mp hnone
    have hWb0 : Wb = [] := hiff.mp hWa0
    have hnone' : pendingFind sp'.pending path = none := by rw [hp', hWb0]; rfl
    simp only [bfFinish, hnone, hnone'] at h ⊢
    exact ⟨h, rfl, rfl⟩


theorem topOuts_bf_raised (p : Path) (c : Cmp) (f : String) (a k : Json) (subs : List Op) (r cr : Json) (sf : Bool) (ct : String) (l : List Op) :
    topOuts (.buildFile p c f a k subs r cr true sf ct :: l) = topOuts l := by cases sf <;> rfl

theorem topOuts_sub_allTargets (l : List Op) : ∀ p ∈ topOuts l, p ∈ allTargets l := by
  induction l with
  | nil => intro p hp; cases hp
  | cons o r ih =>
    intro p hp
    cases o with
    | simple _ _ _ _ => exact ih p hp
    | subbuild _ _ _ _ _ _ _ => exact ih p hp
    | buildFile q _ _ _ _ _ _ _ raised sf _ =>
      cases raised <;> cases sf
      · rcases List.mem_cons.mp hp with rfl | hp'
        · exact List.mem_cons_self ..
        · exact List.mem_cons_of_mem _ (ih p hp')
      · exact ih p hp
      · exact List.mem_cons_of_mem _ (ih p hp)
      · exact ih p hp

theorem bfSetup_same_err {s s' : KSt} (h : Same s s') (path : Path) (e : Exc) (hs : bfSetup s.sp path = .error e) :
    bfSetup s'.sp path = .error e := by
  unfold bfSetup at hs ⊢
  rw [h.claimedFiles, h.cacheFile, h.fs, h.visible, h.inProg, h.ff']
  rw [h.ff] at hs
  by_cases c1 : s.sp.claimedFiles.contains path = true
  · simp only [c1, if_true] at hs ⊢; exact hs
  · simp only [c1, Bool.false_eq_true, if_false] at hs ⊢
    by_cases c2 : path = s.sp.cacheFile
    · simp only [c2, if_true] at hs ⊢; exact hs
    · simp only [c2, if_false] at hs ⊢
      by_cases c3 : s.sp.fs.isDir path = true
      · simp only [c3, if_true] at hs ⊢; exact hs
      · simp only [c3, Bool.false_eq_true, if_false] at hs ⊢
        cases hd : dirsToMake (visible s.sp) s.sp.cacheFile s.sp.inProg path.dropLast with
        | error e' => simp only [hd] at hs ⊢; exact hs
        | ok ds =>
          simp only [hd, List.contains_nil, Bool.false_eq_true, if_false] at hs ⊢
          by_cases c4 : ds.any Path.tooLong = true
          · simp only [c4, if_true] at hs ⊢; exact hs
          · simp only [c4, Bool.false_eq_true, if_false] at hs; cases hs

theorem run_bf_fail (s : KSt) (t : Option Path) (path : Path) (cmp : Cmp) (fname : String) (args kwargs : Json)
    (body : Prog) (k : CallRes → Prog) (e : Exc) (hsetup : bfSetup s.sp path = .error e) :
    Impl.run (.buildFile path cmp fname args kwargs body k) t s =
      (let rest := Impl.run (k (.error e)) t (liftSp s fun sp => Spec.setupFailState sp path e)
       (rest.1, rest.2.1, .buildFile path cmp fname args kwargs [] .null .null true true "" :: rest.2.2)) := by
  simp only [Impl.run, hsetup]

theorem run_sb_dup (s : KSt) (t : Option Path) (fname : String) (args kwargs : Json) (body : Prog) (k : CallRes → Prog)
    (h1 : s.sp.claimedSubs.any (heq (subKey fname args kwargs)) = true) :
    Impl.run (.subbuild fname args kwargs body k) t s =
      (let rest := Impl.run (k (.error (.runtime .dupSub))) t s
       (rest.1, rest.2.1, .subbuild fname args kwargs [] .null true true :: rest.2.2)) := by
  simp only [Impl.run, h1, if_true]

theorem filter_all_key (W : List (Path × String × Nat)) (path : Path) (hW : ∀ x ∈ W, some x.1 = some path) :
    W.filter (fun x => x.1 ≠ path) = [] := by
  apply List.filter_eq_nil_iff.mpr
  intro x hx
  have := hW x hx
  simp at this
  simp [this]

/-- corresponding points of the two runs, at the level of the root function (nothing pending) -/
structure SameP (s s' : KSt) : Prop where
  same : Same s s'
  pend : s.sp.pending = []
  pend' : s'.sp.pending = []

/-- **C05 for flat programs, with failures**: the second run repeats exactly the calls that raised in the first -/
theorem flat_rerun {prog : Prog} (hflat : Flat prog) : ∀ (s s' : KSt),
    s.old.roots = [] → SameP s s' → (∀ f, versionOk s' f = true) →
    (∀ o ∈ (Impl.run prog none s).2.2, isComplexRegistered o = true → cachedIn s'.old o) →
    Antichain (allTargets (Impl.run prog none s).2.2) →
    (∀ p ∈ topOuts (Impl.run prog none s).2.2, s'.shelf.get p = (Impl.run prog none s).2.1.sp.fs.get p) →
    (Impl.run prog none s').1 = (Impl.run prog none s).1 ∧
    (Impl.run prog none s').2.1.sp.invLog = rerunInvs (Impl.run prog none s).2.2 ++ s'.sp.invLog ∧
    SameP (Impl.run prog none s).2.1 (Impl.run prog none s').2.1 ∧
    (Impl.run prog none s').2.1.old = s'.old ∧ (Impl.run prog none s').2.1.newVersions = s'.newVersions := by
  induction hflat with
  | ret v =>
    intro s s' _ hsame _ _ _ _
    simp only [Impl.run]
    split <;> (refine ⟨?_, ?_, hsame, ?_, ?_⟩ <;> first | rfl | trivial | simp [rerunInvs])
  | raise e =>
    intro s s' _ hsame _ _ _ _
    simp only [Impl.run]
    refine ⟨?_, ?_, hsame, ?_, ?_⟩ <;> first | rfl | trivial | simp [rerunInvs]
  | query q k _ ih =>
    intro s s' h0 hsame hv hc hanti hsup
    simp only [Impl.run] at hc hanti hsup ⊢
    rw [hsame.same.visible, hsame.same.dirSize]
    cases hrv : View.recVal s.sp.dirSize (visible s.sp) q with
    | ok v =>
      simp only [hrv] at hc hanti hsup
      rw [topOuts_simple] at hsup
      have := ih _ s s' h0 hsame hv (fun o ho => hc o (List.mem_cons_of_mem _ ho)) hanti hsup
      simpa [rerunInvs] using this
    | error e =>
      simp only [hrv] at hc hanti hsup
      rw [topOuts_simple] at hsup
      have := ih _ s s' h0 hsame hv (fun o ho => hc o (List.mem_cons_of_mem _ ho)) hanti hsup
      simpa [rerunInvs] using this
  | write b mt k _ ih =>
    intro s s' h0 hsame hv hc hanti hsup
    simp only [Impl.run] at hc hanti hsup ⊢
    exact ih s s' h0 hsame hv hc hanti hsup
  | buildFile path cmp fname args kwargs body k hleaf hargs hkw hk ih =>
    intro s s' h0 hsame hv hc hanti hsup
    have hS := hsame.same
    cases hsetup : bfSetup s.sp path with
    | error e =>
      have hsetup' := bfSetup_same_err hS path e hsetup
      rw [run_bf_fail s none path cmp fname args kwargs body k e hsetup] at hc hanti hsup ⊢
      rw [run_bf_fail s' none path cmp fname args kwargs body k e hsetup']
      simp only at hc hanti hsup ⊢
      rw [topOuts_bf_raised] at hsup
      have hff : ∀ (x : KSt), x.sp.failFiles = [] → (liftSp x fun sp => Spec.setupFailState sp path e).sp.failFiles = [] := by
        intro x hx; simp only [liftSp, setupFailState, hx]; split <;> simp
      have hsame1 : SameP (liftSp s fun sp => Spec.setupFailState sp path e) (liftSp s' fun sp => Spec.setupFailState sp path e) :=
        ⟨⟨hS.fs, hS.cacheFile, hS.dirSize, hS.claimedFiles, hS.claimedSubs, hS.inProg, hff s hS.ff, hff s' hS.ff', hS.fsb, hS.fsb'⟩,
         hsame.pend, hsame.pend'⟩
      have hih := ih (.error e) (liftSp s fun sp => Spec.setupFailState sp path e) (liftSp s' fun sp => Spec.setupFailState sp path e)
        h0 hsame1 (Same.keep_versions rfl rfl hv)
        (fun o ho => hc o (List.mem_cons_of_mem _ ho)) hanti hsup
      obtain ⟨i1, i2, i3, i4, i5⟩ := hih
      refine ⟨i1, ?_, i3, i4, i5⟩
      rw [i2]; rfl
    | ok x =>
      obtain ⟨sp1, made⟩ := x
      obtain ⟨hsp1, hnc, _, hnd, hdm, _⟩ := bfSetup_ok_fields s.sp sp1 path made hsetup
      have hne : path ≠ [] := by intro e; subst e; simp [FS.isDir, get_nil] at hnd
      have hlook := lookupFile_empty (afterSetup s sp1 path made) h0 path cmp fname args kwargs made
      rw [run_bf_miss s none path cmp fname args kwargs body k sp1 made hsetup hlook] at hc hanti hsup ⊢
      simp only at hc hanti hsup ⊢
      have hsetup' := bfSetup_same hS path sp1 made hsetup
      have hmade_pre : ∀ x ∈ made, x <+: path.dropLast := Backups.dirsToMake_prefix _ _ _ _ _ made rfl hdm
      have hpath_notmade : made.contains path = false := by
        cases hcn : made.contains path with
        | false => rfl
        | true =>
          have := (hmade_pre path (by simpa using hcn)).length_le
          rw [List.length_dropLast] at this
          have : path.length ≠ 0 := by simpa using hne
          omega
      have hview' : visible (afterSetup s' (setupState s'.sp path made) path made).sp =
          visible (missStart (afterSetup s sp1 path made) path ⟨fname, some path, args, kwargs⟩).sp := by
        show visible (setupState s'.sp path made) = visible sp1
        rw [hsp1]
        unfold Spec.visible
        rw [setupState_fs _ _ path made hS.fs]
        show _ = _
        simp only [setupState, hS.inProg, hS.cacheFile]
      have hds' : (afterSetup s' (setupState s'.sp path made) path made).sp.dirSize =
          (missStart (afterSetup s sp1 path made) path ⟨fname, some path, args, kwargs⟩).sp.dirSize := by
        show (setupState s'.sp path made).dirSize = sp1.dirSize; rw [hsp1]; exact hS.dirSize
      -- the leaf function in the first run, and (if it has to run again) in the second
      obtain ⟨_, hrep⟩ := leaf_run_replays hleaf (some path)
        (missStart (afterSetup s sp1 path made) path ⟨fname, some path, args, kwargs⟩)
      obtain ⟨l1, l2, Wa, Wb, ca, cb, hsta, hstb, hiff, hWa, hWb⟩ := leaf_lockstep hleaf (some path)
        (missStart (afterSetup s sp1 path made) path ⟨fname, some path, args, kwargs⟩)
        (missStart (afterSetup s' (setupState s'.sp path made) path made) path ⟨fname, some path, args, kwargs⟩) hview' hds'
      have hpa : (missStart (afterSetup s sp1 path made) path ⟨fname, some path, args, kwargs⟩).sp.pending = [] := by
        show sp1.pending = []; rw [hsp1]; exact hsame.pend
      have hpb : (missStart (afterSetup s' (setupState s'.sp path made) path made) path ⟨fname, some path, args, kwargs⟩).sp.pending = [] := by
        show (setupState s'.sp path made).pending = []; exact hsame.pend'
      rw [hpa, List.append_nil] at hsta
      rw [hpb, List.append_nil] at hstb
      generalize hout : Impl.run body (some path) (missStart (afterSetup s sp1 path made) path ⟨fname, some path, args, kwargs⟩) = out
        at hrep hc hanti hsup l1 l2 hsta ⊢
      have hcasesfin : (∃ j, (bfFinish out.2.1.sp path made out.1).1 = .ok j) ∨ (∃ e, (bfFinish out.2.1.sp path made out.1).1 = .error e) := by
        cases (bfFinish out.2.1.sp path made out.1).1 with
        | ok j => exact Or.inl ⟨j, rfl⟩
        | error e => exact Or.inr ⟨e, rfl⟩
      rcases hcasesfin with ⟨j, hfin⟩ | ⟨e, hfin⟩
      · -- the call succeeded in the first run: a hit in the second
        rw [hfin] at hc hanti hsup ⊢
        obtain ⟨c, m, _, _, hfinst⟩ := bfFinish_ok_inv out.2.1.sp path made out.1 j hfin
        have e3 : (withSp out.2.1 (bfFinish out.2.1.sp path made out.1).2).sp =
            finOk (setPC (missStart (afterSetup s sp1 path made) path ⟨fname, some path, args, kwargs⟩) Wa ca).sp path made c m := by
          show (bfFinish out.2.1.sp path made out.1).2 = _
          rw [hfinst, hsta]
        have hs3fs : (withSp out.2.1 (bfFinish out.2.1.sp path made out.1).2).sp.fs.get path = some (.file c m) := by
          rw [e3]; exact get_set_self _ _ _ hne
        have hop : bfRecord path cmp fname args kwargs out.2.2 out.1 (.ok j)
            (withSp out.2.1 (bfFinish out.2.1.sp path made out.1).2) =
            .buildFile path cmp fname args kwargs out.2.2 j (View.cmpResult cmp c m) false false c := by
          simp only [bfRecord, cmpBuilt, hs3fs]
        rw [hop] at hc hanti hsup ⊢
        rw [topOuts_bf_ok] at hsup
        have hs3ff : (withSp out.2.1 (bfFinish out.2.1.sp path made out.1).2).sp.failFiles = [] := by
          rw [e3]; show sp1.failFiles = []; rw [hsp1]; exact hS.ff
        have hs3fsb : (withSp out.2.1 (bfFinish out.2.1.sp path made out.1).2).sp.failSubs = [] := by
          rw [e3]; show sp1.failSubs = []; rw [hsp1]; exact hS.fsb
        have hs3old : (withSp out.2.1 (bfFinish out.2.1.sp path made out.1).2).old.roots = [] := by
          rw [show (withSp out.2.1 (bfFinish out.2.1.sp path made out.1).2).old = out.2.1.old from rfl, hsta]; exact h0
        have hs3keep := flat_keeps (hk (.ok j))
          (withSp out.2.1 (bfFinish out.2.1.sp path made out.1).2) hs3old hs3ff hs3fsb
        have hpath_claimed : path ∈ (withSp out.2.1 (bfFinish out.2.1.sp path made out.1).2).sp.claimedFiles := by
          rw [e3]; show path ∈ sp1.claimedFiles; rw [hsp1]; exact List.mem_cons_self ..
        have hfinal := hs3keep.files path c m hs3fs hpath_claimed
        have hshelf' : (afterSetup s' (setupState s'.sp path made) path made).shelf.get path = some (.file c m) := by
          show (clearWay s'.shelf path made).get path = _
          rw [clearWay_get _ _ _ _ (by simp [properAncestor]) hpath_notmade, hsup path (List.mem_cons_self ..)]
          exact hfinal
        have hrep' := hrep (afterSetup s' (setupState s'.sp path made) path made) hview' hds'
        have hold' := hc _ (List.mem_cons_self ..) rfl
        simp only [cachedIn] at hold'
        have hlook' := lookupFile_hit (afterSetup s' (setupState s'.sp path made) path made) path cmp fname args kwargs made
          out.2.2 j (View.cmpResult cmp c m) c c m hold' (hv fname) hargs hkw hne hshelf' (cmpResult_refl cmp c m) hrep'
        rw [run_bf_hit s' none path cmp fname args kwargs body k _ made _ _ hsetup' hlook']
        simp only [opRet]
        have hadfs : (adopt (afterSetup s' (setupState s'.sp path made) path made) path made).sp.fs =
            (setupState s'.sp path made).fs.set path (.file c m) := by
          simp only [adopt, hshelf', hne, if_false]
          rfl
        have hsame3 : SameP (withSp out.2.1 (bfFinish out.2.1.sp path made out.1).2)
            (adopt (afterSetup s' (setupState s'.sp path made) path made) path made) := by
          refine ⟨⟨?_, ?_, ?_, ?_, ?_, ?_, hs3ff, ?_, hs3fsb, ?_⟩, ?_, ?_⟩
          · rw [hadfs, e3]
            show _ = sp1.fs.set path (.file c m)
            rw [hsp1, setupState_fs _ _ path made hS.fs]
          · rw [e3]; show s'.sp.cacheFile = sp1.cacheFile; rw [hsp1]; exact hS.cacheFile
          · rw [e3]; show s'.sp.dirSize = sp1.dirSize; rw [hsp1]; exact hS.dirSize
          · rw [e3]; show (path :: s'.sp.claimedFiles) = sp1.claimedFiles; rw [hsp1]
            show _ = path :: s.sp.claimedFiles; rw [hS.claimedFiles]
          · rw [e3]; show s'.sp.claimedSubs = sp1.claimedSubs; rw [hsp1]; exact hS.claimedSubs
          · rw [e3]; show (path :: s'.sp.inProg).erase path = sp1.inProg.erase path; rw [hsp1]
            show _ = (path :: s.sp.inProg).erase path; rw [hS.inProg]
          · show s'.sp.failFiles = []; exact hS.ff'
          · show s'.sp.failSubs = []; exact hS.fsb'
          · rw [e3]; show Wa.filter (fun x => x.1 ≠ path) = []; exact filter_all_key Wa path hWa
          · show s'.sp.pending = []; exact hsame.pend'
        have hanti' : Antichain (path :: allTargets (Impl.run (k (.ok j)) none (withSp out.2.1 (bfFinish out.2.1.sp path made out.1).2)).2.2) := hanti
        have hanti'' := List.pairwise_cons.mp hanti'
        have hih := ih (.ok j) (withSp out.2.1 (bfFinish out.2.1.sp path made out.1).2)
          (adopt (afterSetup s' (setupState s'.sp path made) path made) path made) hs3old hsame3
          (Same.keep_versions rfl rfl hv) (fun o ho => hc o (List.mem_cons_of_mem _ ho)) hanti''.2
          (by
            intro q hq
            obtain ⟨hq1, hq2, hq3⟩ := hanti''.1 q (topOuts_sub_allTargets _ q hq)
            have hqm : made.contains q = false := by
              cases hcn : made.contains q with
              | false => rfl
              | true => exact absurd ((hmade_pre q (by simpa using hcn)).trans (List.dropLast_prefix path)) hq3
            show ((clearWay s'.shelf path made).erase path).get q = _
            rw [get_erase_ne _ _ _ (fun e => hq1 e.symm), clearWay_get _ _ _ _ (by simp [properAncestor, hq2]) hqm]
            exact hsup q (List.mem_cons_of_mem _ hq))
        obtain ⟨i1, i2, i3, i4, i5⟩ := hih
        refine ⟨i1, ?_, i3, i4, i5⟩
        rw [i2]; rfl
      · -- the call raised in the first run: its function has to run again, and fails again
        rw [hfin] at hc hanti hsup ⊢
        obtain ⟨kept, hop⟩ : ∃ kept, bfRecord path cmp fname args kwargs out.2.2 out.1 (.error e)
            (withSp out.2.1 (bfFinish out.2.1.sp path made out.1).2) =
            .buildFile path cmp fname args kwargs out.2.2 kept .null true false "" := by
          simp only [bfRecord]; exact ⟨_, rfl⟩
        rw [hop] at hc hanti hsup ⊢
        rw [topOuts_bf_raised] at hsup
        have hold' := hc _ (List.mem_cons_self ..) rfl
        simp only [cachedIn] at hold'
        have hlook' := lookupFile_raised (afterSetup s' (setupState s'.sp path made) path made) path cmp fname args kwargs made
          _ _ _ _ _ _ _ _ _ hold'
        rw [run_bf_miss s' none path cmp fname args kwargs body k _ made hsetup' hlook']
        simp only
        generalize hout' : Impl.run body (some path)
          (missStart (afterSetup s' (setupState s'.sp path made) path made) path ⟨fname, some path, args, kwargs⟩) = out' at l1 l2 hstb ⊢
        obtain ⟨f1, f2, f3⟩ := bfFinish_fail_same out.2.1.sp out'.2.1.sp path made out.1 e Wa Wb (by rw [hsta]; rfl) (by rw [hstb]; rfl)
          hiff hWa hWb hfin
        rw [l1, f1]
        have hsame3 : SameP (withSp out.2.1 (bfFinish out.2.1.sp path made out.1).2)
            (withSp out'.2.1 (bfFinish out'.2.1.sp path made out.1).2) := by
          have ea : (withSp out.2.1 (bfFinish out.2.1.sp path made out.1).2).sp =
              failState (setPC (missStart (afterSetup s sp1 path made) path ⟨fname, some path, args, kwargs⟩) Wa ca).sp path made := by
            show (bfFinish out.2.1.sp path made out.1).2 = _
            rw [f2, hsta]
          have eb : (withSp out'.2.1 (bfFinish out'.2.1.sp path made out.1).2).sp =
              failState (setPC (missStart (afterSetup s' (setupState s'.sp path made) path made) path ⟨fname, some path, args, kwargs⟩) Wb cb).sp path made := by
            show (bfFinish out'.2.1.sp path made out.1).2 = _
            rw [f3, hstb]
          refine ⟨⟨?_, ?_, ?_, ?_, ?_, ?_, ?_, ?_, ?_, ?_⟩, ?_, ?_⟩
          · rw [ea, eb]
            show rmEmpty (setupState s'.sp path made).fs made = rmEmpty sp1.fs made
            rw [hsp1, setupState_fs _ _ path made hS.fs]
          · rw [ea, eb]; show s'.sp.cacheFile = sp1.cacheFile; rw [hsp1]; exact hS.cacheFile
          · rw [ea, eb]; show s'.sp.dirSize = sp1.dirSize; rw [hsp1]; exact hS.dirSize
          · rw [ea, eb]; show (path :: s'.sp.claimedFiles) = sp1.claimedFiles; rw [hsp1]
            show _ = path :: s.sp.claimedFiles; rw [hS.claimedFiles]
          · rw [ea, eb]; show s'.sp.claimedSubs = sp1.claimedSubs; rw [hsp1]; exact hS.claimedSubs
          · rw [ea, eb]; show (path :: s'.sp.inProg).erase path = sp1.inProg.erase path; rw [hsp1]
            show _ = (path :: s.sp.inProg).erase path; rw [hS.inProg]
          · rw [ea]; show sp1.failFiles = []; rw [hsp1]; exact hS.ff
          · rw [eb]; show s'.sp.failFiles = []; exact hS.ff'
          · rw [ea]; show sp1.failSubs = []; rw [hsp1]; exact hS.fsb
          · rw [eb]; show s'.sp.failSubs = []; exact hS.fsb'
          · rw [ea]; show Wa.filter (fun x => x.1 ≠ path) = []; exact filter_all_key Wa path hWa
          · rw [eb]; show Wb.filter (fun x => x.1 ≠ path) = []; exact filter_all_key Wb path hWb
        have hs3old : (withSp out.2.1 (bfFinish out.2.1.sp path made out.1).2).old.roots = [] := by
          rw [show (withSp out.2.1 (bfFinish out.2.1.sp path made out.1).2).old = out.2.1.old from rfl, hsta]; exact h0
        have hanti' : Antichain (path :: allTargets (Impl.run (k (.error e)) none (withSp out.2.1 (bfFinish out.2.1.sp path made out.1).2)).2.2) := hanti
        have hanti'' := List.pairwise_cons.mp hanti'
        have hih := ih (.error e) (withSp out.2.1 (bfFinish out.2.1.sp path made out.1).2)
          (withSp out'.2.1 (bfFinish out'.2.1.sp path made out.1).2) hs3old hsame3
          (Same.keep_versions (by rw [show (withSp out'.2.1 (bfFinish out'.2.1.sp path made out.1).2).old = out'.2.1.old from rfl, hstb]; rfl)
            (by rw [show (withSp out'.2.1 (bfFinish out'.2.1.sp path made out.1).2).newVersions = out'.2.1.newVersions from rfl, hstb]; rfl) hv)
          (fun o ho => by
            have := hc o (List.mem_cons_of_mem _ ho)
            rw [show (withSp out'.2.1 (bfFinish out'.2.1.sp path made out.1).2).old = out'.2.1.old from rfl, hstb]
            exact this)
          hanti''.2
          (by
            intro q hq
            obtain ⟨hq1, hq2, hq3⟩ := hanti''.1 q (topOuts_sub_allTargets _ q hq)
            have hqm : made.contains q = false := by
              cases hcn : made.contains q with
              | false => rfl
              | true => exact absurd ((hmade_pre q (by simpa using hcn)).trans (List.dropLast_prefix path)) hq3
            rw [show (withSp out'.2.1 (bfFinish out'.2.1.sp path made out.1).2).shelf = out'.2.1.shelf from rfl, hstb]
            show ((clearWay s'.shelf path made).erase path).get q = _
            rw [get_erase_ne _ _ _ (fun e => hq1 e.symm), clearWay_get _ _ _ _ (by simp [properAncestor, hq2]) hqm]
            exact hsup q hq)
        obtain ⟨i1, i2, i3, i4, i5⟩ := hih
        refine ⟨i1, ?_, i3, ?_, ?_⟩
        · rw [i2]
          have hinv : (withSp out'.2.1 (bfFinish out'.2.1.sp path made out.1).2).sp.invLog =
              ⟨fname, some path, args, kwargs⟩ :: s'.sp.invLog := by
            show (bfFinish out'.2.1.sp path made out.1).2.invLog = _
            rw [f3, hstb]; rfl
          rw [hinv]
          show _ = (rerunInvs _ ++ [⟨fname, some path, args, kwargs⟩]) ++ s'.sp.invLog
          simp
        · rw [i4, show (withSp out'.2.1 (bfFinish out'.2.1.sp path made out.1).2).old = out'.2.1.old from rfl, hstb]; rfl
        · rw [i5, show (withSp out'.2.1 (bfFinish out'.2.1.sp path made out.1).2).newVersions = out'.2.1.newVersions from rfl, hstb]; rfl
  | subbuild fname args kwargs body k hleaf _ ih =>
    intro s s' h0 hsame hv hc hanti hsup
    have hS := hsame.same
    have hfs : s.sp.failSubs.any (heq (subKey fname args kwargs)) = false := by simp [hS.fsb]
    have hfs' : s'.sp.failSubs.any (heq (subKey fname args kwargs)) = false := by simp [hS.fsb']
    by_cases hcl : s.sp.claimedSubs.any (heq (subKey fname args kwargs)) = true
    · -- a duplicate: rejected in both runs
      have hcl' : s'.sp.claimedSubs.any (heq (subKey fname args kwargs)) = true := by rw [hS.claimedSubs]; exact hcl
      rw [run_sb_dup s none fname args kwargs body k hcl] at hc hanti hsup ⊢
      rw [run_sb_dup s' none fname args kwargs body k hcl']
      simp only at hc hanti hsup ⊢
      rw [topOuts_sub] at hsup
      have hih := ih (.error (.runtime .dupSub)) s s' h0 hsame hv (fun o ho => hc o (List.mem_cons_of_mem _ ho)) hanti hsup
      obtain ⟨i1, i2, i3, i4, i5⟩ := hih
      refine ⟨i1, ?_, i3, i4, i5⟩
      rw [i2]; rfl
    · have hcl0 : s.sp.claimedSubs.any (heq (subKey fname args kwargs)) = false := by simpa using hcl
      have hcl' : s'.sp.claimedSubs.any (heq (subKey fname args kwargs)) = false := by rw [hS.claimedSubs]; exact hcl0
      have hlook := lookupSub_empty (subClaim s (subKey fname args kwargs)) h0 fname args kwargs
      rw [run_sb_miss s none fname args kwargs body k hcl0 hfs hlook] at hc hanti hsup ⊢
      simp only at hc hanti hsup ⊢
      obtain ⟨l1, l2, Wa, Wb, ca, cb, hsta, hstb, _, hWa, hWb⟩ := leaf_lockstep hleaf none
        (Impl.subStart (subClaim s (subKey fname args kwargs)) ⟨fname, none, args, kwargs⟩)
        (Impl.subStart (subClaim s' (subKey fname args kwargs)) ⟨fname, none, args, kwargs⟩) hS.visible hS.dirSize
      have hWa0 : Wa = [] := by
        cases Wa with
        | nil => rfl
        | cons x r => have := hWa x (List.mem_cons_self ..); cases this
      have hWb0 : Wb = [] := by
        cases Wb with
        | nil => rfl
        | cons x r => have := hWb x (List.mem_cons_self ..); cases this
      subst hWa0 hWb0
      have hpa : (Impl.subStart (subClaim s (subKey fname args kwargs)) ⟨fname, none, args, kwargs⟩).sp.pending = [] := hsame.pend
      have hpb : (Impl.subStart (subClaim s' (subKey fname args kwargs)) ⟨fname, none, args, kwargs⟩).sp.pending = [] := hsame.pend'
      rw [hpa] at hsta
      rw [hpb] at hstb
      have hcases : (∃ j, (Impl.run body none (Impl.subStart (subClaim s (subKey fname args kwargs)) ⟨fname, none, args, kwargs⟩)).1 = .ok j) ∨
          (∃ e, (Impl.run body none (Impl.subStart (subClaim s (subKey fname args kwargs)) ⟨fname, none, args, kwargs⟩)).1 = .error e) := by
        cases (Impl.run body none (Impl.subStart (subClaim s (subKey fname args kwargs)) ⟨fname, none, args, kwargs⟩)).1 with
        | ok j => exact Or.inl ⟨j, rfl⟩
        | error e => exact Or.inr ⟨e, rfl⟩
      rcases hcases with ⟨j, hj⟩ | ⟨e, hj⟩
      · -- returned in the first run: a hit in the second
        rw [hj] at hc hanti hsup ⊢
        simp only at hc hanti hsup ⊢
        rw [topOuts_sub] at hsup
        have hold' := hc _ (List.mem_cons_self ..) rfl
        simp only [cachedIn] at hold'
        have hlook' := C05_leaf_sub_reused_partial s fname args kwargs body hleaf j hj s' args kwargs hS.visible hS.dirSize
          (hv fname) hold'
        rw [run_sb_hit s' none fname args kwargs body k _ _ hcl' hfs' hlook']
        simp only [opRet]
        have hsame2 : SameP (Impl.run body none (Impl.subStart (subClaim s (subKey fname args kwargs)) ⟨fname, none, args, kwargs⟩)).2.1
            (subClaim s' (subKey fname args kwargs)) := by
          rw [hsta]
          exact ⟨⟨hS.fs, hS.cacheFile, hS.dirSize, hS.claimedFiles,
            by show _ :: s'.sp.claimedSubs = _ :: s.sp.claimedSubs; rw [hS.claimedSubs],
            hS.inProg, hS.ff, hS.ff', hS.fsb, hS.fsb'⟩, rfl, hsame.pend'⟩
        have hih := ih (.ok j) _ (subClaim s' (subKey fname args kwargs))
          (by rw [hsta]; exact h0) hsame2 (Same.keep_versions rfl rfl hv)
          (fun o ho => hc o (List.mem_cons_of_mem _ ho)) hanti hsup
        obtain ⟨i1, i2, i3, i4, i5⟩ := hih
        refine ⟨i1, ?_, i3, i4, i5⟩
        rw [i2]; rfl
      · -- raised in the first run: runs again
        rw [hj] at hc hanti hsup ⊢
        simp only at hc hanti hsup ⊢
        rw [topOuts_sub] at hsup
        have hold' := hc _ (List.mem_cons_self ..) rfl
        simp only [cachedIn] at hold'
        have hlook' := lookupSub_raised (subClaim s' (subKey fname args kwargs)) fname args kwargs _ _ _ _ _ _ hold'
        rw [run_sb_miss s' none fname args kwargs body k hcl' hfs' hlook']
        simp only
        rw [l1, hj]
        have hsame2 : SameP (Impl.run body none (Impl.subStart (subClaim s (subKey fname args kwargs)) ⟨fname, none, args, kwargs⟩)).2.1
            (Impl.run body none (Impl.subStart (subClaim s' (subKey fname args kwargs)) ⟨fname, none, args, kwargs⟩)).2.1 := by
          rw [hsta, hstb]
          exact ⟨⟨hS.fs, hS.cacheFile, hS.dirSize, hS.claimedFiles,
            by show _ :: s'.sp.claimedSubs = _ :: s.sp.claimedSubs; rw [hS.claimedSubs],
            hS.inProg, hS.ff, hS.ff', hS.fsb, hS.fsb'⟩, rfl, rfl⟩
        have hih := ih (.error e) _ _ (by rw [hsta]; exact h0) hsame2
          (Same.keep_versions (by rw [hstb]; rfl) (by rw [hstb]; rfl) hv)
          (fun o ho => by have := hc o (List.mem_cons_of_mem _ ho); rw [hstb]; exact this) hanti
          (by intro q hq; rw [hstb]; exact hsup q hq)
        obtain ⟨i1, i2, i3, i4, i5⟩ := hih
        refine ⟨i1, ?_, i3, ?_, ?_⟩
        · rw [i2, hstb]
          show _ ++ (⟨fname, none, args, kwargs⟩ :: s'.sp.invLog) = (rerunInvs _ ++ [⟨fname, none, args, kwargs⟩]) ++ s'.sp.invLog
          simp
        · rw [i4, hstb]; rfl
        · rw [i5, hstb]; rfl


/-- with no call failing, nothing is repeated (`flat_second_run` is this special case) -/
theorem rerunInvs_ok (ops : List Op) (h : ∀ o ∈ ops, opOk o = true) : rerunInvs ops = [] := by
  induction ops with
  | nil => rfl
  | cons o r ih =>
    have ihr := ih (fun x hx => h x (List.mem_cons_of_mem _ hx))
    have ho := h o (List.mem_cons_self ..)
    cases o with
    | simple _ _ _ _ => simpa [rerunInvs] using ihr
    | buildFile _ _ _ _ _ _ _ _ raised sf _ =>
      simp only [opOk, Bool.and_eq_true, Bool.not_eq_true'] at ho
      obtain ⟨h1, h2⟩ := ho; subst h1 h2
      simpa [rerunInvs] using ihr
    | subbuild _ _ _ _ _ raised sf =>
      simp only [opOk, Bool.and_eq_true, Bool.not_eq_true'] at ho
      obtain ⟨h1, h2⟩ := ho; subst h1 h2
      simpa [rerunInvs] using ihr

example : rerunInvs [.buildFile ["x"] .hash "f" .null .null [] .null .null true false "", .subbuild "g" .null .null [] .null false false] =
    [⟨"f", some ["x"], .null, .null⟩] := rfl


/-! ### non-vacuity: a program whose only call raises; the second run repeats it -/

def rrRoot : Prog := .buildFile ["x"] .hash "f" .null .null (.raise (.user 1)) (fun _ => .ret .null)
theorem flat_rrRoot : Flat rrRoot := .buildFile _ _ _ _ _ _ _ (.raise _) (by simp [isEqual]) (by simp [isEqual]) (fun _ => .ret _)

theorem rr_first : (Impl.run rrRoot none fxS).2.2 = [.buildFile ["x"] .hash "f" .null .null [] .null .null true false ""] := by
  have h : dirsToMake (visible fxS.sp) fxS.sp.cacheFile fxS.sp.inProg [] = .ok [] := by rw [dirsToMake]; simp
  simp [rrRoot, Impl.run, bfSetup, fxS, FS.isDir, FS.get, lookupFile, CacheRec.getFile, registeredL,
    afterSetup, missStart, liftSp, sanitize, bfFinish, pendingFind, withSp, setupState, mkdirs,
    FS.isFile, FS.set, FS.erase, clearWay] at h ⊢
  rw [h]
  simp [pendingFind, bfFinish, withSp, sanitize]

def rrS' : KSt := { sp := { fs := [], cacheFile := ["c"], dirSize := 4096, clock := 50 },
                    old := { buildName := "n", roots := [.buildFile ["x"] .hash "f" .null .null [] .null .null true false ""] } }

/-- the hypotheses of `flat_rerun` are satisfiable with a call that raised: it is the one call repeated -/
example : (Impl.run rrRoot none rrS').2.1.sp.invLog = [⟨"f", some ["x"], .null, .null⟩] := by
  have hops := rr_first
  have h := flat_rerun flat_rrRoot fxS rrS' rfl ⟨⟨rfl, rfl, rfl, rfl, rfl, rfl, rfl, rfl, rfl, rfl⟩, rfl, rfl⟩
    (fun f => by simp [versionOk, rrS', verOf, isEqual])
    (by rw [hops]; intro o ho _; simp at ho; subst ho
        simp [cachedIn, rrS', CacheRec.getFile, registeredL, registered, Op.isFileAt])
    (by rw [hops]; simp [allTargets, Antichain])
    (by rw [hops]; intro p hp; simp [topOuts] at hp)
  rw [h.2.1, hops]
  rfl
end FB
