/-
  C04, from the algorithm to a declarative statement, for the phase of a build before its first `build_file`:
  `SimpleOperationExecutor.is_file / is_dir / exists` (`FB.Overlay`) on top of the memoising `BuildDirs`
  (`FB.BuildDirs`) answer — whatever was asked before —

    is_file p  ⇔  p is a real regular file, not the cache file, not an output of the previous build
    is_dir  p  ⇔  p is a real directory and not (created by the previous build and `Gone`)

  i.e. "as if the previous build's outputs, the cache file and the directories that build had created and that are
  now empty were already gone".
-/
import FB.Overlay
import FB.Props.C04Overlay
import FB.Props.BuildDirsGone
namespace FB
namespace Overlay
open BuildDirs

/-- the executor at the start of a build: no overlay, nothing being built or finished yet; `oldFiles` is what
    `FileBuilder` hands to `BuildDirs`: the previous build's outputs and the cache file -/
structure AtStart (c : Ctx) (oldFiles : List Path) : Prop where
  cf : c.cf = none
  building : c.building = []
  finished : c.finished = []
  old : ∀ p, p ∈ oldFiles ↔ p ∈ c.oldCreated ∨ p = c.cacheFile

theorem start_isFile (c : Ctx) (oldDirs oldFiles : List Path) (hs : AtStart c oldFiles) (hwf : TreeWF c.fs)
    (b : BD) (hb : QReach c.fs oldDirs oldFiles b) (p : Path) :
    ((isFile c b p).1 = true ↔ c.fs.isFile p = true ∧ p ∉ oldFiles) ∧
    QReach c.fs oldDirs oldFiles (isFile c b p).2 := by
  unfold isFile isFileNoRead
  simp only [hs.cf, hs.building, hs.finished, List.contains_nil, Bool.false_eq_true, if_false]
  by_cases h1 : p = c.cacheFile
  · simp only [h1, if_true]
    exact ⟨⟨(fun h => nomatch h), (fun h => absurd ((hs.old _).mpr (Or.inr rfl)) h.2)⟩, hb⟩
  · simp only [h1, if_false]
    by_cases h2 : c.oldCreated.contains p = true
    · simp only [h2, if_true]
      exact ⟨⟨(fun h => nomatch h), (fun h => absurd ((hs.old p).mpr (Or.inl (by simpa using h2))) h.2)⟩, hb⟩
    · simp only [h2, Bool.false_eq_true, if_false]
      have h2' : p ∉ oldFiles := by
        intro hm
        rcases (hs.old p).mp hm with h | h
        · exact h2 (by simpa using h)
        · exact h1 h
      by_cases h3 : c.fs.isFile p = true
      · simp only [h3, if_true]
        exact ⟨⟨(fun _ => ⟨trivial, h2'⟩), (fun _ => trivial)⟩,
          QReach.dirExists b p.dropLast hb (anchor_of_isFile c.fs oldDirs oldFiles hwf p h3 h2')⟩
      · simp only [h3, Bool.false_eq_true, if_false]
        exact ⟨⟨(fun h => nomatch h), (fun h => absurd h.1 (by simp))⟩, hb⟩

theorem start_isDir (c : Ctx) (oldDirs oldFiles : List Path) (hs : AtStart c oldFiles) (hwf : TreeWF c.fs)
    (hv : Valid oldDirs oldFiles) (b : BD) (hb : QReach c.fs oldDirs oldFiles b) (p : Path) (r : Bool) (b' : BD)
    (hrun : isDir c b p = some (r, b')) :
    (r = true ↔ c.fs.isDir p = true ∧ ¬ (p ∈ oldDirs ∧ Gone c.fs oldDirs oldFiles p)) ∧
    QReach c.fs oldDirs oldFiles b' := by
  unfold isDir at hrun
  simp only [hs.cf] at hrun
  cases hr : isRemoved c.fs b p with
  | none => rw [hr] at hrun; cases hrun
  | some x =>
    obtain ⟨b1, rr⟩ := x
    have hspec := C04_isRemoved_iff_gone c.fs oldDirs oldFiles hwf hv hb p b1 rr hr
    have hb1 : QReach c.fs oldDirs oldFiles b1 := QReach.removed b p b1 rr hb hr
    rw [hr] at hrun
    cases rr with
    | true =>
      simp only [Option.some.injEq, Prod.mk.injEq] at hrun
      obtain ⟨h1, h2⟩ := hrun
      subst h1 h2
      exact ⟨⟨(fun h => nomatch h), (fun h => absurd (hspec.mp rfl) h.2)⟩, hb1⟩
    | false =>
      have hng : ¬ (p ∈ oldDirs ∧ Gone c.fs oldDirs oldFiles p) := fun h => by have := hspec.mpr h; cases this
      by_cases hd : c.fs.isDir p = true
      · simp only [hd, if_true, Option.some.injEq, Prod.mk.injEq] at hrun
        obtain ⟨h1, h2⟩ := hrun
        subst h1 h2
        exact ⟨⟨(fun _ => ⟨hd, hng⟩), (fun _ => rfl)⟩,
          QReach.dirExists b1 p hb1 (anchor_of_isDir c.fs oldDirs oldFiles hwf p hd hng)⟩
      · simp only [hd, Bool.false_eq_true, if_false, Option.some.injEq, Prod.mk.injEq] at hrun
        obtain ⟨h1, h2⟩ := hrun
        subst h1 h2
        exact ⟨⟨(fun h => nomatch h), (fun h => absurd h.1 hd)⟩, hb1⟩

/-- **C04 at the start of a build**: `exists p` iff `p` is a real regular file that is neither the cache file nor
    an old output, or a real directory that is not an old, gone one — in every state of the memo -/
theorem C04_start_exists (c : Ctx) (oldDirs oldFiles : List Path) (hs : AtStart c oldFiles) (hwf : TreeWF c.fs)
    (hv : Valid oldDirs oldFiles) (b : BD) (hb : QReach c.fs oldDirs oldFiles b) (p : Path) (r : Bool) (b' : BD)
    (hrun : exists_ c b p = some (r, b')) :
    (r = true ↔ (c.fs.isFile p = true ∧ p ∉ oldFiles) ∨
                (c.fs.isDir p = true ∧ ¬ (p ∈ oldDirs ∧ Gone c.fs oldDirs oldFiles p))) ∧
    QReach c.fs oldDirs oldFiles b' := by
  obtain ⟨hf, hbf⟩ := start_isFile c oldDirs oldFiles hs hwf b hb p
  rw [FB.Overlay.exists_eq] at hrun
  by_cases h1 : (isFile c b p).1 = true
  · simp only [h1, if_true, Option.some.injEq, Prod.mk.injEq] at hrun
    obtain ⟨e1, e2⟩ := hrun
    subst e1 e2
    exact ⟨⟨(fun _ => Or.inl (hf.mp h1)), (fun _ => rfl)⟩, hbf⟩
  · simp only [h1, Bool.false_eq_true, if_false] at hrun
    obtain ⟨hd, hbd⟩ := start_isDir c oldDirs oldFiles hs hwf hv _ hbf p r b' hrun
    refine ⟨⟨(fun hr => Or.inr (hd.mp hr)), ?_⟩, hbd⟩
    rintro (h | h)
    · exact absurd (hf.mpr h) h1
    · exact hd.mpr h


/-! ### non-vacuity: the tree of `BuildDirs.exFS` at the start of a build -/

def exCtx : Ctx := { fs := exFS, dirSize := 4096, cacheFile := ["cache"], oldCreated := exFiles }

/-- what `FileBuilder` passes to `BuildDirs` as old files: the outputs and the cache file -/
def exOld : List Path := exFiles ++ [["cache"]]

theorem exCtx_atStart : AtStart exCtx exOld :=
  ⟨rfl, rfl, rfl, fun p => by simp [exCtx, exFiles, exOld, or_assoc]⟩

theorem ex_valid' : Valid exDirs exOld := by
  intro f hf d hd
  simp only [exOld, exFiles, exDirs, List.mem_cons, List.mem_append, List.not_mem_nil, or_false] at hf hd
  rcases hf with (rfl | rfl) | rfl <;> rcases hd with rfl | rfl <;> decide

set_option maxRecDepth 4000 in
/-- the old directory `o` (holding only an old output) does not exist; `k` (holding a foreign file) does -/
example : (exists_ exCtx (init exDirs exOld) ["o"]).map (·.1) = some false ∧
    (exists_ exCtx (init exDirs exOld) ["k"]).map (·.1) = some true ∧
    ¬ (exFS.isDir ["o"] = true ∧ ¬ (["o"] ∈ exDirs ∧ Gone exFS exDirs exOld ["o"])) := by
  have h1 : (exists_ exCtx (init exDirs exOld) ["o"]).map (·.1) = some false := by
    simp [exists_, isFile, isFileNoRead, isDir, exCtx, isRemoved, hasCount, init, add, exDirs, exFiles, exOld, checkMaybeRemoved, checkLoop,
      BuildDirs.discard, exFS, FS.isFile, FS.isDir, FS.get, FS.listdir, FS.childNames, FS.sortStrs, FS.insertStr, FS.parent]
  have h2 : (exists_ exCtx (init exDirs exOld) ["k"]).map (·.1) = some true := by
    simp [exists_, isFile, isFileNoRead, isDir, exCtx, isRemoved, hasCount, init, add, exDirs, exFiles, exOld, checkMaybeRemoved, checkLoop,
      BuildDirs.discard, exFS, FS.isFile, FS.isDir, FS.get, FS.listdir, FS.childNames, FS.sortStrs, FS.insertStr, FS.parent]
  refine ⟨h1, h2, ?_⟩
  cases hr : exists_ exCtx (init exDirs exOld) ["o"] with
  | none => rw [hr] at h1; cases h1
  | some x =>
    obtain ⟨r, b'⟩ := x
    rw [hr] at h1; simp at h1; subst h1
    have := (C04_start_exists exCtx exDirs exOld exCtx_atStart exFS_wf ex_valid' _ QReach.init ["o"] false b' hr).1
    intro hh
    have := this.mpr (Or.inr hh)
    cases this

end Overlay
end FB
