/-
  FB.FS — the abstract POSIX tree the models run on.  A finite map from paths (component lists
  below the sandbox root `[]`) to entries; the root is always a directory.
  This is *modelled, not verified*: it stands for the operating system.
-/
namespace FB

abbrev Path := List String

inductive Entry where
  | file (bytes : String) (mtime : Nat)
  | dir
deriving DecidableEq, Repr, Inhabited

/-- association list, first binding wins; operations keep keys unique -/
abbrev FS := List (Path × Entry)

inductive OSErr where
  | notFound      -- FileNotFoundError
  | notADir       -- NotADirectoryError
  | isADir        -- IsADirectoryError
  | fileExists    -- FileExistsError
  | other         -- any other OSError (ENOTEMPTY, ENAMETOOLONG, injected faults ...)
deriving DecidableEq, Repr, Inhabited

def OSErr.name : OSErr → String
  | .notFound => "FileNotFoundError"
  | .notADir => "NotADirectoryError"
  | .isADir => "IsADirectoryError"
  | .fileExists => "FileExistsError"
  | .other => "OSError"

/-- the file system refuses names longer than NAME_MAX bytes -/
def nameTooLong (n : String) : Bool := n.utf8ByteSize > 255

def Path.tooLong (p : Path) : Bool := p.any nameTooLong

namespace FS

def get (fs : FS) (p : Path) : Option Entry :=
  if p = [] then some .dir else
  match fs with
  | [] => none
  | (q, e) :: r => if q = p then some e else get r p

def erase (fs : FS) (p : Path) : FS := fs.filter (fun x => x.1 ≠ p)

def set (fs : FS) (p : Path) (e : Entry) : FS := (p, e) :: erase fs p

def isFile (fs : FS) (p : Path) : Bool :=
  match fs.get p with | some (.file _ _) => true | _ => false

def isDir (fs : FS) (p : Path) : Bool :=
  match fs.get p with | some .dir => true | _ => false

def parent (p : Path) : Path := p.dropLast

/-- names of the direct children of `d` that are bound -/
def childNames (fs : FS) (d : Path) : List String :=
  fs.filterMap (fun x => if x.1 ≠ [] ∧ parent x.1 = d then x.1.getLast? else none)

def insertStr (s : String) : List String → List String
  | [] => [s]
  | t :: r => if s < t then s :: t :: r else if s = t then t :: r else t :: insertStr s r

/-- sort, dropping duplicates (Python `sorted(os.listdir(d))`: names are unique) -/
def sortStrs : List String → List String
  | [] => []
  | s :: r => insertStr s (sortStrs r)

/-- `sorted(os.listdir(d))` for an existing directory -/
def listdir (fs : FS) (d : Path) : List String := sortStrs (fs.childNames d)

/-- `os.mkdir` -/
def mkdir (fs : FS) (p : Path) : Except OSErr FS :=
  if p = [] then .error .fileExists else
  match fs.get (parent p) with
  | none => .error .notFound
  | some (.file _ _) => .error .notADir
  | some .dir =>
    match fs.get p with
    | some _ => .error .fileExists
    | none => .ok (fs.set p .dir)

/-- `os.rmdir` -/
def rmdir (fs : FS) (p : Path) : Except OSErr FS :=
  if p = [] then .error .other else
  match fs.get p with
  | none => .error .notFound
  | some (.file _ _) => .error .notADir
  | some .dir => if fs.childNames p = [] then .ok (fs.erase p) else .error .other

/-- `os.remove` -/
def remove (fs : FS) (p : Path) : Except OSErr FS :=
  match fs.get p with
  | none => .error .notFound
  | some .dir => .error .isADir
  | some (.file _ _) => .ok (fs.erase p)

/-- user code writing a file whose parent exists -/
def write (fs : FS) (p : Path) (bytes : String) (mtime : Nat) : FS :=
  fs.set p (.file bytes mtime)

/-- everything at or below `p` removed (`shutil.rmtree`; used by external mutations only) -/
def rmtree (fs : FS) (p : Path) : FS := fs.filter (fun x => ¬ (p <+: x.1))

/-- all bound paths, for snapshots -/
def paths (fs : FS) : List Path := fs.map (·.1)

end FS
end FB
