/-
  FB.DSL — the first-order program language the harness generates, and its denotation into
  `Prog`.  The Python side interprets the same language against the real `FileBuilder`.
  Every theorem about all `Prog` covers every DSL program through `denoteFunc`.
-/
import FB.Prog
namespace FB

/-- condition on the newest accumulator entry -/
inductive Cond where
  | err                -- it is an error entry
  | isTrue             -- it is the value `true`
  | nonEmpty           -- it is a non-empty list value
  | eq (j : Json)      -- it is exactly this value (type-exact)
  | argEq (j : Json)   -- the function's first argument is exactly this value
deriving Inhabited

inductive Stmt where
  | q (q : Query)
  | bf (path : Path) (cmp : Cmp) (callee : Nat) (arg : PyVal) (kw : PyVal) (catch_ : Bool) (extra : List PyVal := [])
  | sb (callee : Nat) (arg : PyVal) (kw : PyVal) (catch_ : Bool) (extra : List PyVal := [])
  | raise (tok : Nat)
  | write (const : Option String) (mtime : Option Nat)
  | ite (c : Cond) (t e : List Stmt)
deriving Inhabited

inductive RetMode where
  | acc | const (v : PyVal) | nonJson
deriving Inhabited

structure Func where
  name : String
  stmts : List Stmt
  ret : RetMode
deriving Inhabited

/-! compact, injective text form of the values that occur in accumulators -/
def escapeStr (s : String) : String :=
  s.foldl (fun acc c => if c = '"' then acc ++ "\\\"" else if c = '\\' then acc ++ "\\\\" else acc.push c) ""

def joinWith (sep : String) : List String → String
  | [] => ""
  | [x] => x
  | x :: xs => x ++ sep ++ joinWith sep xs

/-- insertion sort (by code points): the order of the keys of a dict is not part of its value, and a value served from
    the cache file may come back with its keys in another order -/
def insertSorted (s : String) : List String → List String
  | [] => [s]
  | t :: r => if s < t then s :: t :: r else t :: insertSorted s r
def sortStrings : List String → List String
  | [] => []
  | s :: r => insertSorted s (sortStrings r)

mutual
def render : Json → String
  | .null => "null"
  | .bool true => "true"
  | .bool false => "false"
  | .num (.int i) => toString i
  | .num (.flt d) => "F(" ++ toString d.num ++ "/" ++ toString d.k ++ ")"
  | .num (.inf n) => if n then "-Inf" else "Inf"
  | .str s => "\"" ++ escapeStr s ++ "\""
  | .arr xs => "[" ++ joinWith "," (renderL xs) ++ "]"
  | .tup xs => "[" ++ joinWith "," (renderL xs) ++ "]"
  | .obj kvs => "{" ++ joinWith "," (sortStrings (renderO kvs)) ++ "}"
def renderL : List Json → List String
  | [] => []
  | x :: xs => render x :: renderL xs
def renderO : List (String × Json) → List String
  | [] => []
  | (k, v) :: r => ("\"" ++ escapeStr k ++ "\":" ++ render v) :: renderO r
end

/-- the digest written into output files: a function of everything the body observed -/
def digest (s : String) : String :=
  let h := s.foldl (fun h c => (h * 31 + c.toNat) % 4294967291) 7
  "d" ++ toString h ++ ":" ++ toString s.length

def entryV (v : Json) : Json := .arr [.str "v", v]
def entryE (cls : String) : Json := .arr [.str "e", .str cls]

def evalCond (c : Cond) (acc : List Json) : Bool :=
  if let .argEq j := c then (match acc.head? with | some a => render a == render (entryV j) | none => false) else
  match acc.getLast? with
  | none => false
  | some last =>
    match c with
    | .err => match last with | .arr [.str "e", _] => true | _ => false
    | .isTrue => render last == render (entryV (.bool true))
    | .nonEmpty => match last with
        | .arr [.str "v", .arr (_ :: _)] => true
        | .arr [.str "v", .tup (_ :: _)] => true
        | _ => false
    | .eq j => render last == render (entryV j)
    | .argEq _ => false

def retOf (f : Func) (acc : List Json) : Prog :=
  match f.ret with
  | .acc => .ret (Json.toPy (.arr acc))
  | .const v => .ret v
  | .nonJson => .ret .other

def callK (catch_ : Bool) (acc : List Json) (k : List Json → Prog) : CallRes → Prog
  | .ok v => k (acc ++ [entryV v])
  | .error e => if catch_ then k (acc ++ [entryE e.cls]) else .raise e

def queryK (acc : List Json) (k : List Json → Prog) : UAns → Prog
  | .ok v => k (acc ++ [entryV v])
  | .error e => k (acc ++ [entryE e.name])

mutual
/-- canonical form in which function bodies see their arguments and version: JSON-equal values look
    alike (the documented obligation: results may not depend on more than the JSON value) -/
def canon : Json → Json
  | .num n => match n.key with
    | .inl (i, 0) => .num (.int i)
    | _ => .num n
  | .arr xs => .arr (canonL xs)
  | .tup xs => .arr (canonL xs)
  | .obj kvs => .obj (sortKeys (canonO kvs))
  | j => j
def canonL : List Json → List Json
  | [] => []
  | x :: xs => canon x :: canonL xs
def canonO : List (String × Json) → List (String × Json)
  | [] => []
  | (k, v) :: r => (k, canon v) :: canonO r
end

def firstOf : Json → Json
  | .arr (x :: _) => x
  | _ => .null

mutual
/-- the body of function `idx` applied to `arg` (already sanitized), `fuel` bounds call depth -/
def denoteFunc (ver : String → Json) (fuel : Nat) (fs : Array Func) (idx : Nat) (tgt : Option Path) (arg : Json) (kw : Json) : Prog :=
  match fs[idx]? with
  | none => .raise (.internal "no such function")
  | some f => goStmts ver fuel fs tgt f.stmts [entryV (canon arg), entryV (canon kw), entryV (canon (ver f.name))] (retOf f)
termination_by (fuel, 1, 0)
def goStmts (ver : String → Json) (fuel : Nat) (fs : Array Func) (tgt : Option Path) (ss : List Stmt) (acc : List Json)
    (k : List Json → Prog) : Prog :=
  match ss with
  | [] => k acc
  | st :: rest => goStmt ver fuel fs tgt st acc (fun acc' => goStmts ver fuel fs tgt rest acc' k)
termination_by (fuel, 0, sizeOf ss)
def goStmt (ver : String → Json) (fuel : Nat) (fs : Array Func) (tgt : Option Path) (st : Stmt) (acc : List Json)
    (k : List Json → Prog) : Prog :=
  match st with
  | .q (.getSize p) =>
    -- sizes of directories are platform specific: the DSL's get_size is `"dir" if is_dir(p) else get_size(p)`
    .query (.isDir p) (fun a => match a with
      | .ok (.bool true) => k (acc ++ [entryV (.str "dir")])
      | _ => .query (.getSize p) (queryK acc k))
  | .q q => .query q (queryK acc k)
  | .raise tok => .raise (.user tok)
  | .write c mt =>
    -- the user's `open(target, 'w')` fails with ENAMETOOLONG for an over-long name
    if (match tgt with | some p => Path.tooLong p | none => false) then .raise (.os .other)
    else .write (match c with | some s => s | none => digest (render (.arr acc))) mt (k acc)
  | .ite c t e => if evalCond c acc then goStmts ver fuel fs tgt t acc k else goStmts ver fuel fs tgt e acc k
  | .bf path cmp callee arg kw catch_ extra =>
    match fuel, sanitize (.list false (arg :: extra)), sanitize kw with
    | fuel'+1, some args, some kws =>
      let name := match fs[callee]? with | some f => f.name | none => "?"
      .buildFile path cmp name args kws (denoteFunc ver fuel' fs callee (some path) (firstOf args) kws)
        (callK catch_ acc k)
    | 0, _, _ => .raise (.internal "fuel")
    | _, _, _ => callK catch_ acc k (.error .typeErr)
  | .sb callee arg kw catch_ extra =>
    match fuel, sanitize (.list false (arg :: extra)), sanitize kw with
    | fuel'+1, some args, some kws =>
      let name := match fs[callee]? with | some f => f.name | none => "?"
      .subbuild name args kws (denoteFunc ver fuel' fs callee none (firstOf args) kws) (callK catch_ acc k)
    | 0, _, _ => .raise (.internal "fuel")
    | _, _, _ => callK catch_ acc k (.error .typeErr)
termination_by (fuel, 0, sizeOf st)
end

end FB
