/-
  FB.Conc — small-step models of the three protocols the library's thread-safety rests on.  The atomic
  steps are the lock-protected regions and the individual file-system calls of the real code; a
  schedule is a list of thread ids.  Executable (the driver enumerates schedules for the tie).

  P1  key claim        (`assert_doesnt_have_*` … `start_building_file` / `start_subbuild` / `use_cached_operation`)
  P2  directory arbitration (`_dirs_to_make` reads → `os.mkdir` → `BuildDirs.started_building_file`)
  P3  finish fence     (`_assert_not_finished` at entry, the effect, the locked append; the owner's close)
-/
namespace FB.Conc

/-! ## P1 — key claim -/
namespace P1

inductive PC where
  | start      -- has not looked yet
  | checked    -- passed the first (unlocked-sequence) check, is looking up the cache
  | running    -- claimed the key, the function runs (or the cached result is being registered)
  | rejected   -- got RuntimeError
  | done       -- finished, the record is stored
deriving DecidableEq, Repr, Inhabited

structure St where
  owner : Option Nat := none        -- who holds the key in the new cache
  pc : Nat → PC := fun _ => .start
  executions : Nat := 0             -- how often the user function was started

/-- one atomic step of thread `i` -/
def step (s : St) (i : Nat) : St :=
  match s.pc i with
  | .start =>      -- `assert_doesnt_have_*` (locked read)
    if s.owner.isSome then { s with pc := fun j => if j = i then .rejected else s.pc j }
    else { s with pc := fun j => if j = i then .checked else s.pc j }
  | .checked =>    -- `start_*` / `use_cached_operation`: locked check-and-claim
    if s.owner.isSome then { s with pc := fun j => if j = i then .rejected else s.pc j }
    else { s with owner := some i, executions := s.executions + 1,
                  pc := fun j => if j = i then .running else s.pc j }
  | .running => { s with pc := fun j => if j = i then .done else s.pc j }
  | .rejected => s
  | .done => s

def run (s : St) (sched : List Nat) : St := sched.foldl step s

/-- whoever runs or has finished holds the key -/
def Inv (s : St) : Prop :=
  (∀ i, (s.pc i = .running ∨ s.pc i = .done) → s.owner = some i) ∧
  (s.owner = none → s.executions = 0) ∧ (s.owner.isSome → s.executions = 1)

theorem inv_init : Inv {} := by
  refine ⟨?_, ?_, ?_⟩ <;> simp

theorem inv_step (s : St) (i : Nat) (h : Inv s) : Inv (step s i) := by
  obtain ⟨h1, h2, h3⟩ := h
  unfold step
  cases hp : s.pc i with
  | start =>
    simp only
    split
    · refine ⟨fun j hj => ?_, h2, h3⟩
      simp only at hj
      by_cases hji : j = i
      · simp [hji] at hj
      · simp only [hji, if_false] at hj; exact h1 j hj
    · refine ⟨fun j hj => ?_, h2, h3⟩
      simp only at hj
      by_cases hji : j = i
      · simp [hji] at hj
      · simp only [hji, if_false] at hj; exact h1 j hj
  | checked =>
    simp only
    split
    · refine ⟨fun j hj => ?_, h2, h3⟩
      simp only at hj
      by_cases hji : j = i
      · simp [hji] at hj
      · simp only [hji, if_false] at hj; exact h1 j hj
    · rename_i hnone
      have hn : s.owner = none := by
        cases ho : s.owner with
        | none => rfl
        | some x => simp [ho] at hnone
      refine ⟨fun j hj => ?_, by simp, fun _ => by simp [h2 hn]⟩
      simp only at hj ⊢
      by_cases hji : j = i
      · rw [hji]
      · simp only [hji, if_false] at hj
        have := h1 j hj
        rw [hn] at this; cases this
  | running =>
    simp only
    refine ⟨fun j hj => ?_, h2, h3⟩
    simp only at hj
    by_cases hji : j = i
    · subst hji; exact h1 j (Or.inl hp)
    · simp only [hji, if_false] at hj; exact h1 j hj
  | rejected => exact ⟨h1, h2, h3⟩
  | done => exact ⟨h1, h2, h3⟩

theorem inv_run (sched : List Nat) (s : St) (h : Inv s) : Inv (run s sched) := by
  induction sched generalizing s with
  | nil => exact h
  | cons i r ih => exact ih _ (inv_step s i h)

/-- **C08, thread clause**: under every interleaving of any number of threads issuing the same key, at
    most one of them ever runs the function (or registers the cached result); every other one that gets
    to act is rejected. -/
theorem claim_unique (sched : List Nat) (i j : Nat)
    (hi : (run {} sched).pc i = .running ∨ (run {} sched).pc i = .done)
    (hj : (run {} sched).pc j = .running ∨ (run {} sched).pc j = .done) : i = j := by
  have h := inv_run sched {} inv_init
  have a := h.1 i hi
  have b := h.1 j hj
  rw [a] at b
  injection b

/-- the user function is started at most once -/
theorem executed_at_most_once (sched : List Nat) : (run {} sched).executions ≤ 1 := by
  have h := inv_run sched {} inv_init
  cases ho : (run {} sched).owner with
  | none => rw [h.2.1 ho]; omega
  | some x => rw [h.2.2 (by simp [ho])]; omega

/-- the protocol *without* the locked re-check in `start_*` (what a careless refactoring produces)
    does run the function twice: the model is sensitive to the mechanism -/
def stepNoRecheck (s : St) (i : Nat) : St :=
  match s.pc i with
  | .checked => { s with owner := some i, executions := s.executions + 1,
                         pc := fun j => if j = i then .running else s.pc j }
  | _ => step s i

example : ([0, 1, 0, 1].foldl stepNoRecheck ({} : St)).executions = 2 := by decide
example : (run {} [0, 1, 0, 1]).executions = 1 ∧ (run {} [0, 1, 0, 1]).pc 1 = .rejected := by decide

end P1

/-! ## P3 — finish fence -/
namespace P3

inductive SPC where
  | start | passedEntry | effectDone | appended | rejectedAtEntry | rejectedAtAppend
deriving DecidableEq, Repr, Inhabited

/-- thread 0 is the owner (one step: the locked close), every other thread is a straggler -/
structure St where
  finished : Bool := false
  record : List Nat := []          -- ids of the stragglers whose operation is in the record
  effects : List Nat := []         -- ids of the stragglers whose effect happened
  effectsAfterClose : List Nat := []
  pc : Nat → SPC := fun _ => .start

def step (s : St) (i : Nat) : St :=
  if i = 0 then { s with finished := true }      -- `with self._lock: operation.is_finished = True`
  else match s.pc i with
  | .start =>              -- `_assert_not_finished()` at the entry: an unlocked read
    if s.finished then { s with pc := fun j => if j = i then .rejectedAtEntry else s.pc j }
    else { s with pc := fun j => if j = i then .passedEntry else s.pc j }
  | .passedEntry =>        -- the operation itself (for build_file / subbuild: the user function runs)
    { s with effects := i :: s.effects,
             effectsAfterClose := if s.finished then i :: s.effectsAfterClose else s.effectsAfterClose,
             pc := fun j => if j = i then .effectDone else s.pc j }
  | .effectDone =>         -- `_append_suboperation`: locked check-and-append
    if s.finished then { s with pc := fun j => if j = i then .rejectedAtAppend else s.pc j }
    else { s with record := i :: s.record, pc := fun j => if j = i then .appended else s.pc j }
  | _ => s

def run (s : St) (sched : List Nat) : St := sched.foldl step s

/-- the record only grows while the builder is open -/
theorem record_frozen_step (s : St) (i : Nat) (h : s.finished = true) :
    (step s i).record = s.record ∧ (step s i).finished = true := by
  unfold step
  split
  · exact ⟨rfl, rfl⟩
  · split <;> simp_all

theorem record_frozen (sched : List Nat) (s : St) (h : s.finished = true) :
    (run s sched).record = s.record ∧ (run s sched).finished = true := by
  induction sched generalizing s with
  | nil => exact ⟨rfl, h⟩
  | cons i r ih =>
    have := record_frozen_step s i h
    have := ih (step s i) this.2
    exact ⟨this.1.trans (record_frozen_step s i h).1, this.2⟩

/-- **C17 (closed records)**: once the owner has closed the record, no observation is ever attached to
    it, whatever the stragglers do afterwards. -/
theorem C17_no_append_after_close (before after : List Nat) :
    (run {} (before ++ 0 :: after)).record = (run {} (before ++ [0])).record := by
  have hsplit : run {} (before ++ 0 :: after) = run (run {} (before ++ [0])) after := by
    simp [run, List.foldl_append]
  rw [hsplit]
  have hfin : (run {} (before ++ [0])).finished = true := by
    simp [run, List.foldl_append, step]
  exact (record_frozen after _ hfin).1

/-- every operation that completed (reached `appended`) is part of the record -/
def InvApp (s : St) : Prop := ∀ i, s.pc i = .appended → i ∈ s.record

theorem invApp_step (s : St) (i : Nat) (h : InvApp s) : InvApp (step s i) := by
  unfold step
  split
  · exact h
  · rename_i hi
    cases hp : s.pc i with
    | start =>
      simp only
      split <;> (intro j hj; simp only at hj; by_cases hji : j = i
                 · simp [hji] at hj
                 · simp only [hji, if_false] at hj; exact h j hj)
    | passedEntry =>
      simp only
      intro j hj; simp only at hj; by_cases hji : j = i
      · simp [hji] at hj
      · simp only [hji, if_false] at hj; exact h j hj
    | effectDone =>
      simp only
      split
      · intro j hj; simp only at hj; by_cases hji : j = i
        · simp [hji] at hj
        · simp only [hji, if_false] at hj; exact h j hj
      · intro j hj; simp only at hj ⊢; by_cases hji : j = i
        · simp [hji]
        · simp only [hji, if_false] at hj; exact List.mem_cons_of_mem _ (h j hj)
    | appended => simpa using h
    | rejectedAtEntry => simpa using h
    | rejectedAtAppend => simpa using h

theorem invApp_run (sched : List Nat) : ∀ (s : St), InvApp s → InvApp (run s sched) := by
  induction sched with
  | nil => intro s hs; exact hs
  | cons j r ih => intro s hs; exact ih (step s j) (invApp_step s j hs)

/-- **C17 (completeness of the record)**: an operation that completed before the close is in it. -/
theorem C17_completed_in_record (sched : List Nat) (i : Nat) (h : (run {} sched).pc i = .appended) :
    i ∈ (run {} sched).record :=
  invApp_run sched {} (by intro j hj; simp at hj) i h

/-- **C17 (sequential fence)**: a call that begins after the close is rejected at the entry and has no
    effect. -/
theorem C17_sequential_fence (i : Nat) (hi : i ≠ 0) :
    (run {} [0, i]).pc i = .rejectedAtEntry ∧ (run {} [0, i]).effects = [] := by
  simp [run, step, hi]

/-- **C17 is false of the code for racing `build_file` / `subbuild` stragglers** (known finding D10): a
    straggler that passed the entry check before the close performs its effect after it, and is then
    rejected at the append. -/
theorem straggler_counterexample :
    (run {} [1, 0, 1, 1]).pc 1 = .rejectedAtAppend ∧ (run {} [1, 0, 1, 1]).effectsAfterClose = [1] ∧
    (run {} [1, 0, 1, 1]).record = [] := by decide

end P3

/-! ## P2 — directory arbitration -/
namespace P2

inductive PC where
  | start | looked | made | registered
deriving DecidableEq, Repr, Inhabited

/-- two or more threads each build a file directly below the same directory `d`, which does not exist
    and is not recorded by the previous build -/
structure St where
  dirExists : Bool := false        -- `os.path.isdir(d)`
  count : Nat := 0                 -- `_build_dir_counts[d]`
  created : Bool := false          -- `d in _created_dirs_map`
  need : Nat → Bool := fun _ => false   -- thread i thinks it has to create d (`d in created_dirs`)
  pc : Nat → PC := fun _ => .start

def step (s : St) (i : Nat) : St :=
  match s.pc i with
  | .start =>     -- `_dirs_to_make`: `is_dir(d)` looks at the real directory
    { s with need := fun j => if j = i then !s.dirExists else s.need j,
             pc := fun j => if j = i then .looked else s.pc j }
  | .looked =>    -- `os.mkdir(d)` (FileExistsError is swallowed)
    { s with dirExists := if s.need i then true else s.dirExists,
             pc := fun j => if j = i then .made else s.pc j }
  | .made =>      -- `started_building_file`: locked; whoever made d registers it, whether or not it reserves it first
    { s with count := s.count + 1,
             created := s.created || s.need i,
             pc := fun j => if j = i then .registered else s.pc j }
  | .registered => s

def run (s : St) (sched : List Nat) : St := sched.foldl step s

/-- every sequential order records the directory as created -/
example : (run {} [0, 0, 0, 1, 1, 1]).created = true ∧ (run {} [1, 1, 1, 0, 0, 0]).created = true := by decide

/-- the registration as it was before the repair of D7 (`if count > 0: break` came before the look at
    `created_dirs`): the first reservation alone decided who created d -/
def stepFirstOnly (s : St) (i : Nat) : St :=
  match s.pc i with
  | .made => { s with count := s.count + 1, created := if s.count = 0 then s.need i else s.created,
                      pc := fun j => if j = i then .registered else s.pc j }
  | _ => step s i

/-- the defect D7, kept as a regression witness: with the old registration one preemption between a thread's
    `mkdir` and its registration made the other thread see the directory as pre-existing and register first;
    nobody was recorded as its creator and `clean` left it behind.  The model is sensitive to the mechanism. -/
theorem arbitration_counterexample_before_fix :
    ([0, 0, 1, 1, 1, 0].foldl stepFirstOnly ({} : St)).created = false ∧
    ([0, 0, 1, 1, 1, 0].foldl stepFirstOnly ({} : St)).dirExists = true := by decide

/-- what every interleaving keeps: the directory exists only if a thread that believes it has to make it has
    got past `mkdir`; such a thread has registered it once it is through; and it is recorded as created only
    if it exists -/
structure ArbInv (s : St) : Prop where
  maker : s.dirExists = true → ∃ i, s.need i = true ∧ (s.pc i = .made ∨ s.pc i = .registered)
  recorded : ∀ i, s.pc i = .registered → s.need i = true → s.created = true
  real : s.created = true → s.dirExists = true
  made : ∀ i, s.need i = true → (s.pc i = .made ∨ s.pc i = .registered) → s.dirExists = true
  fresh : ∀ i, s.pc i = .start → s.need i = false

theorem arbInv_init : ArbInv {} :=
  ⟨by simp, by simp, by simp, by simp, by simp⟩

theorem arbInv_step (s : St) (i : Nat) (h : ArbInv s) : ArbInv (step s i) := by
  unfold step
  cases hp : s.pc i with
  | start =>
    simp only
    refine ⟨?_, ?_, ?_, ?_, ?_⟩
    · intro hd
      obtain ⟨k, hk, hk'⟩ := h.maker hd
      have hki : k ≠ i := by intro e; subst e; rw [hp] at hk'; rcases hk' with e | e <;> cases e
      exact ⟨k, by simp [hki, hk], by simpa [hki] using hk'⟩
    · intro k hk hn
      by_cases hki : k = i
      · subst hki; simp at hk
      · simp only [hki, if_false] at hk hn; exact h.recorded k hk hn
    · exact h.real
    · intro k hn hk
      by_cases hki : k = i
      · subst hki; simp at hk
      · simp only [hki, if_false] at hk hn; exact h.made k hn hk
    · intro k hk
      by_cases hki : k = i
      · subst hki; simp at hk
      · simp only [hki, if_false] at hk ⊢; exact h.fresh k hk
  | looked =>
    simp only
    refine ⟨?_, ?_, ?_, ?_, ?_⟩
    · intro hd
      by_cases hn : s.need i = true
      · exact ⟨i, hn, by simp⟩
      · simp only [hn] at hd
        obtain ⟨k, hk, hk'⟩ := h.maker (by simpa using hd)
        have hki : k ≠ i := by intro e; subst e; exact hn hk
        exact ⟨k, hk, by simpa [hki] using hk'⟩
    · intro k hk hn
      by_cases hki : k = i
      · subst hki; simp at hk
      · simp only [hki, if_false] at hk; exact h.recorded k hk hn
    · intro hc
      have := h.real hc
      split <;> simp [this]
    · intro k hn hk
      by_cases hki : k = i
      · subst hki; have hn' : s.need k = true := hn; simp [hn']
      · simp only [hki, if_false] at hk
        have := h.made k hn hk
        split <;> simp [this]
    · intro k hk
      by_cases hki : k = i
      · subst hki; simp at hk
      · simp only [hki, if_false] at hk; exact h.fresh k hk
  | made =>
    simp only
    refine ⟨?_, ?_, ?_, ?_, ?_⟩
    · intro hd
      obtain ⟨k, hk, hk'⟩ := h.maker hd
      by_cases hki : k = i
      · exact ⟨k, hk, by simp [hki]⟩
      · exact ⟨k, hk, by simpa [hki] using hk'⟩
    · intro k hk hn
      by_cases hki : k = i
      · subst hki; have hn' : s.need k = true := hn; simp [hn']
      · simp only [hki, if_false] at hk; simp [h.recorded k hk hn]
    · intro hc
      simp only [Bool.or_eq_true] at hc
      rcases hc with hc | hc
      · exact h.real hc
      · exact h.made i hc (Or.inl hp)
    · intro k hn hk
      by_cases hki : k = i
      · subst hki; exact h.made k hn (Or.inl hp)
      · simp only [hki, if_false] at hk; exact h.made k hn hk
    · intro k hk
      by_cases hki : k = i
      · subst hki; simp at hk
      · simp only [hki, if_false] at hk; exact h.fresh k hk
  | registered => exact h

theorem arbInv_run (sched : List Nat) (s : St) (h : ArbInv s) : ArbInv (run s sched) := by
  induction sched generalizing s with
  | nil => exact h
  | cons i r ih => exact ih _ (arbInv_step s i h)

/-- **C09, directory arbitration**: under every interleaving of any number of threads, once every thread that
    started is through, the directory is recorded as created by the build exactly if it exists — which is what
    each sequential order gives.  (And at every moment it is recorded only if it exists.) -/
theorem arbitration_correct (sched : List Nat)
    (hdone : ∀ i, (run {} sched).pc i = .start ∨ (run {} sched).pc i = .registered) :
    (run {} sched).created = (run {} sched).dirExists := by
  have h := arbInv_run sched {} arbInv_init
  cases hd : (run {} sched).dirExists with
  | false =>
    cases hc : (run {} sched).created with
    | false => rfl
    | true => rw [h.real hc] at hd; cases hd
  | true =>
    obtain ⟨k, hk, hk'⟩ := h.maker hd
    rcases hdone k with e | e
    · rw [h.fresh k e] at hk; cases hk
    · exact h.recorded k e hk

/-- the schedule on which the old registration went wrong now ends with the directory recorded -/
example : (run {} [0, 0, 1, 1, 1, 0]).created = true ∧ (run {} [0, 0, 1, 1, 1, 0]).dirExists = true ∧
    (run {} [0, 0, 1, 1, 1, 0]).count = 2 := by decide

/-- what does hold under every schedule: the reservation count is the number of registered threads
    (so failed outputs release exactly what they reserved) -/
def registeredCount (s : St) (ids : List Nat) : Nat := (ids.filter (fun i => s.pc i = .registered)).length

theorem filter_len_fresh (f : Nat → PC) (x : Nat) (l : List Nat) (hx : x ∉ l) :
    (l.filter (fun j => decide ((if j = x then PC.registered else f j) = PC.registered))).length =
      (l.filter (fun j => decide (f j = PC.registered))).length := by
  congr 1
  apply List.filter_congr
  intro j hj
  have : j ≠ x := fun e => hx (e ▸ hj)
  simp [this]

theorem filter_len_update (f : Nat → PC) (x : Nat) (l : List Nat) (hnd : l.Nodup) (hx : x ∈ l)
    (hp : f x ≠ PC.registered) :
    (l.filter (fun j => decide ((if j = x then PC.registered else f j) = PC.registered))).length =
      (l.filter (fun j => decide (f j = PC.registered))).length + 1 := by
  induction l with
  | nil => cases hx
  | cons a r ih =>
    rw [List.nodup_cons] at hnd
    by_cases ha : a = x
    · subst ha
      have h1 := filter_len_fresh f a r hnd.1
      simp only [List.filter, if_true, decide_true, List.length_cons]
      have : decide (f a = PC.registered) = false := by simp [hp]
      rw [this, h1]
    · have hxr : x ∈ r := by
        rcases List.mem_cons.mp hx with e | e
        · exact absurd e.symm ha
        · exact e
      have := ih hnd.2 hxr
      simp only [List.filter, ha, if_false]
      cases hfa : decide (f a = PC.registered) with
      | true => simp only [List.length_cons]; omega
      | false => exact this

theorem count_step (s : St) (i : Nat) (ids : List Nat) (hnd : ids.Nodup) (hi : i ∈ ids)
    (h : s.count = registeredCount s ids) : (step s i).count = registeredCount (step s i) ids := by
  unfold step
  cases hp : s.pc i with
  | start =>
    simp only [registeredCount] at h ⊢
    rw [h]; congr 1
    apply List.filter_congr
    intro j _
    by_cases hji : j = i
    · subst hji; simp [hp]
    · simp [hji]
  | looked =>
    simp only [registeredCount] at h ⊢
    rw [h]; congr 1
    apply List.filter_congr
    intro j _
    by_cases hji : j = i
    · subst hji; simp [hp]
    · simp [hji]
  | registered => simpa using h
  | made =>
    simp only [registeredCount] at h ⊢
    rw [h]
    exact (filter_len_update s.pc i ids hnd hi (by rw [hp]; decide)).symm

theorem registeredCount_init (ids : List Nat) : registeredCount ({} : St) ids = 0 := by
  simp only [registeredCount]
  induction ids with
  | nil => rfl
  | cons a r ih => simpa [List.filter] using ih

theorem count_is_registered (sched : List Nat) (ids : List Nat) (hnd : ids.Nodup)
    (hs : ∀ i ∈ sched, i ∈ ids) : (run {} sched).count = registeredCount (run {} sched) ids := by
  have : ∀ (s : St), s.count = registeredCount s ids → (∀ i ∈ sched, i ∈ ids) →
      (run s sched).count = registeredCount (run s sched) ids := by
    induction sched with
    | nil => intro s h _; exact h
    | cons j r ih =>
      intro s h hm
      exact ih (fun i hi => hs i (List.mem_cons_of_mem _ hi)) (step s j)
        (count_step s j ids hnd (hm j (by simp)) h) (fun i hi => hm i (List.mem_cons_of_mem _ hi))
  refine this {} ?_ hs
  rw [registeredCount_init]

end P2

/-! ## P4 — locks taken along a strict order cannot deadlock -/
namespace P4

/-- thread `t` holds the locks `held t` and, if blocked, waits for `waits t`; the discipline: a thread
    only ever waits for a lock that is greater than every lock it holds -/
structure Snapshot where
  threads : List Nat
  held : Nat → List Nat
  waits : Nat → Option Nat

def Snapshot.ordered (s : Snapshot) : Prop :=
  ∀ t ∈ s.threads, ∀ l, s.waits t = some l → ∀ h ∈ s.held t, h < l

/-- a deadlock: every thread waits for a lock that another thread of the set holds -/
def Snapshot.deadlocked (s : Snapshot) : Prop :=
  s.threads ≠ [] ∧ ∀ t ∈ s.threads, ∃ l, s.waits t = some l ∧ ∃ u ∈ s.threads, l ∈ s.held u

/-- **deadlock freedom of ordered locking** (the locks of `Cache` are taken in the order
    `_files_lock`, `_subbuilds_lock`, `_created_dirs_lock`; no other lock of the library is taken while
    another is held — the harness checks the observed acquisition edges against this). -/
theorem ordered_no_deadlock (s : Snapshot) (ho : s.ordered) : ¬ s.deadlocked := by
  rintro ⟨hne, hd⟩
  -- take the thread waiting for the greatest lock
  have hex : ∃ t ∈ s.threads, ∃ l, s.waits t = some l ∧
      ∀ t' ∈ s.threads, ∀ l', s.waits t' = some l' → l' ≤ l := by
    have : ∀ (ts : List Nat), ts ≠ [] → (∀ t ∈ ts, ∃ l, s.waits t = some l) →
        ∃ t ∈ ts, ∃ l, s.waits t = some l ∧ ∀ t' ∈ ts, ∀ l', s.waits t' = some l' → l' ≤ l := by
      intro ts
      induction ts with
      | nil => intro h; exact absurd rfl h
      | cons a r ih =>
        intro _ hall
        obtain ⟨la, hla⟩ := hall a (by simp)
        by_cases hr : r = []
        · subst hr
          refine ⟨a, by simp, la, hla, ?_⟩
          intro t' ht' l' hl'
          simp at ht'; subst ht'
          rw [hla] at hl'; injection hl' with e; omega
        · obtain ⟨t, ht, l, hl, hmax⟩ := ih hr (fun t ht => hall t (List.mem_cons_of_mem _ ht))
          by_cases hcmp : l ≤ la
          · refine ⟨a, by simp, la, hla, ?_⟩
            intro t' ht' l' hl'
            rcases List.mem_cons.mp ht' with e | e
            · subst e; rw [hla] at hl'; injection hl' with e; omega
            · have := hmax t' e l' hl'; omega
          · refine ⟨t, List.mem_cons_of_mem _ ht, l, hl, ?_⟩
            intro t' ht' l' hl'
            rcases List.mem_cons.mp ht' with e | e
            · subst e; rw [hla] at hl'; injection hl' with e; omega
            · exact hmax t' e l' hl'
    exact this s.threads hne (fun t ht => by obtain ⟨l, hl, _⟩ := hd t ht; exact ⟨l, hl⟩)
  obtain ⟨t, ht, l, hl, hmax⟩ := hex
  obtain ⟨l0, hl0, u, hu, hheld⟩ := hd t ht
  rw [hl] at hl0; injection hl0 with e; subst e
  -- the holder u of l is blocked too, on a lock greater than l: contradiction with maximality
  obtain ⟨lu, hlu, _⟩ := hd u hu
  have h1 := ho u hu lu hlu l hheld
  have h2 := hmax u hu lu hlu
  omega

end P4
end FB.Conc
