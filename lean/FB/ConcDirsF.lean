/-
  FB.ConcDirsF — `FB.ConcDirs` with failing builds: after its registration a thread whose function raises runs
  `error_building_file` (the locked undo of its reservation).  Directories are never removed physically during the
  build (the library removes the virtually removed ones when it commits), so the set of real directories only grows.
-/
import FB.BuildDirs
namespace FB
namespace ConcDirsF
open BuildDirs

inductive PC where
  | looking (cur : Path) (acc : List Path)
  | making (j : Nat)
  | registered
  | failed
deriving DecidableEq, Repr, Inhabited

structure St where
  dirs : List Path
  b : BD
  cds : Nat → List Path
  pc : Nat → PC
  /-- the files whose reservation is in force (registered and not failed): ghost state -/
  live : List Path

def init (p : Nat → Path) (dirs0 : List Path) : St :=
  { dirs := dirs0, b := {}, cds := fun _ => [], pc := fun i => .looking (p i).dropLast [], live := [] }

def step (p : Nat → Path) (fails : Nat → Bool) (s : St) (i : Nat) : St :=
  match s.pc i with
  | .looking cur acc =>
    if s.dirs.contains cur || cur = [] then
      { s with cds := fun k => if k = i then acc else s.cds k, pc := fun k => if k = i then .making 0 else s.pc k }
    else { s with pc := fun k => if k = i then .looking cur.dropLast (cur :: acc) else s.pc k }
  | .making j =>
    match (s.cds i)[j]? with
    | some d => { s with dirs := add s.dirs d, pc := fun k => if k = i then .making (j + 1) else s.pc k }
    | none => { s with b := (started s.b (p i) (s.cds i)).1, live := p i :: s.live, pc := fun k => if k = i then .registered else s.pc k }
  | .registered =>
    if fails i then
      match error s.b (p i) with
      | some b' => { s with b := b', live := s.live.erase (p i), pc := fun k => if k = i then .failed else s.pc k }
      | none => s
    else s
  | .failed => s

def run (p : Nat → Path) (fails : Nat → Bool) (s : St) (sched : List Nat) : St := sched.foldl (step p fails) s

end ConcDirsF
end FB
