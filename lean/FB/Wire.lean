/-
  FB.Wire — JSON wire format between the Python harness and the model driver.
  Trusted glue (part of the correspondence check), not part of any theorem.

  Values: null | true | false | {"i":"<decimal>"} | {"f":["<num>","<k>",negzero]} | {"inf":neg}
        | "string" | {"l":[..]} | {"t":[..]} | {"d":[[key,val],..]} | {"sub":<val>} | {"o":1}
  Keys:   "string" | {"sub":"string"} | true | false | {"i":..} | {"f":[..],"r":"<repr>"}
        | {"inf":neg,"r":".."} | {"nan":1} | null | {"o":1}
  Paths:  "a/b/c" relative to the sandbox root, "" is the root.
-/
import Lean.Data.Json
import FB.DSL
import FB.Spec
import FB.Impl
namespace FB.Wire
open Lean (Json)

abbrev LJson := Lean.Json

def err {α} (msg : String) : Except String α := .error msg

def parsePath (s : String) : Path :=
  if s = "" then [] else s.splitOn "/"

def showPath (p : Path) : String := joinWith "/" p

def getInt (j : LJson) : Except String Int :=
  match j with
  | .str s => match s.toInt? with | some i => .ok i | none => err s!"bad int {s}"
  | _ => match j.getInt? with | .ok i => .ok i | .error e => err e

def getNat (j : LJson) : Except String Nat := do
  let i ← getInt j
  if i < 0 then err "negative" else pure i.toNat

def parseNum (j : LJson) : Except String Num := do
  if let .ok i := j.getObjVal? "i" then return .int (← getInt i)
  if let .ok f := j.getObjVal? "f" then
    let a ← f.getArr?
    if h : a.size = 3 then
      return .flt { num := ← getInt a[0], k := ← getNat a[1], negZero := (← a[2].getBool?) }
    else err "bad float"
  if let .ok n := j.getObjVal? "inf" then return .inf (← n.getBool?)
  err s!"bad num {j.compress}"

partial def parseVal (j : LJson) : Except String PyVal := do
  match j with
  | .null => return .null
  | .bool b => return .bool b
  | .str s => return .str false s
  | .obj _ =>
    if let .ok s := j.getObjVal? "sub" then
      match ← parseVal s with
      | .int _ i => return .int true i
      | .flt _ n => return .flt true n
      | .str _ s => return .str true s
      | .list _ xs => return .list true xs
      | .tuple _ xs => return .tuple true xs
      | .dict _ kvs => return .dict true kvs
      | _ => err "bad sub"
    if let .ok _ := j.getObjVal? "o" then return .other
    if let .ok l := j.getObjVal? "l" then return .list false (← (← l.getArr?).toList.mapM parseVal)
    if let .ok l := j.getObjVal? "t" then return .tuple false (← (← l.getArr?).toList.mapM parseVal)
    if let .ok d := j.getObjVal? "d" then
      let kvs ← (← d.getArr?).toList.mapM fun kv => do
        let a ← kv.getArr?
        if h : a.size = 2 then
          let k ← parseKey a[0]
          let v ← parseVal a[1]
          pure (k, v)
        else err "bad kv"
      return .dict false kvs
    match ← parseNum j with
    | .int i => return .int false i
    | n => return .flt false n
  | _ => err s!"bad value {j.compress}"
where
  parseKey (j : LJson) : Except String PyKey := do
    match j with
    | .null => return .null
    | .bool b => return .bool b
    | .str s => return .str false s
    | .obj _ =>
      if let .ok s := j.getObjVal? "sub" then return .str true (← s.getStr?)
      if let .ok _ := j.getObjVal? "o" then return .other
      if let .ok _ := j.getObjVal? "nan" then return .nan
      if let .ok i := j.getObjVal? "i" then return .int (← getInt i)
      let n ← parseNum j
      let r ← (← j.getObjVal? "r").getStr?
      return .flt n r
    | _ => err s!"bad key {j.compress}"

/-- a wire value that must already be a JSON value (args, versions): sanitized on the way in -/
def parseJson (j : LJson) : Except String FB.Json := do
  match sanitize (← parseVal j) with
  | some v => pure v
  | none => err "not a JSON value"

def showNum : Num → LJson
  | .int i => Json.mkObj [("i", .str (toString i))]
  | .flt d => Json.mkObj [("f", .arr #[.str (toString d.num), .str (toString d.k), .bool d.negZero])]
  | .inf n => Json.mkObj [("inf", .bool n)]

partial def showJson : FB.Json → LJson
  | .null => .null
  | .bool b => .bool b
  | .num n => showNum n
  | .str s => .str s
  | .arr xs => Json.mkObj [("l", .arr (xs.map showJson).toArray)]
  | .tup xs => Json.mkObj [("t", .arr (xs.map showJson).toArray)]
  | .obj kvs => Json.mkObj [("d", .arr (kvs.map fun (k, v) => .arr #[.str k, showJson v]).toArray)]

partial def showH : H → LJson
  | .null => .null
  | .num n => showNum n
  | .str s => .str s
  | .tup xs => Json.mkObj [("t", .arr (xs.map showH).toArray)]

def parseCmp (s : String) : Except String Cmp :=
  if s = "M" then .ok .metadata else if s = "H" then .ok .hash else err s!"bad cmp {s}"

def parseQuery (a : Array LJson) : Except String Query := do
  -- ["q", kind, path, extra]
  if h : a.size = 4 then
    let kind ← a[1].getStr?
    let p := parsePath (← a[2].getStr?)
    match kind with
    | "is_file" => return .isFile p
    | "is_dir" => return .isDir p
    | "exists" => return .exists_ p
    | "list_dir" => return .listDir p
    | "walk" => return .walk p (← a[3].getBool?)
    | "get_size" => return .getSize p
    | "read" => return .read p (← parseCmp (← a[3].getStr?))
    | _ => err s!"bad query kind {kind}"
  else err "bad query"

partial def parseStmt (j : LJson) : Except String Stmt := do
  let a ← j.getArr?
  if h0 : a.size = 0 then err "empty stmt" else
  match ← a[0].getStr? with
  | "q" => return .q (← parseQuery a)
  | "bf" =>
    -- ["bf", path, cmp, callee, arg, kw, catch]
    -- optional 8th element: further positional arguments
    if h : a.size = 7 then
      return .bf (parsePath (← a[1].getStr?)) (← parseCmp (← a[2].getStr?)) (← getNat a[3])
        (← parseVal a[4]) (← parseVal a[5]) (← a[6].getBool?)
    else if h : a.size = 8 then
      return .bf (parsePath (← a[1].getStr?)) (← parseCmp (← a[2].getStr?)) (← getNat a[3])
        (← parseVal a[4]) (← parseVal a[5]) (← a[6].getBool?) (← (← a[7].getArr?).toList.mapM parseVal)
    else err "bad bf"
  | "sb" =>
    if h : a.size = 5 then
      return .sb (← getNat a[1]) (← parseVal a[2]) (← parseVal a[3]) (← a[4].getBool?)
    else if h : a.size = 6 then
      return .sb (← getNat a[1]) (← parseVal a[2]) (← parseVal a[3]) (← a[4].getBool?) (← (← a[5].getArr?).toList.mapM parseVal)
    else err "bad sb"
  | "raise" => if h : a.size = 2 then return .raise (← getNat a[1]) else err "bad raise"
  | "w" =>
    if h : a.size = 2 ∨ a.size = 3 then
      have h1 : 1 < a.size := by omega
      let mt : Option Nat := if h3 : a.size = 3 then (getNat a[2]).toOption else none
      match a[1] with
      | .null => return .write none mt
      | .str s => return .write (some s) mt
      | _ => err "bad w"
    else err "bad w"
  | "if" =>
    if h : a.size = 4 then
      let c ← parseCond a[1]
      let t ← (← a[2].getArr?).toList.mapM parseStmt
      let e ← (← a[3].getArr?).toList.mapM parseStmt
      return .ite c t e
    else err "bad if"
  | k => err s!"bad stmt {k}"
where
  parseCond (j : LJson) : Except String Cond := do
    let a ← j.getArr?
    if h0 : a.size = 0 then err "empty cond" else
    match ← a[0].getStr? with
    | "err" => return .err
    | "true" => return .isTrue
    | "nonempty" => return .nonEmpty
    | "eq" => if h : a.size = 2 then return .eq (← parseJson a[1]) else err "bad eq"
    | "arg" => if h : a.size = 2 then return .argEq (← parseJson a[1]) else err "bad arg"
    | k => err s!"bad cond {k}"

def parseFunc (j : LJson) : Except String Func := do
  let name ← (← j.getObjVal? "name").getStr?
  let stmts ← (← (← j.getObjVal? "stmts").getArr?).toList.mapM parseStmt
  let r ← j.getObjVal? "ret"
  let ret ← match r with
    | .str "acc" => pure RetMode.acc
    | .str "nonjson" => pure RetMode.nonJson
    | _ => do pure (RetMode.const (← parseVal (← r.getObjVal? "const")))
  return { name, stmts, ret }

def parseTree (j : LJson) : Except String FS := do
  let nodes ← j.getArr?
  -- like `os.makedirs`: ancestors of every node are directories
  let withAncestors (fs : FS) (p : Path) : FS :=
    (List.range p.length).foldl (fun fs k =>
      let anc := p.take k
      if anc = [] ∨ (fs.get anc).isSome then fs else fs.set anc .dir) fs
  nodes.toList.foldlM (init := ([] : FS)) fun fs n => do
    let a ← n.getArr?
    if h : a.size = 2 then
      let p := parsePath (← a[0].getStr?)
      return (withAncestors fs p).set p .dir
    else if h : a.size = 4 then
      let p := parsePath (← a[0].getStr?)
      return (withAncestors fs p).set p (.file (← a[2].getStr?) (← getNat a[3]))
    else err "bad node"

/-- tree snapshot: sorted list of [path,"dir"] | [path,"file",bytes,mtime] -/
def showTree (fs : FS) : LJson :=
  let items := fs.map fun (p, e) => (showPath p, e)
  let sorted := items.mergeSort (fun a b => a.1 ≤ b.1)
  .arr (sorted.map fun (p, e) => match e with
    | .dir => .arr #[.str p, .str "dir"]
    | .file b m => .arr #[.str p, .str "file", .str b, .num (.fromNat m)]).toArray

def showExc : Exc → LJson
  | .user t => Json.mkObj [("cls", "UserExc"), ("tok", .num (.fromNat t))]
  | .os e => Json.mkObj [("cls", .str e.name)]
  | .runtime w => Json.mkObj [("cls", "RuntimeError"), ("why", .str (match w with
      | .dupFile => "dupFile" | .dupSub => "dupSub" | .cacheTarget => "cacheTarget"
      | .notCreated => "notCreated" | .finished => "finished" | .nameMismatch => "nameMismatch"
      | .corrupt => "corrupt"))]
  | .typeErr => Json.mkObj [("cls", "TypeError")]
  | .internal m => Json.mkObj [("cls", .str ("INTERNAL:" ++ m))]

def showRes : CallRes → LJson
  | .ok v => Json.mkObj [("ok", showJson v)]
  | .error e => Json.mkObj [("exc", showExc e)]

def showInv (i : Inv) : LJson :=
  .arr #[.str i.fname, (match i.target with | some p => .str (showPath p) | none => .null),
         showJson i.args, showJson i.kwargs]

partial def showCall : CallNode → LJson
  | .mk f t a k st ch =>
    Json.mkObj [("f", .str f), ("t", match t with | some p => .str (showPath p) | none => .null),
      ("a", showJson a), ("k", showJson k), ("st", .str st), ("ch", .arr (ch.map showCall).toArray)]

def showQuery : Query → (String × List LJson)
  | .isFile p => ("is_file", [.str (showPath p)])
  | .isDir p => ("is_dir", [.str (showPath p)])
  | .exists_ p => ("exists", [.str (showPath p)])
  | .listDir p => ("list_dir", [.str (showPath p)])
  | .walk p td => ("walk", [.str (showPath p), .bool td])
  | .getSize p => ("get_size", [.str (showPath p)])
  | .read p c => ("read", [.str (showPath p), .str c.name])

partial def showOp : Op → LJson
  | .simple q ret exc _ =>
    let (name, args) := showQuery q
    Json.mkObj [("type", .str name), ("args", .arr args.toArray), ("ret", showJson ret),
      ("exc", match exc with | some e => .str e.name | none => .null)]
  | .buildFile p c f a k subs r cr raised sf _ =>
    Json.mkObj [("type", "build_file"), ("filename", .str (showPath p)), ("cmp", .str c.name), ("func", .str f),
      ("args", showJson a), ("kwargs", showJson k), ("subs", .arr (subs.map showOp).toArray),
      ("ret", showJson r), ("cmpRes", showJson cr), ("raised", .bool raised), ("setupFailed", .bool sf)]
  | .subbuild f a k subs r raised sf =>
    Json.mkObj [("type", "subbuild"), ("func", .str f), ("args", showJson a), ("kwargs", showJson k),
      ("subs", .arr (subs.map showOp).toArray), ("ret", showJson r), ("raised", .bool raised),
      ("setupFailed", .bool sf)]

def showCache (c : CacheRec) : LJson :=
  Json.mkObj [("buildName", .str c.buildName), ("roots", .arr (c.roots.map showOp).toArray),
    ("createdDirs", .arr (c.createdDirs.map fun p => .str (showPath p)).toArray),
    ("versions", showJson (.obj c.versions))]

end FB.Wire
