/-
  FB.Heap — a heap model of the value-carrying edges of the API (property C11).

  The cache-logic models (FB.Spec / FB.Impl) have value semantics by construction: a record holds a `Json`, not a
  reference.  Python has reference semantics.  This file models the heap: cells with addresses, the library's records
  as addresses into it, user code that may mutate IN PLACE every cell it can reach, and the places where
  `file_builder.py` copies (`JsonUtil.sanitize` on the way in, `copy.deepcopy` on the way out).  Mathlib-free.
-/
namespace FB.Heap

/-- the value a heap graph denotes: scalars are atoms, lists / dicts / tuples are nodes -/
inductive Tree where
  | atom (n : Nat)
  | node (kids : List Tree)
deriving Repr, Inhabited

inductive Cell where
  | atom (n : Nat)
  | node (kids : List Nat)
deriving Repr, Inhabited

/-- address = index; allocation appends -/
abbrev Heap := List Cell

mutual
/-- build a fresh copy of a value: children first, so every child address is below its parent's -/
def alloc (h : Heap) : Tree → Heap × Nat
  | .atom n => (h ++ [.atom n], h.length)
  | .node ks => let r := allocL h ks; (r.1 ++ [.node r.2], r.1.length)
def allocL (h : Heap) : List Tree → Heap × List Nat
  | [] => (h, [])
  | t :: ts => let r1 := alloc h t; let r2 := allocL r1.1 ts; (r2.1, r1.2 :: r2.2)
end

mutual
/-- the value at an address (`none`: dangling, or deeper than the fuel - a cyclic structure) -/
def read (h : Heap) : Nat → Nat → Option Tree
  | 0, _ => none
  | f+1, a =>
    match h[a]? with
    | none => none
    | some (.atom n) => some (.atom n)
    | some (.node ks) => (readL h f ks).map .node
termination_by f _ => (f, 0)
def readL (h : Heap) : Nat → List Nat → Option (List Tree)
  | _, [] => some []
  | f, a :: as =>
    match read h f a, readL h f as with
    | some t, some ts => some (t :: ts)
    | _, _ => none
termination_by f as => (f, as.length + 1)
end

/-- `copy.deepcopy` / `JsonUtil.sanitize` as far as the heap is concerned: read the value, build a fresh structure -/
def copy (h : Heap) (a : Nat) : Option (Heap × Nat) := (read h (h.length + 1) a).map (alloc h)

/-- which edges copy (the code under analysis: all four) -/
structure Policy where
  argsIn : Bool := true      -- `_sanitize_args` on entry
  argsOut : Bool := true     -- `copy.deepcopy(operation.args)` / `(operation.kwargs)` for the callee
  retIn : Bool := true       -- `_sanitize_return_value` of what the function returned
  retOut : Bool := true      -- `copy.deepcopy(suboperation.return_value)` handed to the caller (fresh or cached)
  queryOut : Bool := true    -- `copy.deepcopy(operation.return_value)` of list_dir / walk / ...

/-- a record: the cells `[lo, root]` hold its value -/
structure Rec where
  lo : Nat
  root : Nat
deriving Repr

structure St where
  heap : Heap := []
  lib : Nat → Bool := fun _ => false     -- cells a record of the library consists of
  usr : Nat → Bool := fun _ => false     -- cells user code holds a reference to (directly or through a container)
  recs : List Rec := []

def mark (f : Nat → Bool) (lo hi : Nat) : Nat → Bool := fun a => f a || (decide (lo ≤ a) && decide (a < hi))

inductive Ev where
  | userAlloc (t : Tree)                 -- user code builds a value
  | userWrite (a : Nat) (c : Cell)       -- user code mutates a container in place: `l.append(x)`, `del d[k]`, `l[:] = ...`
  | call (a : Nat)                       -- build_file / subbuild called with the user's value at `a`; the callee receives its arguments
  | ret (a : Nat)                        -- the function returns the user's value at `a`; the caller receives the result
  | serve (i : Nat)                      -- the value of record `i` is handed out again (cached result; arguments of a re-executed callee)
  | query (t : Tree)                     -- list_dir / walk / ...: the library computes `t`, records it, hands it out

def cellOk (usr : Nat → Bool) : Cell → Bool
  | .atom _ => true
  | .node ks => ks.all usr

def handOut (s : St) (rc : Rec) (copyOut : Bool) : St :=
  if copyOut then
    match copy s.heap rc.root with
    | none => s
    | some (h2, _) => { s with heap := h2, usr := mark s.usr s.heap.length h2.length }
  else { s with usr := mark s.usr rc.lo (rc.root + 1) }

/-- record the value at `a` (copying it, or - a seeded variant - keeping the user's own structure) and hand it on
    (a copy, or - a seeded variant - the record's own structure) -/
def recordAndHand (s : St) (a : Nat) (copyIn copyOut : Bool) : St :=
  if s.usr a = false then s else
  if copyIn then
    match copy s.heap a with
    | none => s                                    -- sanitize raised (not a finite JSON value): nothing recorded
    | some (h1, r) =>
      handOut { s with heap := h1, lib := mark s.lib s.heap.length h1.length, recs := s.recs ++ [⟨s.heap.length, r⟩] }
        ⟨s.heap.length, r⟩ copyOut
  else handOut { s with recs := s.recs ++ [⟨a, a⟩] } ⟨a, a⟩ copyOut

def step (p : Policy) (s : St) : Ev → St
  | .userAlloc t => let r := alloc s.heap t; { s with heap := r.1, usr := mark s.usr s.heap.length r.1.length }
  | .userWrite a c =>
    if a < s.heap.length ∧ s.usr a = true ∧ cellOk s.usr c = true then { s with heap := s.heap.set a c } else s
  | .call a => recordAndHand s a p.argsIn p.argsOut
  | .ret a => recordAndHand s a p.retIn p.retOut
  | .serve i =>
    match s.recs[i]? with
    | none => s
    | some rc => handOut s rc p.retOut
  | .query t =>
    let r := alloc s.heap t
    handOut { s with heap := r.1, lib := mark s.lib s.heap.length r.1.length, recs := s.recs ++ [⟨s.heap.length, r.2⟩] }
      ⟨s.heap.length, r.2⟩ p.queryOut

def run (p : Policy) (s : St) (evs : List Ev) : St := evs.foldl (step p) s

/-- what record `i` denotes now -/
def recVal (s : St) (i : Nat) : Option Tree :=
  match s.recs[i]? with
  | none => none
  | some rc => read s.heap (rc.root + 1) rc.root

end FB.Heap
