/-
  FB.PrepareF — `FileBuilder._prepare_file_creation` under an injected fault (C14): if the target is a directory on
  disk that the virtual tree does not know, `_make_room` clears it; then `_make_dirs` makes the parents.  One counter
  runs over the mutating calls of both phases (renames, rmdirs, mkdirs); the `failAt`-th fails with `OSError`.
-/
import FB.MakeRoomF
import FB.MakeDirsF
namespace FB
namespace PrepareF
open FS

inductive Kind where
  | ok | isADir | osError
deriving Repr, DecidableEq, Inhabited

structure Out where
  st : MakeDirs.St
  n : Nat
  kind : Kind

/-- `_prepare_file_creation` after `_dirs_to_make` (`dirs`): `virtDir`/`virtFile` are the answers of the virtual tree -/
def prepare (virtDir virtFile : Path → Bool) (oldCreated : List Path) (failAt : Option Nat) (fuel : Nat)
    (fs : FS) (bk : Backups.BK) (target : Path) (dirs : List Path) : Out :=
  let afterRoom : Except Out (MakeRoom.St × Nat) :=
    if fs.isDir target then
      if virtDir target then .error { st := { fs := fs, bk := bk }, n := 0, kind := .isADir }
      else match MakeRoomF.makeRoom virtDir virtFile failAt fuel { st := { fs := fs, bk := bk } } target with
        | .ok c => .ok (c.st, c.n)
        | .error c => .error { st := { fs := c.st.fs, bk := c.st.bk }, n := c.n, kind := if c.raw then .osError else .isADir }
    else .ok ({ fs := fs, bk := bk }, 0)
  match afterRoom with
  | .error o => o
  | .ok (st1, n1) =>
    match MakeDirsF.loop oldCreated failAt dirs n1 { fs := st1.fs, bk := st1.bk } with
    | .ok (st2, n2) => { st := st2, n := n2, kind := .ok }
    | .error (st2, n2) => { st := st2, n := n2, kind := .osError }

end PrepareF
end FB
