/-
  FB.Rollback — `FileBuilder._roll_back`: what the library does to the tree when a build fails.
  Inputs are the bookkeeping of the failed build at that moment: the directories it made
  (`BuildDirs.created_dirs()`, those made for the cache file, and the "error-created" ones), the outputs it
  produced (`new_cache.created_files()`), the outputs and created directories the previous build recorded, and
  the undo log (`FB.Backups`).
-/
import FB.Backups
namespace FB
namespace Rollback
open FS

structure RB where
  /-- `dirs_to_remove` -/
  createdDirs : List Path := []
  /-- `_new_cache.created_files()` -/
  newOutputs : List Path := []
  /-- `_old_cache.created_file(f)` -/
  oldOutputs : List Path := []
  /-- `_old_cache.created_dirs()` -/
  oldCreatedDirs : List Path := []
  bk : Backups.BK := {}

/-- `_try_to_remove_file` -/
def tryRemoveFile (fs : FS) (p : Path) : FS := if fs.isFile p then fs.erase p else fs

/-- the first loop of `_roll_back`: outputs of the failed build go, unless the previous build had produced a
    file there that `restore_all` is going to put back -/
def removeNew (fs : FS) (r : RB) : FS :=
  r.newOutputs.foldl (fun fs f => if !r.oldOutputs.contains f || Backups.wasAbsent r.bk f then tryRemoveFile fs f else fs) fs

/-- `_create_dirs`: shortest first, failures ignored -/
def createDirs (fs : FS) (ds : List Path) : FS :=
  (ds.mergeSort (fun a b => a.length ≤ b.length)).foldl Spec.mkdirStep fs

/-- `_roll_back` -/
def rollBack (fs : FS) (r : RB) : FS :=
  let fs1 := removeNew fs r
  let fs2 := Spec.rmEmpty fs1 r.createdDirs
  -- the old files first, then the previous build's directories (never in the way of a file that is back)
  let fs3 := (Backups.restoreAll fs2 r.bk).1
  createDirs fs3 r.oldCreatedDirs

end Rollback
end FB
