/-
  FB.PathNorm — `FileBuilder._sanitize_filename` = `os.path.abspath(os.fsdecode(filename))` on POSIX:
  `posixpath.normpath(posixpath.join(os.getcwd(), path))`.  A path string is given as the number of leading
  slashes and the list of components between slashes (`'/a//b/'` = 1, `["a", "", "b", ""]`): splitting and
  joining at `'/'` is the harness's.
-/
namespace FB
namespace PathNorm

/-- `initial_slashes` of `posixpath.normpath`: POSIX treats exactly two leading slashes specially -/
def initSlashes (n : Nat) : Nat := if n = 0 then 0 else if n = 2 then 2 else 1

/-- the loop of `posixpath.normpath`; `stack` holds the new components, last first -/
def loop (abs : Bool) : List String → List String → List String
  | stack, [] => stack
  | stack, c :: rest =>
    if c = "" ∨ c = "." then loop abs stack rest
    else if c ≠ ".." ∨ (!abs ∧ stack = []) ∨ (stack.head? = some "..") then loop abs (c :: stack) rest
    else loop abs stack.tail rest

/-- `posixpath.normpath` -/
def normpath (slashes : Nat) (comps : List String) : Nat × List String :=
  (initSlashes slashes, (loop (slashes ≠ 0) [] comps).reverse)

/-- `posixpath.join(cwd, path)` followed by `normpath`: `os.path.abspath` (`cwd` is absolute and normalised) -/
def abspath (cwd : List String) (slashes : Nat) (comps : List String) : Nat × List String :=
  if slashes ≠ 0 then normpath slashes comps else normpath 1 (cwd ++ comps)

end PathNorm
end FB
