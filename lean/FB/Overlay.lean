/-
  FB.Overlay — `simple_operation_executor.py`: how a query is answered from the real tree, the `BuildDirs`
  object (memoised, so every answer also yields a new `BuildDirs` state), an optional `CreatedFiles` overlay,
  the cache file name, and what the two caches say about a path (being built right now / finished in this
  build / output of the previous build).  `none` is a Python `KeyError` escaping from `BuildDirs`.
  The hash memo (`_hash_cache`) is not modelled: it must be transparent, and the tie would show if it were not.
-/
import FB.BuildDirs
import FB.CreatedFiles
import FB.View
namespace FB
namespace Overlay
open BuildDirs (BD)
open FS

/-- `os.listdir(d)` fails with ENOTDIR: a proper ancestor of `d` is a regular file -/
def underFileB (fs : FS) (d : Path) : Bool := (List.range d.length).any fun k => fs.isFile (d.take k)

structure Ctx where
  fs : FS
  dirSize : Nat
  cacheFile : Path
  /-- `new_cache.has_norm_cased_file(p)` and `get_norm_cased_file(p) is None` -/
  building : List Path := []
  /-- `new_cache.has_norm_cased_file(p)` and the operation is there -/
  finished : List Path := []
  /-- `old_cache.created_norm_cased_file(p)` -/
  oldCreated : List Path := []
  cf : Option CreatedFiles.CF := none

/-- `_is_file_no_read` -/
def isFileNoRead (c : Ctx) (p : Path) : Option Bool :=
  let viaCf : Option Bool := match c.cf with
    | some cf => if CreatedFiles.hasFile cf p then some true else if CreatedFiles.hasDir cf p then some false else none
    | none => none
  match viaCf with
  | some r => some r
  | none =>
    if p = c.cacheFile then some false
    else if c.building.contains p then some false
    else if c.finished.contains p then none
    else if c.oldCreated.contains p then some false
    else none

/-- `is_file` -/
def isFile (c : Ctx) (b : BD) (p : Path) : Bool × BD :=
  match isFileNoRead c p with
  | some r => (r, b)
  | none => if c.fs.isFile p then (true, BuildDirs.handleDirExists b p.dropLast) else (false, b)

/-- `is_dir` -/
def isDir (c : Ctx) (b : BD) (p : Path) : Option (Bool × BD) :=
  let viaCf : Option Bool := match c.cf with
    | some cf => if CreatedFiles.hasDir cf p then some true else if CreatedFiles.hasFile cf p then some false else none
    | none => none
  match viaCf with
  | some r => some (r, b)
  | none =>
    match BuildDirs.isRemoved c.fs b p with
    | none => none
    | some (b1, true) => some (false, b1)
    | some (b1, false) => if c.fs.isDir p then some (true, BuildDirs.handleDirExists b1 p) else some (false, b1)

/-- `exists`: `is_file(..) or is_dir(..)` -/
def exists_ (c : Ctx) (b : BD) (p : Path) : Option (Bool × BD) :=
  match isFile c b p with
  | (true, b1) => some (true, b1)
  | (false, b1) => isDir c b1 p

/-- `_list_dir_superset` -/
def listDirSuperset (c : Ctx) (d : Path) : Except OSErr (List String) :=
  let extra : List String := match c.cf with | some cf => CreatedFiles.listDir cf d | none => []
  let real : Except OSErr (List String) :=
    if c.fs.isDir d then .ok (c.fs.listdir d)
    else if c.fs.isFile d || underFileB c.fs d then .error .notADir
    else match c.cf with
      | some cf => if CreatedFiles.hasDir cf d then .ok [] else .error .notFound
      | none => .error .notFound
  match real with
  | .error e => .error e
  | .ok ns => .ok (sortStrs (ns ++ extra.filter (fun n => !ns.contains n)))

/-- the filter loop of `list_dir` -/
def filterExisting (c : Ctx) (d : Path) : List String → BD → List String → Option (List String × BD)
  | [], b, acc => some (acc.reverse, b)
  | n :: rest, b, acc =>
    match exists_ c b (d ++ [n]) with
    | none => none
    | some (true, b1) => filterExisting c d rest b1 (n :: acc)
    | some (false, b1) => filterExisting c d rest b1 acc

/-- `_assert_is_dir` -/
def assertIsDir (c : Ctx) (b : BD) (d : Path) : Option (Except OSErr Unit × BD) :=
  match isDir c b d with
  | none => none
  | some (true, b1) => some (.ok (), b1)
  | some (false, b1) =>
    match isFile c b1 d with
    | (true, b2) => some (.error .notADir, b2)
    | (false, b2) => some (.error .notFound, b2)

/-- `list_dir` -/
def listDir (c : Ctx) (b : BD) (d : Path) : Option (Except OSErr (List String) × BD) :=
  match assertIsDir c b d with
  | none => none
  | some (.error e, b1) => some (.error e, b1)
  | some (.ok (), b1) =>
    match listDirSuperset c d with
    | .error e => some (.error e, b1)
    | .ok ns =>
      match filterExisting c d ns b1 [] with
      | none => none
      | some (l, b2) => some (.ok l, b2)

/-- the classification loop of `_append_walk` -/
def classify (c : Ctx) (d : Path) : List String → BD → List String → List String → Option (List String × List String × BD)
  | [], b, ds, fs => some (ds.reverse, fs.reverse, b)
  | n :: rest, b, ds, fs =>
    match isFile c b (d ++ [n]) with
    | (true, b1) => classify c d rest b1 ds (n :: fs)
    | (false, b1) =>
      match isDir c b1 (d ++ [n]) with
      | none => none
      | some (true, b2) => classify c d rest b2 (n :: ds) fs
      | some (false, b2) => classify c d rest b2 ds fs

mutual
/-- `_append_walk` -/
def appendWalk (c : Ctx) (topDown : Bool) : Nat → BD → Path → Option (List Json × BD)
  | 0, b, _ => some ([], b)
  | fuel + 1, b, d =>
    let sup := match listDirSuperset c d with | .ok ns => ns | .error _ => []
    match classify c d sup b [] [] with
    | none => none
    | some (ds, fs, b1) =>
      let here : Json := .tup [.str (renderPath d), strArr ds, strArr fs]
      match walkDirs c topDown fuel b1 d ds with
      | none => none
      | some (below, b2) => some (if topDown then here :: below else below ++ [here], b2)
def walkDirs (c : Ctx) (topDown : Bool) : Nat → BD → Path → List String → Option (List Json × BD)
  | _, b, _, [] => some ([], b)
  | fuel, b, d, n :: rest =>
    match appendWalk c topDown fuel b (d ++ [n]) with
    | none => none
    | some (l1, b1) =>
      match walkDirs c topDown fuel b1 d rest with
      | none => none
      | some (l2, b2) => some (l1 ++ l2, b2)
end

/-- `walk` -/
def walk (c : Ctx) (b : BD) (d : Path) (topDown : Bool) : Option (List Json × BD) :=
  match isDir c b d with
  | none => none
  | some (false, b1) => some ([], b1)
  | some (true, b1) => appendWalk c topDown View.walkFuel b1 d

/-- `get_size`: `_assert_exists`, then `os.path.getsize` of the real path -/
def getSize (c : Ctx) (b : BD) (p : Path) : Option (Except OSErr Nat × BD) :=
  match exists_ c b p with
  | none => none
  | some (false, b1) => some (.error .notFound, b1)
  | some (true, b1) =>
    match c.fs.get p with
    | some (.file bytes _) => some (.ok bytes.utf8ByteSize, b1)
    | some .dir => some (.ok c.dirSize, b1)
    | none => some (.error (if underFileB c.fs p then .notADir else .notFound), b1)   -- ENOTDIR / ENOENT

/-- `read` -/
def read (c : Ctx) (b : BD) (p : Path) (cmp : Cmp) : Option (Except OSErr Json × BD) :=
  let dirOrMissing (b : BD) : Option (Except OSErr Json × BD) :=
    match isDir c b p with
    | none => none
    | some (true, b1) => some (.error .isADir, b1)
    | some (false, b1) => some (.error .notFound, b1)
  match isFileNoRead c p with
  | some false => dirOrMissing b
  | _ =>
    match c.fs.get p with
    | none => some (.error .notFound, b)          -- ENOENT or ENOTDIR
    | some .dir => dirOrMissing b
    | some (.file bytes m) =>
      let viaCf := match c.cf with | some cf => CreatedFiles.hasFile cf p | none => false
      some (.ok (View.cmpResult cmp bytes m), if viaCf then b else BuildDirs.handleDirExists b p.dropLast)

/-- `exec(name, args, created_files)` with the values `FileBuilder` records -/
def exec (c : Ctx) (b : BD) : Query → Option (Except OSErr Json × BD)
  | .isFile p => let r := isFile c b p; some (.ok (.bool r.1), r.2)
  | .isDir p => match isDir c b p with | none => none | some (r, b1) => some (.ok (.bool r), b1)
  | .exists_ p => match exists_ c b p with | none => none | some (r, b1) => some (.ok (.bool r), b1)
  | .listDir p => match listDir c b p with
    | none => none
    | some (.ok l, b1) => some (.ok (strArr l), b1)
    | some (.error e, b1) => some (.error e, b1)
  | .walk p td => match walk c b p td with | none => none | some (l, b1) => some (.ok (.arr l), b1)
  | .getSize p => match getSize c b p with
    | none => none
    | some (.ok n, b1) => some (.ok (.num (.int (Int.ofNat n))), b1)
    | some (.error e, b1) => some (.error e, b1)
  | .read p cmp => read c b p cmp

end Overlay
end FB
