/-
  FB.Spec — the reference semantics: the docstring of `build_versioned` executed literally.
  "Delete everything the previous build created, call every function, roll back on exception."
  No cache, no virtual state: one pure tree.
-/
import FB.View
namespace FB

/-- what a committed build leaves behind for the next one, as far as the reference cares -/
structure Rec where
  buildName : String
  outputs : List Path
  createdDirs : List Path
deriving Repr, Inhabited

/-- one invocation of a user function -/
structure Inv where
  fname : String
  target : Option Path
  args : Json
  kwargs : Json
deriving Repr, Inhabited

/-- the call tree of a build: what was called, with what outcome -/
inductive CallNode where
  | mk (fname : String) (target : Option Path) (args kwargs : Json) (status : String)
      (children : List CallNode)
deriving Inhabited

structure SpecSt where
  fs : FS
  cacheFile : Path
  dirSize : Nat
  clock : Nat
  claimedFiles : List Path := []
  claimedSubs : List H := []
  inProg : List Path := []
  /-- what the running functions have written into their targets so far (newest first): an output
      joins the tree only when its function returns — atomic by construction -/
  pending : List (Path × String × Nat) := []
  outputs : List Path := []
  createdDirs : List Path := []
  invLog : List Inv := []          -- newest first
  obligation : Bool := false       -- the program broke the "no output is an ancestor of another" rule
  /-- injected faults (C14): the setup of `build_file` for these targets / of `subbuild` for these keys
      fails once with an OSError of the operating system -/
  failFiles : List Path := []
  failSubs : List H := []
deriving Inhabited

namespace Spec

/-- the tree as build functions may see it: outputs being built and the cache file are invisible -/
def visible (s : SpecSt) : FS :=
  (s.inProg.foldl (fun fs p => fs.erase p) s.fs).erase s.cacheFile

/-- `_dirs_to_make`: the missing ancestors of `d` (outermost first), or why they cannot be made.
    `blocked`: targets whose function is running — the documented obligation forbids building below
    them; the model refuses (the harness discards such programs, see `obligation`). -/
def dirsToMake (vfs : FS) (cf : Path) (blocked : List Path) (d : Path) : Except OSErr (List Path) :=
  if hd : d = [] then .ok []
  else if vfs.isDir d then .ok []
  else if vfs.isFile d then .error .notADir
  else if d = cf then .error .notADir
  else if blocked.contains d then .error .notADir
  else match dirsToMake vfs cf blocked d.dropLast with
    | .error e => .error e
    | .ok r => .ok (r ++ [d])
termination_by d.length
decreasing_by
  simp only [List.length_dropLast]
  have : d.length ≠ 0 := by simpa using hd
  omega

/-- `os.mkdir`, ignoring failure -/
def mkdirStep (fs : FS) (d : Path) : FS := match fs.mkdir d with | .ok fs' => fs' | .error _ => fs
/-- `os.rmdir`, ignoring failure -/
def rmdirStep (fs : FS) (d : Path) : FS := match fs.rmdir d with | .ok fs' => fs' | .error _ => fs

def mkdirs (fs : FS) (ds : List Path) : FS := ds.foldl mkdirStep fs

/-- remove the directories in `ds` that are empty, children before parents -/
def rmEmpty (fs : FS) (ds : List Path) : FS :=
  (ds.mergeSort (fun a b => a.length ≥ b.length)).foldl rmdirStep fs

def properAncestor (a b : Path) : Bool := a <+: b && a != b

/-- the state in which the function of `build_file path` starts: parents made, target absent and
    claimed, hidden from queries -/
def setupState (s : SpecSt) (path : Path) (ds : List Path) : SpecSt :=
  let fs1 := mkdirs s.fs ds
  let fs2 := if fs1.isFile path then fs1.erase path else fs1
  -- the documented obligation concerns outputs: targets that are being built or were built
  let bad := (s.inProg ++ s.outputs).any (fun c => properAncestor c path || properAncestor path c)
  { s with fs := fs2, claimedFiles := path :: s.claimedFiles, inProg := path :: s.inProg,
           obligation := s.obligation || bad }

/-- checks and preparation of `build_file`, up to the point where the function is called -/
def bfSetup (s : SpecSt) (path : Path) : Except Exc (SpecSt × List Path) :=
  if s.claimedFiles.contains path then .error (.runtime .dupFile)
  else if path = s.cacheFile then .error (.runtime .cacheTarget)
  else if s.fs.isDir path then .error (.os .isADir)
  else match dirsToMake (visible s) s.cacheFile s.inProg path.dropLast with
    | .error e => .error (.os e)
    | .ok ds =>
      if s.failFiles.contains path then .error (.os .other)
      -- `os.mkdir` of a directory whose name is too long fails (ENAMETOOLONG)
      else if ds.any Path.tooLong then .error (.os .other)
      else .ok (setupState s path ds, ds)

def pendingFind (pending : List (Path × String × Nat)) (p : Path) : Option (String × Nat) :=
  match pending.find? (fun x => x.1 = p) with
  | some (_, b, m) => some (b, m)
  | none => none

/-- "didn't create that file" — except that `stat` of a target whose name is too long fails with
    ENAMETOOLONG first, and that OSError is what surfaces -/
def notCreatedExc (path : Path) : Exc :=
  if Path.tooLong path then .os .other else .runtime .notCreated

/-- what happens when the function of `build_file path` has returned `r` -/
def bfFinish (s : SpecSt) (path : Path) (made : List Path) (r : CallRes) : CallRes × SpecSt :=
  let written := pendingFind s.pending path
  let s := { s with inProg := s.inProg.erase path, pending := s.pending.filter (fun x => x.1 ≠ path) }
  let fail (e : Exc) : CallRes × SpecSt :=
    let fs2 := rmEmpty s.fs made
    (.error e, { s with fs := fs2, createdDirs := (made.filter fs2.isDir) ++ s.createdDirs })
  match r with
  | .error e => fail e
  | .ok j =>
    match written with
    | some (b, m) =>
      (.ok j, { s with fs := s.fs.set path (.file b m), outputs := path :: s.outputs,
                       createdDirs := made ++ s.createdDirs })
    | none => fail (notCreatedExc path)

/-- the state after the setup of `build_file path` failed with `e`: an injected fault fires only once,
    and building below a target whose function is running is noted as a broken obligation -/
def setupFailState (s : SpecSt) (path : Path) (e : Exc) : SpecSt :=
  { s with failFiles := if e = .os .other then s.failFiles.erase path else s.failFiles,
           obligation := s.obligation || s.inProg.any (fun c => properAncestor c path) }

def consumeSubFault (s : SpecSt) (key : H) : SpecSt :=
  { s with failSubs := s.failSubs.filter (fun x => !heq key x) }

def statusOf : CallRes → String
  | .ok _ => "ok"
  | .error _ => "raised"

def run : Prog → Option Path → SpecSt → CallRes × SpecSt × List CallNode
  | .ret v, _, s =>
    match sanitize v with
    | some j => (.ok j, s, [])
    | none => (.error .typeErr, s, [])
  | .raise e, _, s => (.error e, s, [])
  | .query q k, t, s => run (k (View.answer s.dirSize (visible s) q)) t s
  | .write b mt k, t, s =>
    match t with
    | some p => run k t { s with pending := (p, b, mt.getD s.clock) :: s.pending, clock := s.clock + 1 }
    | none => run k t s
  | .buildFile path _ fname args kwargs body k, t, s =>
    match bfSetup s path with
    | .error e =>
      let (r, s', tr) := run (k (.error e)) t (setupFailState s path e)
      (r, s', .mk fname (some path) args kwargs ("setup:" ++ e.cls) [] :: tr)
    | .ok (s1, made) =>
      let s1 := { s1 with invLog := ⟨fname, some path, args, kwargs⟩ :: s1.invLog }
      let (r, s2, trb) := run body (some path) s1
      let (r', s3) := bfFinish s2 path made r
      let (r'', s4, tr) := run (k r') t s3
      (r'', s4, .mk fname (some path) args kwargs (statusOf r') trb :: tr)
  | .subbuild fname args kwargs body k, t, s =>
    let key := subKey fname args kwargs
    if s.claimedSubs.any (heq key) then
      let (r, s', tr) := run (k (.error (.runtime .dupSub))) t s
      (r, s', .mk fname none args kwargs "setup:RuntimeError" [] :: tr)
    else if s.failSubs.any (heq key) then
      let (r, s', tr) := run (k (.error (.os .other))) t (consumeSubFault s key)
      (r, s', .mk fname none args kwargs "setup:OSError" [] :: tr)
    else
      let s1 := { s with claimedSubs := key :: s.claimedSubs,
                         invLog := ⟨fname, none, args, kwargs⟩ :: s.invLog }
      let (r, s2, trb) := run body none s1
      let (r', s3, tr) := run (k r) t s2
      (r', s3, .mk fname none args kwargs (statusOf r) trb :: tr)

end Spec

/-! ### The persistent world and the API entry points -/

structure World where
  fs : FS
  /-- committed records; the cache file's bytes `FBCACHE#n` name one of them -/
  recs : List (Nat × Rec) := []
  nextSerial : Nat := 0
  clock : Nat := 1000000
  dirSize : Nat := 4096
deriving Inhabited

def cacheToken (n : Nat) : String := "FBCACHE#" ++ toString n

inductive CacheState where
  | absent
  | isDir
  | corrupt
  | valid (r : Rec)

def World.cacheState (w : World) (cf : Path) : CacheState :=
  match w.fs.get cf with
  | none => .absent
  | some .dir => .isDir
  | some (.file b _) =>
    match w.recs.find? (fun x => cacheToken x.1 == b) with
    | some (_, r) => .valid r
    | none => .corrupt

/-- outcome of an API call -/
structure ApiOut where
  res : CallRes
  world : World
  invLog : List Inv := []
  obligation : Bool := false
  trace : List CallNode := []
deriving Inhabited

namespace Spec

/-- delete what the previous build created: outputs, cache file, emptied created directories -/
def preClean (fs : FS) (cf : Path) (r : Rec) : FS :=
  let fs1 := r.outputs.foldl (fun fs p => if fs.isFile p then fs.erase p else fs) fs
  let fs2 := if fs1.isFile cf then fs1.erase cf else fs1
  rmEmpty fs2 r.createdDirs

def dedup (ps : List Path) : List Path :=
  ps.foldl (fun acc p => if acc.contains p then acc else acc ++ [p]) []

/-- the state in which the root function starts, from scratch: what the previous build created is gone,
    the directories for the cache file are made -/
def buildStart (w : World) (cf : Path) (failFiles : List Path) (failSubs : List H) (old : Rec)
    (cds : List Path) : SpecSt :=
  { fs := mkdirs (preClean w.fs cf old) cds, cacheFile := cf, dirSize := w.dirSize, clock := w.clock,
    failFiles := failFiles, failSubs := failSubs }

/-- a build once the record of the previous build (possibly empty) is known -/
def buildGo (w : World) (cf : Path) (buildName : String) (root : Prog)
    (failFiles : List Path) (failSubs : List H) (abort : Nat) (old : Rec) : ApiOut :=
  let s0 : SpecSt := buildStart w cf failFiles failSubs old []
  match (if abort = 1 then .error .other else dirsToMake (visible s0) cf [] cf.dropLast) with
  | .error e =>
    { res := .error (.os e),
      world := { w with fs := mkdirs w.fs (old.createdDirs.mergeSort (fun a b => a.length ≤ b.length)) } }
  | .ok cds =>
    let s1 := buildStart w cf failFiles failSubs old cds
    let (r0, s2, tr) := run root none s1
    -- abort = 2: the function succeeded but writing the cache file fails (injected fault)
    let r : CallRes := match r0 with | .ok v => if abort = 2 then .error (.os .other) else .ok v | e => e
    match r with
    | .error e =>
      -- roll back: the pre-build tree; the directories the previous build recorded as created
      -- reappear (the latitude C02 grants; `_create_dirs`)
      let fsR := mkdirs w.fs (old.createdDirs.mergeSort (fun a b => a.length ≤ b.length))
      { res := .error e, world := { w with fs := fsR, clock := s2.clock },
                    invLog := s2.invLog.reverse, obligation := s2.obligation, trace := tr }
    | .ok v =>
      let created := dedup (s2.createdDirs.reverse ++ cds)
      let rec_ : Rec := { buildName := buildName, outputs := s2.outputs.reverse,
                          createdDirs := created }
      let n := w.nextSerial
      let fs' := s2.fs.write cf (cacheToken n) 0
      { res := .ok v,
        world := { w with fs := fs', recs := (n, rec_) :: w.recs, nextSerial := n + 1,
                          clock := s2.clock },
        invLog := s2.invLog.reverse, obligation := s2.obligation, trace := tr }

/-- `FileBuilder.build_versioned` as documented -/
def build (w : World) (cf : Path) (buildName : String) (root : Prog)
    (failFiles : List Path := []) (failSubs : List H := []) (abort : Nat := 0) : ApiOut :=
  let refuse (e : Exc) : ApiOut := { res := .error e, world := w }
  match w.cacheState cf with
  | .isDir => refuse (.os .isADir)
  | .corrupt => refuse (.runtime .corrupt)
  | .absent => buildGo w cf buildName root failFiles failSubs abort { buildName := buildName, outputs := [], createdDirs := [] }
  | .valid r =>
    if r.buildName = buildName then buildGo w cf buildName root failFiles failSubs abort r
    else refuse (.runtime .nameMismatch)

/-- `FileBuilder.clean` as documented -/
def clean (w : World) (cf : Path) (buildName : Option String) : ApiOut :=
  let refuse (e : Exc) : ApiOut := { res := .error e, world := w }
  match w.cacheState cf with
  | .absent => { res := .ok .null, world := w }
  | .isDir => refuse (.os .isADir)
  | .corrupt => refuse (.runtime .corrupt)
  | .valid r =>
    if buildName.isSome ∧ buildName ≠ some r.buildName then refuse (.runtime .nameMismatch)
    else { res := .ok .null, world := { w with fs := preClean w.fs cf r } }

end Spec
end FB
