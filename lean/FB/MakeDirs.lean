/-
  FB.MakeDirs — `FileBuilder._make_dirs`: create the directories `_dirs_to_make` returned, outermost first; a
  regular file in a directory position is moved aside if the previous build had produced it; `FileExistsError` is
  tolerated; any other `OSError` (here: an injected one at the `failAt`-th `mkdir`, or `mkdir` failing because the
  parent is missing or is a regular file) makes the function remove the directories it has made so far and
  re-raise.
-/
import FB.Backups
namespace FB
namespace MakeDirs
open FS

structure St where
  fs : FS
  bk : Backups.BK
  made : List Path := []

/-- the `for parent in dirs_to_make` loop; `i` counts `mkdir` calls; `.error` = the `except OSError` branch was
    taken (the state is the one after `_remove_empty_dirs(made_dirs)`) -/
def loop (oldCreated : List Path) (failAt : Option Nat) : List Path → Nat → St → Except St St
  | [], _, st => .ok st
  | d :: rest, i, st =>
    let st1 : St :=
      if st.fs.isFile d && oldCreated.contains d then
        let r := Backups.backUpAndRemove st.fs st.bk d
        { st with fs := r.1, bk := r.2.1 }
      else st
    if failAt = some i then .error { st1 with fs := Spec.rmEmpty st1.fs st1.made }
    else match st1.fs.mkdir d with
      | .ok fs' => loop oldCreated failAt rest (i + 1) { st1 with fs := fs', made := st1.made ++ [d] }
      | .error .fileExists => loop oldCreated failAt rest (i + 1) st1
      | .error _ => .error { st1 with fs := Spec.rmEmpty st1.fs st1.made }

/-- `_make_dirs` after `_dirs_to_make` -/
def makeDirs (fs : FS) (bk : Backups.BK) (dirs oldCreated : List Path) (failAt : Option Nat) : Except St St :=
  loop oldCreated failAt dirs 0 { fs := fs, bk := bk }

end MakeDirs
end FB
