/-
  FB.Codec — `cache.py`: how the operation forest is written to and read from the cache file
  (`_operation_to_json`, `_operation_from_json`, the root detection of `write`, `_operations_from_json`).
  The JSON *text* layer (json.dumps / json.loads, gzip) is modelled by its effect on values (`textRT`:
  tuples come back as lists); file names are kept as component lists (the absolute-path string is the
  harness's sandbox mapping).
-/
import FB.Impl
namespace FB
namespace Codec

mutual
/-- `json.loads(json.dumps(v))` on values whose dictionary keys are strings: tuples become lists -/
def textRT : Json → Json
  | .tup xs => .arr (textRTL xs)
  | .arr xs => .arr (textRTL xs)
  | .obj kvs => .obj (textRTO kvs)
  | j => j
def textRTL : List Json → List Json
  | [] => []
  | x :: xs => textRT x :: textRTL xs
def textRTO : List (String × Json) → List (String × Json)
  | [] => []
  | (k, v) :: r => (k, textRT v) :: textRTO r
end

def pathJ (p : Path) : Json := .arr (p.map .str)

def strOf : Json → Option String
  | .str s => some s
  | _ => none

def strsOf : List Json → Option (List String)
  | [] => some []
  | j :: r => match strOf j, strsOf r with
    | some s, some ss => some (s :: ss)
    | _, _ => none

def pathOf : Json → Option Path
  | .arr xs => strsOf xs
  | _ => none

def cmpOf : String → Option Cmp
  | "METADATA" => some .metadata
  | "HASH" => some .hash
  | _ => none

def errOf : String → Option OSErr
  | "FileNotFoundError" => some .notFound
  | "NotADirectoryError" => some .notADir
  | "IsADirectoryError" => some .isADir
  | "FileExistsError" => some .fileExists
  | "OSError" => some .other
  | _ => none

/-- `SimpleOperation.name` and `.args` -/
def encQuery : Query → String × List Json
  | .isFile p => ("is_file", [pathJ p])
  | .isDir p => ("is_dir", [pathJ p])
  | .exists_ p => ("exists", [pathJ p])
  | .listDir p => ("list_dir", [pathJ p])
  | .walk p td => ("walk", [pathJ p, .bool td])
  | .getSize p => ("get_size", [pathJ p])
  | .read p c => ("read", [pathJ p, .str c.name])

def decQuery (name : String) (args : List Json) : Option Query :=
  match name, args with
  | "is_file", [p] => (pathOf p).map .isFile
  | "is_dir", [p] => (pathOf p).map .isDir
  | "exists", [p] => (pathOf p).map .exists_
  | "list_dir", [p] => (pathOf p).map .listDir
  | "walk", [p, .bool td] => (pathOf p).map (.walk · td)
  | "get_size", [p] => (pathOf p).map .getSize
  | "read", [p, .str c] => match pathOf p, cmpOf c with
    | some p', some c' => some (.read p' c')
    | _, _ => none
  | _, _ => none

def flag (name : String) (b : Bool) : List (String × Json) := if b then [(name, .bool true)] else []

mutual
/-- `_operation_to_json` -/
def encodeOp : Op → Json
  | .simple q ret exc _ =>
    .obj ([("args", .arr (encQuery q).2), ("returnValue", ret), ("type", .str (encQuery q).1)] ++
      (match exc with | some e => [("exceptionType", .str e.name)] | none => []))
  | .buildFile p cmp f a k subs r cr raised sf _ =>
    .obj ([("args", a), ("funcName", .str f), ("kwargs", k), ("returnValue", r),
           ("suboperations", .arr (encodeOps subs))] ++ flag "raised" raised ++ flag "setupFailed" sf ++
          [("type", .str "build_file"), ("filename", pathJ p), ("fileComparison", .str cmp.name),
           ("fileComparisonResult", cr)])
  | .subbuild f a k subs r raised sf =>
    .obj ([("args", a), ("funcName", .str f), ("kwargs", k), ("returnValue", r),
           ("suboperations", .arr (encodeOps subs))] ++ flag "raised" raised ++ flag "setupFailed" sf ++
          [("type", .str "subbuild")])
def encodeOps : List Op → List Json
  | [] => []
  | o :: os => encodeOp o :: encodeOps os
end

def look (kvs : List (String × Json)) (k : String) : Option Json :=
  match kvs.find? (fun x => x.1 = k) with
  | some (_, v) => some v
  | none => none

/-- `operation_json.get(name, False)` -/
def getFlag (kvs : List (String × Json)) (k : String) : Bool :=
  match look kvs k with
  | some (.bool b) => b
  | _ => false

mutual
/-- `_operation_from_json`; `fuel` bounds the nesting depth (`none`: a required field is missing or has the
    wrong shape — the Python raises `KeyError`/`TypeError` or builds a broken object) -/
def decodeOp : Nat → Json → Option Op
  | 0, _ => none
  | fuel + 1, .obj kvs =>
    match look kvs "type" with
    | some (.str "build_file") =>
      match look kvs "filename", look kvs "fileComparison", look kvs "funcName", look kvs "args", look kvs "kwargs",
          look kvs "suboperations", look kvs "returnValue", look kvs "fileComparisonResult" with
      | some pj, some (.str cn), some (.str f), some a, some k, some (.arr subsJ), some r, some cr =>
        match pathOf pj, cmpOf cn, decodeOps fuel subsJ with
        | some p, some cmp, some subs =>
          some (.buildFile p cmp f a k subs r cr (getFlag kvs "raised") (getFlag kvs "setupFailed") "")
        | _, _, _ => none
      | _, _, _, _, _, _, _, _ => none
    | some (.str "subbuild") =>
      match look kvs "funcName", look kvs "args", look kvs "kwargs", look kvs "suboperations", look kvs "returnValue" with
      | some (.str f), some a, some k, some (.arr subsJ), some r =>
        match decodeOps fuel subsJ with
        | some subs => some (.subbuild f a k subs r (getFlag kvs "raised") (getFlag kvs "setupFailed"))
        | none => none
      | _, _, _, _, _ => none
    | some (.str name) =>
      match look kvs "args", look kvs "returnValue" with
      | some (.arr args), some r =>
        match decQuery name args with
        | some q =>
          match look kvs "exceptionType" with
          | none => some (.simple q r none (.ok .null))
          | some (.str en) => (errOf en).map fun e => .simple q r (some e) (.ok .null)
          | some _ => none
        | none => none
      | _, _ => none
    | _ => none
  | _ + 1, _ => none
def decodeOps : Nat → List Json → Option (List Op)
  | _, [] => some []
  | fuel, j :: js =>
    match decodeOp fuel j, decodeOps fuel js with
    | some o, some os => some (o :: os)
    | _, _ => none
end

mutual
/-- what survives the write/read cycle: everything but the ghost fields, values after the text layer -/
def strip : Op → Op
  | .simple q ret exc _ => .simple q (textRT ret) exc (.ok .null)
  | .buildFile p cmp f a k subs r cr raised sf _ =>
    .buildFile p cmp f (textRT a) (textRT k) (stripL subs) (textRT r) (textRT cr) raised sf ""
  | .subbuild f a k subs r raised sf => .subbuild f (textRT a) (textRT k) (stripL subs) (textRT r) raised sf
def stripL : List Op → List Op
  | [] => []
  | o :: os => strip o :: stripL os
end

mutual
def depth : Op → Nat
  | .simple _ _ _ _ => 1
  | .buildFile _ _ _ _ _ subs _ _ _ _ _ => depthL subs + 1
  | .subbuild _ _ _ subs _ _ _ => depthL subs + 1
def depthL : List Op → Nat
  | [] => 0
  | o :: os => max (depth o) (depthL os)
end

/-- `Cache.write`: the operations that are not a suboperation of another registered operation; here: of a
    forest whose top level is what the root function called -/
def writeDoc (c : CacheRec) : Json :=
  .obj [("buildName", .str c.buildName), ("createdDirs", .arr (c.createdDirs.map pathJ)),
        ("funcVersions", .obj c.versions), ("rootOperations", .arr (encodeOps c.roots)),
        ("software", .str "file_builder")]

def pathsOf : List Json → Option (List Path)
  | [] => some []
  | j :: r => match pathOf j, pathsOf r with
    | some p, some ps => some (p :: ps)
    | _, _ => none

/-- `Cache.read_immutable` after the text has been parsed -/
def readDoc (fuel : Nat) : Json → Option CacheRec
  | .obj kvs =>
    match look kvs "software", look kvs "buildName", look kvs "createdDirs", look kvs "funcVersions",
        look kvs "rootOperations" with
    | some (.str "file_builder"), some (.str bn), some (.arr cds), some (.obj vs), some (.arr roots) =>
      match pathsOf cds, decodeOps fuel roots with
      | some ds, some ops => some { buildName := bn, roots := ops, createdDirs := ds, versions := vs }
      | _, _ => none
    | _, _, _, _, _ => none
  | _ => none

end Codec
end FB
