/-
  FB.Prog — user build functions as interaction trees.  Quantifying over `Prog` is quantifying
  over every deterministic, terminating function that touches files only through the builder.
-/
import FB.Json
import FB.FS
namespace FB

inductive Cmp where
  | metadata | hash
deriving DecidableEq, Repr, Inhabited

def Cmp.name : Cmp → String
  | .metadata => "METADATA"
  | .hash => "HASH"

/-- the seven simple operations of `SimpleOperationExecutor.OPERATIONS` -/
inductive Query where
  | isFile (p : Path)
  | isDir (p : Path)
  | exists_ (p : Path)
  | listDir (p : Path)
  | walk (p : Path) (topDown : Bool)
  | getSize (p : Path)
  | read (p : Path) (cmp : Cmp)
deriving DecidableEq, Repr, Inhabited

def Query.path : Query → Path
  | .isFile p | .isDir p | .exists_ p | .listDir p | .walk p _ | .getSize p | .read p _ => p

/-- why the library raised `RuntimeError` -/
inductive RtWhy where
  | dupFile | dupSub | cacheTarget | notCreated | finished | nameMismatch | corrupt
deriving DecidableEq, Repr, Inhabited

inductive Exc where
  | user (tok : Nat)          -- an exception object raised by user code, with its identity
  | os (e : OSErr)            -- an OSError raised by the library
  | runtime (w : RtWhy)       -- a RuntimeError raised by the library
  | typeErr                   -- TypeError (non-JSON argument or return value)
  | internal (msg : String)   -- a Python crash that is behaviour (KeyError escaping a replay, ...)
deriving DecidableEq, Repr, Inhabited

def Exc.cls : Exc → String
  | .user _ => "UserExc"
  | .os e => e.name
  | .runtime _ => "RuntimeError"
  | .typeErr => "TypeError"
  | .internal m => "INTERNAL:" ++ m

/-- what user code sees as the outcome of a query (`read`: the file content as a string) -/
abbrev UAns := Except OSErr Json
/-- what user code sees as the outcome of `build_file` / `subbuild` -/
abbrev CallRes := Except Exc Json

inductive Prog where
  /-- return a value (sanitized by the library on the way out; non-JSON ⇒ `TypeError`) -/
  | ret (v : PyVal)
  /-- raise (or re-raise) an exception -/
  | raise (e : Exc)
  | query (q : Query) (k : UAns → Prog)
  /-- write the file this `build_file` body was called for; `mtime`: the function stamps this
      modification time on it (`os.utime`), otherwise the clock's -/
  | write (bytes : String) (mtime : Option Nat) (k : Prog)
  | buildFile (path : Path) (cmp : Cmp) (fname : String) (args kwargs : Json)
      (body : Prog) (k : CallRes → Prog)
  | subbuild (fname : String) (args kwargs : Json) (body : Prog) (k : CallRes → Prog)
deriving Inhabited

/-- The cache key of a subbuild: `to_hashable([func_name, args, kwargs])` -/
def subKey (fname : String) (args kwargs : Json) : H :=
  toH (.arr [.str fname, args, kwargs])

end FB
