/-
  Line-protocol front end of FB.Heap (request kind "heap"): the harness replays on the model the value-carrying
  edges it observed in a real build.  Handles: the k-th user root (values user code built or was handed) and a path
  of child indices below it.  Mathlib-free.
-/
import FB.Heap
import Lean.Data.Json
namespace FB.Heap
open Lean (Json)

/-- a value to build in user code: atoms, containers, or an existing user structure (handle, path) -/
inductive Spec where
  | atom (n : Nat)
  | node (kids : List Spec)
  | ref (k : Nat) (path : List Nat)
deriving Inhabited

structure DSt where
  s : St := {}
  roots : List Nat := []
  stuck : List String := []

def resolve (h : Heap) : Nat → List Nat → Option Nat
  | a, [] => some a
  | a, i :: p =>
    match h[a]? with
    | some (.node ks) => match ks[i]? with | some k => resolve h k p | none => none
    | _ => none

def DSt.handle (d : DSt) (k : Nat) (path : List Nat) : Option Nat :=
  match d.roots[k]? with
  | some a => resolve d.s.heap a path
  | none => none

mutual
/-- user code builds a value that may contain structures it already holds: only `userAlloc` and `userWrite` events -/
def mk (d : DSt) : Spec → DSt × Nat
  | .atom n => let s' := step {} d.s (.userAlloc (.atom n)); ({ d with s := s' }, s'.heap.length - 1)
  | .ref k p =>
    match d.handle k p with
    | some a => (d, a)
    | none => ({ d with stuck := d.stuck ++ [s!"bad handle {k} {p}"] }, 0)
  | .node ks =>
    let r := mkL d ks
    let s1 := step {} r.1.s (.userAlloc (.node []))
    let a := s1.heap.length - 1
    let s2 := step {} s1 (.userWrite a (.node r.2))
    ({ r.1 with s := s2 }, a)
def mkL (d : DSt) : List Spec → DSt × List Nat
  | [] => (d, [])
  | x :: xs => let r1 := mk d x; let r2 := mkL r1.1 xs; (r2.1, r1.2 :: r2.2)
end

inductive Cmd where
  | mk (v : Spec)                                   -- user code builds a value: a new root
  | clear (k : Nat) (p : List Nat)                  -- `del l[:]` / `d.clear()`
  | drop (k : Nat) (p : List Nat) (n : Nat)         -- `l.pop()` n times / `d.popitem()` (n = 2 cells per entry)
  | append (k : Nat) (p : List Nat) (v : Spec)      -- `l.append(v)`
  | call (k : Nat)                                  -- root k is passed to build_file / subbuild; the callee's arguments: a new root
  | ret (k : Nat) (p : List Nat)                    -- a function returns the structure at (k, p); what the caller receives: a new root
  | serve (i : Nat)
  | query (t : Tree)

/-- hand-out events add the fresh copy as a root (if the step allocated one) -/
def handed (d : DSt) (s' : St) (what : String) : DSt :=
  if s'.heap.length > d.s.heap.length ∧ s'.recs.length ≥ d.s.recs.length then
    { d with s := s', roots := d.roots ++ [s'.heap.length - 1] }
  else { d with s := s', stuck := d.stuck ++ [what ++ ": no effect"] }

def exec (d : DSt) : Cmd → DSt
  | .mk v => let r := mk d v; { r.1 with roots := r.1.roots ++ [r.2] }
  | .clear k p =>
    match d.handle k p with
    | some a => { d with s := step {} d.s (.userWrite a (.node [])) }
    | none => { d with stuck := d.stuck ++ ["clear: bad handle"] }
  | .drop k p n =>
    match d.handle k p with
    | some a =>
      match d.s.heap[a]? with
      | some (.node ks) => { d with s := step {} d.s (.userWrite a (.node (ks.take (ks.length - n)))) }
      | _ => { d with stuck := d.stuck ++ ["drop: not a container"] }
    | none => { d with stuck := d.stuck ++ ["drop: bad handle"] }
  | .append k p v =>
    match d.handle k p with
    | some a =>
      let r := mk d v
      match r.1.s.heap[a]? with
      | some (.node ks) => { r.1 with s := step {} r.1.s (.userWrite a (.node (ks ++ [r.2]))) }
      | _ => { d with stuck := d.stuck ++ ["append: not a container"] }
    | none => { d with stuck := d.stuck ++ ["append: bad handle"] }
  | .call k =>
    match d.handle k [] with
    | some a => handed d (step {} d.s (.call a)) "call"
    | none => { d with stuck := d.stuck ++ ["call: bad handle"] }
  | .ret k p =>
    match d.handle k p with
    | some a => handed d (step {} d.s (.ret a)) "ret"
    | none => { d with stuck := d.stuck ++ ["ret: bad handle"] }
  | .serve i => handed d (step {} d.s (.serve i)) "serve"
  | .query t => handed d (step {} d.s (.query t)) "query"

/-! wire -/

partial def parseTree (j : Json) : Except String Tree :=
  match j with
  | .arr xs => do return .node (← xs.toList.mapM parseTree)
  | .num n => if n.exponent = 0 ∧ n.mantissa ≥ 0 then .ok (.atom n.mantissa.toNat) else .error "bad atom"
  | _ => .error "bad tree"

def natList (j : Json) : Except String (List Nat) := do
  (← j.getArr?).toList.mapM fun x => x.getNat?

partial def parseSpec (j : Json) : Except String Spec :=
  match j with
  | .arr xs => do return .node (← xs.toList.mapM parseSpec)
  | .num n => if n.exponent = 0 ∧ n.mantissa ≥ 0 then .ok (.atom n.mantissa.toNat) else .error "bad atom"
  | .obj _ => do
    let h ← j.getObjVal? "h"
    let a ← h.getArr?
    if hs : a.size = 2 then return .ref (← a[0].getNat?) (← natList a[1]) else .error "bad ref"
  | _ => .error "bad spec"

def parseCmd (j : Json) : Except String Cmd := do
  let a ← j.getArr?
  if h0 : a.size = 0 then .error "empty cmd" else
  match ← a[0].getStr? with
  | "mk" => if h : a.size = 2 then return .mk (← parseSpec a[1]) else .error "bad mk"
  | "clear" => if h : a.size = 3 then return .clear (← a[1].getNat?) (← natList a[2]) else .error "bad clear"
  | "drop" => if h : a.size = 4 then return .drop (← a[1].getNat?) (← natList a[2]) (← a[3].getNat?) else .error "bad drop"
  | "append" => if h : a.size = 4 then return .append (← a[1].getNat?) (← natList a[2]) (← parseSpec a[3]) else .error "bad append"
  | "call" => if h : a.size = 2 then return .call (← a[1].getNat?) else .error "bad call"
  | "ret" => if h : a.size = 3 then return .ret (← a[1].getNat?) (← natList a[2]) else .error "bad ret"
  | "serve" => if h : a.size = 2 then return .serve (← a[1].getNat?) else .error "bad serve"
  | "query" => if h : a.size = 2 then return .query (← parseTree a[1]) else .error "bad query"
  | k => .error s!"bad cmd {k}"

partial def showTree : Tree → Json
  | .atom n => .num n
  | .node ks => .arr (ks.map showTree).toArray

def showOT : Option Tree → Json
  | some t => showTree t
  | none => .null

/-- no cell is both the library's and the user's (the invariant `Inv.sep`, evaluated) -/
def sepHolds (s : St) : Bool := (List.range s.heap.length).all fun a => !(s.lib a && s.usr a)

def heapRequest (j : Json) : Except String Json := do
  let cmds ← (← (← j.getObjVal? "cmds").getArr?).toList.mapM parseCmd
  let d := cmds.foldl exec {}
  let recs := (List.range d.s.recs.length).map fun i => showOT (recVal d.s i)
  let roots := d.roots.map fun a => showOT (read d.s.heap (d.s.heap.length + 1) a)
  return Json.mkObj [("recs", .arr recs.toArray), ("roots", .arr roots.toArray), ("sep", .bool (sepHolds d.s)),
                     ("stuck", .arr (d.stuck.map Json.str).toArray), ("cells", .num d.s.heap.length)]

end FB.Heap
