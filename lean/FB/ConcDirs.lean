/-
  FB.ConcDirs — the directory arbitration of `build_file` for arbitrary paths and any number of threads, on top of
  the unit model of `build_dirs.py` (`FB.BuildDirs`, tied call by call to the real class).  Thread `i` builds the
  file `p i`.  Its atomic steps are those of `_dirs_to_make` (one `is_dir` per ancestor, walking up), `_make_dirs`
  (one `os.mkdir` per missing directory, `FileExistsError` swallowed) and the locked `started_building_file`.
  No build fails and there is no previous build here (`FB.Conc.P2` is the one-directory instance; failures are
  explored on the real code by the scenarios `one_fails`, `both_fail`, …).
-/
import FB.BuildDirs
namespace FB
namespace ConcDirs
open BuildDirs

inductive PC where
  /-- `_dirs_to_make`: about to ask `is_dir(cur)`; `acc` are the missing directories found so far, outermost first -/
  | looking (cur : Path) (acc : List Path)
  /-- `_make_dirs`: the first `j` directories of the thread's list are made -/
  | making (j : Nat)
  | registered
deriving DecidableEq, Repr, Inhabited

structure St where
  /-- the directories that exist on disk -/
  dirs : List Path
  b : BD
  /-- what `_make_dirs` returns to thread `i`: the `created_dirs` it passes to `started_building_file` -/
  cds : Nat → List Path
  pc : Nat → PC

def init (p : Nat → Path) (dirs0 : List Path) : St :=
  { dirs := dirs0, b := {}, cds := fun _ => [], pc := fun i => .looking (p i).dropLast [] }

def step (p : Nat → Path) (s : St) (i : Nat) : St :=
  match s.pc i with
  | .looking cur acc =>
    if s.dirs.contains cur || cur = [] then
      { s with cds := fun k => if k = i then acc else s.cds k, pc := fun k => if k = i then .making 0 else s.pc k }
    else { s with pc := fun k => if k = i then .looking cur.dropLast (cur :: acc) else s.pc k }
  | .making j =>
    match (s.cds i)[j]? with
    | some d => { s with dirs := add s.dirs d, pc := fun k => if k = i then .making (j + 1) else s.pc k }
    | none => { s with b := (started s.b (p i) (s.cds i)).1, pc := fun k => if k = i then .registered else s.pc k }
  | .registered => s

def run (p : Nat → Path) (s : St) (sched : List Nat) : St := sched.foldl (step p) s

end ConcDirs
end FB
