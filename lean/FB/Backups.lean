/-
  FB.Backups — `file_backups.py`: the undo log of a build.  `back_up_and_remove` moves a regular file into a
  private temporary directory (modelled as a list of saved entries; the directory is not part of the tree),
  `record_absent` notes that there was nothing to save, `restore_all` moves every saved file back — skipping one
  whose original path is a directory at that moment, and making missing parent directories.
-/
import FB.Spec
namespace FB
namespace Backups

structure BK where
  /-- `_backups`: original path ↦ the saved entry, oldest first -/
  saved : List (Path × Entry) := []
  /-- `_absent` -/
  absent : List Path := []
deriving Repr, Inhabited, DecidableEq

/-- `back_up_and_remove(p)`: returns the new tree, the log and whether a regular file was saved.
    (`os.rename` of a missing path: nothing happens; of a directory: the directory is moved away and not
    recorded — "this may remove the directory".) -/
def backUpAndRemove (fs : FS) (b : BK) (p : Path) : FS × BK × Bool :=
  match fs.get p with
  | none => (fs, b, false)
  | some (.file c m) => (fs.erase p, { b with saved := b.saved ++ [(p, .file c m)] }, true)
  | some .dir => (fs.rmtree p, b, false)

/-- `back_up_and_remove(p)` raises `NotADirectoryError` (from `os.rename`) when a parent of `p` is a regular file;
    nothing has changed then -/
def backUpRaises (fs : FS) (p : Path) : Bool := (List.range p.length).any fun k => fs.isFile (p.take k)

def recordAbsent (b : BK) (p : Path) : BK := { b with absent := if b.absent.contains p then b.absent else p :: b.absent }

def wasAbsent (b : BK) (p : Path) : Bool := b.absent.contains p

/-- `os.makedirs(d, exist_ok=True)`: `none` if a component is a regular file -/
def makedirs (fs : FS) (d : Path) : Option FS :=
  match Spec.dirsToMake fs [] [] d with
  | .ok ds => some (Spec.mkdirs fs ds)
  | .error _ => none

/-- one iteration of the loop of `restore_all` -/
def restoreOne (fs : FS) (x : Path × Entry) : FS :=
  if fs.isDir x.1 then fs
  else match makedirs fs x.1.dropLast with
    | none => fs
    | some fs' => fs'.set x.1 x.2

/-- `restore_all()` -/
def restoreAll (fs : FS) (b : BK) : FS × BK := (b.saved.foldl restoreOne fs, {})

end Backups
end FB
