/-
  FB.BuildDirs — `build_dirs.py`: which directories the current build has virtually created or removed.
  Sets are lists without duplicates; paths are component lists (`dirname` = `dropLast`, `normcase` = identity);
  `os.listdir` is taken in sorted order (the harness sorts it for the real class as well); a Python `KeyError` is
  `none`.  The single lock is not modelled (see `FB.Conc` for the protocol).
-/
import FB.FS
namespace FB
namespace BuildDirs

structure BD where
  /-- `_build_dir_counts` -/
  counts : List (Path × Nat) := []
  /-- keys of `_created_dirs_map` -/
  created : List Path := []
  /-- `_error_created_dirs` -/
  errorCreated : List Path := []
  /-- `_removed_dirs` -/
  removedDirs : List Path := []
  /-- `_exists_dirs` -/
  existsDirs : List Path := []
  /-- `_maybe_removed_dirs` -/
  maybeRemoved : List Path := []
  /-- `_removed_files` -/
  removedFiles : List Path := []
deriving Repr, Inhabited, DecidableEq

def add (l : List Path) (p : Path) : List Path := if l.contains p then l else p :: l
def discard (l : List Path) (p : Path) : List Path := l.filter (· ≠ p)

def hasCount (b : BD) (d : Path) : Bool := b.counts.any (fun x => x.1 = d)

def getCount (b : BD) (d : Path) : Nat :=
  match b.counts.find? (fun x => x.1 = d) with
  | some (_, n) => n
  | none => 0

def setCount (cnt : List (Path × Nat)) (d : Path) (n : Nat) : List (Path × Nat) :=
  (d, n) :: cnt.filter (fun x => x.1 ≠ d)

/-- `BuildDirs(old_cache_dirs, old_cache_files)` -/
def init (oldDirs oldFiles : List Path) : BD :=
  { maybeRemoved := oldDirs.foldl add [], removedFiles := oldFiles.foldl add [] }

/-- the second loop of `_handle_dir_exists` -/
def existsUp (b : BD) (parent : Path) : BD :=
  if b.existsDirs.contains parent then b
  else
    let b := { b with existsDirs := parent :: b.existsDirs }
    if h : parent = [] then b else existsUp b parent.dropLast
termination_by parent.length
decreasing_by
  simp only [List.length_dropLast]
  have : parent.length ≠ 0 := by simpa using h
  omega

/-- `_handle_dir_exists(dir)` -/
def handleDirExists (b : BD) (parent : Path) : BD :=
  if b.existsDirs.contains parent || hasCount b parent then existsUp b parent
  else
    let b := { b with removedDirs := discard b.removedDirs parent, maybeRemoved := discard b.maybeRemoved parent,
                      removedFiles := discard b.removedFiles parent, existsDirs := parent :: b.existsDirs }
    if h : parent = [] then b else handleDirExists b parent.dropLast
termination_by parent.length
decreasing_by
  simp only [List.length_dropLast]
  have : parent.length ≠ 0 := by simpa using h
  omega

/-- the loop of `started_building_file`; returns the directories this call is credited with -/
def startedLoop (b : BD) (createdDirs : List Path) (parent : Path) (locked : List Path) : BD × List Path :=
  let n := getCount b parent
  let b := { b with counts := setCount b.counts parent (n + 1) }
  if n > 0 then (b, locked)
  else
    let (b, locked) :=
      if createdDirs.contains parent then
        ({ b with created := add b.created parent, errorCreated := discard b.errorCreated parent,
                  removedFiles := discard b.removedFiles parent }, locked ++ [parent])
      else (b, locked)
    if h : parent = [] then (b, locked) else startedLoop b createdDirs parent.dropLast locked
termination_by parent.length
decreasing_by
  simp only [List.length_dropLast]
  have : parent.length ≠ 0 := by simpa using h
  omega

/-- the second loop of `started_building_file`: a directory this call created (or one that was virtually removed
    by a failure) may have been reserved by another thread first; it is registered as created all the same -/
def registerUp (b : BD) (createdDirs : List Path) (parent : Path) (locked : List Path) : BD × List Path :=
  let (b, locked) :=
    if (createdDirs.contains parent || b.errorCreated.contains parent) && !b.created.contains parent && hasCount b parent then
      ({ b with created := add b.created parent, errorCreated := discard b.errorCreated parent,
                removedFiles := discard b.removedFiles parent }, locked ++ [parent])
    else (b, locked)
  if h : parent = [] then (b, locked) else registerUp b createdDirs parent.dropLast locked
termination_by parent.length
decreasing_by
  simp only [List.length_dropLast]
  have : parent.length ≠ 0 := by simpa using h
  omega

/-- `started_building_file(filename, created_dirs)` -/
def started (b : BD) (p : Path) (createdDirs : List Path) : BD × List Path :=
  let b := { b with removedFiles := discard b.removedFiles p }
  match p with
  | [] => (b, [])
  | _ :: _ =>
    let (b, locked) := startedLoop b createdDirs p.dropLast []
    if createdDirs.isEmpty && b.errorCreated.isEmpty then (b, locked) else registerUp b createdDirs p.dropLast locked

/-- the loop of `error_building_file` -/
def errorLoop (b : BD) (parent : Path) : Option BD :=
  match b.counts.find? (fun x => x.1 = parent) with
  | none => none
  | some (_, n) =>
    if n - 1 > 0 then some { b with counts := setCount b.counts parent (n - 1) }
    else
      let b := { b with counts := b.counts.filter (fun x => x.1 ≠ parent) }
      let b := if b.created.contains parent then
          { b with created := discard b.created parent, errorCreated := add b.errorCreated parent,
                   maybeRemoved := add b.maybeRemoved parent, existsDirs := [] }
        else b
      if h : parent = [] then some b else errorLoop b parent.dropLast
termination_by parent.length
decreasing_by
  simp only [List.length_dropLast]
  have : parent.length ≠ 0 := by simpa using h
  omega

/-- `error_building_file(filename)` -/
def error (b : BD) (p : Path) : Option BD :=
  match p with
  | [] => some b
  | _ :: _ => errorLoop b p.dropLast

mutual
/-- `_check_maybe_removed_dir(dir)`; `none`: `KeyError` (the directory was not in `_maybe_removed_dirs`) -/
def checkMaybeRemoved (fs : FS) : Nat → BD → Path → Option (BD × Bool)
  | 0, _, _ => none
  | fuel + 1, b, d =>
    if !b.maybeRemoved.contains d then none else
    let b := { b with maybeRemoved := discard b.maybeRemoved d }
    -- `os.listdir(d)`: ENOTDIR if `d` or one of its ancestors is a regular file, ENOENT if it does not exist
    if (List.range d.length).any (fun k => fs.isFile (d.take k)) then some (handleDirExists b d.dropLast, false) else
    match fs.get d with
    | none => some ({ b with removedDirs := add b.removedDirs d }, true)
    | some (.file _ _) => some (handleDirExists b d.dropLast, false)
    | some .dir => checkLoop fs fuel b d (fs.listdir d)
/-- the `for subfile in subfiles` loop -/
def checkLoop (fs : FS) : Nat → BD → Path → List String → Option (BD × Bool)
  | _, b, d, [] => some ({ b with removedDirs := add b.removedDirs d }, true)
  | fuel, b, d, n :: rest =>
    let sub := d ++ [n]
    if b.removedDirs.contains sub then
      if fs.isFile sub then some (handleDirExists b d, false) else checkLoop fs fuel b d rest
    else if b.removedFiles.contains sub then
      if fs.isDir sub then some (handleDirExists b sub, false) else checkLoop fs fuel b d rest
    else if b.maybeRemoved.contains sub then
      match checkMaybeRemoved fs fuel b sub with
      | none => none
      | some (b', true) => checkLoop fs fuel b' d rest
      | some (b', false) => some (b', false)
    else
      some (if fs.isDir sub then handleDirExists b sub else handleDirExists b d, false)
end

/-- `is_removed_norm_case(dir)` -/
def isRemoved (fs : FS) (b : BD) (d : Path) : Option (BD × Bool) :=
  if hasCount b d then some (b, false)
  else if b.removedDirs.contains d then some (b, true)
  else if !b.maybeRemoved.contains d then some (b, false)
  else checkMaybeRemoved fs 64 b d

end BuildDirs
end FB
