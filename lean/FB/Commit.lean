/-
  FB.Commit — `FileBuilder._commit`: during a build the Python keeps ONE physical tree; outputs of the previous build
  that the new build has not vouched for still lie there (virtually they are absent), and so do directories that
  exist only physically (recorded directories of the previous build that are virtually removed, directories made for
  outputs that failed).  `_commit` removes them: every old output that the virtual tree does not know as a regular file
  (the cache file excepted), then - deepest first, failures ignored - the error-created directories and the old
  created directories that the virtual tree does not know.  `virtFile`/`virtDir` are the answers of
  `SimpleOperationExecutor.is_file/is_dir`.
-/
import FB.Spec
namespace FB
namespace Commit
open FS

/-- the first loop: `_try_to_remove_file` on the old outputs the virtual tree does not know -/
def removeOld (virtFile : Path → Bool) (cf : Path) (oldFiles : List Path) (fs : FS) : FS :=
  (oldFiles.filter (fun f => !virtFile f && f != cf)).foldl (fun fs p => if fs.isFile p then fs.erase p else fs) fs

/-- `dirs_to_remove` -/
def dirsToRemove (virtDir : Path → Bool) (oldDirs errDirs : List Path) : List Path :=
  Spec.dedup (errDirs ++ oldDirs.filter (fun d => !virtDir d))

/-- `_commit(norm_cased_error_created_dirs)` -/
def commit (virtFile virtDir : Path → Bool) (cf : Path) (oldFiles oldDirs errDirs : List Path) (fs : FS) : FS :=
  Spec.rmEmpty (removeOld virtFile cf oldFiles fs) (dirsToRemove virtDir oldDirs errDirs)

end Commit
end FB
