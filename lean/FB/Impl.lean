/-
  FB.Impl — the cache logic of `file_builder.py` / `cache.py` over the virtual tree:
  operation records, lookup (`_build_file_cache_lookup`, `_subbuild_cache_lookup`), replay
  (`_is_*_cached` with the `CreatedFiles` overlay), reuse (`_apply_cached_suboperations`,
  `use_cached_operation`), duplicate rejection, commit.

  State = the reference state (`SpecSt`: the tree build functions may see) plus the *shelf*: the
  files still lying on disk at the previous build's output paths, which are not part of the
  virtual tree until a record that vouches for them is reused.  How the Python keeps this
  abstraction on one physical tree (BuildDirs, FileBackups, _make_room, _commit, _roll_back) is
  not modelled here; it is tied by the correspondence check on trees and answers.
-/
import FB.Spec
namespace FB

/-- `operation.py`: the recorded operations of a build -/
inductive Op where
  /-- `ans` is a ghost field (not in the cache file): what the user code saw, e.g. the content it read -/
  | simple (q : Query) (ret : Json) (exc : Option OSErr) (ans : UAns)
  /-- `content` is a ghost field: the bytes the function wrote into the target -/
  | buildFile (path : Path) (cmp : Cmp) (fname : String) (args kwargs : Json) (subs : List Op)
      (ret : Json) (cmpRes : Json) (raised setupFailed : Bool) (content : String)
  | subbuild (fname : String) (args kwargs : Json) (subs : List Op) (ret : Json)
      (raised setupFailed : Bool)
deriving Inhabited

/-- the content of a cache file (`Cache.write`) -/
structure CacheRec where
  buildName : String
  roots : List Op := []
  createdDirs : List Path := []
  versions : List (String × Json) := []
deriving Inhabited

def verOf (vs : List (String × Json)) (f : String) : Json :=
  match vs.find? (fun x => x.1 = f) with
  | some (_, v) => v
  | none => .null

mutual
/-- `_operations_from_json`: the registered (`setup_failed = False`) complex operations of a forest,
    children before parents, in file order -/
def registered : Op → List Op
  | .simple _ _ _ _ => []
  | .buildFile p c f a k subs r cr raised sf ct =>
    registeredL subs ++ (if sf then [] else [.buildFile p c f a k subs r cr raised sf ct])
  | .subbuild f a k subs r raised sf =>
    registeredL subs ++ (if sf then [] else [.subbuild f a k subs r raised sf])
def registeredL : List Op → List Op
  | [] => []
  | o :: os => registered o ++ registeredL os
end

def Op.isFileAt (p : Path) : Op → Bool
  | .buildFile q _ _ _ _ _ _ _ _ _ _ => q = p
  | _ => false

def Op.isSubWith (key : H) : Op → Bool
  | .subbuild f a k _ _ _ _ => heq (subKey f a k) key
  | _ => false

/-- `Cache.get_file`: later registrations overwrite earlier ones -/
def CacheRec.getFile (c : CacheRec) (p : Path) : Option Op :=
  (registeredL c.roots).reverse.find? (Op.isFileAt p)

def CacheRec.getSub (c : CacheRec) (key : H) : Option Op :=
  (registeredL c.roots).reverse.find? (Op.isSubWith key)

/-- `Cache.created_files()` -/
def CacheRec.outputs (c : CacheRec) : List Path :=
  (registeredL c.roots).filterMap fun
    | .buildFile p _ _ _ _ _ _ _ false _ _ => some p
    | _ => none

def CacheRec.toRec (c : CacheRec) : Rec :=
  { buildName := c.buildName, outputs := Spec.dedup c.outputs, createdDirs := c.createdDirs }

structure KSt where
  sp : SpecSt
  /-- files lying at the previous build's output paths, not (yet) part of the virtual tree -/
  shelf : FS := []
  old : CacheRec
  newVersions : List (String × Json) := []
deriving Inhabited

namespace Impl

def versionOk (s : KSt) (f : String) : Bool :=
  isEqual (verOf s.old.versions f) (verOf s.newVersions f)

/-- `_noneable_file_comparison_result` of the leftover at the old output path `p` -/
def cmpShelf (s : KSt) (p : Path) (cmp : Cmp) : Json :=
  match s.shelf.get p with
  | some (.file b m) => if p = [] then .null else View.cmpResult cmp b m
  | _ => .null

/-- `_noneable_file_comparison_result` of the file just built at `p` -/
def cmpBuilt (s : KSt) (p : Path) (cmp : Cmp) : Json :=
  match s.sp.fs.get p with
  | some (.file b m) => View.cmpResult cmp b m
  | _ => .null

/-- `_is_build_file_cached`: does the leftover at `p` still match the recorded comparison result? -/
def outputMatches (s : KSt) (p : Path) (cmp : Cmp) (recorded : Json) : Bool :=
  isEqual recorded (cmpShelf s p cmp)

/-- leftovers physically in the way of building `path`: those below it (`_make_room`) and those at the
    directories that have to be made (`_make_dirs`) -/
def clearWay (shelf : FS) (path : Path) (made : List Path) : FS :=
  shelf.filter fun x => !(Spec.properAncestor path x.1) && !(made.contains x.1)

/-- the output at `p` is vouched for: it joins the virtual tree -/
def adopt (s : KSt) (p : Path) (made : List Path) : KSt :=
  let fs' := match s.shelf.get p with
    | some e => if p = [] then s.sp.fs else s.sp.fs.set p e
    | none => s.sp.fs
  let sp := s.sp
  { s with
    shelf := s.shelf.erase p
    sp := { sp with
      fs := fs', inProg := sp.inProg.erase p, outputs := p :: sp.outputs, createdDirs := made ++ sp.createdDirs } }

/-- a recorded failure of `build_file p` re-enacted: the target and the directories made for it go -/
def unwind (s : KSt) (p : Path) (made : List Path) : KSt :=
  let sp := { s.sp with inProg := s.sp.inProg.erase p }
  let fs2 := Spec.rmEmpty sp.fs made
  -- directories that stay (they hold reused outputs) were really made: leftovers in their way are gone
  { s with shelf := s.shelf.filter (fun x => !(made.contains x.1 && fs2.isDir x.1)),
           sp := { sp with fs := fs2, createdDirs := (made.filter fs2.isDir) ++ sp.createdDirs } }

mutual
/-- `_is_build_file_operation_cached` / `_is_subbuild_operation_cached` /
    `_is_simple_operation_cached`, with the state after regarding the operation as performed -/
def replayOp : Op → KSt → Option KSt
  | .simple q ret exc _, s =>
    match View.recVal s.sp.dirSize (Spec.visible s.sp) q, exc with
    | .ok v, none => if isEqual v ret then some s else none
    | .error e, some e' => if e = e' ∧ isEqual .null ret then some s else none
    | _, _ => none
  | .buildFile path cmp fname _ _ subs _ cmpRes raised setupFailed _, s =>
    if !versionOk s fname then none
    else if !raised && !outputMatches s path cmp cmpRes then none
    else if setupFailed then none
    else if s.sp.claimedFiles.contains path || path == s.sp.cacheFile then none
    -- the target must be absent from the virtual tree (for a record that raised the Python tests
    -- `exists(filename, created_files)`; for the others it is implied: an old output path is
    -- virtually absent until it is re-finished, and then it is claimed)
    else if (s.sp.fs.get path).isSome then none
    else match Spec.dirsToMake (Spec.visible s.sp) s.sp.cacheFile s.sp.inProg path.dropLast with
      | .error _ => none
      | .ok made =>
        -- directories with over-long names cannot be made (nor can a record mention them: they could
        -- not be made when it was recorded either)
        if made.any Path.tooLong then none else
        let sp := s.sp
        let s1 := { s with
          -- `_apply_cached_suboperations` makes the directories of reused successful outputs only
          shelf := if raised then s.shelf else s.shelf.filter (fun x => !(made.contains x.1))
          sp := { sp with
            fs := Spec.mkdirs sp.fs made, claimedFiles := path :: sp.claimedFiles, inProg := path :: sp.inProg } }
        match replayOps subs s1 with
        | none => none
        | some s2 => if raised then some (unwind s2 path made) else some (adopt s2 path made)
  | .subbuild fname args kwargs subs _ _ setupFailed, s =>
    if !versionOk s fname || setupFailed then none
    else
      let key := subKey fname args kwargs
      if s.sp.claimedSubs.any (heq key) then none
      else replayOps subs { s with sp := { s.sp with claimedSubs := key :: s.sp.claimedSubs } }
def replayOps : List Op → KSt → Option KSt
  | [], s => some s
  | o :: os, s =>
    match replayOp o s with
    | none => none
    | some s' => replayOps os s'
end

/-- `_build_file_cache_lookup` + `_try_to_reuse_cached_file`, after the setup of the call -/
def lookupFile (s : KSt) (path : Path) (cmp : Cmp) (fname : String) (args kwargs : Json)
    (made : List Path) : Option (Op × KSt) :=
  match s.old.getFile path with
  | some (.buildFile _ rcmp rfname rargs rkwargs subs ret cmpRes false _ content) =>
    if rfname = fname && versionOk s fname && isEqual rargs args && isEqual rkwargs kwargs
        && outputMatches s path rcmp cmpRes then
      match replayOps subs s with
      | none => none
      | some s2 =>
        match cmpShelf s2 path cmp with
        | .null => none
        | now => some (.buildFile path cmp fname args kwargs subs ret now false false content, adopt s2 path made)
    else none
  | _ => none

/-- `_subbuild_cache_lookup` -/
def lookupSub (s : KSt) (fname : String) (args kwargs : Json) : Option (Op × KSt) :=
  match s.old.getSub (subKey fname args kwargs) with
  | some (.subbuild _ _ _ subs ret false _) =>
    if versionOk s fname then
      match replayOps subs s with
      | none => none
      | some s2 => some (.subbuild fname args kwargs subs ret false false, s2)
    else none
  | _ => none

def liftSp (s : KSt) (f : SpecSt → SpecSt) : KSt := { s with sp := f s.sp }

/-- the state after the setup of `build_file path`.  `_make_room` / `_make_dirs`: leftovers that are
    physically in the way of the target or of its parent directories are moved aside, so no record can
    vouch for them any more -/
def afterSetup (s : KSt) (sp1 : SpecSt) (path : Path) (made : List Path) : KSt :=
  { s with sp := sp1, shelf := clearWay s.shelf path made }

/-- the state in which the function of a `build_file` that is not served from the cache starts -/
def missStart (s1 : KSt) (path : Path) (inv : Inv) : KSt :=
  let sp1 := s1.sp
  { s1 with
    shelf := s1.shelf.erase path
    sp := { sp1 with invLog := inv :: sp1.invLog } }

def withSp (s : KSt) (sp : SpecSt) : KSt := { s with sp := sp }

/-- the state in which a `subbuild` looks its key up / in which its function starts -/
def subClaim (s : KSt) (key : H) : KSt :=
  liftSp s fun sp => { sp with claimedSubs := key :: sp.claimedSubs }
def subStart (s1 : KSt) (inv : Inv) : KSt :=
  liftSp s1 fun sp => { sp with invLog := inv :: sp.invLog }

/-- run a build function with the cache -/
def run : Prog → Option Path → KSt → CallRes × KSt × List Op
  | .ret v, _, s =>
    match sanitize v with
    | some j => (.ok j, s, [])
    | none => (.error .typeErr, s, [])
  | .raise e, _, s => (.error e, s, [])
  | .query q k, t, s =>
    let vfs := Spec.visible s.sp
    let rv := View.recVal s.sp.dirSize vfs q
    let ans := View.answer s.sp.dirSize vfs q
    let (r, s', ops) := run (k ans) t s
    let op := match rv with
      | .ok v => Op.simple q v none ans
      | .error e => Op.simple q .null (some e) ans
    (r, s', op :: ops)
  | .write b mt k, t, s =>
    match t with
    | some p => run k t (liftSp s fun sp => { sp with pending := (p, b, mt.getD sp.clock) :: sp.pending, clock := sp.clock + 1 })
    | none => run k t s
  | .buildFile path cmp fname args kwargs body k, t, s =>
    match Spec.bfSetup s.sp path with
    | .error e =>
      let (r, s', ops) := run (k (.error e)) t (liftSp s fun sp => Spec.setupFailState sp path e)
      (r, s', .buildFile path cmp fname args kwargs [] .null .null true true "" :: ops)
    | .ok (sp1, made) =>
      let s1 := afterSetup s sp1 path made
      match lookupFile s1 path cmp fname args kwargs made with
      | some (op, s2) =>
        let ret := match op with | .buildFile _ _ _ _ _ _ r _ _ _ _ => r | _ => .null
        let (r, s3, ops) := run (k (.ok ret)) t s2
        (r, s3, op :: ops)
      | none =>
        let s1 := missStart s1 path ⟨fname, some path, args, kwargs⟩
        let (rb, s2, subs) := run body (some path) s1
        let (r', sp3) := Spec.bfFinish s2.sp path made rb
        let s3 := withSp s2 sp3
        let op := match r' with
          | .ok j =>
            let content := match s3.sp.fs.get path with | some (.file b _) => b | _ => ""
            Op.buildFile path cmp fname args kwargs subs j (cmpBuilt s3 path cmp) false false content
          | .error _ =>
            -- `operation.return_value` is assigned before the "didn't create that file" check
            let kept := match rb with | .ok j => j | .error _ => .null
            Op.buildFile path cmp fname args kwargs subs kept .null true false ""
        let (r, s4, ops) := run (k r') t s3
        (r, s4, op :: ops)
  | .subbuild fname args kwargs body k, t, s =>
    let key := subKey fname args kwargs
    if s.sp.claimedSubs.any (heq key) then
      let (r, s', ops) := run (k (.error (.runtime .dupSub))) t s
      (r, s', .subbuild fname args kwargs [] .null true true :: ops)
    else if s.sp.failSubs.any (heq key) then
      let (r, s', ops) := run (k (.error (.os .other))) t (liftSp s fun sp => Spec.consumeSubFault sp key)
      (r, s', .subbuild fname args kwargs [] .null true true :: ops)
    else
      let s1 := subClaim s key
      match lookupSub s1 fname args kwargs with
      | some (op, s2) =>
        let ret := match op with | .subbuild _ _ _ _ r _ _ => r | _ => .null
        let (r, s3, ops) := run (k (.ok ret)) t s2
        (r, s3, op :: ops)
      | none =>
        let s1 := subStart s1 ⟨fname, none, args, kwargs⟩
        let (rb, s2, subs) := run body none s1
        let op := match rb with
          | .ok j => Op.subbuild fname args kwargs subs j false false
          | .error _ => Op.subbuild fname args kwargs subs .null true false
        let (r, s3, ops) := run (k rb) t s2
        (r, s3, op :: ops)

end Impl

/-! ### persistent world of the implementation model -/

structure KWorld where
  fs : FS
  recs : List (Nat × CacheRec) := []
  nextSerial : Nat := 0
  clock : Nat := 1000000
  dirSize : Nat := 4096
deriving Inhabited

inductive KCacheState where
  | absent | isDir | corrupt | valid (r : CacheRec)

def KWorld.cacheState (w : KWorld) (cf : Path) : KCacheState :=
  match w.fs.get cf with
  | none => .absent
  | some .dir => .isDir
  | some (.file b _) =>
    match w.recs.find? (fun x => cacheToken x.1 == b) with
    | some (_, r) => .valid r
    | none => .corrupt

structure KOut where
  res : CallRes
  world : KWorld
  invLog : List Inv := []
  /-- the cache written by this call, if it committed -/
  written : Option CacheRec := none
  /-- ghost: the paths passed to `build_file` in a build that committed -/
  claimed : List Path := []
deriving Inhabited

namespace Impl

def isComplexRegistered : Op → Bool
  | .buildFile _ _ _ _ _ _ _ _ _ sf _ => !sf
  | .subbuild _ _ _ _ _ _ sf => !sf
  | .simple _ _ _ _ => false

/-- the state in which the root function starts: the previous build's outputs, cache file and emptied
    directories virtually gone (`preClean`), the outputs still lying on the shelf, the directories for the
    cache file made -/
def buildStart (w : KWorld) (cf : Path) (versions : List (String × Json)) (failFiles : List Path)
    (failSubs : List H) (old : CacheRec) (cds : List Path) : KSt :=
  let oldRec := old.toRec
  let shelf : FS := oldRec.outputs.filterMap fun p =>
    match w.fs.get p with
    | some (.file b m) => some (p, .file b m)
    | _ => none
  { sp := { fs := Spec.mkdirs (Spec.preClean w.fs cf oldRec) cds, cacheFile := cf, dirSize := w.dirSize,
            clock := w.clock, failFiles := failFiles, failSubs := failSubs },
    shelf := shelf, old := old, newVersions := versions }

/-- a build once the old cache (possibly empty) has been read -/
def buildGo (w : KWorld) (cf : Path) (buildName : String) (versions : List (String × Json))
    (root : Prog) (failFiles : List Path) (failSubs : List H) (abort : Nat) (old : CacheRec) : KOut :=
  let sp0 : SpecSt := (buildStart w cf versions failFiles failSubs old []).sp
  let rolledBack : FS := Spec.mkdirs w.fs (old.createdDirs.mergeSort (fun a b => a.length ≤ b.length))
  match (if abort = 1 then .error .other else Spec.dirsToMake (Spec.visible sp0) cf [] cf.dropLast) with
  | .error e => { res := .error (.os e), world := { w with fs := rolledBack } }
  | .ok cds =>
    let s1 : KSt := buildStart w cf versions failFiles failSubs old cds
    let (r0, s2, ops) := run root none s1
    let r : CallRes := match r0 with | .ok v => if abort = 2 then .error (.os .other) else .ok v | e => e
    match r with
    | .error e => { res := .error e, world := { w with fs := rolledBack, clock := s2.sp.clock },
                    invLog := s2.sp.invLog.reverse }
    | .ok v =>
      let created := Spec.dedup (s2.sp.createdDirs.reverse ++ cds)
      let rec_ : CacheRec :=
        { buildName := buildName, roots := ops.filter isComplexRegistered, createdDirs := created, versions := versions }
      let n := w.nextSerial
      let fs' := s2.sp.fs.write cf (cacheToken n) 0
      { res := .ok v,
        world := { w with fs := fs', recs := (n, rec_) :: w.recs, nextSerial := n + 1, clock := s2.sp.clock },
        invLog := s2.sp.invLog.reverse, written := some rec_, claimed := s2.sp.claimedFiles }

/-- `FileBuilder.build_versioned` -/
def build (w : KWorld) (cf : Path) (buildName : String) (versions : List (String × Json))
    (root : Prog) (failFiles : List Path := []) (failSubs : List H := []) (abort : Nat := 0) : KOut :=
  let refuse (e : Exc) : KOut := { res := .error e, world := w }
  match w.cacheState cf with
  | .isDir => refuse (.os .isADir)
  | .corrupt => refuse (.runtime .corrupt)
  | .absent => buildGo w cf buildName versions root failFiles failSubs abort { buildName := buildName, versions := versions }
  | .valid r =>
    if r.buildName = buildName then buildGo w cf buildName versions root failFiles failSubs abort r
    else refuse (.runtime .nameMismatch)

/-- `FileBuilder.clean` -/
def clean (w : KWorld) (cf : Path) (buildName : Option String) : KOut :=
  let refuse (e : Exc) : KOut := { res := .error e, world := w }
  match w.cacheState cf with
  | .absent => { res := .ok .null, world := w }
  | .isDir => refuse (.os .isADir)
  | .corrupt => refuse (.runtime .corrupt)
  | .valid r =>
    if buildName.isSome ∧ buildName ≠ some r.buildName then refuse (.runtime .nameMismatch)
    else { res := .ok .null, world := { w with fs := Spec.preClean w.fs cf r.toRec } }

end Impl
end FB
