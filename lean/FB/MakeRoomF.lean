/-
  FB.MakeRoomF — `FileBuilder._make_room` with an injected fault (C14): the `failAt`-th mutating file-system call
  the method makes fails with an `OSError`.  The mutating calls are the `os.rename` of `back_up_and_remove` (one per
  regular file moved aside) and the `os.rmdir` of each cleared directory.  A failing `rename` propagates as it is
  (`raw`); a failing `rmdir` is reported as `IsADirectoryError` like any other failing `rmdir`.  With `failAt = none`
  this is `FB.MakeRoom.makeRoom` (theorem `makeRoomF_none`).
-/
import FB.MakeRoom
namespace FB
namespace MakeRoomF
open FS

/-- the state of `FB.MakeRoom`, the number of mutating calls made so far, and - for an error outcome - whether the
    exception is the raw `OSError` of the injected fault (otherwise `IsADirectoryError`) -/
structure C where
  st : MakeRoom.St
  n : Nat := 0
  raw : Bool := false

mutual
def makeRoom (virtDir virtFile : Path → Bool) (failAt : Option Nat) : Nat → C → Path → Except C C
  | 0, c, _ => .error c
  | fuel + 1, c, d =>
    match entries virtDir virtFile failAt fuel c d (c.st.fs.listdir d) with
    | .error c' => .error c'
    | .ok c' =>
      if failAt = some c'.n then .error c'
      else match c'.st.fs.rmdir d with
        | .ok fs' => .ok { c' with st := { c'.st with fs := fs' }, n := c'.n + 1 }
        | .error _ => .error c'
def entries (virtDir virtFile : Path → Bool) (failAt : Option Nat) : Nat → C → Path → List String → Except C C
  | _, c, _, [] => .ok c
  | fuel, c, d, n :: rest =>
    let sub := d ++ [n]
    if c.st.fs.isDir sub then
      if virtDir sub then .error c
      else match makeRoom virtDir virtFile failAt fuel c sub with
        | .error c' => .error c'
        | .ok c' => entries virtDir virtFile failAt fuel c' d rest
    else if virtFile sub then .error c
    else if failAt = some c.n then .error { c with raw := true }
    else
      let r := Backups.backUpAndRemove c.st.fs c.st.bk sub
      entries virtDir virtFile failAt fuel { c with st := { fs := r.1, bk := r.2.1 }, n := c.n + 1 } d rest
end

end MakeRoomF
end FB
