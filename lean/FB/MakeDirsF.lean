/-
  FB.MakeDirsF — `FileBuilder._make_dirs` with an injected fault at ANY of its mutating calls (C14): besides the
  `os.mkdir` of each directory (`FB.MakeDirs.loop` injects there), the `os.rename` with which `back_up_and_remove`
  moves an old output out of a directory position.  `i` counts both kinds of call; the `failAt`-th fails with
  `OSError`, the `except OSError` branch removes the directories made so far and re-raises.  (When no old output sits
  in a directory position the calls are the mkdirs alone and this is `FB.MakeDirs.loop`: `loop_eq_makeDirs`.)
-/
import FB.MakeDirs
namespace FB
namespace MakeDirsF
open FS
open MakeDirs (St)

/-- the state the `except OSError` branch leaves -/
def unwound (st : St) : St := { st with fs := Spec.rmEmpty st.fs st.made }

/-- the move to the undo log of a regular file in a directory position (if it is an old output) -/
def aside (oldCreated : List Path) (failAt : Option Nat) (d : Path) (i : Nat) (st : St) : Except (St × Nat) (St × Nat) :=
  if st.fs.isFile d && oldCreated.contains d then
    if failAt = some i then .error (unwound st, i)
    else
      let r := Backups.backUpAndRemove st.fs st.bk d
      .ok ({ st with fs := r.1, bk := r.2.1 }, i + 1)
  else .ok (st, i)

/-- the `for parent in dirs_to_make` loop -/
def loop (oldCreated : List Path) (failAt : Option Nat) : List Path → Nat → St → Except (St × Nat) (St × Nat)
  | [], i, st => .ok (st, i)
  | d :: rest, i, st =>
    match aside oldCreated failAt d i st with
    | .error e => .error e
    | .ok (st1, i1) =>
      if failAt = some i1 then .error (unwound st1, i1)
      else match st1.fs.mkdir d with
        | .ok fs' => loop oldCreated failAt rest (i1 + 1) { st1 with fs := fs', made := st1.made ++ [d] }
        | .error .fileExists => loop oldCreated failAt rest (i1 + 1) st1
        | .error _ => .error (unwound st1, i1)

/-- `_make_dirs` after `_dirs_to_make` -/
def makeDirs (fs : FS) (bk : Backups.BK) (dirs oldCreated : List Path) (failAt : Option Nat) : Except (St × Nat) (St × Nat) :=
  loop oldCreated failAt dirs 0 { fs := fs, bk := bk }

end MakeDirsF
end FB
