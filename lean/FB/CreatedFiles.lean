/-
  FB.CreatedFiles — `created_files.py`: the overlay of files "created" while a cached record is being
  validated.  Paths are component lists from the file-system root `[]` (`os.path.dirname` = `dropLast`,
  `os.path.normcase` = identity on POSIX).  A Python `KeyError` is `none`.
-/
import FB.FS
namespace FB
namespace CreatedFiles

structure CF where
  /-- `_norm_cased_files` -/
  files : List Path := []
  /-- `_norm_cased_dirs` -/
  dirs : List Path := []
  /-- `_norm_cased_dir_to_subfiles`: directory ↦ names of its created children, no empty entries -/
  subfiles : List (Path × List String) := []
  /-- `_norm_cased_dir_to_started_count`, no zero entries -/
  count : List (Path × Nat) := []
deriving Repr, Inhabited, DecidableEq

def getCount (c : CF) (d : Path) : Nat :=
  match c.count.find? (fun x => x.1 = d) with
  | some (_, n) => n
  | none => 0

def setCount (cnt : List (Path × Nat)) (d : Path) (n : Nat) : List (Path × Nat) :=
  (d, n) :: cnt.filter (fun x => x.1 ≠ d)

def popCount (cnt : List (Path × Nat)) (d : Path) : List (Path × Nat) := cnt.filter (fun x => x.1 ≠ d)

def getSub (c : CF) (d : Path) : List String :=
  match c.subfiles.find? (fun x => x.1 = d) with
  | some (_, ns) => ns
  | none => []

def setSub (sf : List (Path × List String)) (d : Path) (ns : List String) : List (Path × List String) :=
  if ns = [] then sf.filter (fun x => x.1 ≠ d) else (d, ns) :: sf.filter (fun x => x.1 ≠ d)

/-- `_add_to_subfiles(filename)` -/
def addToSub (c : CF) (p : Path) : CF :=
  match p.getLast? with
  | none => c                      -- a root directory
  | some base =>
    let d := p.dropLast
    let ns := getSub c d
    if ns.contains base then c else { c with subfiles := setSub c.subfiles d (ns ++ [base]) }

/-- `_remove_from_subfiles(filename)`; `none`: `KeyError` -/
def removeFromSub (c : CF) (p : Path) : Option CF :=
  match p.getLast? with
  | none => some c
  | some base =>
    let d := p.dropLast
    match c.subfiles.find? (fun x => x.1 = d) with
    | none => none
    | some (_, ns) =>
      if ns.contains base then some { c with subfiles := setSub c.subfiles d (ns.erase base) } else none

/-- the `while parent != prev_parent` loop of `started_building_file`, entered with `parent` -/
def startedLoop (c : CF) (parent : Path) : CF :=
  let n := getCount c parent
  let c := { c with count := setCount c.count parent (n + 1) }
  if n > 0 then c
  else
    let c := addToSub { c with dirs := if c.dirs.contains parent then c.dirs else parent :: c.dirs } parent
    if h : parent = [] then c else startedLoop c parent.dropLast
termination_by parent.length
decreasing_by
  simp only [List.length_dropLast]
  have : parent.length ≠ 0 := by simpa using h
  omega

/-- `started_building_file(filename)` -/
def started (c : CF) (p : Path) : CF :=
  match p with
  | [] => c
  | _ :: _ => startedLoop c p.dropLast

/-- `finished_building_file(filename)` -/
def finished (c : CF) (p : Path) : CF :=
  addToSub { c with files := if c.files.contains p then c.files else p :: c.files } p

/-- the loop of `error_building_file`, entered with `parent` -/
def errorLoop (c : CF) (parent : Path) : Option CF :=
  match c.count.find? (fun x => x.1 = parent) with
  | none => none                                   -- KeyError
  | some (_, n) =>
    if n - 1 > 0 then some { c with count := setCount c.count parent (n - 1) }
    else
      if !c.dirs.contains parent then none          -- set.remove: KeyError
      else
        match removeFromSub { c with count := popCount c.count parent, dirs := c.dirs.erase parent } parent with
        | none => none
        | some c' =>
          if h : parent = [] then some c' else errorLoop c' parent.dropLast
termination_by parent.length
decreasing_by
  simp only [List.length_dropLast]
  have : parent.length ≠ 0 := by simpa using h
  omega

/-- `error_building_file(filename)` -/
def error (c : CF) (p : Path) : Option CF :=
  match p with
  | [] => some c
  | _ :: _ => errorLoop c p.dropLast

def hasFile (c : CF) (p : Path) : Bool := c.files.contains p
def hasDir (c : CF) (p : Path) : Bool := c.dirs.contains p
def listDir (c : CF) (d : Path) : List String := getSub c d

inductive Cmd where
  | started (p : Path)
  | finished (p : Path)
  | error (p : Path)
deriving Repr, DecidableEq

def step (c : CF) : Cmd → Option CF
  | .started p => some (started c p)
  | .finished p => some (finished c p)
  | .error p => error c p

def run (c : CF) : List Cmd → Option CF
  | [] => some c
  | x :: xs => match step c x with
    | none => none
    | some c' => run c' xs

end CreatedFiles
end FB
