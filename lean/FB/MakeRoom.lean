/-
  FB.MakeRoom — `FileBuilder._make_room`: a path that was a directory in the previous build is to become an output
  file.  Everything in it that the virtual tree does not know (old outputs, old directories) is moved to the undo
  log resp. removed; the first entry that exists virtually (a foreign file or directory, or one made by this build)
  makes the call fail with `IsADirectoryError` — what has been moved by then stays moved (it is virtually absent and
  the log brings it back on rollback).  `virtDir`/`virtFile` are the answers of `SimpleOperationExecutor.is_dir/is_file`.
-/
import FB.Backups
namespace FB
namespace MakeRoom
open FS

structure St where
  fs : FS
  bk : Backups.BK

mutual
/-- `_make_room(d)`; `.error`: IsADirectoryError was raised (state at that moment) -/
def makeRoom (virtDir virtFile : Path → Bool) : Nat → St → Path → Except St St
  | 0, st, _ => .error st
  | fuel + 1, st, d =>
    match entries virtDir virtFile fuel st d (st.fs.listdir d) with
    | .error st' => .error st'
    | .ok st' =>
      match st'.fs.rmdir d with
      | .ok fs' => .ok { st' with fs := fs' }
      | .error _ => .error st'
/-- the `for subfile in os.listdir(dir_)` loop -/
def entries (virtDir virtFile : Path → Bool) : Nat → St → Path → List String → Except St St
  | _, st, _, [] => .ok st
  | fuel, st, d, n :: rest =>
    let sub := d ++ [n]
    if st.fs.isDir sub then
      if virtDir sub then .error st
      else match makeRoom virtDir virtFile fuel st sub with
        | .error st' => .error st'
        | .ok st' => entries virtDir virtFile fuel st' d rest
    else if virtFile sub then .error st
    else
      let r := Backups.backUpAndRemove st.fs st.bk sub
      entries virtDir virtFile fuel { fs := r.1, bk := r.2.1 } d rest
end

end MakeRoom
end FB
