/-
  FB.Json — model of `file_builder/json_util.py` (JsonUtil.sanitize, is_equal, to_hashable,
  _key_to_str).  Executable, no Mathlib.  Tied to the Python by the `json` correspondence slice.
-/
namespace FB

/-- A finite Python float, exactly: `num / 2^k` (what `float.as_integer_ratio` returns).
    `negZero` records `-0.0` (it never influences `==`). -/
structure Dy where
  num : Int
  k : Nat
  negZero : Bool := false
deriving DecidableEq, Repr, Inhabited

/-- Python numbers that can occur in JSON values (NaN is excluded by the properties). -/
inductive Num where
  | int (i : Int)
  | flt (d : Dy)
  | inf (neg : Bool)
deriving DecidableEq, Repr, Inhabited

/-- lowest-terms form of `n / 2^k` -/
def normDy : Nat → Int → Int × Nat
  | 0, n => (n, 0)
  | k+1, n => if n % 2 = 0 then normDy k (n / 2) else (n, k+1)

/-- The real value a number denotes, in a canonical form (`Sum.inr` = ±infinity). -/
def Num.key : Num → Sum (Int × Nat) Bool
  | .int i => .inl (i, 0)
  | .flt d => .inl (normDy d.k d.num)
  | .inf n => .inr n

/-- Python `==` between two numbers: exact comparison of the denoted reals (CPython compares
    int with float exactly, not after rounding). -/
def Num.eq (a b : Num) : Bool := decide (a.key = b.key)

/-- JSON values as the library manipulates them: "sanitized" values plus tuples (return values of
    simple operations such as `walk` contain tuples). -/
inductive Json where
  | null
  | bool (b : Bool)
  | num (n : Num)
  | str (s : String)
  | arr (xs : List Json)
  | tup (xs : List Json)
  | obj (kvs : List (String × Json))
deriving Repr, Inhabited

/-- `key in value2 and f(value2[key])` on a dict with distinct keys -/
def lookupWith (f : Json → Bool) (k : String) : List (String × Json) → Bool
  | [] => false
  | (k', v') :: b => if k = k' then f v' else lookupWith f k b

mutual
/-- `JsonUtil.is_equal` -/
def isEqual : Json → Json → Bool
  | .arr xs, .arr ys => isEqualL xs ys
  | .arr xs, .tup ys => isEqualL xs ys
  | .tup xs, .arr ys => isEqualL xs ys
  | .tup xs, .tup ys => isEqualL xs ys
  | .obj a, .obj b => a.length == b.length && subObj a b
  | .null, .null => true
  | .bool a, .bool b => a == b
  | .num a, .num b => a.eq b
  | .str a, .str b => a == b
  | _, _ => false
/-- `len(v1) == len(v2)` and the `zip` loop -/
def isEqualL : List Json → List Json → Bool
  | [], [] => true
  | x :: xs, y :: ys => isEqual x y && isEqualL xs ys
  | _, _ => false
/-- `for key, subvalue in value1.items(): key in value2 and is_equal(subvalue, value2[key])` -/
def subObj : List (String × Json) → List (String × Json) → Bool
  | [], _ => true
  | (k, v) :: rest, b => lookupWith (isEqual v) k b && subObj rest b
end

/-- Python hashable values produced by `to_hashable` (bools never occur: they become tuples). -/
inductive H where
  | null
  | num (n : Num)
  | str (s : String)
  | tup (xs : List H)
deriving Repr, Inhabited

mutual
/-- Python `==` on the hashable forms (tuple equality is element-wise, numbers compare numerically,
    values of different kinds are unequal). -/
def heq : H → H → Bool
  | .null, .null => true
  | .num a, .num b => a.eq b
  | .str a, .str b => a == b
  | .tup xs, .tup ys => heqL xs ys
  | _, _ => false
def heqL : List H → List H → Bool
  | [], [] => true
  | x :: xs, y :: ys => heq x y && heqL xs ys
  | _, _ => false
end

/-- insertion into a list sorted by key (Python `sorted(value.keys())`: code-point order) -/
def insertKey {α} (k : String) (v : α) : List (String × α) → List (String × α)
  | [] => [(k, v)]
  | (k', v') :: r => if k < k' then (k, v) :: (k', v') :: r else (k', v') :: insertKey k v r

def sortKeys {α} : List (String × α) → List (String × α)
  | [] => []
  | (k, v) :: r => insertKey k v (sortKeys r)

/-- `result.append(key); result.append(to_hashable(value[key]))` -/
def flattenKV : List (String × H) → List H
  | [] => []
  | (k, h) :: r => .str k :: h :: flattenKV r

mutual
/-- `JsonUtil.to_hashable`.  The documented domain is sanitized values (no tuples); a tuple is
    returned unchanged by the Python, which the model does not represent: callers guard with
    `NoTup` and the driver rejects tuples. -/
def toH : Json → H
  | .null => .null
  | .bool true => .tup [.num (.int 1)]
  | .bool false => .tup [.num (.int 2)]
  | .num n => .num n
  | .str s => .str s
  | .arr xs => .tup (.num (.int 0) :: toHL xs)
  | .tup xs => .tup (.num (.int 0) :: toHL xs)
  | .obj kvs => .tup (flattenKV (sortKeys (toHO kvs)))
def toHL : List Json → List H
  | [] => []
  | x :: xs => toH x :: toHL xs
def toHO : List (String × Json) → List (String × H)
  | [] => []
  | (k, v) :: r => (k, toH v) :: toHO r
end

/-! ### Arbitrary Python values handed to `sanitize` -/

/-- dict keys -/
inductive PyKey where
  | str (sub : Bool) (s : String)      -- `sub`: instance of a proper subclass of `str`
  | bool (b : Bool)
  | int (i : Int)
  | flt (n : Num) (repr : String)      -- `repr(key)` is Python's (trusted) float repr, supplied
  | nan
  | null
  | other                              -- anything `json.dumps` rejects as a key
deriving Repr, Inhabited

/-- values; `sub = true` marks an instance of a proper subclass of the base type -/
inductive PyVal where
  | null
  | bool (b : Bool)
  | int (sub : Bool) (i : Int)
  | flt (sub : Bool) (n : Num)
  | str (sub : Bool) (s : String)
  | list (sub : Bool) (xs : List PyVal)
  | tuple (sub : Bool) (xs : List PyVal)
  | dict (sub : Bool) (kvs : List (PyKey × PyVal))
  | other                              -- not a JSON value (set, object, bytes, ...)
deriving Repr, Inhabited

/-- `JsonUtil._key_to_str` (`none` = `TypeError`) -/
def keyToStr : PyKey → Option String
  | .str _ s => some s
  | .bool true => some "true"
  | .bool false => some "false"
  | .int i => some (toString i)
  | .flt (.inf false) _ => some "Infinity"
  | .flt (.inf true) _ => some "-Infinity"
  | .flt _ r => some r
  | .nan => some "NaN"
  | .null => some "null"
  | .other => none

/-- `result[key] = value` on an insertion-ordered dict -/
def dictSet (k : String) (v : Json) : List (String × Json) → List (String × Json)
  | [] => [(k, v)]
  | (k', v') :: r => if k = k' then (k, v) :: r else (k', v') :: dictSet k v r

mutual
/-- `JsonUtil.sanitize` (`none` = `TypeError`) -/
def sanitize : PyVal → Option Json
  | .null => some .null
  | .bool b => some (.bool b)
  | .int _ i => some (.num (.int i))
  | .flt _ n => some (.num n)
  | .str _ s => some (.str s)
  | .list _ xs => (sanitizeL xs).map .arr
  | .tuple _ xs => (sanitizeL xs).map .arr
  | .dict _ kvs => (sanitizeD kvs []).map .obj
  | .other => none
def sanitizeL : List PyVal → Option (List Json)
  | [] => some []
  | x :: xs => match sanitize x, sanitizeL xs with
    | some y, some ys => some (y :: ys)
    | _, _ => none
/-- the `for key, subvalue in value.items()` loop with its accumulator -/
def sanitizeD : List (PyKey × PyVal) → List (String × Json) → Option (List (String × Json))
  | [], acc => some acc
  | (k, v) :: r, acc => match keyToStr k, sanitize v with
    | some ks, some vs => sanitizeD r (dictSet ks vs acc)
    | _, _ => none
end

mutual
/-- a sanitized value seen again as a Python value (for idempotence) -/
def Json.toPy : Json → PyVal
  | .null => .null
  | .bool b => .bool b
  | .num (.int i) => .int false i
  | .num n => .flt false n
  | .str s => .str false s
  | .arr xs => .list false (Json.toPyL xs)
  | .tup xs => .tuple false (Json.toPyL xs)
  | .obj kvs => .dict false (Json.toPyO kvs)
def Json.toPyL : List Json → List PyVal
  | [] => []
  | x :: xs => x.toPy :: Json.toPyL xs
def Json.toPyO : List (String × Json) → List (PyKey × PyVal)
  | [] => []
  | (k, v) :: r => (.str false k, v.toPy) :: Json.toPyO r
end

end FB
