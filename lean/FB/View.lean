/-
  FB.View — the answers of the seven queries on a plain tree.  `Spec` asks them of the
  from-scratch tree; `Impl` asks them of `abs st` (the real tree with everything erased that the
  from-scratch world would not have).
-/
import FB.Prog
namespace FB

/-- how absolute paths are shown to user code once the sandbox prefix is stripped -/
def renderPath (p : Path) : String := p.foldl (fun s c => s ++ "/" ++ c) "<R>"

def strArr (xs : List String) : Json := .arr (xs.map .str)

namespace View

def exists_ (fs : FS) (p : Path) : Bool := fs.isFile p || fs.isDir p

/-- `list_dir` of an existing directory: names `n` with `exists(d/n)` — on a plain tree, all of them -/
def names (fs : FS) (d : Path) : List String :=
  (fs.listdir d).filter (fun n => exists_ fs (d ++ [n]))

def listDir (fs : FS) (d : Path) : Except OSErr (List String) :=
  if fs.isDir d then .ok (names fs d)
  else if fs.isFile d then .error .notADir
  else .error .notFound

/-- `_append_walk`; `fuel` bounds the depth -/
def walkAux : Nat → FS → Path → Bool → List Json
  | 0, _, _, _ => []
  | fuel+1, fs, d, topDown =>
    let ns := names fs d
    let files := ns.filter (fun n => fs.isFile (d ++ [n]))
    let dirs := ns.filter (fun n => !fs.isFile (d ++ [n]) && fs.isDir (d ++ [n]))
    let here : Json := .tup [.str (renderPath d), strArr dirs, strArr files]
    let below := dirs.flatMap (fun n => walkAux fuel fs (d ++ [n]) topDown)
    if topDown then here :: below else below ++ [here]

/-- depth bound of `walk` in the model (the harness's trees are far shallower) -/
def walkFuel : Nat := 64

def walk (fs : FS) (d : Path) (topDown : Bool) : List Json :=
  if fs.isDir d then walkAux walkFuel fs d topDown else []

/-- size in bytes; directories report the platform's constant (measured by the harness) -/
def getSize (dirSize : Nat) (fs : FS) (p : Path) : Except OSErr Nat :=
  match fs.get p with
  | some (.file b _) => .ok b.utf8ByteSize
  | some .dir => .ok dirSize
  | none => .error .notFound

/-- `SimpleOperationExecutor.file_comparison_result`; SHA-256 is modelled as the identity on the
    bytes (injective — trusted), tagged so that it cannot be confused with anything else. -/
def cmpResult (cmp : Cmp) (bytes : String) (mtime : Nat) : Json :=
  match cmp with
  | .metadata => .obj [("size", .num (.int bytes.utf8ByteSize)), ("timeNs", .num (.int mtime))]
  | .hash => .str ("sha:" ++ bytes)

/-- what is *recorded* for a query (and compared on replay) -/
def recVal (dirSize : Nat) (fs : FS) : Query → Except OSErr Json
  | .isFile p => .ok (.bool (fs.isFile p))
  | .isDir p => .ok (.bool (fs.isDir p))
  | .exists_ p => .ok (.bool (exists_ fs p))
  | .listDir p => match listDir fs p with
    | .ok l => .ok (strArr l)
    | .error e => .error e
  | .walk p td => .ok (.arr (walk fs p td))
  | .getSize p => match getSize dirSize fs p with
    | .ok n => .ok (.num (.int (Int.ofNat n)))
    | .error e => .error e
  | .read p cmp =>
    match fs.get p with
    | some (.file b m) => .ok (cmpResult cmp b m)
    | some .dir => .error .isADir
    | none => .error .notFound

/-- what user code *sees* (for `read`: the content it then reads from the file) -/
def answer (dirSize : Nat) (fs : FS) : Query → UAns
  | .read p _ =>
    match fs.get p with
    | some (.file b _) => .ok (.str b)
    | some .dir => .error .isADir
    | none => .error .notFound
  | q => recVal dirSize fs q

end View
end FB
