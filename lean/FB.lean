import FB.Json
import FB.FS
import FB.Prog
import FB.View
import FB.Spec
import FB.DSL
import FB.Impl
