namespace P2
/-- shared state of the directory-arbitration protocol (one directory level) -/
structure Sh where
  dirs : List Nat          -- directories that really exist
  count : List Nat         -- multiset of reservations (one entry per reservation of dir d)
  created : List Nat       -- BuildDirs._created_dirs_map
  deriving DecidableEq, Repr

inductive PC where | scan | mk (toMake : Bool) | reg (toMake : Bool) | done
  deriving DecidableEq, Repr

structure Th where
  dir : Nat
  pc : PC
  deriving DecidableEq, Repr

/-- one atomic step of thread `t` -/
def step (s : Sh) (t : Th) : Sh × Th :=
  match t.pc with
  | .scan => (s, { t with pc := .mk (!s.dirs.contains t.dir) })           -- _dirs_to_make: is_dir?
  | .mk tm => (if tm && !s.dirs.contains t.dir then { s with dirs := t.dir :: s.dirs } else s,
               { t with pc := .reg tm })                                    -- os.mkdir, FileExistsError tolerated
  | .reg tm =>                                                              -- started_building_file (under lock)
      let first := !s.count.contains t.dir
      ({ s with count := t.dir :: s.count,
                created := if first && tm then t.dir :: s.created else s.created },
       { t with pc := .done })
  | .done => (s, t)

def run : Sh → List Th → List Nat → Sh × List Th
  | s, ts, [] => (s, ts)
  | s, ts, i :: sched =>
      match ts[i]? with
      | none => run s ts sched
      | some t => let (s', t') := step s t
                  run s' (ts.set i t') sched

def init : Sh := ⟨[], [], []⟩
def two : List Th := [⟨7, .scan⟩, ⟨7, .scan⟩]

/-- sequential order A then B: the shared new directory is recorded as created -/
example : (run init two [0,0,0,1,1,1]).1.created = [7] := by decide
/-- D7: B scans after A's mkdir and registers before A — ownership is lost -/
theorem arbitration_counterexample : (run init two [0,0,1,1,1,0]).1.created = [] := by decide
/-- …although the directory exists and both reservations are in place -/
example : (run init two [0,0,1,1,1,0]).1.dirs = [7] ∧ (run init two [0,0,1,1,1,0]).1.count = [7,7] := by decide
#print axioms arbitration_counterexample
end P2
