namespace T
abbrev Name := String
abbrev Path := List Name

inductive Tree where
  | file (bytes : String) (mtime ino : Nat)
  | dir (children : List (Name × Tree))

mutual
def Tree.get : Tree → Path → Option Tree
  | t, [] => some t
  | .file .., _ :: _ => none
  | .dir cs, n :: p => getL cs n p
def getL : List (Name × Tree) → Name → Path → Option Tree
  | [], _, _ => none
  | (m, t) :: cs, n, p => if m = n then t.get p else getL cs n p
end

mutual
/-- replace / insert / delete the node at a path (none = delete); fails silently if the parent is missing -/
def Tree.set : Tree → Path → Option Tree → Tree
  | t, [], v => v.getD t
  | .file b m i, _ :: _, _ => .file b m i
  | .dir cs, n :: p, v => .dir (setL cs n p v)
def setL : List (Name × Tree) → Name → Path → Option Tree → List (Name × Tree)
  | [], n, p, v => match p, v with
      | [], some t => [(n, t)]
      | _, _ => []
  | (m, t) :: cs, n, p, v =>
      if m = n then
        match p, v with
        | [], none => cs
        | _, _ => (m, t.set p v) :: cs
      else (m, t) :: setL cs n p v
end

def isDir (t : Tree) (p : Path) : Bool := match t.get p with | some (.dir _) => true | _ => false
def isFile (t : Tree) (p : Path) : Bool := match t.get p with | some (.file ..) => true | _ => false

mutual
/-- `gone`: a candidate directory all of whose content is dead files or gone directories -/
def gone (cand : Path → Bool) (dead : Path → Bool) : Tree → Path → Bool
  | .file .., _ => false
  | .dir cs, p => cand p && goneL cand dead cs p
def goneL (cand : Path → Bool) (dead : Path → Bool) : List (Name × Tree) → Path → Bool
  | [], _ => true
  | (n, .file ..) :: cs, p => dead (p ++ [n]) && goneL cand dead cs p
  | (n, .dir cs') :: cs, p => gone cand dead (.dir cs') (p ++ [n]) && goneL cand dead cs p
end

/-- frame: setting at path `q` does not change what is found at a path `p` that is not a prefix-relative of q -/
def disjointPaths : Path → Path → Prop
  | [], _ => False
  | _, [] => False
  | a :: p, b :: q => a ≠ b ∨ disjointPaths p q

mutual
theorem get_set_frame : ∀ (t : Tree) (p q : Path) (v : Option Tree),
    disjointPaths p q → (t.set q v).get p = t.get p
  | t, [], q, v, h => by simp [disjointPaths] at h
  | t, a :: p, [], v, h => by simp [disjointPaths] at h
  | .file b m i, a :: p, c :: q, v, h => by simp [Tree.set, Tree.get]
  | .dir cs, a :: p, c :: q, v, h => by
      simp only [Tree.set, Tree.get]
      exact getL_setL_frame cs a p c q v h
theorem getL_setL_frame : ∀ (cs : List (Name × Tree)) (a : Name) (p : Path) (c : Name) (q : Path)
    (v : Option Tree), disjointPaths (a :: p) (c :: q) → getL (setL cs c q v) a p = getL cs a p
  | [], a, p, c, q, v, h => by
      cases q with
      | cons c' q' => cases v <;> simp [setL, getL]
      | nil =>
        cases v with
        | none => simp [setL, getL]
        | some t =>
          simp only [setL, getL]
          have hne : c ≠ a := by
            intro hc; subst hc
            simp only [disjointPaths] at h
            rcases h with h | h
            · exact h rfl
            · cases p <;> simp [disjointPaths] at h
          simp [hne]
  | (m, t) :: cs, a, p, c, q, v, h => by
      simp only [setL]
      by_cases hmc : m = c
      · subst hmc
        simp only [if_true]
        by_cases hma : m = a
        · subst hma
          have hpq : disjointPaths p q := by
            simp only [disjointPaths] at h; rcases h with h | h
            · exact absurd rfl h
            · exact h
          cases q with
          | nil => cases p <;> simp [disjointPaths] at hpq
          | cons c' q' =>
            simp only [getL, if_true]
            cases p with
            | nil => simp [disjointPaths] at hpq
            | cons a' p' => exact get_set_frame t (a' :: p') (c' :: q') v hpq
        · cases q with
          | nil => cases v <;> simp [getL, hma]
          | cons c' q' => simp [getL, hma]
      · simp only [hmc, if_false, getL]
        by_cases hma : m = a
        · simp [hma]
        · simp only [hma, if_false]
          exact getL_setL_frame cs a p c q v h
end
#print axioms get_set_frame
end T
