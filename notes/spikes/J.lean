namespace J
inductive Json where
  | null | bool (b : Bool) | int (z : Int) | str (s : String)
  | arr (xs : List Json)
  | obj (kvs : List (String × Json))

mutual
def isEqual : Json → Json → Bool
  | .null, .null => true
  | .bool a, .bool b => a == b
  | .int a, .int b => a == b
  | .str a, .str b => a == b
  | .arr xs, .arr ys => isEqualL xs ys
  | .obj a, .obj b => a.length == b.length && subObj a b
  | _, _ => false
def isEqualL : List Json → List Json → Bool
  | [], [] => true
  | x :: xs, y :: ys => isEqual x y && isEqualL xs ys
  | _, _ => false
/-- every key of `a` is in `b` with an equal value (Python: `key in value2 and is_equal(subvalue, value2[key])`) -/
def subObj : List (String × Json) → List (String × Json) → Bool
  | [], _ => true
  | (k, v) :: rest, b => lookupEq k v b && subObj rest b
def lookupEq (k : String) (v : Json) : List (String × Json) → Bool
  | [] => false
  | (k', v') :: b => if k == k' then isEqual v v' else lookupEq k v b
end

inductive H where
  | null | int (z : Int) | str (s : String) | tup (xs : List H)

mutual
def toH : Json → H
  | .null => .null
  | .bool true => .tup [.int 1]
  | .bool false => .tup [.int 2]
  | .int z => .int z
  | .str s => .str s
  | .arr xs => .tup (.int 0 :: toHL xs)
  | .obj kvs => .tup (toHO kvs)     -- (sorting elided in the spike)
def toHL : List Json → List H
  | [] => []
  | x :: xs => toH x :: toHL xs
def toHO : List (String × Json) → List H
  | [] => []
  | (k, v) :: r => .str k :: toH v :: toHO r
end

mutual
theorem isEqual_refl_arrfree : ∀ j : Json, (match j with | .obj _ => True | _ => True) → True := fun _ _ => trivial
end

mutual
theorem isEqualL_refl : ∀ xs : List Json, (∀ x ∈ xs, isEqual x x = true) → isEqualL xs xs = true
  | [], _ => by simp [isEqualL]
  | x :: xs, h => by
      simp only [isEqualL, Bool.and_eq_true]
      exact ⟨h x (by simp), isEqualL_refl xs (fun y hy => h y (by simp [hy]))⟩
end
#print axioms isEqualL_refl
end J
