namespace Toy
abbrev Path := Nat
abbrev Val := Nat
abbrev V := List (Path × Val)          -- virtual FS: file ↦ content

def V.read (v : V) (p : Path) : Option Val := (v.find? (·.1 == p)).map (·.2)
def V.write (v : V) (p : Path) (c : Val) : V := (p, c) :: v.filter (·.1 != p)

inductive Prog where
  | ret (v : Val)
  | fail
  | read (p : Path) (k : Option Val → Prog)
  | write (p : Path) (c : Val) (k : Prog)              -- build_file, collapsed
  | sub (name : Nat) (body : Prog) (k : Option Val → Prog)   -- subbuild; result none = raised

inductive Ev where
  | read (p : Path) (r : Option Val)
  | write (p : Path) (c : Val)
  | sub (name : Nat) (tr : List Ev) (r : Option Val)

abbrev Trace := List Ev

/-- from-scratch execution -/
def run (v : V) : Prog → Trace × Option Val × V
  | .ret x => ([], some x, v)
  | .fail => ([], none, v)
  | .read p k => let r := v.read p
                 let (t, o, v') := run v (k r)
                 (.read p r :: t, o, v')
  | .write p c k => let (t, o, v') := run (v.write p c) k
                    (.write p c :: t, o, v')
  | .sub n body k =>
      let (tb, ob, vb) := run v body
      let (t, o, v') := run vb (k ob)
      (.sub n tb ob :: t, o, v')

mutual
/-- replay a recorded trace against the current state -/
def replay (v : V) : Trace → Option V
  | [] => some v
  | e :: t => match replayEv v e with
              | some v' => replay v' t
              | none => none
def replayEv (v : V) : Ev → Option V
  | .read p r => if v.read p = r then some v else none
  | .write p c => some (v.write p c)
  | .sub _ tb _ => replay v tb
end

/-- `T` is a trace the program could produce (following its continuations along recorded answers) -/
inductive Follows : Prog → Trace → Option Val → Prop
  | ret x : Follows (.ret x) [] (some x)
  | fail : Follows .fail [] none
  | read p k r t o : Follows (k r) t o → Follows (.read p k) (.read p r :: t) o
  | write p c k t o : Follows k t o → Follows (.write p c k) (.write p c :: t) o
  | sub n body k tb ob t o : Follows body tb ob → Follows (k ob) t o →
      Follows (.sub n body k) (.sub n tb ob :: t) o

theorem run_follows (v : V) (p : Prog) : Follows p (run v p).1 (run v p).2.1 := by
  induction p generalizing v with
  | ret x => exact .ret x
  | fail => exact .fail
  | read p k ih => simp only [run]; exact .read _ _ _ _ _ (ih _ _)
  | write p c k ih => simp only [run]; exact .write _ _ _ _ _ (ih _)
  | sub n body k ihb ihk => simp only [run]; exact .sub _ _ _ _ _ _ _ (ihb _) (ihk _ _)

/-- soundness of replay: a successful replay predicts exactly what a from-scratch run does now -/
theorem replay_sound (p : Prog) (t : Trace) (o : Option Val) (h : Follows p t o) :
    ∀ v v', replay v t = some v' → run v p = (t, o, v') := by
  induction h with
  | ret x => intro v v' hr; simp [replay] at hr; simp [run, hr]
  | fail => intro v v' hr; simp [replay] at hr; simp [run, hr]
  | read p k r t o _ ih =>
      intro v v' hr
      simp only [replay, replayEv] at hr
      split at hr
      · rename_i v1 h1
        split at h1
        · rename_i heq; cases h1
          have := ih v v' hr
          simp [run, heq, this]
        · cases h1
      · cases hr
  | write p c k t o _ ih =>
      intro v v' hr
      simp only [replay, replayEv] at hr
      have := ih _ _ hr
      simp [run, this]
  | sub n body k tb ob t o _ _ ihb ihk =>
      intro v v' hr
      simp only [replay, replayEv] at hr
      split at hr
      · rename_i v1 h1
        have hb := ihb v v1 h1
        have hk := ihk v1 v' hr
        simp [run, hb, hk]
      · cases hr

/-- completeness: if a from-scratch run now would produce the recorded trace, replay succeeds -/
theorem replay_complete (p : Prog) (v : V) : replay v (run v p).1 = some (run v p).2.2 := by
  induction p generalizing v with
  | ret x => simp [run, replay]
  | fail => simp [run, replay]
  | read p k ih => simp [run, replay, replayEv, ih]
  | write p c k ih => simp [run, replay, replayEv, ih]
  | sub n body k ihb ihk => simp [run, replay, replayEv, ihb, ihk]
#print axioms replay_sound
end Toy
