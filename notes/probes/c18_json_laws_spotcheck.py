import sys, json, itertools
sys.path.insert(0,'/repo')
from file_builder.json_util import JsonUtil as J
atoms=[None,False,True,0,1,2,1.0,-0.0,0.0,"","0","a","1",2**63,float(2**63),float('inf'),-1, 2**53+1, float(2**53)]
def vals(n):
    if n==0: return list(atoms)
    sub=vals(n-1); out=list(sub)
    small=sub[:14] if n>1 else sub
    for a in small: out.append([a])
    for a,b in itertools.product(small[:10],repeat=2): out.append([a,b])
    for k in ["","a","0","1"]:
        for a in small: out.append({k:a})
    for a,b in itertools.product(small[:8],repeat=2): out.append({"a":a,"b":b}); out.append({"b":b,"a":a})
    out.append([]); out.append({})
    return out
V=vals(2); print(len(V))
import random; random.seed(1); S=V
bad=0
for a in S:
    ha=J.to_hashable(a)
    if not J.is_equal(a,a): print('refl',a); bad+=1
    for b in S:
        e=J.is_equal(a,b)
        if e!=J.is_equal(b,a): print('symm',a,b); bad+=1
        hb=J.to_hashable(b)
        if (ha==hb)!=e: print('hash',repr(a),repr(b),e,ha,hb); bad+=1
        if e and hash(ha)!=hash(hb): print('hashval',a,b); bad+=1
        if bad>10: sys.exit()
# sanitize vs json round trip incl. types
def same(x,y):
    if type(x)!=type(y): return False
    if isinstance(x,list): return len(x)==len(y) and all(same(p,q) for p,q in zip(x,y))
    if isinstance(x,dict): return list(x.keys())==list(y.keys()) and all(same(x[k],y[k]) for k in x)
    if isinstance(x,float): return x.hex()==y.hex()
    return x==y
pv=[(1,2),[(1,),{1:2,"1":3}],{True:1,None:2,1.5:3,2:4},{"a":(1,[2,(3,)])},{float('inf'):1,-0.0:2},{False:0,0.0:1}]
for v in S[:400]+pv:
    if not same(J.sanitize(v),json.loads(json.dumps(v))): print('san',repr(v),J.sanitize(v),json.loads(json.dumps(v))); bad+=1
print('bad',bad)
