import os, sys, tempfile, shutil, json, gzip, traceback, logging
sys.path.insert(0, '/repo')
from file_builder import FileBuilder, FileComparison
logging.disable(logging.CRITICAL)
def fresh(): return tempfile.mkdtemp(prefix='probe_')
def w(b, fn, txt='x'):
    with open(fn,'w') as f: f.write(txt)
# C05: caught failure that listed its own new directory
d = fresh(); cache = os.path.join(d, 'cache.gz')
calls=[]
def failing(b, fn):
    calls.append('f')
    l = b.list_dir(os.path.dirname(fn))   # lists its own new dir d/n
    e = b.is_dir(os.path.dirname(fn))
    raise ValueError(str((l,e)))
def S(b):
    calls.append('S')
    try: b.build_file(os.path.join(d,'n','f'), 'failing', failing)
    except ValueError as e: return str(e)
def root(b): return b.subbuild('S', S)
for i in range(3):
    print(FileBuilder.build(cache,'n',root), calls, sorted(os.listdir(d)))
with gzip.open(cache,'rt') as f: print(json.dumps(json.load(f), indent=None)[:1500])
