import os, sys, tempfile, shutil, json, gzip
sys.path.insert(0, '/repo')
from file_builder import FileBuilder, FileComparison
def fresh(): return tempfile.mkdtemp(prefix='probe_')
def w(b, fn, txt='x'):
    with open(fn,'w') as f: f.write(txt)

# stale dir: build 1 creates d/out/sub/f ; build 2 does not build it, queries d/out/sub
d = fresh(); cache = os.path.join(d, 'cache.gz')
def root1(b):
    b.build_file(os.path.join(d,'out','sub','f'), 'w', w)
FileBuilder.build(cache,'n',root1)
def q(b, p):
    res = {}
    for name in ['exists','is_file','is_dir','list_dir','walk','get_size']:
        try: res[name] = getattr(b,name)(p)
        except OSError as e: res[name] = type(e).__name__
    try: b.declare_read(p); res['read']='ok'
    except OSError as e: res['read'] = type(e).__name__
    return res
def root2(b):
    for p in ['out','out/sub','out/sub/f','cache.gz','out/sub/f/x']:
        print(p, q(b, os.path.join(d,p)))
FileBuilder.build(cache,'n',root2)
print(sorted(os.listdir(d)))

# cache dir visibility
d = fresh(); cache = os.path.join(d, 'cdir', 'cache.gz')
def root3(b):
    return (b.is_dir(os.path.join(d,'cdir')), b.list_dir(d), b.walk(d))
print(FileBuilder.build(cache,'n',root3))
print(FileBuilder.build(cache,'n',root3))
print(FileBuilder.build(cache,'n',root3))
