import os, sys, tempfile, shutil, json, gzip, traceback, logging
sys.path.insert(0, '/repo')
from file_builder import FileBuilder, FileComparison
logging.disable(logging.CRITICAL)
def fresh(): return tempfile.mkdtemp(prefix='probe_')
def w(b, fn, txt='x'):
    with open(fn,'w') as f: f.write(txt)
def tree(d):
    out=[]
    for r,ds,fs in os.walk(d):
        for x in ds: out.append(os.path.relpath(os.path.join(r,x),d)+'/')
        for x in fs: out.append(os.path.relpath(os.path.join(r,x),d))
    return sorted(out)
# C02: output deleted externally then rebuilt by failing build
d = fresh(); cache = os.path.join(d, 'cache.gz')
def root(b, fail):
    b.build_file(os.path.join(d,'o','f'), 'w', w)
    if fail: raise ValueError('x')
FileBuilder.build(cache,'n',root, False)
os.remove(os.path.join(d,'o','f'))
print('before', tree(d))
try: FileBuilder.build(cache,'n',root, True)
except ValueError: pass
print('after ', tree(d))

# variant: remove whole dir o too
d = fresh(); cache = os.path.join(d, 'cache.gz')
FileBuilder.build(cache,'n',root, False)
shutil.rmtree(os.path.join(d,'o'))
print('before', tree(d))
try: FileBuilder.build(cache,'n',root, True)
except ValueError: pass
print('after ', tree(d))
