import os, sys, tempfile, shutil, json, gzip, logging, pathlib, random
sys.path.insert(0, '/repo')
from file_builder import FileBuilder, FileComparison as FC
logging.disable(logging.CRITICAL)
tmpbase=tempfile.mkdtemp(prefix='tb_'); tempfile.tempdir=tmpbase
d=tempfile.mkdtemp(prefix='probe_'); cache=os.path.join(d,'c.gz')
def w(b,fn,*a,**k): open(fn,'w').write('x'); return [a,k]
calls=[]
def root(b):
    calls.append(1)
    return b.build_file(os.path.join(d,'o','f'),'w',w)
FileBuilder.build(cache,'n',root)
good=open(cache,'rb').read()
def snap():
    out={}
    for r,ds,fs in os.walk(d):
        for x in ds: out[os.path.join(r,x)]='d'
        for x in fs:
            p=os.path.join(r,x); st=os.stat(p); out[p]=(open(p,'rb').read(),st.st_mtime_ns,st.st_ino)
    return out, sorted(os.listdir(tmpbase))
def attempt(label, fn):
    before=snap(); n=len(calls)
    try: fn(); res='returned'
    except BaseException as e: res=type(e).__name__
    after=snap()
    same = before==after and len(calls)==n
    print('%-34s %-18s side-effect-free=%s' % (label,res,same))
rng=random.Random(0)
variants={'truncated':good[:len(good)//2],'empty':b'','notgzip':b'hello world','bitflip':bytes([good[i]^ (1 if i==len(good)//2 else 0) for i in range(len(good))]),
 'gzip-nonjson':gzip.compress(b'not json'),'json-list':gzip.compress(b'[1,2]'),'other-software':gzip.compress(json.dumps({'software':'x'}).encode()),
 'newer-version':gzip.compress(json.dumps({'software':'file_builder','cacheFileVersion':2}).encode()),
 'missing-keys':gzip.compress(json.dumps({'software':'file_builder','cacheFileVersion':None}).encode()),
 'bad-rootops':gzip.compress(json.dumps({'software':'file_builder','cacheFileVersion':None,'rootOperations':[{'type':'build_file'}],'buildName':'n','createdDirs':[],'funcVersions':{},'operationVersions':{}}).encode())}
for k,v in variants.items():
    open(cache,'wb').write(v)
    attempt('build  '+k, lambda: FileBuilder.build(cache,'n',root))
    attempt('clean  '+k, lambda: FileBuilder.clean(cache,'n'))
open(cache,'wb').write(good)
attempt('build wrong name', lambda: FileBuilder.build(cache,'other',root))
attempt('clean wrong name', lambda: FileBuilder.clean(cache,'other'))
attempt('build name not str', lambda: FileBuilder.build(cache,3,root))
attempt('build func not callable', lambda: FileBuilder.build(cache,'n',3))
attempt('versions not dict', lambda: FileBuilder.build_versioned(cache,'n',[1],root))
attempt('versions not json', lambda: FileBuilder.build_versioned(cache,'n',{'a':object()},root))
attempt('cache path is dir', lambda: FileBuilder.build(os.path.join(d,'o'),'n',root))
attempt('clean path is dir', lambda: FileBuilder.clean(os.path.join(d,'o'),'n'))
attempt('cache path int', lambda: FileBuilder.build(3,'n',root))
shutil.rmtree(d); shutil.rmtree(tmpbase)
