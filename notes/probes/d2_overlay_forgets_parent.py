import os, sys, tempfile, shutil, json, gzip, traceback
sys.path.insert(0, '/repo')
from file_builder import FileBuilder, FileComparison
def fresh(): return tempfile.mkdtemp(prefix='probe_')
def w(b, fn, txt='x'):
    with open(fn,'w') as f: f.write(txt)

# cached subtree: subbuild S catches failure of build_file d/p/f (fails), and also builds d/p/q/g nested?
d = fresh(); cache = os.path.join(d, 'cache.gz')
calls=[]
def failing(b, fn):
    # nested: build a file in a nested directory under the same parent, then fail
    b.build_file(os.path.join(d,'p','q','g'), 'w', w)
    raise ValueError('boom')
def S(b):
    calls.append('S')
    try:
        b.build_file(os.path.join(d,'p','f'), 'failing', failing)
    except ValueError:
        pass
    return 1
def root(b): return b.subbuild('S', S)
for i in range(3):
    try:
        print(FileBuilder.build(cache,'n',root), calls)
    except Exception:
        traceback.print_exc()
    for r,ds,fs in os.walk(d): print('  ', r, ds, fs)
