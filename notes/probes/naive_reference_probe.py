import os, sys, tempfile, shutil, json, gzip, random, logging, traceback, hashlib
sys.path.insert(0, os.environ.get('FB_REPO','/repo'))
from file_builder import FileBuilder, FileComparison
logging.disable(logging.CRITICAL)

NAMES = ['a','b','c']
def all_paths(depth=3):
    out=[]
    def rec(p,d):
        if d==0: return
        for n in NAMES:
            q=p+[n]; out.append('/'.join(q)); rec(q,d-1)
    rec([],depth); return out
PATHS = all_paths(3)

class UserExc(Exception): pass

# ---------- naive from-scratch builder (the reference) ----------
class Naive:
    def __init__(s, root, shared): s.root=root; s.sh=shared
    def _abs(s,p): return os.path.abspath(p)
    def _hidden(s,p): return p in s.sh['inprog'] or p==s.sh['cache']
    def is_file(s,p):
        p=s._abs(p); return (not s._hidden(p)) and os.path.isfile(p)
    def is_dir(s,p):
        p=s._abs(p); return os.path.isdir(p)
    def exists(s,p): return s.is_file(p) or s.is_dir(p)
    def list_dir(s,p):
        p=s._abs(p)
        if not s.is_dir(p):
            if s.is_file(p): raise NotADirectoryError()
            raise FileNotFoundError()
        return sorted(n for n in os.listdir(p) if s.exists(os.path.join(p,n)))
    def walk(s,p,top_down=True):
        p=s._abs(p); res=[]
        def rec(d):
            subs=[];fs=[]
            for n in s.list_dir(d):
                (fs if s.is_file(os.path.join(d,n)) else subs).append(n)
            if top_down: res.append((d,subs,fs))
            for n in subs: rec(os.path.join(d,n))
            if not top_down: res.append((d,subs,fs))
        if s.is_dir(p): rec(p)
        return res
    def get_size(s,p):
        p=s._abs(p)
        if not s.exists(p): raise FileNotFoundError()
        return os.path.getsize(p)
    def declare_read(s,p,cmp=None):
        p=s._abs(p)
        if not s.is_file(p):
            if s.is_dir(p): raise IsADirectoryError()
            raise FileNotFoundError()
    def build_file(s,path,fname,func,*args,**kw):
        path=s._abs(path); sh=s.sh
        if path in sh['claimed']: raise RuntimeError('dup')
        if path==sh['cache']: raise RuntimeError('cachefile')
        if os.path.isdir(path): raise IsADirectoryError()
        # parents
        need=[]; d=os.path.dirname(path)
        while not s.is_dir(d):
            if s.is_file(d) : raise NotADirectoryError()
            if d==sh['cache']: raise NotADirectoryError()
            need.append(d); d=os.path.dirname(d)
        need.reverse()
        for d in need:
            if d in sh['inprog']: raise AssertionError('obligation')
            os.mkdir(d)
        if os.path.isfile(path): os.remove(path)
        sh['claimed'].add(path); sh['inprog'].add(path)
        for d in need: sh['created'].append(d)
        try:
            r=func(Naive(s.root,sh),path,*json.loads(json.dumps(args)),**json.loads(json.dumps(kw)))
            r=json.loads(json.dumps(r))
            if not os.path.isfile(path): raise RuntimeError('not created')
        except Exception:
            sh['inprog'].discard(path)
            if os.path.isfile(path): os.remove(path)
            for d in reversed(need):
                try: os.rmdir(d); sh['created'].remove(d)
                except OSError: break
            raise
        sh['inprog'].discard(path); sh['outputs'].append(path)
        return r
    def subbuild(s,fname,func,*args,**kw):
        key=json.dumps([fname,args,kw],sort_keys=True)
        if key in s.sh['claimed']: raise RuntimeError('dup')
        s.sh['claimed'].add(key)
        return json.loads(json.dumps(func(Naive(s.root,s.sh),*json.loads(json.dumps(args)),**json.loads(json.dumps(kw)))))

def naive_build(root, cache, func):
    """from-scratch reference on directory `root` (cache file holds json of outputs/created)."""
    backup=tempfile.mkdtemp(prefix='nb_'); shutil.rmtree(backup); shutil.copytree(root,backup,symlinks=True)
    for r_,ds,fs in os.walk(backup):
        for f in fs:
            src=os.path.join(root,os.path.relpath(os.path.join(r_,f),backup)); st=os.stat(src); os.utime(os.path.join(r_,f),ns=(st.st_atime_ns,st.st_mtime_ns))
    old={'outputs':[],'created':[]}
    if os.path.isfile(cache):
        old=json.load(open(cache))
    for f in old['outputs']:
        if os.path.isfile(f): os.remove(f)
    if os.path.isfile(cache): os.remove(cache)
    for d in sorted(old['created'],key=lambda x:-len(x)):
        try: os.rmdir(d)
        except OSError: pass
    sh={'cache':cache,'claimed':set(),'inprog':set(),'outputs':[],'created':[]}
    try:
        r=func(Naive(root,sh))
    except Exception as e:
        shutil.rmtree(root); shutil.copytree(backup,root,symlinks=True)
        for r_,ds,fs in os.walk(backup):
            for f in fs:
                st=os.stat(os.path.join(r_,f)); os.utime(os.path.join(root,os.path.relpath(os.path.join(r_,f),backup)),ns=(st.st_atime_ns,st.st_mtime_ns))
        shutil.rmtree(backup); raise
    shutil.rmtree(backup)
    json.dump({'outputs':sh['outputs'],'created':sh['created']},open(cache,'w'))
    return r
def naive_clean(root,cache):
    if not os.path.exists(cache): return
    old=json.load(open(cache))
    for f in old['outputs']:
        if os.path.isfile(f): os.remove(f)
    os.remove(cache)
    for d in sorted(old['created'],key=lambda x:-len(x)):
        try: os.rmdir(d)
        except OSError: pass

# ---------- random programs ----------
def gen_func(rng, idx, nfuncs, kind):
    stmts=[]
    for _ in range(rng.randint(0,4)):
        c=rng.random()
        if c<0.45:
            stmts.append(('q',rng.choice(['is_file','is_dir','exists','list_dir','walk','get_size','declare_read']),rng.choice(PATHS+[''])))
        elif c<0.7 and idx+1<nfuncs:
            stmts.append(('bf',rng.choice(PATHS),rng.randrange(idx+1,nfuncs),rng.random()<0.6))
        elif c<0.9 and idx+1<nfuncs:
            stmts.append(('sb',rng.randrange(idx+1,nfuncs),rng.randint(0,1),rng.random()<0.6))
        elif c<0.95:
            stmts.append(('raise',))
    w = rng.choice(['first','last','none']) if True else None
    return {'stmts':stmts,'write':rng.choice(['yes','yes','yes','no','fail_after'])}

def gen_prog(rng):
    n=rng.randint(2,6)
    return [gen_func(rng,i,n,None) for i in range(n)]

def run_func(prog, idx, root, b, target, arg, log):
    log.append(idx)
    f=prog[idx]; acc=[arg]
    def P(p): return os.path.join(root,p) if p else root
    def norm(v):
        if isinstance(v,(list,tuple)): return [norm(x) for x in v]
        if isinstance(v,str) and v.startswith(root): return '<R>'+v[len(root):]
        return v
    if target is not None and f['write'] in('yes','fail_after'):
        pass
    for st in f['stmts']:
        if st[0]=='q':
            try: acc.append(norm(getattr(b,st[1])(P(st[2]))))
            except OSError as e: acc.append(type(e).__name__)
        elif st[0]=='bf':
            def body(bb,fn,a,_j=st[2]): return run_func(prog,_j,root,bb,fn,a,log)
            try: acc.append(b.build_file(P(st[1]),'f%d'%st[2],body,0))
            except (UserExc,RuntimeError,OSError) as e:
                if not st[3]: raise
                acc.append('EXC:'+type(e).__name__)
        elif st[0]=='sb':
            def body(bb,a,_j=st[1]): return run_func(prog,_j,root,bb,None,a,log)
            try: acc.append(b.subbuild('f%d'%st[1],body,st[2]))
            except (UserExc,RuntimeError,OSError) as e:
                if not st[3]: raise
                acc.append('EXC:'+type(e).__name__)
        elif st[0]=='raise':
            raise UserExc(idx)
    if target is not None and f['write'] in('yes','fail_after'):
        with open(target,'w') as fh: fh.write(hashlib.md5(json.dumps(acc).encode()).hexdigest()[:6])
        if f['write']=='fail_after': raise UserExc(idx)
    return acc

def snapshot(root, cache):
    out={}
    for r_,ds,fs in os.walk(root):
        for d in ds: out[os.path.relpath(os.path.join(r_,d),root)+'/']=None
        for f in fs:
            p=os.path.join(r_,f)
            if p==cache: out[os.path.relpath(p,root)]='<cache>'
            else: out[os.path.relpath(p,root)]=open(p,'rb').read()
    return out

def mutate(rng, roots, caches):
    kind=rng.choice(['write','write','delete','deltree','mkdir','touch'])
    p=rng.choice(PATHS)
    content='m%d'%rng.randint(0,9)
    t=rng.randint(1,10**6)
    for root,cache in zip(roots,caches):
        q=os.path.join(root,p)
        try:
            if kind=='write':
                if os.path.isdir(q): continue
                os.makedirs(os.path.dirname(q),exist_ok=True) if not os.path.lexists(os.path.dirname(q)) else None
                if not os.path.isdir(os.path.dirname(q)): continue
                open(q,'w').write(content)
            elif kind=='delete':
                if os.path.isfile(q): os.remove(q)
            elif kind=='deltree':
                if os.path.isdir(q): shutil.rmtree(q)
            elif kind=='mkdir':
                if not os.path.lexists(q) and os.path.isdir(os.path.dirname(q)): os.mkdir(q)
            elif kind=='touch':
                if os.path.isfile(q): os.utime(q,ns=(t,t))
        except OSError: pass
    return (kind,p)

def one_case(seed):
    rng=random.Random(seed)
    A=tempfile.mkdtemp(prefix='fzA_'); B=tempfile.mkdtemp(prefix='fzB_')
    ca=os.path.join(A,'cache.gz'); cb=os.path.join(B,'cache.gz')
    prog=gen_prog(rng); hist=[]
    try:
        for m in range(rng.randint(0,3)): hist.append(('mut',mutate(rng,[A,B],[ca,cb])))
        for step in range(rng.randint(2,5)):
            c=rng.random()
            if c<0.15:
                FileBuilder.clean(ca,'n'); naive_clean(B,cb); hist.append(('clean',))
            else:
                fail = rng.random()<0.2
                la=[];lb=[]
                def rootA(b):
                    r=run_func(prog,0,A,b,None,0,la)
                    if fail: raise UserExc('root')
                    return r
                def rootB(b):
                    r=run_func(prog,0,B,b,None,0,lb)
                    if fail: raise UserExc('root')
                    return r
                try: ra=('ok',FileBuilder.build(ca,'n',rootA))
                except Exception as e: ra=('exc',type(e).__name__)
                try: rb=('ok',naive_build(B,cb,rootB))
                except Exception as e: rb=('exc',type(e).__name__)
                hist.append(('build',fail,ra[0]))
                if rb==('exc','AssertionError'): return None
                if ra!=rb: return ('RESULT',seed,hist,ra,rb,prog)
            sa=snapshot(A,ca); sb=snapshot(B,cb)
            if sa!=sb:
                diff={k:(sa.get(k,'<absent>'),sb.get(k,'<absent>')) for k in set(sa)|set(sb) if sa.get(k,'<absent>')!=sb.get(k,'<absent>')}
                return ('TREE',seed,hist,diff,prog)
            for m in range(rng.randint(0,2)): hist.append(('mut',mutate(rng,[A,B],[ca,cb])))
        return None
    finally:
        shutil.rmtree(A,ignore_errors=True); shutil.rmtree(B,ignore_errors=True)

if __name__=='__main__':
    lo,hi=int(sys.argv[1]),int(sys.argv[2])
    bad=0
    for s in range(lo,hi):
        try: r=one_case(s)
        except Exception as e:
            r=('HARNESS',s,traceback.format_exc()[-600:])
        if r:
            bad+=1
            print(json.dumps(r,default=str)[:1500]); print()
            if bad>=int(sys.argv[3]) : break
    print('done',lo,hi,'bad',bad)
