import os, sys, tempfile, shutil, json, gzip, traceback, logging
sys.path.insert(0, '/repo')
from file_builder import FileBuilder, FileComparison
logging.disable(logging.CRITICAL)
def fresh(): return tempfile.mkdtemp(prefix='probe_')
def w(b, fn, txt='x'):
    with open(fn,'w') as f: f.write(txt)
def tree(d):
    out=[]
    for r,ds,fs in os.walk(d):
        for x in ds: out.append(os.path.relpath(os.path.join(r,x),d)+'/')
        for x in fs: out.append(os.path.relpath(os.path.join(r,x),d))
    return sorted(out)
# C10: over-long component => mkdir fails part-way
d = fresh(); cache = os.path.join(d, 'cache.gz')
long = 'L'*300
def root(b):
    try:
        b.build_file(os.path.join(d,'a',long,'c','f'), 'w', w)
    except OSError as e:
        print('caught', type(e).__name__)
    print('virt is_dir a', b.is_dir(os.path.join(d,'a')), 'list', b.list_dir(d))
    return 1
print(FileBuilder.build(cache,'n',root)); print(tree(d))
print(FileBuilder.build(cache,'n',root)); print(tree(d))
FileBuilder.clean(cache,'n'); print('clean', tree(d))

# paths: // prefix
print(FileBuilder._sanitize_filename('//tmp/x'), FileBuilder._sanitize_filename('/tmp//x/../x/'), FileBuilder._sanitize_filename(b'/tmp/x'))
