import os, sys, tempfile, shutil, json, gzip, traceback, logging, threading
sys.path.insert(0, '/repo')
from file_builder import FileBuilder, FileComparison
import file_builder.build_dirs as bd
logging.disable(logging.CRITICAL)
def fresh(): return tempfile.mkdtemp(prefix='probe_')
def w(b, fn, txt='x'):
    with open(fn,'w') as f: f.write(txt)
d = fresh(); cache = os.path.join(d, 'cache.gz')
t1_made = threading.Event(); t2_started = threading.Event()
real_mkdir = os.mkdir
def mkdir(p, *a, **k):
    real_mkdir(p, *a, **k)
    if p == os.path.join(d,'n') :
        t1_made.set(); t2_started.wait(5)
os.mkdir = mkdir
orig = bd.BuildDirs.started_building_file
def sbf(self, filename, created):
    r = orig(self, filename, created)
    if filename.endswith('b'): t2_started.set()
    return r
bd.BuildDirs.started_building_file = sbf
def root(b):
    def a(): b.build_file(os.path.join(d,'n','a'),'w',w)
    def bb():
        t1_made.wait(5); b.build_file(os.path.join(d,'n','b'),'w',w)
    ts=[threading.Thread(target=a),threading.Thread(target=bb)]
    [t.start() for t in ts]; [t.join() for t in ts]
FileBuilder.build(cache,'n',root)
with gzip.open(cache,'rt') as f: print(json.load(f)['createdDirs'])
FileBuilder.clean(cache,'n'); print(os.listdir(d))

# C17: straggler build_file racing with owner's return
os.mkdir = real_mkdir; bd.BuildDirs.started_building_file = orig
d = fresh(); cache = os.path.join(d, 'cache.gz')
entered = threading.Event(); owner_done = threading.Event()
import file_builder.file_builder as fbm
orig_san = fbm.FileBuilder._sanitize_args
def san(args, kwargs, desc):
    if 'strag' in desc: entered.set(); owner_done.wait(5)
    return orig_san(args, kwargs, desc)
fbm.FileBuilder._sanitize_args = staticmethod(san)
res = {}
def S(b):
    def strag():
        try: b.build_file(os.path.join(d,'strag'),'w',w); res['r']='returned'
        except Exception as e: res['r']=repr(e)
    t = threading.Thread(target=strag); t.start(); res['t']=t
    entered.wait(5)
    return 1
def root2(b):
    v = b.subbuild('S', S)
    owner_done.set(); res['t'].join()
    return v
print(FileBuilder.build(cache,'n',root2), res['r'], os.listdir(d))
with gzip.open(cache,'rt') as f: print([ (o['type'], o.get('filename'), len(o['suboperations'])) for o in json.load(f)['rootOperations']])
