# effectiveness probe (C05): after each committed build, two unchanged rebuilds; second must only invoke justified calls
import fz, os, sys, random, tempfile, shutil, json, gzip, traceback
from fz import *
def keyof(idx,target,arg): return ('bf',target) if target else ('sb','f%d'%idx,arg)
def index_cache(cache):
    j=json.load(gzip.open(cache,'rt')); recs={}
    def has_sf(op):
        if op.get('setupFailed'): return True
        return any(has_sf(s) for s in op.get('suboperations',[]))
    def rec(op):
        t=op['type']
        if t=='build_file': k=('bf',op['filename'])
        elif t=='subbuild': k=('sb',op['funcName'],op['args'][0])
        else: return
        if not op.get('setupFailed'):
            recs[k]={'raised':op.get('raised',False),'sf':has_sf(op)}
        for s in op['suboperations']: rec(s)
    for o in j['rootOperations']: rec(o)
    return recs
def one(seed):
    rng=random.Random(seed)
    A=tempfile.mkdtemp(prefix='fzA_'); ca=os.path.join(A,'cache.gz')
    prog=gen_prog(rng)
    try:
        for m in range(rng.randint(0,3)): mutate(rng,[A],[ca])
        for step in range(rng.randint(1,3)):
            logs=[]
            for rep in range(3):
                la=[]
                orig=fz.run_func
                def rootA(b): return run_func2(prog,0,A,b,None,0,la)
                try: FileBuilder.build(ca,'n',rootA)
                except Exception: break
                logs.append(la)
                if rep==1: recs=index_cache(ca)
            else:
                for (idx,target,arg,status) in logs[2]:
                    if idx==0: continue
                    k=keyof(idx,target,arg); r=recs.get(k)
                    if r is None or r['raised'] or r['sf']: continue
                    return ('UNJUSTIFIED',seed,step,k,status,prog)
            for m in range(rng.randint(1,2)): mutate(rng,[A],[ca])
        return None
    finally: shutil.rmtree(A,ignore_errors=True)
def run_func2(prog, idx, root, b, target, arg, log):
    entry=[idx,target,arg,'ok']; log.append(entry)
    l2=[]
    try:
        # reuse fz.run_func but intercept nested calls via monkeypatching recursion
        return _rf(prog, idx, root, b, target, arg, log)
    except Exception:
        entry[3]='raised'; raise
def _rf(prog, idx, root, b, target, arg, log):
    f=prog[idx]; acc=[arg]
    def P(p): return os.path.join(root,p) if p else root
    def norm(v):
        if isinstance(v,(list,tuple)): return [norm(x) for x in v]
        if isinstance(v,str) and v.startswith(root): return '<R>'+v[len(root):]
        return v
    for st in f['stmts']:
        if st[0]=='q':
            try: acc.append(norm(getattr(b,st[1])(P(st[2]))))
            except OSError as e: acc.append(type(e).__name__)
        elif st[0]=='bf':
            def body(bb,fn,a,_j=st[2]): return run_func2(prog,_j,root,bb,fn,a,log)
            try: acc.append(b.build_file(P(st[1]),'f%d'%st[2],body,0))
            except (UserExc,RuntimeError,OSError) as e:
                if not st[3]: raise
                acc.append('EXC:'+type(e).__name__)
        elif st[0]=='sb':
            def body(bb,a,_j=st[1]): return run_func2(prog,_j,root,bb,None,a,log)
            try: acc.append(b.subbuild('f%d'%st[1],body,st[2]))
            except (UserExc,RuntimeError,OSError) as e:
                if not st[3]: raise
                acc.append('EXC:'+type(e).__name__)
        elif st[0]=='raise': raise UserExc(idx)
    if target is not None and f['write'] in('yes','fail_after'):
        with open(target,'w') as fh: fh.write(hashlib.md5(json.dumps(acc).encode()).hexdigest()[:6])
        if f['write']=='fail_after': raise UserExc(idx)
    return acc
if __name__=='__main__':
    lo,hi=int(sys.argv[1]),int(sys.argv[2]); bad=0
    for s in range(lo,hi):
        try: r=one(s)
        except Exception: r=('HARNESS',s,traceback.format_exc()[-500:])
        if r:
            bad+=1; print(json.dumps(r,default=str)[:1200]); print()
            if bad>=int(sys.argv[3]): break
    print('done',lo,hi,'bad',bad)
