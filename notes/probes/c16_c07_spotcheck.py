import os, sys, tempfile, shutil, json, gzip, logging, pathlib
sys.path.insert(0, '/repo')
from file_builder import FileBuilder, FileComparison as FC
logging.disable(logging.CRITICAL)
d=tempfile.mkdtemp(prefix='probe_'); cache=os.path.join(d,'c.gz')
names=['a b','.hidden','ü','日本','😀','x\ty','-dash', os.fsdecode(b'bad\xff'), 'q"uote','back\\slash']
vals=[2**70,-2**63,1.5,-0.0,1e308,float('inf'),'\ud800' if False else 'é 😀',[1,[2,[3,{'k':[None,True,False]}]]],{'':0,'a b':{'ü':1.0}},'',0,1.0,True]
def same(x,y):
    if type(x)!=type(y): return False
    if isinstance(x,list): return len(x)==len(y) and all(same(p,q) for p,q in zip(x,y))
    if isinstance(x,dict): return set(x)==set(y) and all(same(x[k],y[k]) for k in x)
    if isinstance(x,float): return x.hex()==y.hex()
    return x==y
calls=[]
def w(b,fn,v): calls.append(fn); open(fn,'w').write('x'); return v
def sb(b,v): calls.append('sb'); return v
def root(b):
    out=[]
    for i,n in enumerate(names):
        out.append(b.build_file(os.path.join(d,n,n),'w',w,vals[i%len(vals)]))
    for v in vals:
        if v is not 0 and not (v==1.0 and type(v) is float): out.append(b.subbuild('sb',sb,v))
    return out
r1=FileBuilder.build(cache,'n',root); n1=len(calls)
r2=FileBuilder.build(cache,'n',root); n2=len(calls)-n1
print('first invocations',n1,'second',n2,'values same-typed-equal',same(r1,r2))
j=json.load(gzip.open(cache,'rt')); print('createdDirs',len(j['createdDirs']),'roots',len(j['rootOperations']))
FileBuilder.clean(cache,'n'); print('after clean', os.listdir(d))
# C07 spellings
os.chdir(d)
calls.clear()
def root2(b):
    res=[]
    for sp in ['t/f', b't/f', pathlib.Path('t/f'), './t//f', 't/x/../f', d+'/t/f', 't/f/']:
        try: b.build_file(sp,'w',w,0); res.append('built')
        except RuntimeError as e: res.append('dup')
        except OSError as e: res.append(type(e).__name__)
    return res
print(FileBuilder.build(cache,'n',root2), calls)
# args identity: tuple vs list, 1 vs 1.0, True vs 1, key order, non-string keys
def root3(b):
    res=[]
    for a in [(1,2),[1,2],[1.0,2],[True,2],{'a':1,'b':2},{'b':2,'a':1},{1:0},{'1':0},[2,1]]:
        try: res.append(('ran',b.subbuild('sb',sb,a)))
        except RuntimeError: res.append('dup')
    return res
print(FileBuilder.build(cache,'n',root3))
os.chdir('/'); shutil.rmtree(d)
