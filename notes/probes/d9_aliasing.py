import os, sys, tempfile, shutil, json, gzip
sys.path.insert(0, '/repo')
from file_builder import FileBuilder, FileComparison

def fresh():
    d = tempfile.mkdtemp(prefix='probe_')
    return d

# --- C11: aliasing of returned value
d = fresh(); cache = os.path.join(d, 'cache.gz')
def sub(b): return [1]
def root(b):
    r = b.subbuild('sub', sub)
    r.append(99)
    return list(r)
print('C11 ret', [FileBuilder.build(cache, 'n', root) for _ in range(3)])

# list_dir aliasing
d = fresh(); cache = os.path.join(d, 'cache.gz')
os.mkdir(os.path.join(d,'in')); open(os.path.join(d,'in','a'),'w').close(); open(os.path.join(d,'in','b'),'w').close()
calls=[]
def sub2(b):
    calls.append(1)
    l = b.list_dir(os.path.join(d,'in'))
    l.remove('a')
    return len(l)
def root2(b): return b.subbuild('sub2', sub2)
for i in range(3):
    print('C11 listdir', FileBuilder.build(cache,'n',root2), len(calls))
