import os, sys, tempfile, shutil, json, gzip, logging
sys.path.insert(0, '/repo')
from file_builder import FileBuilder, FileComparison as FC
logging.disable(logging.CRITICAL)
d=tempfile.mkdtemp(prefix='probe_'); cache=os.path.join(d,'c.gz'); inp=os.path.join(d,'in')
def setf(p,txt,t): open(p,'w').write(txt); os.utime(p,ns=(t,t))
log=[]
def leaf(b,cmp):
    log.append('leaf'+cmp); b.declare_read(inp, FC[cmp]); return open(inp).read()
def mid(b,cmp):
    log.append('mid'+cmp); return b.subbuild('leaf',leaf,cmp)
def out(b,fn,cmp):
    log.append('out'+cmp); v=b.subbuild('mid',mid,cmp); open(fn,'w').write(v); return v
def root(b):
    return [b.build_file_with_comparison(os.path.join(d,'o'+c),FC[c],'out',out,c) for c in ('HASH','METADATA')]
def run(vers={}):
    log.clear(); r=FileBuilder.build_versioned(cache,'n',vers,root); return r,sorted(log)
setf(inp,'aaaa',10**9); print('first',run())
print('unchanged',run())
setf(inp,'bbbb',10**9); print('content changed, metadata same ->', run())
setf(inp,'bbbb',2*10**9); print('touch only ->', run())
# tamper outputs: same size+mtime different bytes
for c in ('HASH','METADATA'):
    p=os.path.join(d,'o'+c); st=os.stat(p); open(p,'w').write('zzzz'); os.utime(p,ns=(st.st_atime_ns,st.st_mtime_ns))
print('outputs tampered, metadata same ->', run())
print('version of leaf changed ->', run({'leaf':1}))
print('version leaf 1 -> 1.0 ->', run({'leaf':1.0}))
print('version leaf 1.0 -> True ->', run({'leaf':True}))
print('version mid absent -> None ->', run({'leaf':True,'mid':None}))
print('version dict reorder', run({'leaf':True,'out':{'a':1,'b':2}})[1], run({'out':{'b':2,'a':1},'leaf':True})[1])
shutil.rmtree(d)
