"""Regenerate /verif/MANIFEST.json from the tables in fbh/props.py and validate it."""
import json
import os
import sys

sys.path.insert(0, os.path.dirname(os.path.abspath(__file__)))
from fbh import props  # noqa: E402

VERIF = os.path.dirname(os.path.dirname(os.path.abspath(__file__)))
ALL = ['C%02d' % i for i in range(1, 19)]

BASELINE = ('cd /repo && /venv/bin/python -m pytest -ra -q -p no:cacheprovider --timeout=900 '
            '--continue-on-collection-errors')

manifest = {
    'version': 1,
    'setup_cmd': 'cd lean && lake build FB fbdriver',
    'hooks': {
        'guard': 'FILE_BUILDER_VERIF',
        'enable': 'FILE_BUILDER_VERIF=1 is exported by the harness; no source hook exists in /repo: the harness '
                  'intercepts os.*, gzip.open, threading.Lock and function entry from outside the library',
        'baseline_off_cmd': BASELINE,
        'source_commits': [],
        'add_only': True,
    },
    'engines': [
        {'name': 'lean-model', 'path': 'lean', 'serves_properties': ALL,
         'kind_free_text': 'Lean 4 executable model (FB.*) with property theorems in FB/Props; fbdriver runs it over a JSON line protocol'},
        {'name': 'harness', 'path': 'harness', 'serves_properties': ALL,
         'kind_free_text': 'Python correspondence/oracle harness: generates DSL programs x histories, runs the real FileBuilder from /repo in a sandbox and the model, diffs canonical observations'},
    ],
    'checks': [],
    'not_applicable': [],
    'notes': 'Every check: (1) proof gate = lake build + forbidden-construct scan + #print axioms of the property theorems, '
             '(2) correspondence of the model with /repo on the property slice, (3) oracle search for a failing input on the real code. '
             'See DESIGN.md. Fixed defects and known findings: known_findings.json.',
}
for p in ALL:
    if p in props.CHECKS:
        info = props.LEVELS[p]
        manifest['checks'].append({
            'property_id': p,
            'quick_cmd': './check %s --tier quick' % p,
            'thorough_cmd': './check %s --tier thorough' % p,
            'evidence_file': 'evidence/%s.json' % p,
            'replay_cmd_template': './check %s --replay {path}' % p,
            'engine': 'lean-model + harness',
            'level_claimed': {'category': info['category'], 'text': info['text'], 'design_ref': info.get('ref', 'DESIGN.md section 3')},
            'level_note': info['note'],
            'technique': info['technique'],
        })
    else:
        manifest['not_applicable'].append({'property_id': p, 'reason': props.NOT_YET.get(p, 'check not built yet in this round; planned in DESIGN.md section 3')})

with open(os.path.join(VERIF, 'MANIFEST.json'), 'w') as fh:
    json.dump(manifest, fh, indent=1)
try:
    import jsonschema
    jsonschema.validate(manifest, json.load(open('/root/.vp/MANIFEST.schema.json')))
    print('MANIFEST.json valid;', len(manifest['checks']), 'checks,', len(manifest['not_applicable']), 'not_applicable')
except ImportError:
    print('jsonschema not available; wrote MANIFEST.json unvalidated')
