import argparse
import os
import sys
import traceback

sys.path.insert(0, os.path.dirname(os.path.abspath(__file__)))
os.environ.setdefault('FB_REPO', '/repo')
from fbh import core, props  # noqa: E402


def main():
    ap = argparse.ArgumentParser()
    ap.add_argument('prop')
    ap.add_argument('--tier', default=os.environ.get('VERIF_TIER', 'quick'), choices=['quick', 'thorough'])
    ap.add_argument('--replay')
    a = ap.parse_args()
    try:
        if a.replay:
            return props.replay(a.prop, a.replay)
        if a.prop not in props.CHECKS:
            print('no check registered for %s' % a.prop)
            return 2
        return props.CHECKS[a.prop](a.tier)
    except core.HarnessError as e:
        print('HARNESS-ERROR: %s' % e)
        return 2
    except Exception:
        traceback.print_exc()
        return 2


if __name__ == '__main__':
    sys.exit(main())
