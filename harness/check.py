import argparse
import os
import sys
import traceback

sys.path.insert(0, os.path.dirname(os.path.abspath(__file__)))
os.environ.setdefault('FB_REPO', '/repo')
from fbh import core, props  # noqa: E402


def main():
    if os.environ.get('FBH_TRACE'):      # diagnostics: where the parent process is, every 20 s, with its resident memory
        import faulthandler
        import threading
        fh = open(os.environ['FBH_TRACE'], 'w')
        faulthandler.dump_traceback_later(20, repeat=True, file=fh)

        def mem():
            import time
            while True:
                with open('/proc/self/status') as st:
                    rss = [l for l in st if l.startswith('VmRSS')]
                fh.write('RSS %s' % (rss[0] if rss else '?\n'))
                fh.flush()
                time.sleep(20)
        threading.Thread(target=mem, daemon=True).start()
    ap = argparse.ArgumentParser()
    ap.add_argument('prop')
    ap.add_argument('--tier', default=os.environ.get('VERIF_TIER', 'quick'), choices=['quick', 'thorough'])
    ap.add_argument('--replay')
    a = ap.parse_args()
    try:
        if a.replay:
            return props.replay(a.prop, a.replay)
        if a.prop not in props.CHECKS:
            print('no check registered for %s' % a.prop)
            return 2
        return props.CHECKS[a.prop](a.tier)
    except core.HarnessError as e:
        print('HARNESS-ERROR: %s' % e)
        return 2
    except Exception:
        traceback.print_exc()
        return 2


if __name__ == '__main__':
    sys.exit(main())
