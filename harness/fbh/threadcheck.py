"""C09 / C17 / C08 (thread clause): the real FileBuilder under the deterministic scheduler, against the
same operations run one after another."""
import itertools
import json
import os
import random
import shutil
import tempfile

from . import core, realrun, sched


class BaseBoom(BaseException):
    """what KeyboardInterrupt / SystemExit are: not an Exception"""


class Boom(Exception):
    pass


# ---------------------------------------------------------------------------------------------
# scenarios: thread bodies are small closures over (builder, P) using only the public API
# ---------------------------------------------------------------------------------------------
def w(content):
    def f(b, fn, *a):
        with open(fn, 'w') as fh:
            fh.write(content)
        return content
    return f


def w_then_raise(content):
    def f(b, fn, *a):
        with open(fn, 'w') as fh:
            fh.write(content)
        raise Boom(content)
    return f


def bf(path, func, name=None, catch=False):
    def body(b, P, log):
        try:
            r = b.build_file(P(path), name or ('f_' + path.replace('/', '_')), func)
            log.append(['ok', path, r])
            return ['ok', r]
        except Exception as e:
            log.append(['exc', path, type(e).__name__])
            if not catch:
                raise
            return ['exc', type(e).__name__]
    body.label = 'bf(%s)' % path
    return body


def sb(key, func, catch=False):
    def body(b, P, log):
        def inner(bb, *a):
            return func(bb, P, log)
        try:
            r = b.subbuild('s_' + str(key), inner, key)
            log.append(['ok', 'sb', key])
            return ['ok', r]
        except Exception as e:
            log.append(['exc', 'sb', key, type(e).__name__])
            if not catch:
                raise
            return ['exc', type(e).__name__]
    body.label = 'sb(%s)' % key
    return body


def sbk(name, arg, func):
    """subbuild with an explicit function name and argument (keys that are JSON-equal but spelled differently)"""
    def body(b, P, log):
        def inner(bb, *a):
            return func(bb, P, log)
        try:
            r = b.subbuild(name, inner, arg)
            log.append(['ok', 'sb', name])
            return ['ok', r]
        except Exception as e:
            log.append(['exc', 'sb', name, type(e).__name__])
            raise
    body.label = 'sbk(%s)' % name
    return body


def queries(paths):
    def body(b, P, log):
        out = []
        for p in paths:
            out.append([p, b.is_dir(P(p)), b.is_file(P(p)), b.exists(P(p))])
            try:
                out.append(sorted(b.list_dir(P(p))))
            except OSError as e:
                out.append(type(e).__name__)
        return out
    body.label = 'q(%s)' % ','.join(paths)
    return body


def read_hash(path):
    """the function reads an input with FileComparison.HASH (the library hashes the bytes itself, chunk by chunk)"""
    def body(b, P, log):
        fb = realrun.load_fb()
        with b.read_text(P(path), fb.FileComparison.HASH) as fh:
            return len(fh.read())
    body.label = 'readH(%s)' % path
    return body


def bf_hash(path, content):
    """an output compared by HASH"""
    def body(b, P, log):
        fb = realrun.load_fb()

        def f(bb, fn):
            log.append('run:' + path)
            with open(fn, 'w') as fh:
                fh.write(content)
        return b.build_file_with_comparison(P(path), fb.FileComparison.HASH, 'f:' + path, f)
    body.label = 'bfH(%s)' % path
    return body


def seq(*bodies):
    def body(b, P, log):
        return [x(b, P, log) for x in bodies]
    body.label = 'seq(%s)' % ','.join(x.label for x in bodies)
    return body


def catching(body_):
    def body(b, P, log):
        try:
            return ['ok', body_(b, P, log)]
        except Exception as e:
            return ['exc', type(e).__name__]
    body.label = 'catch(%s)' % body_.label
    return body


def scenarios():
    """name -> dict(prior=[bodies run in an earlier sequential build], threads=[bodies], kind)"""
    S = {}
    S['shared_new_dir'] = dict(threads=[bf('a/x', w('1')), bf('a/y', w('2'))])
    S['shared_new_dir_deep'] = dict(threads=[bf('a/b/x', w('1')), bf('a/b/y', w('2'))])
    S['sibling_dirs'] = dict(threads=[bf('a/b/x', w('1')), bf('a/c/y', w('2'))])
    S['mixed_depth'] = dict(threads=[bf('a/b/x', w('1')), bf('a/y', w('2'))])
    S['one_fails'] = dict(threads=[catching(bf('a/x', w_then_raise('1'))), bf('a/y', w('2'))])
    S['both_fail'] = dict(threads=[catching(bf('a/b/x', w_then_raise('1'))), catching(bf('a/b/y', w_then_raise('2')))])
    S['fail_alone_in_dir'] = dict(threads=[catching(bf('a/x', w_then_raise('1'))), bf('c/y', w('2'))])
    S['stale_dir'] = dict(prior=[bf('d/old', w('0'))], threads=[bf('d/x', w('1')), bf('d/y', w('2'))])
    S['stale_dir_queries'] = dict(prior=[bf('d/old', w('0'))], threads=[bf('d/x', w('1')), queries(['d', ''])], order_sensitive=True)
    S['queries_vs_build'] = dict(threads=[bf('a/x', w('1')), queries(['a', ''])], order_sensitive=True)
    S['subbuilds'] = dict(threads=[sb(1, seq(queries(['a']), bf('a/x', w('1')))), sb(2, bf('b/y', w('2')))], order_sensitive=True)
    # hashing in two threads at once: what one thread read must not end up in the other's digest
    S['hash_two_inputs'] = dict(files={'in/a': 'A' * 2500, 'in/b': 'B' * 2500},
                                threads=[sb(1, read_hash('in/a')), sb(2, read_hash('in/b'))])
    S['hash_two_outputs'] = dict(threads=[bf_hash('a/x', 'x' * 2500), bf_hash('a/y', 'y' * 2500)])
    # duplicates issued from inside cacheable callers that catch the rejection: the loser's caller must not be served from
    # the cache later (a rejected attempt is recorded as a set-up failure, whoever wins)
    S['dup_cached_in_callers'] = dict(prior=[sb(7, queries(['']))],
                                      threads=[sb(1, catching(sb(7, queries([''])))), sb(2, catching(sb(7, queries(['']))))], dup=True, solo=True)
    S['dup_file_cached_in_callers'] = dict(prior=[bf('a/x', w('1'), name='same')],
                                           threads=[sb(1, catching(bf('a/x', w('1'), name='same'))), sb(2, catching(bf('a/x', w('1'), name='same')))], dup=True, solo=True)
    # a file requested directly while a cached subbuild that contains it is being reused: exactly one of the two is refused
    S['dup_file_in_cached_sub'] = dict(prior=[sb(5, bf('a/x', w('1'), name='same'))],
                                       threads=[catching(sb(5, bf('a/x', w('1'), name='same'))), catching(bf('a/x', w('1'), name='same'))], dup=True)
    S['three_threads'] = dict(threads=[bf('a/x', w('1')), bf('a/y', w('2')), bf('a/z', w('3'))])
    S['dup_file'] = dict(threads=[catching(bf('a/x', w('1'), name='same')), catching(bf('a/x', w('1'), name='same'))], dup=True)
    S['dup_sub'] = dict(threads=[catching(sb(7, queries(['']))), catching(sb(7, queries([''])))], dup=True)
    S['dup_sub_cached'] = dict(prior=[sb(7, queries(['']))], threads=[catching(sb(7, queries(['']))), catching(sb(7, queries([''])))], dup=True)
    # the same subbuild key spelled in two JSON-equal ways
    S['dup_sub_json_equal'] = dict(threads=[catching(sbk('same', (1, (2,)), queries(['']))), catching(sbk('same', [1.0, [2]], queries([''])))], dup=True)
    S['dup_sub_json_equal_cached'] = dict(prior=[sbk('same', [1, [2]], queries(['']))],
                                          threads=[catching(sbk('same', (1, (2,)), queries(['']))), catching(sbk('same', [1.0, [2]], queries([''])))], dup=True)
    # two old outputs rebuilt by two threads in a build that then fails: the roll-back must bring both back
    S['rebuild_two_then_fail'] = dict(prior=[bf('d/x', w('old-x'), name='v1'), bf('d/y', w('old-y'), name='v1')],
                                      threads=[bf('d/x', w('new-x'), name='v2'), bf('d/y', w('new-y'), name='v2')], root_raises=True)
    S['build_two_then_fail'] = dict(threads=[bf('a/x', w('1')), bf('a/b/y', w('2'))], root_raises=True)
    # two foreign files overwritten by two threads in a build that then fails: both must be back (C03's last sentence)
    S['overwrite_foreign_then_fail'] = dict(files={'d/x': 'foreign-x', 'd/y': 'foreign-y', 'd/z': 'foreign-z'},
                                            threads=[bf('d/x', w('new-x')), bf('d/y', w('new-y'))], root_raises=True)
    return S


# ---------------------------------------------------------------------------------------------
def snapshot_simple(root, cache_abs):
    out = []
    for r_, ds, fs in os.walk(root):
        for d in ds:
            out.append([os.path.relpath(os.path.join(r_, d), root), 'dir'])
        for f in fs:
            p = os.path.join(r_, f)
            if p == cache_abs:
                out.append([os.path.relpath(p, root), 'cache'])
            else:
                with open(p) as fh:
                    out.append([os.path.relpath(p, root), 'file', fh.read()])
    return sorted(out)


def run_scenario(scn, mode, deviations=None, order=None):
    """mode 'seq': thread bodies one after another in `order`; mode 'sched': real threads under the scheduler.
    -> (outcome dict, scheduler or None)"""
    fb = realrun.load_fb()
    FB = fb.FileBuilder
    root = os.path.realpath(tempfile.mkdtemp(prefix='fbh_th_', dir=realrun.SANDBOX_BASE))
    priv = tempfile.mkdtemp(prefix='fbh_tmp_', dir=realrun.SANDBOX_BASE)
    old_tmp = tempfile.tempdir
    tempfile.tempdir = priv
    cache = os.path.join(root, 'cache.gz')

    def P(rel):
        return os.path.join(root, rel) if rel else root
    s = None
    out = {'root_dir': root}
    try:
        for rel_, data in sorted((scn.get('files') or {}).items()):
            os.makedirs(os.path.dirname(P(rel_)), exist_ok=True)
            with open(P(rel_), 'w') as fh:
                fh.write(data)
            os.utime(P(rel_), ns=(1_600_000_000_000_000_000, 1_600_000_000_000_000_000))
        if scn.get('prior'):
            FB.build(cache, 'n', lambda b: [x(b, P, []) for x in scn['prior']])
        bodies = scn['threads']
        log = []
        results = [None] * len(bodies)

        def root_seq(b):
            for i in (order or range(len(bodies))):
                try:
                    results[i] = ['ok', bodies[i](b, P, log)]
                except Exception as e:
                    results[i] = ['exc', type(e).__name__]
            if scn.get('root_raises'):
                raise Boom('root')
            return 'done'
        if mode == 'seq':
            try:
                out['root'] = ['ok', FB.build(cache, 'n', root_seq)]
            except Exception as e:
                out['root'] = ['exc', type(e).__name__]
        else:
            s = sched.Scheduler(deviations)

            def root_par(b):
                tids = []
                for i, body in enumerate(bodies):
                    def run(i=i, body=body):
                        try:
                            results[i] = ['ok', body(b, P, log)]
                        except Exception as e:
                            results[i] = ['exc', type(e).__name__]
                    tids.append(s.spawn(run, 'T%d' % (i + 1)))
                s.join(tids)
                if scn.get('root_raises'):
                    raise Boom('root')
                return 'done'

            def whole():
                return FB.build(cache, 'n', root_par)
            with sched.Installed(s):
                try:
                    rec = s.run(whole)
                    if rec['exc'] is not None:
                        out['root'] = ['exc', type(rec['exc']).__name__]
                    else:
                        out['root'] = ['ok', rec['result']]
                except sched.Deadlock as e:
                    out['root'] = ['deadlock', str(e)[:200]]
        out['results'] = results
        out['tree'] = snapshot_simple(root, cache)
        cj = realrun.read_cache_json(cache) if os.path.isfile(cache) else None
        if cj and 'createdDirs' in cj:
            out['createdDirs'] = sorted(os.path.relpath(d, root) for d in cj['createdDirs'])
        # what the next build and clean do (sequentially, outside the scheduler)
        inv = []
        if scn.get('solo'):
            # first: later builds in which only ONE of the bodies runs - a caller that caught a rejection is not served
            # from the cache (a rejected attempt is a set-up failure, never a result)
            import file_builder.file_builder as fbm0
            orig0 = fbm0.FileBuilder._call_and_sanitize_return_value
            solo = []
            for i, body in enumerate(bodies):
                calls0 = []

                def spy0(self, func, args, kwargs, description, calls0=calls0):
                    calls0.append(description.replace(root, '<R>'))
                    return orig0(self, func, args, kwargs, description)
                fbm0.FileBuilder._call_and_sanitize_return_value = spy0
                try:
                    try:
                        FB.build(cache, 'n', lambda b, body=body: body(b, P, inv))
                    except Exception as e:
                        calls0.append('solo-rebuild-raised:' + type(e).__name__)
                finally:
                    fbm0.FileBuilder._call_and_sanitize_return_value = orig0
                # ... told apart by whether this body was the one whose attempt was refused in the threaded build
                solo.append(['refused' if 'RuntimeError' in json.dumps(results[i]) else 'served', sorted(calls0)])
            out['solo_rebuilds'] = sorted(json.dumps(x) for x in solo)

        def root_again(b):
            def wrap(body):
                return body
            for i, body in enumerate(bodies):
                try:
                    body(b, P, inv)
                except Exception:
                    pass
        calls = []
        import file_builder.file_builder as fbm
        orig = fbm.FileBuilder._call_and_sanitize_return_value

        def spy(self, func, args, kwargs, description):
            calls.append(description.replace(root, '<R>'))
            return orig(self, func, args, kwargs, description)
        fbm.FileBuilder._call_and_sanitize_return_value = spy
        try:
            try:
                FB.build(cache, 'n', root_again)
            except Exception as e:
                calls.append('rebuild-raised:' + type(e).__name__)
        finally:
            fbm.FileBuilder._call_and_sanitize_return_value = orig
        out['rebuild_calls'] = sorted(calls)
        try:
            FB.clean(cache, 'n')
        except Exception as e:
            out['clean_exc'] = type(e).__name__
        out['after_clean'] = snapshot_simple(root, cache)
        out['tmp_left'] = os.listdir(priv)
        return out, s
    finally:
        tempfile.tempdir = old_tmp
        shutil.rmtree(root, ignore_errors=True)
        shutil.rmtree(priv, ignore_errors=True)


KEYS = ['root', 'results', 'tree', 'createdDirs', 'rebuild_calls', 'after_clean', 'tmp_left', 'solo_rebuilds']


def project(o, scn):
    d = {k: o.get(k) for k in KEYS}
    if scn.get('order_sensitive'):
        # a query racing with the build it observes may see any intermediate state: not compared
        d['results'] = None
    if scn.get('dup'):
        # which of the two identical calls wins is not specified: compare as multisets
        d['results'] = sorted(json.dumps(x, sort_keys=True) for x in (o.get('results') or []))
    return json.dumps(d, sort_keys=True, default=str)


def sequential_outcomes(scn):
    outs = {}
    n = len(scn['threads'])
    for perm in itertools.permutations(range(n)):
        o, _ = run_scenario(scn, 'seq', order=list(perm))
        outs[project(o, scn)] = (list(perm), o)
    return outs


def diff_outcome(o, seqs, scn):
    """which keys differ from the closest sequential outcome"""
    best = None
    for _, (perm, so) in seqs.items():
        ks = [k for k in KEYS if json.dumps(project({k: o.get(k)}, scn)) != json.dumps(project({k: so.get(k)}, scn))]
        if best is None or len(ks) < len(best[0]):
            best = (ks, perm, {k: [o.get(k), so.get(k)] for k in ks})
    return best


def arbitration_window(fs_exec, root):
    """directories d (relative to the sandbox) for which one thread's `mkdir d` is followed - in execution order -
    by another thread's `isdir d`: the window of known finding D7 (the second thread takes the fresh directory for
    one that existed before the build).  Closed under ancestors: a directory below which something "pre-existing"
    lies is taken for pre-existing too."""
    made = {}
    out = []
    for _, tid, op, arg in fs_exec:
        if op == 'mkdir':
            made.setdefault(arg, tid)
        elif op == 'isdir' and arg in made and made[arg] != tid:
            rel = os.path.relpath(arg, root) if root else arg
            while rel and rel != '.':
                if rel not in out:
                    out.append(rel)
                rel = os.path.dirname(rel)
    return out


def explore_scenario(name, scn, bound, max_schedules, rng, classify=None, classes=None):
    """-> (n_schedules, failures[list of dict], lock_edges, max_decisions); `classify(outcome)` maps every
    explored schedule to an outcome class of the protocol model (collected in the set `classes`)"""
    seqs = sequential_outcomes(scn)
    failures = []
    n = 0
    edges = set()
    maxdec = 0

    def run_one(dev):
        return run_scenario(scn, 'sched', deviations=dev)
    for dev, o, s in sched.explore(run_one, bound, max_schedules, rng):
        n += 1
        edges |= s.lock_edges
        maxdec = max(maxdec, len(s.decisions))
        if classify is not None:
            classes.add(classify(o))
        if project(o, scn) not in seqs:
            ks, perm, detail = diff_outcome(o, seqs, scn)
            failures.append({'scenario': name, 'deviations': {str(k): v for k, v in dev.items()}, 'differs_in': ks,
                             'closest_sequential_order': perm, 'detail': detail,
                             'arbitration_window': arbitration_window(s.fs_exec, o.get('root_dir')),
                             'trace_tail': [list(x) for x in s.trace[-12:]]})
    return n, failures, edges, maxdec, len(seqs)


# ---------------------------------------------------------------------------------------------
# C17: a straggler thread using a builder whose function returns
# ---------------------------------------------------------------------------------------------
METHODS = ['is_file', 'is_dir', 'exists', 'list_dir', 'walk', 'get_size', 'declare_read', 'read_text', 'read_binary',
           'build_file', 'build_file_with_comparison', 'subbuild']
OWNERS = ['root', 'subbuild', 'build_file']


def call_method(b, method, P, ran):
    if method in ('is_file', 'is_dir', 'exists', 'list_dir', 'walk', 'get_size', 'declare_read'):
        target = P('inp') if method in ('get_size', 'declare_read', 'is_file', 'exists') else P('')
        return getattr(b, method)(target)
    if method in ('read_text', 'read_binary'):
        with getattr(b, method)(P('inp')) as fh:
            return len(fh.read())
    if method == 'subbuild':
        def f(bb):
            ran.append('sub')
            return 7
        return b.subbuild('straggler_sub', f)

    def g(bb, fn):
        ran.append('bf')
        with open(fn, 'w') as fh:
            fh.write('s')
        return 8
    if method == 'build_file':
        return b.build_file(P('sdir/sfile'), 'straggler_bf', g)
    fb = realrun.load_fb()
    return b.build_file_with_comparison(P('sdir/sfile'), fb.FileComparison.HASH, 'straggler_bf', g)


def find_ops(cj, pred, out=None, path=()):
    out = [] if out is None else out

    def rec(op, parents):
        if pred(op):
            out.append((op, parents))
        for c in op.get('suboperations', []):
            rec(c, parents + (op,))
    for op in cj.get('rootOperations', []):
        rec(op, ())
    return out


def run_fence(owner, method, deviations=None, after=False, owner_raises=False, warm=False):
    """-> (outcome, scheduler).  `after`: the straggler only starts once the owner call has returned.
    `warm`: the owner function itself makes the same (simple) call first, while it is allowed to."""
    fb = realrun.load_fb()
    FB = fb.FileBuilder
    root = os.path.realpath(tempfile.mkdtemp(prefix='fbh_fe_', dir=realrun.SANDBOX_BASE))
    priv = tempfile.mkdtemp(prefix='fbh_tmp_', dir=realrun.SANDBOX_BASE)
    old_tmp = tempfile.tempdir
    tempfile.tempdir = priv
    cache = os.path.join(root, 'cache.gz')
    with open(os.path.join(root, 'inp'), 'w') as fh:
        fh.write('input')

    def P(rel):
        return os.path.join(root, rel) if rel else root
    s = sched.Scheduler(deviations)
    ran = []
    st = {'res': None, 'tid': None, 'gate': False, 'closed_idx': None, 'owner_done_idx': None, 'call_start_idx': None}
    out = {}
    try:
        def straggler(b):
            def run():
                if after:
                    s.block_on(lambda: st['gate'], 'gate')
                st['call_start_idx'] = len(s.trace)
                try:
                    st['res'] = ['ok', call_method(b, method, P, ran)]
                except RuntimeError as e:
                    st['res'] = ['RuntimeError', 'finished' if 'already finished' in str(e) else str(e)[:80]]
                except Exception as e:
                    st['res'] = ['exc', type(e).__name__, str(e)[:80]]
            st['tid'] = s.spawn(run, 'straggler')

        def owner_fn(b, *a):
            try:
                if warm and method not in ('build_file', 'build_file_with_comparison', 'subbuild'):
                    call_method(b, method, P, [])
                straggler(b)
                s.yield_point('owner_body')     # the owner function is still at work: the straggler may get in here
                if owner == 'build_file':
                    with open(a[0], 'w') as fh:
                        fh.write('o')
                if owner_raises == 'base':
                    raise BaseBoom('owner')
                if owner_raises:
                    raise Boom('owner')
                return 1
            finally:
                # the owner function ends here; the library closes its builder without any scheduling point in between
                st['owner_done_idx'] = len(s.trace)

        def rootf(b):
            try:
                if owner == 'root':
                    owner_fn(b)
                elif owner == 'subbuild':
                    b.subbuild('owner', owner_fn)
                else:
                    b.build_file(P('ownerfile'), 'owner', owner_fn)
            except (Boom, BaseBoom):
                if owner == 'root':
                    raise
            if owner != 'root':
                st['closed_idx'] = len(s.trace)    # the owner's call has returned: its record is closed
            st['gate'] = True
            if owner != 'root':
                s.join([st['tid']])
            return 'done'

        def whole():
            try:
                r = ['ok', FB.build(cache, 'n', rootf)]
            except (Exception, BaseBoom) as e:
                r = ['exc', type(e).__name__, str(e)[:100]]
            if st['closed_idx'] is None:
                st['closed_idx'] = len(s.trace)
            st['gate'] = True
            s.join([st['tid']])
            return r
        with sched.Installed(s):
            try:
                rec = s.run(whole)
                out['root'] = rec['result'] if rec['exc'] is None else ['crash', repr(rec['exc'])[:100]]
            except sched.Deadlock as e:
                out['root'] = ['deadlock', str(e)[:100]]
        out['straggler'] = st['res']
        out['owner_raises'] = owner_raises
        # did the straggler's call begin only after the owner function had ended?
        out['started_after_owner_ended'] = (st['call_start_idx'] is not None and st['owner_done_idx'] is not None
                                            and st['call_start_idx'] > st['owner_done_idx'])
        # file-system calls the straggler's call made after the owner's call had returned
        # (the root builder is closed the moment its function ends; a nested one when its call has returned)
        close = st['owner_done_idx'] if owner == 'root' else st['closed_idx']
        out['late_obs'] = [n for (i, tid, n, _a) in s.fs_exec if tid == st['tid'] and close is not None and i > close]
        out['ran'] = list(ran)
        out['tree'] = snapshot_simple(root, cache)
        cj = realrun.read_cache_json(cache) if os.path.isfile(cache) else None
        out['cache_ops'] = None
        if cj and 'rootOperations' in cj:
            def is_straggler_op(op):
                if method in ('build_file', 'build_file_with_comparison'):
                    return op.get('funcName') == 'straggler_bf'
                if method == 'subbuild':
                    return op.get('funcName') == 'straggler_sub'
                name = {'declare_read': 'read', 'read_text': 'read', 'read_binary': 'read'}.get(method, method)
                return op.get('type') == name
            found = find_ops(cj, is_straggler_op)
            out['cache_ops'] = [[p.get('funcName') for p in parents] for _, parents in found]
        out['tmp_left'] = os.listdir(priv)
        return out, s
    finally:
        tempfile.tempdir = old_tmp
        shutil.rmtree(root, ignore_errors=True)
        shutil.rmtree(priv, ignore_errors=True)


def judge_fence(owner, method, o):
    """-> list of problems (dict) for C17 on one schedule"""
    problems = []
    res = o.get('straggler')
    complex_ = method in ('build_file', 'build_file_with_comparison', 'subbuild')
    # (a function that exits with a BaseException which the caller then swallows is outside the documented use: the
    # library does not promise that such a build can be committed; only the fence is judged in that case)
    if o['root'][0] != 'ok' and not (owner == 'root' and o.get('owner_raises')) and o.get('owner_raises') != 'base':
        problems.append({'what': 'the build did not finish normally', 'root': o['root']})
    # (for the root builder the library sets the finished flag right after the function returns or raises, with no
    # scheduling point in between; nested builders are closed a few steps later, which `closed_idx` accounts for)
    if owner == 'root' and res is not None and res[0] == 'ok' and o.get('started_after_owner_ended'):
        problems.append({'what': 'a call that began after the owner function had returned or raised was served instead of raising RuntimeError',
                         'kind': 'served_after_owner_ended'})
    if res is None:
        problems.append({'what': 'straggler never finished'})
        return problems
    in_cache = o.get('cache_ops') or []
    if res[0] == 'RuntimeError' and res[1] == 'finished':
        # fenced off: the call must have had no effect
        if o['ran']:
            problems.append({'what': 'fenced call ran its function', 'kind': 'straggler_runs_after_close'})
        if any(n[0].startswith('sdir') for n in o['tree']):
            problems.append({'what': 'fenced call left files behind', 'tree': o['tree'], 'kind': 'straggler_runs_after_close'})
        if in_cache:
            problems.append({'what': 'fenced call is in the cache record', 'where': in_cache, 'kind': 'straggler_runs_after_close'})
    elif res[0] == 'ok':
        # (also for build_file / subbuild: a call whose function was still touching the file system after the owner's
        # call had returned cannot have been appended before the close - it must end with RuntimeError)
        if o.get('late_obs'):
            problems.append({'what': 'an operation that looked at the file system after the record was closed completed normally '
                                     '(its observation is attached to a closed record)', 'late_calls': o['late_obs'][:5],
                             'kind': 'observation_after_close'})
        # completed before the close: must be part of the owner's record
        if owner != 'root' and o['root'][0] == 'ok':
            if not any(parents and parents[-1] == 'owner' for parents in in_cache):
                problems.append({'what': 'completed operation is not part of the closed record', 'found_under': in_cache})
        if owner == 'root' and complex_ and o['root'][0] == 'ok' and not in_cache:
            problems.append({'what': 'completed operation is missing from the cache', 'found_under': in_cache})
    else:
        problems.append({'what': 'unexpected outcome of the straggler call', 'res': res})
    if o.get('tmp_left'):
        problems.append({'what': 'temp dir left', 'left': o['tmp_left']})
    return problems


# ---------------------------------------------------------------------------------------------
# known-finding signatures (specific: a different failure of the same property is still reported)
# ---------------------------------------------------------------------------------------------
@core.matcher('created_dirs_lost')
def _m_created_dirs_lost(case, fails):
    """D7: a directory made during the build by one thread is taken for a pre-existing one by another thread
    (the schedule has the mkdir / foreign is_dir window on that very directory) and is therefore not recorded:
    it is missing from createdDirs, clean leaves it behind, and when the builds below it fail it is not removed.
    Nothing else may differ from a sequential order."""
    f = fails[0]
    if not set(f.get('differs_in', ['x'])) <= {'createdDirs', 'after_clean', 'tree'}:
        return False
    window = set(f.get('arbitration_window') or [])
    if not window:
        return False
    d = f['detail']
    if 'createdDirs' in d:
        real, seq_ = d['createdDirs']
        if not (set(real or []) < set(seq_ or [])):
            return False
        if not (set(seq_ or []) - set(real or [])) <= window:
            return False
    for key in ('after_clean', 'tree'):
        if key in d:
            real, seq_ = d[key]
            extra = [x for x in (real or []) if x not in (seq_ or [])]
            missing = [x for x in (seq_ or []) if x not in (real or [])]
            if missing or not extra or any(x[1] != 'dir' or x[0] not in window for x in extra):
                return False
    return True


@core.matcher('straggler_runs_after_close')
def _m_straggler(case, fails):
    f = fails[0]
    # (any builder: a nested one - the late call is then written to the cache as a root operation - or the root
    # builder - the late function then runs while or after the build is committed)
    return (f.get('method') in ('build_file', 'build_file_with_comparison', 'subbuild') and f.get('owner') in ('subbuild', 'build_file', 'root')
            and f.get('straggler', [None, None])[:2] == ['RuntimeError', 'finished']
            and any(p.get('kind') == 'straggler_runs_after_close' for p in f.get('problems', []))
            and all(p.get('kind') == 'straggler_runs_after_close' or
                    # on the root builder the call that is still in flight makes the commit itself crash
                    (f.get('owner') == 'root' and p.get('what') == 'the build did not finish normally' and
                     list(p.get('root') or [])[:2] == ['exc', 'AttributeError'] and "'suboperations'" in str(p.get('root')))
                    for p in f.get('problems', [])))


# ---------------------------------------------------------------------------------------------
# tie with the Lean protocol models (FB.Conc): every outcome the real code shows under the explored
# schedules must be an outcome the model reaches under some schedule
# ---------------------------------------------------------------------------------------------
def model_outcomes(proto, threads, paths=None, fails=None):
    from . import model
    req = {'kind': 'conc', 'proto': proto, 'threads': threads}
    if paths is not None:
        req['paths'] = paths
    if fails is not None:
        req['fails'] = fails
    out, = model.run_cases([req])
    return set(out['outcomes']), out['schedules']


def classify_dirs(o):
    """outcome of a scenario whose threads only build files, in the vocabulary of FB.ConcDirs"""
    created = sorted(o.get('createdDirs') or [])
    dirs = sorted(n[0] for n in o.get('tree') or [] if n[1] == 'dir')
    done = all(r and r[0] == 'ok' for r in (o.get('results') or []))
    return 'created=%s dirs=%s done=%s' % (','.join(created), ','.join(dirs), str(done).lower())


def classify_p2(o):
    created = 'a' in (o.get('createdDirs') or [])
    exists = any(n[0] == 'a' and n[1] == 'dir' for n in o.get('tree') or [])
    n = sum(1 for r in (o.get('results') or []) if r)
    return 'created=%s count=%d exists=%s' % (str(created).lower(), n, str(exists).lower())


def classify_p1(o):
    res = o.get('results') or []
    done = sum(1 for r in res if r and r[0] == 'ok' and r[1][0] == 'ok')
    rej = sum(1 for r in res if r and r[0] == 'ok' and r[1][0] == 'exc' and r[1][1] == 'RuntimeError')
    return 'executions=%d done=%d rejected=%d' % (done, done, rej)


def classify_p3(owner, method, o):
    res = o.get('straggler')
    if res is None:
        return 'unfinished'
    if res[0] == 'ok':
        inrec = bool(o.get('cache_ops')) if owner != 'root' or method in ('build_file', 'build_file_with_comparison', 'subbuild') else True
        if (owner == 'root' and o.get('owner_raises')) or (o.get('root') or ['?'])[0] != 'ok':
            inrec = True      # the record was closed with the operation in it, then rolled back: no cache to look into
        return 'completed-in-record inrecord=%s' % str(bool(inrec)).lower()
    if res[0] == 'RuntimeError' and res[1] == 'finished':
        if o.get('ran') or any(n[0].startswith('sdir') for n in o.get('tree') or []):
            return 'fenced-after-effect'
        return 'fenced-no-effect inrecord=false'
    return 'other:%s' % (res,)
