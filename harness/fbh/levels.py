"""What each check claims (MANIFEST level_claimed / technique / level_note)."""

_SPEC = ('FB.Spec (Lean 4: "delete what the previous build created, call every function, roll back on exception" on a pure tree) ')
_IMPL = ('FB.Impl (Lean 4 model of the cache logic: records, lookup, replay with overlay, reuse, duplicate rejection, commit) ')
_TIEDESC = ('Tie: fbdriver runs the model on generated DSL programs x histories x trees and the harness runs the real FileBuilder of /repo on the same inputs; '
            'results, exceptions, trees with mtimes, invocation order and the decoded cache file are compared. ')
_NOTE = ('Trusted: Lean kernel, axioms propext/Classical.choice/Quot.sound only; harness + wire glue; abstract POSIX tree; the BuildDirs/CreatedFiles/FileBackups '
         'machinery that keeps the virtual tree on one physical tree is modelled by its specification (FB.Spec.visible / shelf), not verified: it is covered by the tie only. ')


def _mk(cat, technique, text, note=''):
    return dict(category=cat, technique=technique, text=text, note=_NOTE + note)


LEVELS = {
    'C01': _mk('proof', 'Lean theorem replay_sound (reuse = re-execution, for all programs, records and trees) + differential runs of FB.Spec / FB.Impl against /repo',
               'Proved (FB.replay_sound): whenever the cache logic accepts a recorded operation tree (any nesting of queries, build_file and subbuild records, raised or not) in a state, running the recorded function from scratch in that state returns the recorded result and leaves the same virtual tree, claims, outputs and created directories - up to modification times of files (a from-scratch run rewrites outputs). Quantified over every program (interaction tree), every record that follows it, every tree; hypotheses: the record follows the function (function bodies change only with their version), the comparison-mode obligation (a theorem for HASH: faithful_of_hash; the user\'s assumption for METADATA), no injected faults. Corollary at the API edge: C01_subbuild_hit_transparent. ' + _TIEDESC +
               'Each step of each generated history must give the same value/exception and tree as ' + _SPEC + 'and the same decisions, trees with mtimes and cache file as ' + _IMPL,
               'NOT yet proved: that a whole build of FB.Impl refines FB.Spec across histories (the induction over builds that establishes `Follows` for every record of the old cache), and completeness. Those rest on the tie.'),
    'C02': _mk('translation_validation', 'snapshot equality (bytes, mtime, inode) around every failing build + FB.Spec oracle',
               'After every failing build of the generated histories the real tree must equal the pre-build snapshot up to the stated latitude and the exception must be the raised object; the following steps are compared with ' + _SPEC + '(where the failed build never ran). ' + _TIEDESC),
    'C03': _mk('translation_validation', 'snapshot of the complement of the managed set around every API call + FB.Spec oracle',
               'Files outside {cache file, targets of this build, previous outputs} keep bytes/mtime/inode and directories no build recorded survive every build, rollback and clean of the generated histories. ' + _TIEDESC,
               'Theorem C12_preClean_frame covers clean; the frame of build is not proved yet.'),
    'C04': _mk('proof', 'Lean theorems about the view (FB.View on Spec.visible) + differential runs of every query answer',
               'Proved on the model for all trees and states: exists = is_file or is_dir, never both, list_dir(d) = {n | exists(d/n)}, error classes of list_dir, targets being built and the cache file are invisible to every query, everything else is seen as on the tree. ' + _TIEDESC +
               'Query-dense generated programs (every query kind, paths of the whole universe, before/inside/after nested build_file calls) compare every answer with the model through the returned accumulators.',
               'That the memoised BuildDirs/CreatedFiles state machine computes this view (L-view of DESIGN 4a) is NOT proved; it rests on the tie.'),
    'C05': _mk('translation_validation', 'FB.Spec call tree as oracle for justified re-execution + FB.Impl decisions tie (soundness of the decisions is a theorem, completeness is not yet)',
               'On every unchanged rebuild the real invocation log must be within the set justified by the from-scratch call tree and no output may be rewritten (inode, mtime); in all histories the invocation log must equal the one of ' + _IMPL),
    'C06': _mk('proof', 'Lean theorems: a changed version blocks every record mentioning the function at any depth + version-map histories against FB.Spec/FB.Impl',
               'Proved for all record trees and states (C06_changed_invalidates): if the version of f is not JSON-equal to the previous one, no record whose tree contains an operation of f replays, and the top-level lookups refuse too; JSON-equal versions pass (C06_equal_versions_pass with the laws of C18). Tie/oracle: generated call graphs x version maps (absent/None/scalars/nested/reordered): every from-scratch invocation of a changed function and of its transitive callers must be in the real invocation log, results equal the from-scratch results with the new behaviour, JSON-equal version maps re-execute nothing. ' + _TIEDESC),
    'C07': _mk('translation_validation', 'argument-structure pairs against FB.Json key model (to_hashable/is_equal) through duplicate detection and cache hits',
               'Pairs of argument structures from a JSON grammar (tuples/lists, 1/1.0, True/1, non-string keys, key order, big ints, -0.0, non-BMP) are issued within a build (duplicate RuntimeError iff same key) and across builds (hit iff same key); the callee must receive the round-tripped copy. ' + _TIEDESC,
               'Path spelling half: see evidence (unit comparisons of _sanitize_filename).'),
    'C08': _mk('proof', 'Lean theorems on duplicate rejection and registration by reuse (sequential) + schedule exploration of two threads on the real code',
               'Proved: a call for a claimed path / JSON-equal subbuild key is rejected with no effect on tree, claims, outputs, pending content and invocation log; reusing a record requires its key unclaimed and claims it; setup_failed records never replay. Tie/oracle: same-level, nested, inside-reused-subtree duplicates with first occurrence cached/rebuilt/failed: RuntimeError, no second invocation, first record/output undisturbed, rejected callers re-executed later. ' + _TIEDESC,
               'Thread clause: all schedules with at most 2 (quick) / 3 (thorough) preemptions of two threads issuing the same build_file path or subbuild key (first cached or not) on the real code, against the sequential outcomes.'),
    'C10': _mk('proof', 'Lean theorems about build_file setup/finish (FB.Spec.bfSetup/bfFinish, shared by FB.Impl) + contract predicates on the real code',
               'Proved for all states: success only if the target is a regular file, failure leaves no file at the target and propagates the same exception (or notCreated), the function starts with the target absent and hidden. ' + _TIEDESC +
               'Real-code predicates right after every call: file present / parents are directories on success, target absent after failure, absolute normalised path passed, target absent at start.',
               'mkdir faults at each level: see C14.'),
    'C12': _mk('proof', 'Lean theorems about clean (FB.Spec.preClean = FB.Impl.clean) + differential runs',
               'Proved for all trees and records: clean changes only recorded outputs that are files, the cache file and recorded created directories, and only by removing them; no-op without cache file; idempotent; the implementation model cleans with the same function. ' + _TIEDESC +
               'clean inserted at random positions of generated histories: tree equals the model, foreign snapshot unchanged.'),
    'C13': _mk('proof', 'Lean theorems on the comparison results (HASH iff bytes, METADATA iff size+mtime) and their use in replay + comparison-mode grid on the real code',
               'Proved: HASH results are JSON-equal iff the bytes are equal, METADATA results iff size and mtime_ns are equal; a recorded read replays iff the file is visible with an equal result; a recorded output replays only if the leftover has an equal result. Tie/oracle: all (content changed?, metadata changed?) combinations x {input read, output integrity, output read back} x {top level, nested}: HASH-only programs must match the from-scratch result even for same-size same-mtime edits and re-execute nothing on pure timestamp changes; every program must re-execute exactly what ' + _IMPL + 're-executes (METADATA = size and mtime_ns).',
               'SHA-256 is modelled as injective.'),
    'C15': _mk('proof', 'Lean theorems: refusal is a read-only prefix of build/clean (FB.Spec, FB.Impl) + corruption classes on the real code',
               'Proved for all programs and worlds: when the cache state makes build/clean refuse, the result is an exception, the world is unchanged, nothing is invoked, nothing is written. Real code: byte-level corruption classes of a valid cache file, cache path a directory, name mismatch, every wrong-typed argument position: must raise, tree bit-identical (bytes, mtime, inode), no temp dir left, no user function called. ' + _TIEDESC,
               'The classification "which bytes are unreadable" (gzip/json) is the real code\'s; the model receives the class.'),
    'C16': _mk('translation_validation', 'cache file content against FB.Impl records (decoded) + value round trip across builds',
               'Return values of every JSON shape and outputs with awkward legal names: the decoded cache file must equal the model\'s record forest; values served from the cache equal type-exactly the from-scratch values; unchanged rebuilds invoke nothing new. ' + _TIEDESC,
               'Cache-write failure: see C14 (write-cache fault).'),
    'C18': _mk('proof', 'Lean theorems about FB.Json + exhaustive small-scope/random differential runs of JsonUtil',
               'Proved for all values: sanitize yields a value with no tuples, string keys only and distinct keys; is idempotent; rejects exactly the non-JSON values; is_equal is reflexive on sanitized values, equates 1 and 1.0 and lists with tuples, separates bools from numbers. Tie: sanitize/is_equal/to_hashable of /repo agree with FB.Json and with json.loads(json.dumps(v)) on all values up to a size bound over the collision atom set and random deep values; symmetry, transitivity, hashable-iff-equal and freshness are evaluated on the real functions.',
               'symmetry/transitivity/to_hashable_iff are not yet theorems; json module and float repr trusted; NaN excluded.'),
}
LEVELS['C09'] = _mk('exploration', 'systematic schedule exploration of the real threaded code under a deterministic cooperative scheduler',
    'Real threads, one running at a time; yield points at every lock operation and every file-system call of the library (installed from outside). All schedules with at most 1 (quick) / 2 (thorough) preemptions of 14 scenarios (shared new parent directories, sibling directories, failures, stale directories, queries racing builds, subbuilds, three threads, duplicate keys) are executed; return values, tree, createdDirs, what the next unchanged rebuild re-executes and what clean leaves must equal those of some sequential order; deadlock = no runnable thread; observed lock-order edges must be acyclic. '
    'No Lean protocol model yet (DESIGN 2.2 Conc): this check is exploration, not proof.',
    'Known finding D7 (BuildDirs arbitration window) is reported as KNOWN-FINDING by signature. What a cooperative scheduler cannot exhibit: preemption inside a bytecode sequence not bracketed by a lock or syscall, the GIL, free-running stress.')
LEVELS['C17'] = _mk('exploration', 'systematic schedule exploration of a straggler thread against the owner returning, every builder method x builder kind',
    'For each of 12 builder methods x {root, subbuild, build_file} builder: (a) a call that starts after the owner returned must raise RuntimeError with no effect; (b) every schedule with at most 2 (quick) / 3 (thorough) preemptions of the straggler against the owner: a fenced call must not have run its function, left files or reached the cache, and a call that completed before the close must be in the closed record. No Lean protocol model yet: exploration, not proof.',
    'Known finding D10 (check-then-act on the finished flag for build_file/subbuild stragglers) is reported as KNOWN-FINDING by signature.')
LEVELS['C14'] = _mk('fault_enumeration', 'single OSError injected at the k-th mutating library call; model with the corresponding call failing in setup as oracle',
    'For every committed build step of generated histories the harness counts the mutating file-system calls the library makes (mkdir, makedirs, rename, replace, rmdir in _make_room, open-for-write and write of the cache file; installed from outside) and re-runs the history with an OSError at the k-th call (quick: 2 sampled k per build; thorough: every k). The call in progress is identified and the models are run with "the setup of that build_file/subbuild fails once" (or "the build aborts before the function / at the cache write"): the error must surface, a propagated error must leave the pre-build snapshot (bytes, mtime, inode), a caught one must give the same values, tree and later builds as FB.Spec/FB.Impl with that call failed, no temp dir may be left. '
    'No theorem is specific to C14 yet.',
    'Errors the library swallows by design in best-effort clean-ups (_remove_empty_dirs, restore_all) are not injected.')
LEVELS['C11'] = _mk('translation_validation', 'metamorphic run (every value that crossed the API is mutated in place after use) against the plain run and against the value-semantics model',
    'Every generated history is executed twice on the real code: plainly, and with user code that mutates in place every container it received or handed over (arguments inside the function, the caller\'s argument objects after the call, the object a function returned, values returned by build_file/subbuild fresh and cached, list_dir/walk results). Results, invocation logs, trees and the decoded cache files of the two runs must be identical; the mutating run must also agree with FB.Impl, which has value semantics by construction. No heap-model theorem yet.',
    'Edges are those listed in the evidence; mutation = append/delete on lists, new key on dicts, recursively.')
NOT_YET = {
}
