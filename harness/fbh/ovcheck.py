"""simple_operation_executor.py against the Lean model FB.Overlay: a real SimpleOperationExecutor of /repo is built
over a real directory tree with a real BuildDirs object (constructor + started/error calls), a real CreatedFiles
overlay (started/finished calls) and two stub caches (which paths are being built / finished in this build / outputs
of the previous build); a random sequence of the seven queries - each with or without the overlay - is run on it and
on the model.  After EVERY query the answer (value or exception class) and all seven private fields of the BuildDirs
object must agree: the memoisation of one answer feeds the next."""
import hashlib
import importlib
import os
import random
import shutil
import tempfile

from . import core, model, realrun

NAMES = ['a', 'b', 'c']
BASE_NS = 1_600_000_000_000_000_000


def rpath(rng, lo=1, hi=3):
    return '/'.join(rng.choice(NAMES) for _ in range(rng.randint(lo, hi)))


def gen_case(rng, dirsize):
    tree = {}
    for _ in range(rng.randint(0, 8)):
        comps = rpath(rng).split('/')
        p = '/'.join(comps)
        ok = all(tree.get('/'.join(comps[:k]), 'dir') == 'dir' for k in range(1, len(comps)))
        if not ok or p in tree:
            continue
        for k in range(1, len(comps)):
            tree['/'.join(comps[:k])] = 'dir'
        tree[p] = 'dir' if rng.random() < 0.4 else 'file'
    pool = [rpath(rng) for _ in range(10)]
    everything = list(tree) + pool
    cache_file = rng.choice(['cache', rng.choice(everything), rpath(rng)])
    if cache_file not in tree and rng.random() < 0.6:
        comps = cache_file.split('/')
        if all(tree.get('/'.join(comps[:k]), 'dir') == 'dir' for k in range(1, len(comps))):
            for k in range(1, len(comps)):
                tree['/'.join(comps[:k])] = 'dir'
            tree[cache_file] = 'file'
    old_dirs = sorted(set(p for p in everything if rng.random() < 0.35))
    old_created = sorted(set(p for p in everything if rng.random() < (0.45 if tree.get(p) == 'file' else 0.15)))
    # the BuildDirs object some way into a build
    live, bd_cmds = [], []
    for _ in range(rng.randint(0, 4)):
        if live and rng.random() < 0.3:
            f = rng.choice(live)
            live.remove(f)
            bd_cmds.append(['error', f])
        else:
            f = rpath(rng, 1, 4)
            if f in live:
                continue
            comps = f.split('/')
            cds = ['/'.join(comps[:k]) for k in range(1, len(comps)) if rng.random() < 0.6]
            live.append(f)
            bd_cmds.append(['started', f, cds])
    building = sorted(set(f for f in live if rng.random() < 0.7) | set(p for p in pool if rng.random() < 0.1))
    finished = sorted(set(f for f in live if f not in building) | set(p for p in everything if p not in building and rng.random() < 0.1))
    # the overlay
    cf_live, cf_cmds = [], []
    for _ in range(rng.randint(0, 4)):
        p = rpath(rng, 1, 4)
        if any(x == p or x.startswith(p + '/') or p.startswith(x + '/') for x in cf_live):
            continue
        cf_live.append(p)
        cf_cmds.append(['s', p])
        if rng.random() < 0.7:
            cf_cmds.append(['f', p])
    qpool = everything + live + cf_live + [cache_file, ''] + [p.rsplit('/', 1)[0] for p in cf_live + live if '/' in p]
    queries = []
    for _ in range(rng.randint(3, 12)):
        k = rng.choice(['is_file', 'is_dir', 'exists', 'list_dir', 'list_dir', 'walk', 'get_size', 'read', 'read'])
        p = rng.choice(qpool)
        real_files = [x for x, kk in tree.items() if kk == 'file']
        if k in ('read', 'get_size') and real_files and rng.random() < 0.6:
            p = rng.choice(real_files)
        extra = rng.random() < 0.5 if k == 'walk' else rng.choice(['M', 'H']) if k == 'read' else None
        queries.append(['q', k, p, extra, rng.random() < 0.5])
    nodes = []
    for i, (p, k) in enumerate(sorted(tree.items())):
        nodes.append([p, 'dir'] if k == 'dir' else [p, 'file', 'c%d' % (i % 3), 100 + i])
    return {'kind': 'ov', 'tree': nodes, 'dirSize': dirsize, 'cacheFile': cache_file, 'building': building, 'finished': finished,
            'oldCreated': old_created, 'oldDirs': old_dirs, 'bdCmds': bd_cmds, 'cfCmds': cf_cmds,
            'queries': [q[1:] and [q[0], q[1], q[2], q[3], q[4]] for q in queries]}


class _NewCache:
    def __init__(self, building, finished):
        self.b, self.f = set(building), set(finished)

    def has_norm_cased_file(self, f):
        return f in self.b or f in self.f

    def get_norm_cased_file(self, f):
        return None if f in self.b else object()


class _OldCache:
    def __init__(self, created):
        self.c = set(created)

    def created_norm_cased_file(self, f):
        return f in self.c


def real_run(case):
    realrun.load_fb()
    bdmod = importlib.import_module('file_builder.build_dirs')
    somod = importlib.import_module('file_builder.simple_operation_executor')
    CF = importlib.import_module('file_builder.created_files').CreatedFiles
    root = os.path.realpath(tempfile.mkdtemp(prefix='fbh_ov_', dir=realrun.SANDBOX_BASE))

    def ab(p):
        return os.path.join(root, p) if p else root

    def rel(x):
        if x == root:
            return ''
        return x[len(root) + 1:] if x.startswith(root + os.sep) else None
    proxy = type(os)('os_sorted_listdir')
    proxy.__dict__.update({k: getattr(os, k) for k in dir(os) if not k.startswith('__')})
    proxy.listdir = lambda d: sorted(os.listdir(d))
    saved = bdmod.os
    bdmod.os = proxy
    contents = {}
    try:
        for n in case['tree']:
            p = ab(n[0])
            if n[1] == 'dir':
                os.makedirs(p, exist_ok=True)
            else:
                os.makedirs(os.path.dirname(p), exist_ok=True)
                with open(p, 'w') as fh:
                    fh.write(n[2])
                os.utime(p, ns=(BASE_NS + n[3], BASE_NS + n[3]))
                contents[hashlib.sha256(n[2].encode()).hexdigest()] = n[2]
        b = bdmod.BuildDirs([ab(p) for p in case['oldDirs']], [ab(p) for p in case['oldCreated']])
        for cmd in case['bdCmds']:
            if cmd[0] == 'started':
                b.started_building_file(ab(cmd[1]), [ab(x) for x in cmd[2]])
            else:
                b.error_building_file(ab(cmd[1]))
        cf = CF()
        for k, p in case['cfCmds']:
            (cf.started_building_file if k == 's' else cf.finished_building_file)(ab(p))
        ex = somod.SimpleOperationExecutor(ab(case['cacheFile']), _OldCache(ab(p) for p in case['oldCreated']),
                                           _NewCache([ab(p) for p in case['building']], [ab(p) for p in case['finished']]), b)

        def inside(xs):
            return sorted(r for r in (rel(x) for x in xs) if r is not None)

        def render(x):
            r = rel(x)
            return '<R>' + ('/' + r if r else '') if r is not None else x

        def canon(kind, v):
            if kind in ('is_file', 'is_dir', 'exists'):
                return v
            if kind == 'list_dir':
                return {'l': list(v)}
            if kind == 'walk':
                return {'l': [{'t': [render(d), {'l': list(ds)}, {'l': list(fs)}]} for d, ds, fs in v]}
            if kind == 'get_size':
                return {'i': str(v)}
            if isinstance(v, dict):
                return {'d': [['size', {'i': str(v['size'])}], ['timeNs', {'i': str(v['timeNs'] - BASE_NS)}]]}
            return 'sha:' + contents.get(v, '?' + str(v))
        out = []
        dead = False
        for _, kind, p, extra, use_cf in case['queries']:
            if dead:
                out.append('dead')
                continue
            args = [ab(p)]
            if kind == 'walk':
                args.append(bool(extra))
            elif kind == 'read':
                args.append('METADATA' if extra == 'M' else 'HASH')
            try:
                res = {'ok': canon(kind, ex.exec(kind, args, cf if use_cf else None))}
            except KeyError:
                out.append('KeyError')
                dead = True
                continue
            except (FileNotFoundError, NotADirectoryError, IsADirectoryError) as e:
                res = {'exc': type(e).__name__}
            except OSError:
                res = {'exc': 'OSError'}
            out.append({'res': res, 'state': {
                'counts': sorted([r, n] for r, n in ((rel(d), n) for d, n in b._build_dir_counts.items()) if r is not None),
                'created': inside(b._created_dirs_map), 'errorCreated': inside(b._error_created_dirs),
                'removedDirs': inside(b._removed_dirs), 'existsDirs': inside(b._exists_dirs),
                'maybeRemoved': inside(b._maybe_removed_dirs), 'removedFiles': inside(b._removed_files)}})
        return out
    finally:
        bdmod.os = saved
        shutil.rmtree(root, ignore_errors=True)


def canon_model(o):
    if isinstance(o, str):
        return o
    st = o['state']
    return {'res': o['res'], 'state': {'counts': sorted([d, n] for d, n in st['counts']), 'created': sorted(st['created']),
                                       'errorCreated': sorted(st['errorCreated']), 'removedDirs': sorted(st['removedDirs']),
                                       'existsDirs': sorted(st['existsDirs']), 'maybeRemoved': sorted(st['maybeRemoved']),
                                       'removedFiles': sorted(st['removedFiles'])}}


def run(tier, rep, dirsize, salt=0):
    n = 400 if tier == 'quick' else 20000
    rng = random.Random(core.seed() * 86028121 + 11 + salt)
    cases = [gen_case(rng, dirsize) for _ in range(n)]
    outs = model.run_cases(cases)
    problems = []
    for c, mo in zip(cases, outs):
        if 'outs' not in mo:        # the set-up sequence itself is outside the model (KeyError while setting up)
            rep.count('overlay_setup_rejected')
            continue
        try:
            ro = real_run(c)
        except KeyError:
            rep.count('overlay_setup_rejected_real_only')
            problems.append({'what': 'set-up accepted by FB.Overlay raises KeyError in the real classes', 'case': dict(c, queries=[]), 'real': 'KeyError', 'model': None})
            continue
        except Exception as e:      # the classes no longer have the interface the model describes
            problems.append({'what': 'simple_operation_executor.py cannot be driven as FB.Overlay describes it: %s: %s' % (type(e).__name__, str(e)[:200]),
                             'case': dict(c, queries=c['queries'][:1]), 'real': None, 'model': None})
            break
        rep.count('overlay_sequences')
        rep.count('overlay_queries', len(c['queries']))
        mm = [canon_model(x) for x in mo['outs']]
        for q, r in zip(c['queries'], ro):
            if isinstance(r, dict):
                rep.count('overlay_%s_%s' % (q[1], 'exc' if 'exc' in r['res'] else 'ok'))
            else:
                rep.count('overlay_' + str(r))
        if ro != mm:
            i = next(i for i, (a, b) in enumerate(zip(ro, mm)) if a != b)
            problems.append({'what': 'simple_operation_executor.py and FB.Overlay differ', 'case': dict(c, queries=c['queries'][:i + 1]),
                             'real': ro[i], 'model': mm[i]})
    return problems
