"""Drive the compiled Lean model (fbdriver) over the line protocol."""
import json
import os
import subprocess

VERIF = os.path.dirname(os.path.dirname(os.path.dirname(os.path.abspath(__file__))))
DRIVER = os.path.join(VERIF, 'lean', '.lake', 'build', 'bin', 'fbdriver')


class ModelError(Exception):
    pass


def run_cases(cases, timeout=600):
    """cases: list of dicts (each gets an 'id'); returns list of outputs aligned with cases"""
    if not os.path.exists(DRIVER):
        raise ModelError('model driver not built: run `cd %s/lean && lake build`' % VERIF)
    lines = []
    for i, c in enumerate(cases):
        c = dict(c)
        c['id'] = i
        lines.append(json.dumps(c, ensure_ascii=False, separators=(',', ':')))
    p = subprocess.run([DRIVER], input=('\n'.join(lines) + '\n').encode('utf-8'),
                       stdout=subprocess.PIPE, stderr=subprocess.PIPE, timeout=timeout)
    if p.returncode != 0:
        raise ModelError('driver exit %d: %s' % (p.returncode, p.stderr.decode()[-500:]))
    outs = [json.loads(l.decode('utf-8')) for l in p.stdout.split(b'\n') if l.strip()]
    if len(outs) != len(cases):
        raise ModelError('driver answered %d of %d cases' % (len(outs), len(cases)))
    for i, o in enumerate(outs):
        if o.get('id') != i:
            raise ModelError('driver output out of order at %d' % i)
        if 'bad-op' in o:
            raise ModelError('driver rejected case %d: %s' % (i, o['bad-op']))
    return outs
