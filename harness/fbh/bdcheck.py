"""build_dirs.py against the Lean model FB.BuildDirs: on random trees (with some directories and files declared
"created by the previous build") random command sequences - is_removed_norm_case, handle_norm_cased_dir_exists,
started_building_file, error_building_file - are run on the real class of /repo (on a real directory tree; its
os.listdir is made to return sorted names, as the model assumes) and on the model; after EVERY command all seven
private fields and the return value must agree."""
import importlib
import os
import random
import shutil
import tempfile

from . import core, model, realrun

NAMES = ['a', 'b', 'c']


def gen_case(rng):
    tree = {}
    for _ in range(rng.randint(0, 7)):
        comps = [rng.choice(NAMES) for _ in range(rng.randint(1, 3))]
        p = '/'.join(comps)
        ok = all(tree.get('/'.join(comps[:k]), 'dir') == 'dir' for k in range(1, len(comps)))
        if not ok or p in tree:
            continue
        for k in range(1, len(comps)):
            tree['/'.join(comps[:k])] = 'dir'
        tree[p] = 'dir' if rng.random() < 0.4 else 'file'
    all_paths = ['/'.join(rng.choice(NAMES) for _ in range(k)) for k in (1, 1, 2, 2, 2, 3, 3) for _ in range(2)]
    old_dirs = sorted(set(p for p in list(tree) + all_paths if rng.random() < 0.35))
    old_files = sorted(set(p for p in list(tree) + all_paths if rng.random() < 0.3))
    live = []
    cmds = []
    for _ in range(rng.randint(1, 12)):
        r = rng.random()
        p = rng.choice(list(tree) + all_paths + [''])
        if r < 0.35:
            cmds.append(['isRemoved', p])
        elif r < 0.5:
            cmds.append(['exists', p])
        elif r < 0.8 or not live:
            f = '/'.join(rng.choice(NAMES) for _ in range(rng.randint(1, 4)))
            if f in live:
                continue
            comps = f.split('/')
            ancestors = ['/'.join(comps[:k]) for k in range(1, len(comps))]
            cds = [a for a in ancestors if rng.random() < 0.6]
            live.append(f)
            cmds.append(['started', f, cds])
        elif r < 0.97:
            f = rng.choice(live)
            live.remove(f)
            cmds.append(['error', f])
        else:
            cmds.append(['error', '/'.join(rng.choice(NAMES) for _ in range(rng.randint(1, 3)))])
    nodes = [[p, 'dir'] if k == 'dir' else [p, 'file', 'x', 1] for p, k in sorted(tree.items())]
    return {'kind': 'bd', 'tree': nodes, 'oldDirs': old_dirs, 'oldFiles': old_files, 'cmds': cmds}


def real_states(case):
    realrun.load_fb()
    mod = importlib.import_module('file_builder.build_dirs')
    root = os.path.realpath(tempfile.mkdtemp(prefix='fbh_bd_', dir=realrun.SANDBOX_BASE))

    def ab(p):
        return os.path.join(root, p) if p else root

    def rel(x):
        if x == root:
            return ''
        return x[len(root) + 1:] if x.startswith(root + os.sep) else None
    proxy = type(os)('os_sorted_listdir')
    proxy.__dict__.update({k: getattr(os, k) for k in dir(os) if not k.startswith('__')})
    proxy.listdir = lambda d: sorted(os.listdir(d))
    saved = mod.os
    mod.os = proxy
    try:
        for n in case['tree']:
            p = ab(n[0])
            if n[1] == 'dir':
                os.makedirs(p, exist_ok=True)
            else:
                os.makedirs(os.path.dirname(p), exist_ok=True)
                with open(p, 'w') as fh:
                    fh.write('x')
        b = mod.BuildDirs([ab(p) for p in case['oldDirs']], [ab(p) for p in case['oldFiles']])
        out = []
        dead = False

        def inside(xs):
            return sorted(r for r in (rel(x) for x in xs) if r is not None)
        for cmd in case['cmds']:
            if dead:
                out.append('dead')
                continue
            try:
                k, p = cmd[0], cmd[1]
                if k == 'isRemoved':
                    ret = b.is_removed_norm_case(ab(p))
                elif k == 'exists':
                    b.handle_norm_cased_dir_exists(ab(p)); ret = None
                elif k == 'started':
                    ret = inside(b.started_building_file(ab(p), [ab(x) for x in cmd[2]]))
                else:
                    b.error_building_file(ab(p)); ret = None
            except KeyError:
                out.append('KeyError')
                dead = True
                continue
            out.append({'state': {
                'counts': sorted([r, n] for r, n in ((rel(d), n) for d, n in b._build_dir_counts.items()) if r is not None),
                'created': inside(b._created_dirs_map), 'errorCreated': inside(b._error_created_dirs),
                'removedDirs': inside(b._removed_dirs), 'existsDirs': inside(b._exists_dirs),
                'maybeRemoved': inside(b._maybe_removed_dirs), 'removedFiles': inside(b._removed_files)}, 'ret': ret})
        return out
    finally:
        mod.os = saved
        shutil.rmtree(root, ignore_errors=True)


def canon_model(o):
    if isinstance(o, str):
        return o
    st = o['state']
    ret = o['ret']
    return {'state': {'counts': sorted([d, n] for d, n in st['counts']), 'created': sorted(st['created']),
                      'errorCreated': sorted(st['errorCreated']), 'removedDirs': sorted(st['removedDirs']),
                      'existsDirs': sorted(st['existsDirs']), 'maybeRemoved': sorted(st['maybeRemoved']),
                      'removedFiles': sorted(st['removedFiles'])},
            'ret': sorted(ret) if isinstance(ret, list) else ret}


def run(tier, rep, salt=0):
    n = 400 if tier == 'quick' else 20000
    rng = random.Random(core.seed() * 32452843 + 4 + salt)
    cases = [gen_case(rng) for _ in range(n)]
    outs = model.run_cases(cases)
    problems = []
    for c, mo in zip(cases, outs):
        try:
            ro = real_states(c)
        except Exception as e:      # the class no longer has the interface the model describes
            problems.append({'what': 'build_dirs.py cannot be driven as FB.BuildDirs describes it: %s: %s' % (type(e).__name__, str(e)[:200]),
                             'case': dict(c, cmds=c['cmds'][:1]), 'real': None, 'model': None})
            break
        rep.count('builddirs_sequences')
        rep.count('builddirs_commands', len(c['cmds']))
        mm = [canon_model(x) for x in mo['outs']]
        if ro != mm:
            i = next(i for i, (a, b) in enumerate(zip(ro, mm)) if a != b)
            problems.append({'what': 'build_dirs.py and FB.BuildDirs differ', 'case': dict(c, cmds=c['cmds'][:i + 1]),
                             'real': ro[i], 'model': mm[i]})
    return problems
