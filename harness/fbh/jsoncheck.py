"""C18 / C07 (argument half): JsonUtil against the Lean model FB.Json, plus the laws on the real code."""
import itertools
import json
import math
import random

from . import core, model, realrun, wire

ATOMS = [None, False, True, 0, 1, 2, 1.0, -0.0, '', '0', 'a', 2 ** 63, math.inf]
EXTRA_ATOMS = [-1, 0.5, 2 ** 53 + 1, float(2 ** 53), -math.inf, 1e300, 5e-324, 'é', '\U0001F600', 'A"\\b', ' x',
               0.1 + 0.2, 0.3, 1.0000000006, 1.0000000001, 1e-300, 2e-300, 123456789.0, 123456789.00000001]
KEYS = ['', '0', 'a', 'b', 1, 0, True, None, 1.0, 0.5, 2 ** 63]


def values_upto(size, atoms, keys):
    """all values with at most `size` constructor nodes over the collision-prone atom set"""
    by_size = {1: list(atoms) + [[], (), {}]}
    for n in range(2, size + 1):
        out = []
        # unary containers
        for v in by_size[n - 1]:
            out.append([v]); out.append((v,))
            for k in keys:
                out.append({k: v})
        # binary containers
        for a in range(1, n - 1):
            b = n - 1 - a
            if b < 1:
                continue
            for x in by_size[a]:
                for y in by_size[b]:
                    out.append([x, y]); out.append((x, y))
            if a <= b:
                for x in by_size[a][:12]:
                    for y in by_size[b][:12]:
                        for k1, k2 in (('a', 'b'), ('b', 'a'), (1, '1'), ('0', 0), (True, 'true')):
                            out.append({k1: x, k2: y})
        by_size[n] = out
    res = []
    for n in range(1, size + 1):
        res.extend(by_size[n])
    return res


def random_value(rng, depth=0):
    c = rng.random()
    if depth > 4 or c < 0.4:
        return rng.choice(ATOMS + EXTRA_ATOMS)
    if c < 0.6:
        return [random_value(rng, depth + 1) for _ in range(rng.randint(0, 3))]
    if c < 0.7:
        return tuple(random_value(rng, depth + 1) for _ in range(rng.randint(0, 3)))
    if c < 0.93:
        return {rng.choice(KEYS): random_value(rng, depth + 1) for _ in range(rng.randint(0, 3))}
    return rng.choice([wire.StrSub('s'), wire.IntSub(3), wire.FloatSub(1.5), wire.ListSub([1]), wire.TupleSub((1,)),
                       wire.DictSub({'a': 1}), wire.Other(), {(1, 2): 3}, {wire.StrSub('k'): 1}, b'bytes', {1, 2}])


def containers(v, acc):
    if isinstance(v, (list, tuple)):
        if isinstance(v, list):
            acc.add(id(v))
        for x in v:
            containers(x, acc)
    elif isinstance(v, dict):
        acc.add(id(v))
        for x in v.values():
            containers(x, acc)
    return acc


def enc_any(v):
    try:
        return wire.enc(v)
    except (TypeError, ValueError):
        return {'o': 1}


def run(tier, rep):
    fb = realrun.load_fb()
    from file_builder.json_util import JsonUtil
    rng = random.Random(core.seed() * 7919 + 18)
    size = 2 if tier == 'quick' else 3
    vals = values_upto(size, ATOMS, KEYS)
    nrand = 3000 if tier == 'quick' else 100000
    vals += [random_value(rng) for _ in range(nrand)]
    rep.count('values', len(vals))
    # ---- sanitize: real vs model vs json round trip; idempotence; freshness
    cases = [{'kind': 'json', 'op': 'sanitize', 'a': enc_any(v)} for v in vals]
    mouts = model.run_cases(cases)
    sanitized = []
    bad = []
    for v, mo in zip(vals, mouts):
        rep.count('evaluations')
        try:
            r = JsonUtil.sanitize(v)
            rerr = None
        except TypeError:
            r = None; rerr = 'TypeError'
        # the json module itself (three-party agreement)
        try:
            j = json.loads(json.dumps(v))
            jerr = None
        except (TypeError, ValueError):
            j = None; jerr = 'TypeError'
        except Exception as e:     # e.g. RecursionError
            continue
        if rerr:
            if 'exc' not in mo:
                bad.append(('model accepts what sanitize rejects', v, mo))
            if not jerr:
                bad.append(('sanitize rejects a JSON-representable value', v, j))
            rep.count('rejected')
            continue
        if jerr:
            bad.append(('sanitize accepts what json.dumps rejects', v, r)); continue
        if 'ok' not in mo:
            bad.append(('model rejects what sanitize accepts', v, mo)); continue
        m = wire.dec(mo['ok'])
        if not wire.type_exact_equal(r, m):
            bad.append(('sanitize: real != model', v, [r, m]))
        if not wire.type_exact_equal(r, j):
            bad.append(('sanitize != json.loads(json.dumps(v))', v, [r, j]))
        if not wire.type_exact_equal(JsonUtil.sanitize(r), r):
            bad.append(('sanitize not idempotent', v, r))
        if containers(r, set()) & containers(v, set()):
            bad.append(('sanitize result shares a mutable container with its argument', v, r))
        sanitized.append(r)
    # ---- pairs: is_equal real vs model, to_hashable iff, laws
    uniq = {}
    for r in sanitized:
        uniq.setdefault(json.dumps(wire.enc(r), sort_keys=True), r)
    pool = list(uniq.values())
    rep.count('distinct_sanitized', len(pool))
    small = pool[: (250 if tier == 'quick' else 700)]
    pairs = list(itertools.product(small, small))
    extra = [(rng.choice(pool), rng.choice(pool)) for _ in range(2000 if tier == 'quick' else 100000)]
    # tuples are legal inputs of is_equal (walk results)
    def tuplify(v, rng):
        if isinstance(v, list):
            t = [tuplify(x, rng) for x in v]
            return tuple(t) if rng.random() < 0.5 else t
        if isinstance(v, dict):
            return {k: tuplify(x, rng) for k, x in v.items()}
        return v
    tup_pairs = [(tuplify(a, rng), tuplify(b, rng)) for a, b in extra[:1000]]
    allpairs = pairs + extra
    cases = [{'kind': 'json', 'op': 'is_equal', 'a': wire.enc(a), 'b': wire.enc(b)} for a, b in allpairs + tup_pairs]
    cases += [{'kind': 'json', 'op': 'hash_eq', 'a': wire.enc(a), 'b': wire.enc(b)} for a, b in allpairs]
    mouts = model.run_cases(cases)
    n = len(allpairs) + len(tup_pairs)
    eq_true = 0
    for (a, b), mo in zip(allpairs + tup_pairs, mouts[:n]):
        rep.count('evaluations')
        e = JsonUtil.is_equal(a, b)
        eq_true += bool(e)
        if e != mo['ok']:
            bad.append(('is_equal: real != model', [a, b], [e, mo['ok']]))
        if e != JsonUtil.is_equal(b, a):
            bad.append(('is_equal not symmetric', [a, b], e))
    for (a, b), mo in zip(allpairs, mouts[n:]):
        h = JsonUtil.to_hashable(a) == JsonUtil.to_hashable(b)
        if h != mo['ok']:
            bad.append(('to_hashable equality: real != model', [a, b], [h, mo['ok']]))
        if h != JsonUtil.is_equal(a, b):
            bad.append(('to_hashable(a)==to_hashable(b) differs from is_equal(a,b)', [a, b], h))
        if h and hash(JsonUtil.to_hashable(a)) != hash(JsonUtil.to_hashable(b)):
            bad.append(('equal hashable forms with different hashes', [a, b], h))
    for a in pool:
        if not JsonUtil.is_equal(a, a):
            bad.append(('is_equal not reflexive', a, None))
    # transitivity on triples drawn from equal pairs
    eqpairs = [(a, b) for a, b in allpairs if JsonUtil.is_equal(a, b)][:3000]
    for a, b in eqpairs:
        for c in small[:60]:
            if JsonUtil.is_equal(b, c) and not JsonUtil.is_equal(a, c):
                bad.append(('is_equal not transitive', [a, b, c], None))
    rep.count('pairs', len(allpairs))
    rep.count('pairs_equal', eq_true)
    rep.distinct.update(uniq.keys())
    rep.samples.append({'values': [repr(v) for v in vals[200:205]], 'pair': repr(allpairs[len(allpairs) // 2])})
    return bad
