"""The first-order program language (see FB/DSL.lean) interpreted against the real FileBuilder."""
import os

from . import wire


class UserExc(Exception):
    def __init__(self, tok):
        super().__init__(tok)
        self.tok = tok


# user exceptions come in the classes the library itself raises or catches somewhere: whatever its class, the object
# a function raises must reach the caller unchanged (C10: "the same object for user exceptions")
class UserTypeError(UserExc, TypeError):
    pass


class UserValueError(UserExc, ValueError):
    pass


class UserRuntimeError(UserExc, RuntimeError):
    pass


class UserKeyError(UserExc, KeyError):
    pass


USER_EXC_CLASSES = [UserExc, UserExc, UserTypeError, UserValueError, UserRuntimeError, UserKeyError, UserExc]


def make_user_exc(tok):
    cls = USER_EXC_CLASSES[tok % len(USER_EXC_CLASSES)] if isinstance(tok, int) else UserExc
    return cls(tok)


# ---------- text form shared with FB.DSL.render / digest ----------
def escape_str(s):
    return s.replace('\\', '\\\\').replace('"', '\\"')


def render(v):
    if v is None:
        return 'null'
    if v is True:
        return 'true'
    if v is False:
        return 'false'
    c = v.__class__
    if c is int:
        return str(v)
    if c is float:
        if v == float('inf'):
            return 'Inf'
        if v == -float('inf'):
            return '-Inf'
        n, d = v.as_integer_ratio()
        return 'F(%d/%d)' % (n, d.bit_length() - 1)
    if c is str:
        return '"' + escape_str(v) + '"'
    if c is list or c is tuple:
        return '[' + ','.join(render(x) for x in v) + ']'
    if c is dict:
        # the order of the keys is not part of the value (a dict served from the cache file may come back reordered)
        return '{' + ','.join(sorted('"' + escape_str(k) + '":' + render(x) for k, x in v.items())) + '}'
    raise TypeError('render: %r' % (v,))


def digest(s):
    h = 7
    for ch in s:
        h = (h * 31 + ord(ch)) % 4294967291
    return 'd%d:%d' % (h, len(s))


def canon(v):
    """canonical form of a version shown to function bodies (JSON-equal versions look alike)"""
    if isinstance(v, bool) or v is None or isinstance(v, str):
        return v
    if isinstance(v, float):
        if v == v and v not in (float('inf'), -float('inf')) and v == int(v):
            return int(v)
        return v
    if isinstance(v, int):
        return v
    if isinstance(v, (list, tuple)):
        return [canon(x) for x in v]
    if isinstance(v, dict):
        d = {_key_str(k): canon(x) for k, x in v.items()}
        return {k: d[k] for k in sorted(d)}
    raise TypeError(v)


def _key_str(k):
    """how json.dumps (and JsonUtil.sanitize) spells a dict key"""
    if isinstance(k, str):
        return k
    if k is True:
        return 'true'
    if k is False:
        return 'false'
    if k is None:
        return 'null'
    if isinstance(k, int):
        return str(int(k))
    if isinstance(k, float):
        return float.__repr__(k)
    raise TypeError(k)


def exc_cls(e):
    if isinstance(e, UserExc):
        return 'UserExc'
    return type(e).__name__


RT_WHY = [
    ('Building the same file twice', 'dupFile'),
    ('Calling the same subbuild function twice', 'dupSub'),
    ('may not write to the cache file', 'cacheTarget'),
    ("didn't create that file", 'notCreated'),
    ('has already finished executing', 'finished'),
    ('which is different from the specified build name', 'nameMismatch'),
    ('which  is different from the specified build name', 'nameMismatch'),
    ('rror reading or parsing cache file', 'corrupt'),
    ('Error parsing cache file', 'corrupt'),
]


def rt_why(e):
    msg = str(e)
    for frag, why in RT_WHY:
        if frag in msg:
            return why
    if 'different from the specified build name' in msg:
        return 'nameMismatch'
    return '?'


class Ctx:
    """one build's interpreter state"""

    def __init__(self, case, root, versions, clock, FileComparison):
        self.funcs = case['funcs']
        self.root = root
        self.versions = versions
        self.clock = clock
        self.inv = []
        self.raised = {}
        self.FC = FileComparison
        self.query_log = []   # (query, path, answer) for the view slice
        self.contract = []    # C10 predicates that failed right after a build_file call
        self.mutate = False      # C11: mutate every value that crossed the API after use
        self.callee_mutates = bool(case.get('callee_mutates'))   # functions edit the arguments they receive, in place
        self.returned = []       # objects returned by functions, to be mutated once the library has them
        self.call_stack = []     # DSL calls in progress: ['bf', rel] / ['sb', name, args_wire, kwargs_wire]
        self.fault_call = None   # the call stack at the moment an injected fault fired
        self.started_targets = {}  # targets whose function was entered (so a file there is ours to remove)
        self.spell_rng = None      # C07: spell every path handed to the library differently
        self.spellings = {}
        self.api_variant = 0       # alternate between equivalent API spellings (read_text / read_binary / declare_read, build_file / build_file_with_comparison)
        self.api_used = {}
        self.cache_probe = None    # C16: () -> description if the old cache file is no longer in place as it was before the build
        self.cache_early = []

    def set_spelling(self, seed, step):
        if seed is not None:
            import random
            self.spell_rng = random.Random('%s:%s' % (seed, step))

    def spell(self, p):
        """another spelling of the absolute normalised path `p` (same file for `os.path.abspath`)"""
        if self.spell_rng is None:
            return p
        q, kind = spell_path(self.spell_rng, p)
        self.spellings[kind] = self.spellings.get(kind, 0) + 1
        return q

    def P(self, rel):
        return os.path.join(self.root, rel) if rel else self.root

    def rel(self, p):
        if p == self.root:
            return ''
        assert p.startswith(self.root + os.sep), p
        return p[len(self.root) + 1:]

    def show_abs(self, p):
        if p == self.root:
            return '<R>'
        if p.startswith(self.root + os.sep):
            return '<R>/' + p[len(self.root) + 1:]
        return p

    def cmp(self, c):
        return self.FC.METADATA if c == 'M' else self.FC.HASH


class FsPath:
    """a path-like object (os.PathLike protocol) that is neither str nor pathlib"""

    def __init__(self, p):
        self.p = p

    def __fspath__(self):
        return self.p


SPELLINGS = ['plain', 'plain', 'bytes', 'pathlib', 'pathlike', 'pathlike_bytes', 'dslash', 'dot', 'dotdot', 'trailing', 'relative',
             'relative_dotdot']


def spell_path(rng, p):
    kind = rng.choice(SPELLINGS)
    comps = p.split(os.sep)   # ['', 'a', 'b', ...]
    q = p
    if kind == 'bytes':
        q = os.fsencode(p)
    elif kind == 'pathlib':
        import pathlib
        q = pathlib.PurePosixPath(p) if os.sep == '/' else pathlib.Path(p)
    elif kind == 'pathlike':
        q = FsPath(p)
    elif kind == 'pathlike_bytes':
        q = FsPath(os.fsencode(p))
    elif kind in ('dslash', 'dot', 'dotdot') and len(comps) > 2:
        i = rng.randrange(2, len(comps))      # never at the very front: a leading '//' is a different root in POSIX
        ins = {'dslash': [''], 'dot': ['.'], 'dotdot': ['zz', '..']}[kind]
        q = os.sep.join(comps[:i] + ins + comps[i:])
    elif kind == 'trailing':
        q = p + os.sep
    elif kind == 'relative':
        q = os.path.relpath(p, os.getcwd())
    elif kind == 'relative_dotdot':
        q = os.path.join(os.path.relpath(p, os.getcwd()), 'zz', '..')
    else:
        kind = 'plain'
    assert os.path.abspath(os.fsdecode(q)) == p, (kind, q, p)
    return q, kind


def do_query(ctx, b, kind, rel, extra):
    p = ctx.spell(ctx.P(rel))
    if kind == 'is_file':
        return b.is_file(p)
    if kind == 'is_dir':
        return b.is_dir(p)
    if kind == 'exists':
        return b.exists(p)
    if kind == 'list_dir':
        raw = b.list_dir(p)
        out = sorted(raw)
        if ctx.mutate:
            scramble(raw)        # C11: the object the library handed out, not our sorted copy
        return out
    if kind == 'walk':
        out = []
        raw = b.walk(p, extra)
        for d, subdirs, subfiles in raw:
            out.append((ctx.show_abs(d), list(subdirs), list(subfiles)))
        if ctx.mutate:
            scramble(raw)        # C11: prune/extend the nested lists of the object the library handed out
        return out
    if kind == 'get_size':
        # sizes of directories are platform specific (see FB/DSL.lean)
        if b.is_dir(p):
            return 'dir'
        return b.get_size(p)
    if kind == 'read':
        # the three spellings of "this function reads that file" record the same operation
        ctx.api_variant += 1
        v = ctx.api_variant % 3
        ctx.api_used['read_text' if v == 0 else 'read_binary' if v == 1 else 'declare_read'] = ctx.api_used.get(
            'read_text' if v == 0 else 'read_binary' if v == 1 else 'declare_read', 0) + 1
        if v == 0:
            with b.read_text(p, ctx.cmp(extra)) as fh:
                return fh.read()
        if v == 1:
            with b.read_binary(p, ctx.cmp(extra)) as fh:
                return fh.read().decode('utf-8')
        b.declare_read(p, ctx.cmp(extra))
        with open(ctx.P(rel), 'r') as fh:
            return fh.read()
    raise ValueError(kind)


def eval_cond(cond, acc):
    if not acc:
        return False
    last = acc[-1]
    k = cond[0]
    if k == 'arg':
        return render(acc[0]) == render(['v', wire.dec(cond[1])])
    if k == 'err':
        return last[0] == 'e'
    if k == 'true':
        return render(last) == render(['v', True])
    if k == 'nonempty':
        return last[0] == 'v' and isinstance(last[1], (list, tuple)) and len(last[1]) > 0
    if k == 'eq':
        return render(last) == render(['v', wire.dec(cond[1])])
    raise ValueError(k)


def _jsonable(v):
    import json
    try:
        json.dumps(v)
        return True
    except (TypeError, ValueError):
        return False


def scramble(v, depth=0):
    """in-place mutation of every mutable container reachable from v (what careless user code does)"""
    if depth > 20:
        return
    if isinstance(v, list):
        for x in v:
            scramble(x, depth + 1)
        v.append('MUTATED')
        if len(v) > 2:
            del v[0]
    elif isinstance(v, dict):
        for x in list(v.values()):
            scramble(x, depth + 1)
        v['MUTATED'] = [1]
    elif isinstance(v, tuple):
        for x in v:
            scramble(x, depth + 1)


def after_call(ctx, r, call_args):
    """edge: the value returned by build_file / subbuild (fresh or served from the cache)"""
    if not ctx.mutate:
        return r
    import copy
    mine = copy.deepcopy(r)
    scramble(r)
    return mine


def fault_cls(ctx, e, depth):
    """class name of a caught exception; an OSError that is (or was raised while handling) the injected
    fault is just 'OSError': which subclass wraps it is not specified"""
    if isinstance(e, OSError):
        x, seen = e, 0
        while x is not None and seen < 10:
            if type(x).__name__ == 'InjectedFault':
                return 'OSError'
            x = x.__cause__ or x.__context__
            seen += 1
    return exc_cls(e)


def run_func(ctx, idx, b, target, arg, kw, is_root=False, rest=()):
    f = ctx.funcs[idx]
    if ctx.cache_probe is not None and not ctx.cache_early:
        # C16: while user code runs, the committed cache file of the previous build is still in place
        w = ctx.cache_probe()
        if w:
            ctx.cache_early.append([f['name'], w])
    if not is_root:
        ctx.inv.append([f['name'], ctx.rel(target) if target is not None else None,
                        wire.enc([arg] + list(rest)), wire.enc(kw)])
    acc = [['v', canon(arg)], ['v', canon(kw)], ['v', canon(ctx.versions.get(f['name']))]]
    if (ctx.mutate or ctx.callee_mutates) and not is_root:
        scramble(arg); scramble(kw); [scramble(x) for x in rest]   # edge: arguments handed to the function (it may do with them what it likes)
    exec_stmts(ctx, f['stmts'], b, target, acc)
    r = f['ret']
    if r == 'acc':
        out = acc
    elif r == 'nonjson':
        return wire.Other()
    else:
        out = dec_pyval(r['const'])
    if ctx.mutate and not is_root:
        ctx.returned.append(out)             # edge: the function keeps a reference to what it returned
    return out


def dec_pyval(j):
    """wire value -> arbitrary Python value (inputs: may contain subclasses / non-JSON)"""
    if j is None or isinstance(j, (bool, str)):
        return j
    if 'sub' in j:
        v = dec_pyval(j['sub'])
        for base, sub in ((str, wire.StrSub), (int, wire.IntSub), (float, wire.FloatSub),
                          (list, wire.ListSub), (tuple, wire.TupleSub), (dict, wire.DictSub)):
            if v.__class__ is base:
                return sub(v)
        raise ValueError(j)
    if 'o' in j:
        return wire.Other()
    if 'l' in j:
        return [dec_pyval(x) for x in j['l']]
    if 't' in j:
        return tuple(dec_pyval(x) for x in j['t'])
    if 'd' in j:
        return {dec_key(k): dec_pyval(x) for k, x in j['d']}
    return wire.dec_num(j)


def dec_key(j):
    if j is None or isinstance(j, (bool, str)):
        return j
    if 'sub' in j:
        return wire.StrSub(j['sub'])
    if 'o' in j:
        return (1, 2)   # hashable, not a JSON key... json.dumps rejects tuple keys
    if 'nan' in j:
        return float('nan')
    return wire.dec_num(j)


def exec_stmts(ctx, stmts, b, target, acc):
    for st in stmts:
        k = st[0]
        if k == 'q':
            _, kind, rel, extra = st
            try:
                a = do_query(ctx, b, kind, rel, extra)
                if ctx.mutate:
                    import copy
                    acc.append(['v', copy.deepcopy(a)])
                    scramble(a)              # edge: query result handed out
                else:
                    acc.append(['v', a])
            except OSError as e:
                acc.append(['e', type(e).__name__])
            ctx.query_log.append([kind, rel, extra, acc[-1]])
        elif k == 'bf':
            _, rel, cmp_, callee, arg, kw, catch = st[:7]
            extra = st[7] if len(st) > 7 else []      # further positional arguments (the callee ignores them)
            name = ctx.funcs[callee]['name']

            mine = {'started': False}

            def body(bb, fn, a, /, *_rest, _fbh_j=callee, _fbh_mine=mine, **kws):
                _j, _mine = _fbh_j, _fbh_mine
                _mine['started'] = True
                if os.path.lexists(fn):
                    ctx.contract.append(['target-present-at-start', ctx.rel(fn)])
                if fn != os.path.abspath(fn):
                    ctx.contract.append(['path-not-normalised', fn])
                return run_func(ctx, _j, bb, fn, a, kws, rest=_rest)
            tgt = ctx.P(rel)
            ctx.call_stack.append(['bf', rel])
            depth = len(ctx.call_stack)
            try:
                call_args = [dec_pyval(arg), dec_pyval(kw)] + [dec_pyval(x) for x in extra]
                try:
                    ctx.api_variant += 1
                    if cmp_ == 'M' and ctx.api_variant % 2 == 0:
                        ctx.api_used['build_file'] = ctx.api_used.get('build_file', 0) + 1
                        r = b.build_file(ctx.spell(tgt), name, body, call_args[0], *call_args[2:], **call_args[1])
                    else:
                        r = b.build_file_with_comparison(
                            ctx.spell(tgt), ctx.cmp(cmp_), name, body, call_args[0], *call_args[2:], **call_args[1])
                finally:
                    del ctx.call_stack[depth - 1:]
                    if ctx.mutate:
                        scramble(call_args)  # edge: the caller's own argument objects
                        for o in ctx.returned:
                            scramble(o)
                        del ctx.returned[:]
                # C10: on return the target is a regular file and all parents are directories
                if not os.path.isfile(tgt) or not os.path.isdir(os.path.dirname(tgt)):
                    ctx.contract.append(['returned-without-file', rel])
                acc.append(['v', after_call(ctx, r, call_args)])
            except Exception as e:
                # C10: after a failure of the function the target does not exist
                st_ = getattr(e, '_fbh_phase', None)
                if os.path.lexists(tgt) and not os.path.isdir(tgt) and mine['started']:
                    ctx.contract.append(['target-left-behind', rel, exc_cls(e)])
                if not catch:
                    raise
                acc.append(['e', fault_cls(ctx, e, depth)])
        elif k == 'sb':
            _, callee, arg, kw, catch = st[:5]
            extra = st[5] if len(st) > 5 else []
            name = ctx.funcs[callee]['name']

            def body(bb, a, /, *_rest, _fbh_j=callee, **kws):
                return run_func(ctx, _fbh_j, bb, None, a, kws, rest=_rest)
            _pos = [dec_pyval(arg)] + [dec_pyval(x) for x in extra]
            ctx.call_stack.append(['sb', name, wire.enc(_pos) if all(_jsonable(x) for x in _pos) else None,
                                   wire.enc(dec_pyval(kw))])
            depth = len(ctx.call_stack)
            try:
                call_args = [dec_pyval(arg), dec_pyval(kw)] + [dec_pyval(x) for x in extra]
                try:
                    r = b.subbuild(name, body, call_args[0], *call_args[2:], **call_args[1])
                finally:
                    del ctx.call_stack[depth - 1:]
                    if ctx.mutate:
                        scramble(call_args)
                        for o in ctx.returned:
                            scramble(o)
                        del ctx.returned[:]
                acc.append(['v', after_call(ctx, r, call_args)])
            except Exception as e:
                if not catch:
                    raise
                acc.append(['e', fault_cls(ctx, e, depth)])
        elif k == 'raise':
            e = make_user_exc(st[1])
            ctx.raised.setdefault(st[1], []).append(e)
            raise e
        elif k == 'w':
            if target is not None:
                content = st[1] if st[1] is not None else digest(render(acc))
                with open(target, 'w') as fh:
                    fh.write(content)
                t = ctx.clock[0]
                ctx.clock[0] += 1
                if len(st) > 2 and st[2] is not None:
                    t = st[2]          # the function stamps a fixed modification time on its output
                os.utime(target, ns=(t, t))
        elif k == 'if':
            _, cond, t_, e_ = st
            exec_stmts(ctx, t_ if eval_cond(cond, acc) else e_, b, target, acc)
        else:
            raise ValueError(k)
