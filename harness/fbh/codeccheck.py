"""C16: the cache file's codec.  Random operation documents (the JSON the cache file holds: every operation
kind, optional fields present / absent / false, any JSON value as argument or return value, nesting) and
documents with a required field missing are decoded and re-encoded by the real `Cache._operations_from_json`
/ `_operation_to_json` of /repo and by the Lean model `FB.Codec` (fbdriver, request kind `codec`); the two
results must agree, the registered operations must agree, and - the property itself - a well-formed document
must come back unchanged."""
import json
import random

from . import core, model, realrun, wire

ROOT = '/R'
VALS = [None, True, False, 0, 1, -1, 2 ** 70, 1.5, -0.0, '', 'x', 'é', '\U0001F600', 'a"b\\c', [], {}, [1, [2, [3]]],
        {'a': {'b': [None, 1.0]}}, {'': 0}, [1.0, 1, True], 'line\nbreak', [[]], {'k': [1, 2]}, 1e300]
NAMES = ['a', 'b', 'c d', 'é', '.hidden', 'x.txt', 'UPPER']
SIMPLE = ['is_file', 'is_dir', 'exists', 'list_dir', 'get_size', 'walk', 'read']
ERRS = ['FileNotFoundError', 'NotADirectoryError', 'IsADirectoryError', 'FileExistsError', 'OSError']


def gen_path(rng):
    return [rng.choice(NAMES) for _ in range(rng.randint(0, 3))]


def gen_op(rng, depth, counter):
    """an operation document in the model's spelling (paths as component lists)"""
    kind = rng.random()
    if depth <= 0 or kind < 0.4:
        t = rng.choice(SIMPLE)
        args = [gen_path(rng)]
        if t == 'walk':
            args.append(rng.random() < 0.5)
        if t == 'read':
            args.append(rng.choice(['METADATA', 'HASH']))
        d = {'type': t, 'args': args, 'returnValue': rng.choice(VALS)}
        if rng.random() < 0.3:
            d['exceptionType'] = rng.choice(ERRS)
        return d
    counter[0] += 1
    me = counter[0]
    d = {'funcName': 'f%d' % me, 'args': [rng.choice(VALS) for _ in range(rng.randint(0, 2))],
         'kwargs': {k: rng.choice(VALS) for k in rng.sample(['k', 'a', 'b'], rng.randint(0, 2))},
         'returnValue': rng.choice(VALS),
         'suboperations': [gen_op(rng, depth - 1, counter) for _ in range(rng.randint(0, 3))]}
    for flag in ('raised', 'setupFailed'):
        r = rng.random()
        if r < 0.25:
            d[flag] = True
        elif r < 0.35:
            d[flag] = False
    if kind < 0.75:
        d['type'] = 'build_file'
        d['filename'] = gen_path(rng) + ['out%d' % me]
        d['fileComparison'] = rng.choice(['METADATA', 'HASH'])
        d['fileComparisonResult'] = rng.choice([None, 'abc123', {'size': 3, 'timeNs': 17}])
    else:
        d['type'] = 'subbuild'
    return d


def to_real(d):
    def p(comps):
        return ROOT + ''.join('/' + c for c in comps)
    d = dict(d)
    if 'filename' in d and isinstance(d['filename'], list):
        d['filename'] = p(d['filename'])
    if d.get('type') not in ('build_file', 'subbuild'):
        if (isinstance(d.get('args'), list) and d['args'] and isinstance(d['args'][0], list)
                and all(isinstance(c, str) for c in d['args'][0])):
            d['args'] = [p(d['args'][0])] + d['args'][1:]
    if isinstance(d.get('suboperations'), list):
        d['suboperations'] = [to_real(x) for x in d['suboperations']]
    return d


def from_real(d):
    def q(s):
        assert s == ROOT or s.startswith(ROOT + '/'), s
        return [c for c in s[len(ROOT):].split('/') if c != ''] if s != ROOT else []
    d = dict(d)
    if 'filename' in d:
        d['filename'] = q(d['filename'])
    if d.get('type') not in ('build_file', 'subbuild') and d.get('args') and isinstance(d['args'][0], str):
        d['args'] = [q(d['args'][0])] + list(d['args'][1:])
    if 'suboperations' in d:
        d['suboperations'] = [from_real(x) for x in d['suboperations']]
    return d


def normal_form(d):
    """the document as `_operation_to_json` spells it: false flags are omitted"""
    d = {k: v for k, v in d.items() if not (k in ('raised', 'setupFailed') and v is False)}
    if 'suboperations' in d:
        d['suboperations'] = [normal_form(x) for x in d['suboperations']]
    return d


def break_doc(rng, d):
    """remove one required field somewhere"""
    d = json.loads(json.dumps(d))
    nodes = []

    def walk(x):
        nodes.append(x)
        for y in x.get('suboperations', []):
            walk(y)
    walk(d)
    n = rng.choice(nodes)
    req = [k for k in n if k not in ('raised', 'setupFailed', 'exceptionType')]
    del n[rng.choice(req)]
    return d


def real_codec(doc_real):
    fb = realrun.load_fb()
    import importlib
    cache_mod = importlib.import_module('file_builder.cache')
    Cache = cache_mod.Cache
    files, subs = {}, {}
    try:
        ops = Cache._operations_from_json([doc_real], files, subs)
        c = Cache.create_empty_mutable('n', {})
        back = c._operation_to_json(ops[0])
        # what the file would hold: through the JSON text layer
        back = json.loads(json.dumps(back, sort_keys=True))
        return {'ok': back, 'files': sorted(files), 'nsubs': len(subs)}
    except (KeyError, TypeError, AttributeError, IndexError) as e:
        return {'err': type(e).__name__}


def run(tier, rep):
    n = 400 if tier == 'quick' else 20000
    rng = random.Random(core.seed() * 104729 + 16)
    docs, kinds = [], []
    for i in range(n):
        d = gen_op(rng, rng.randint(0, 3), [i * 1000])
        if rng.random() < 0.15:
            d = break_doc(rng, d)
            kinds.append('broken')
        else:
            kinds.append('wellformed')
        docs.append(d)
    outs = model.run_cases([{'kind': 'codec', 'docs': [wire.enc(d) for d in docs]}])[0]['outs']
    problems = []
    nerr = 0
    for d, kind, mo in zip(docs, kinds, outs):
        ro = real_codec(to_real(d))
        rep.count('codec_documents')
        if 'err' in ro or 'err' in mo:
            nerr += 1
            if ('err' in ro) != ('err' in mo):
                problems.append({'what': 'one side rejects the document', 'doc': d, 'real': ro, 'model': mo, 'cat': 'tie'})
            continue
        real_back = from_real(ro['ok'])
        model_back = wire.dec(mo['ok'])
        if not wire.type_exact_equal(real_back, model_back):
            problems.append({'what': 'decode/encode differs between /repo and FB.Codec', 'doc': d, 'real': real_back,
                             'model': model_back, 'cat': 'tie'})
        rfiles = sorted('/'.join(from_real({'filename': f, 'type': 'build_file'})['filename']) for f in ro['files'])
        if rfiles != sorted(mo['files']) or ro['nsubs'] != mo['nsubs']:
            problems.append({'what': 'registered operations differ', 'doc': d, 'real': [rfiles, ro['nsubs']],
                             'model': [sorted(mo['files']), mo['nsubs']], 'cat': 'tie'})
        if kind == 'wellformed' and not wire.type_exact_equal(real_back, json.loads(json.dumps(normal_form(d)))):
            problems.append({'what': 'a record does not survive the write/read cycle of /repo unchanged', 'doc': d,
                             'real': real_back, 'cat': 'oracle'})
    rep.count('codec_rejected_documents', nerr)
    return problems
