"""FileBuilder._make_dirs against the Lean model FB.MakeDirs: on random trees, the real method of /repo (called on a
stand-in object that supplies _dirs_to_make, the old cache's created_norm_cased_file and a real FileBackups) is asked
to make a chain of directories - some of which exist, some of which are regular files (old outputs or foreign) -
with or without an OSError injected at the k-th os.mkdir.  Outcome (returns / raises OSError), the resulting tree and
the undo log must equal the model's.  On the real side the property is judged as well: after a failure no directory
exists that was not there before.

With `failAny` in the case (C14) the fault strikes the k-th mutating call of either kind - an os.mkdir or the os.rename
with which back_up_and_remove moves an old output out of a directory position - and the model is FB.MakeDirsF
(makeDirsF_error, makeDirsF_undoable, C14_makeDirs_fault_rollback, loop_none)."""
import errno
import importlib
import os
import random
import shutil
import tempfile
import types

from . import core, model, realrun

NAMES = ['a', 'b', 'c']
BASE_NS = 1_600_000_000_000_000_000


def gen_case(rng):
    tree = {}
    for _ in range(rng.randint(0, 6)):
        comps = [rng.choice(NAMES) for _ in range(rng.randint(1, 3))]
        p = '/'.join(comps)
        ok = all(tree.get('/'.join(comps[:k]), 'dir') == 'dir' for k in range(1, len(comps)))
        if not ok or p in tree:
            continue
        for k in range(1, len(comps)):
            tree['/'.join(comps[:k])] = 'dir'
        tree[p] = 'dir' if rng.random() < 0.4 else 'file'
    target = [rng.choice(NAMES) for _ in range(rng.randint(1, 4))]
    start = rng.randint(0, len(target) - 1)
    # what _dirs_to_make returns: the ancestors of the target from some point on, outermost first
    dirs = ['/'.join(target[:k]) for k in range(start + 1, len(target) + 1)]
    files = [p for p, k in tree.items() if k == 'file']
    old_created = sorted(set(p for p in files + dirs if rng.random() < 0.5))
    fail = rng.choice([None, None, 0, 1, 2, 3])
    nodes = [[p, 'dir'] if k == 'dir' else [p, 'file', 'c%d' % i, 50 + i] for i, (p, k) in enumerate(sorted(tree.items()))]
    c = {'kind': 'md', 'tree': nodes, 'dirs': dirs, 'oldCreated': old_created}
    if fail is not None:
        c['failAt'] = fail
    return c


def real_run(case):
    fb = realrun.load_fb()
    mod = importlib.import_module('file_builder.file_builder')
    bkmod = importlib.import_module('file_builder.file_backups')
    root = os.path.realpath(tempfile.mkdtemp(prefix='fbh_md_', dir=realrun.SANDBOX_BASE))

    def ab(p):
        return os.path.join(root, p) if p else root

    def rel(x):
        return os.path.relpath(x, root)

    def tree():
        out = []
        for r_, ds, fs in os.walk(root):
            for d in ds:
                out.append([rel(os.path.join(r_, d)), 'dir'])
            for f in fs:
                q = os.path.join(r_, f)
                with open(q) as fh:
                    out.append([rel(q), 'file', fh.read(), os.stat(q).st_mtime_ns - BASE_NS])
        out.sort(key=lambda x: x[0])
        return out
    calls = [0]
    proxy = type(os)('os_mkdir_fault')
    proxy.__dict__.update({k: getattr(os, k) for k in dir(os) if not k.startswith('__')})

    fail_any = case.get('failAny')

    def mkdir(p, *a, **k):
        i = calls[0]
        calls[0] += 1
        if (case.get('failAt') is not None and i == case['failAt']) or (fail_any is not None and i == fail_any):
            raise OSError(errno.EIO, 'injected')
        return os.mkdir(p, *a, **k)
    proxy.mkdir = mkdir

    def rename(a_, b_, *a, **k):
        i = calls[0]
        calls[0] += 1
        if i == fail_any:
            raise OSError(errno.EIO, 'injected')
        return os.rename(a_, b_, *a, **k)
    bkproxy = type(os)('os_rename_fault')
    bkproxy.__dict__.update({k: getattr(os, k) for k in dir(os) if not k.startswith('__')})
    bkproxy.rename = rename
    bkproxy.replace = rename
    saved_os = mod.os
    saved_bkos = bkmod.os
    import logging
    was = logging.root.manager.disable
    logging.disable(logging.CRITICAL)
    try:
        for n in case['tree']:
            p = ab(n[0])
            if n[1] == 'dir':
                os.makedirs(p, exist_ok=True)
            else:
                os.makedirs(os.path.dirname(p), exist_ok=True)
                with open(p, 'w') as fh:
                    fh.write(n[2])
                os.utime(p, ns=(BASE_NS + n[3], BASE_NS + n[3]))
        before = tree()
        old = set(ab(p) for p in case['oldCreated'])
        with bkmod.FileBackups() as backups:
            fake = types.SimpleNamespace(
                _dirs_to_make=lambda d, cf: [ab(p) for p in case['dirs']],
                _old_cache=types.SimpleNamespace(created_norm_cased_file=lambda f: f in old),
                _backups=backups)
            mod.os = proxy
            if fail_any is not None:
                bkmod.os = bkproxy
            try:
                fb.FileBuilder._make_dirs(fake, ab(case['dirs'][-1]))
                outcome = 'ok'
            except OSError:
                outcome = 'OSError'
            finally:
                mod.os = saved_os
                bkmod.os = saved_bkos
            saved = []
            for orig, bak in backups._backups:
                with open(bak) as fh:
                    saved.append([rel(orig), fh.read(), os.stat(bak).st_mtime_ns - BASE_NS])
            after = tree()
        return {'outcome': outcome, 'tree': after, 'saved': saved, 'before': before, 'calls': calls[0]}
    finally:
        mod.os = saved_os
        bkmod.os = saved_bkos
        logging.disable(was)
        shutil.rmtree(root, ignore_errors=True)


def run(tier, rep, salt=0, faults=False):
    n = 400 if tier == 'quick' else (3000 if faults else 20000)
    rng = random.Random(core.seed() * 67867967 + 10 + salt)
    cases = [gen_case(rng) for _ in range(n)]
    if faults:
        # the fault at every mutating call (mkdir or rename) of the fault-free run of each tree, and once beyond
        for c in cases:
            c.pop('failAt', None)
        base = model.run_cases([dict(c, failAny=10 ** 6) for c in cases])
        cases = [dict(c, failAny=k) for c, b in zip(cases, base) for k in range(b['calls'] + 1)]
        if tier == 'quick':
            cases = rng.sample(cases, min(len(cases), 700))
    outs = model.run_cases(cases)
    problems = []
    for c, mo in zip(cases, outs):
        try:
            ro = real_run(c)
        except Exception as e:      # the method can no longer be driven this way
            problems.append({'what': '_make_dirs cannot be driven as FB.MakeDirs describes it: %s: %s' % (type(e).__name__, str(e)[:200]), 'case': c})
            break
        pre = 'makedirs_' if not faults else 'makedirs_anyfault_'
        rep.count(pre + ('calls' if not faults else 'runs'))
        rep.count(pre + ro['outcome'] + ('_injected' if c.get('failAt') is not None else ''))
        if ro['saved']:
            rep.count(pre + 'moved_a_file_aside')
        if ro['outcome'] == 'OSError':
            # the property itself, on the real code: no new directory survives the failure
            b = {x[0]: x for x in ro['before']}
            new_dirs = [x[0] for x in ro['tree'] if x[1] == 'dir' and (b.get(x[0]) or [None, None])[1] != 'dir']
            if new_dirs:
                problems.append({'what': '_make_dirs failed and left directories behind', 'oracle': True, 'left': new_dirs, 'case': c})
        # C03: whatever happens, a directory that was there before is there afterwards
        a_ = {x[0]: x for x in ro['tree']}
        lost = [x[0] for x in ro['before'] if x[1] == 'dir' and x[0] not in a_]
        if lost:
            problems.append({'what': '_make_dirs removed directories that existed before the call', 'oracle': True, 'foreign': True, 'lost': lost, 'case': c})
        got = {'outcome': ro['outcome'], 'tree': ro['tree'], 'saved': ro['saved']}
        exp = {'outcome': mo['outcome'], 'tree': mo['tree'], 'saved': mo['saved']}
        if faults and ro['outcome'] == 'ok':
            got['calls'] = ro['calls']
            exp['calls'] = mo.get('calls')
        if got != exp:
            problems.append({'what': 'FileBuilder._make_dirs and FB.MakeDirs%s.makeDirs differ' % ('F' if faults else ''), 'case': c, 'real': got, 'model': exp})
    return problems
