"""Per-property checks.  Every check has the same three gates (DESIGN.md 2.5):
   1 proof gate, 2 correspondence of the model with /repo on the property's slice, 3 oracle search
   for a failing input on the real code."""
import glob
import json
import os
import random

from . import core, gen, hist, jsoncheck, model, realrun, threadcheck, wire

ALL = ['C%02d' % i for i in range(1, 19)]

# theorems (fully qualified Lean names) that decide each property on the model
THEOREMS = {p: [] for p in ALL + ['TIE']}
THEOREMS['C01'] = ['FB.history_refines', 'FB.build_step', 'FB.build_step_valid', 'FB.clean_step', 'FB.cacheOK_of_userOK', 'FB.cacheOK_next',
                   'FB.run_follows', 'FB.follows_registered', 'FB.run_outputs', 'FB.buildGo_step', 'FB.faithfulRec_of_hash',
                   'FB.follows_allHash', 'FB.hinv_init', 'FB.buildGo_refines', 'FB.first_build_refines', 'FB.run_refines', 'FB.replay_sound', 'FB.replay_simple_sound',
                   'FB.faithful_of_hash', 'FB.C01_subbuild_hit_transparent', 'FB.View.sim_answer', 'FB.run_keeps_claimed',
                   'FB.run_pending', 'FB.sim_bfFinish', 'FB.CacheOK.empty']
THEOREMS['C05'] = ['FB.run_refines', 'FB.replay_sound', 'FB.C13_read_replay', 'FB.CreatedFiles.run_full', 'FB.CreatedFiles.started_full',
                   'FB.CreatedFiles.finished_full', 'FB.CreatedFiles.error_full', 'FB.CreatedFiles.hasDir_iff',
                   'FB.replay_simple_complete', 'FB.leaf_run_replays', 'FB.C05_leaf_file_reused_partial', 'FB.C05_leaf_sub_reused_partial',
                   'FB.flat_second_run', 'FB.flat_keeps', 'FB.lookupFile_hit',
                   'FB.C05_flat_rebuild', 'FB.preClean_recovers', 'FB.cachedIn_first', 'FB.flat_ok_run', 'FB.flat_first_facts',
                   'FB.flat_rerun', 'FB.leaf_lockstep', 'FB.rerunInvs_ok',
                   'FB.nested_second_run', 'FB.replay_run', 'FB.run_keeps', 'FB.run_absent', 'FB.n_first',
                   'FB.C05_nested_rebuild', 'FB.cachedIn_nested', 'FB.nested_ok_run', 'FB.nested_first_facts', 'FB.outputs_eq_targetsDeep', 'FB.run_keys', 'FB.run_dirs_kept', 'FB.mkdirs_dirsToMake', 'FB.replay_runF',
                   'FB.nested_rerun', 'FB.C05_nested_rerun', 'FB.f_first', 'FB.g_first',
                   'FB.run_argsRefl', 'FB.C05_nested_rebuild_wf', 'FB.C05_nested_rebuild_inputs',
                   'FB.C05_rebuild_with_failures', 'FB.nested_runF', 'FB.run_keysF', 'FB.cachedIn_allF', 'FB.outputs_eq_okT', 'FB.run_claims_targets', 'FB.g_first_sets']
THEOREMS['C06'] = ['FB.C06_changed_invalidates', 'FB.C06_changed_invalidatesL', 'FB.C06_lookup_tests_version',
                   'FB.C06_equal_versions_pass', 'FB.C06_unrelated_versions_stay_cached', 'FB.nested_second_run']
THEOREMS['C08'] = ['FB.C08_dup_file_rejected', 'FB.C08_dup_file_no_effect', 'FB.C08_dup_sub_no_effect',
                   'FB.C08_reuse_checks_and_claims', 'FB.C08_rejected_never_served_file', 'FB.C08_rejected_never_served_sub']
THEOREMS['C13'] = ['FB.C13_hash_iff', 'FB.C13_metadata_iff', 'FB.C13_read_replay', 'FB.C13_output_replay']
THEOREMS['C08'] = THEOREMS.get('C08', [])
THEOREMS['C09'] = ['FB.Conc.P4.ordered_no_deadlock', 'FB.Conc.P1.claim_unique', 'FB.Conc.P1.executed_at_most_once',
                   'FB.Conc.P2.count_is_registered', 'FB.Conc.P2.arbitration_correct', 'FB.Conc.P2.arbInv_run',
                   'FB.Conc.P2.arbitration_counterexample_before_fix', 'FB.BuildDirs.started_inv', 'FB.BuildDirs.registerUp_inv',
                   'FB.ConcDirs.created_iff_new', 'FB.ConcDirs.created_sound', 'FB.ConcDirs.j_run', 'FB.BuildDirs.started_post',
                   'FB.ConcDirs.ex_created', 'FB.ConcDirs.ex_done',
                   'FB.ConcDirsF.dirs_accounted', 'FB.ConcDirsF.j_run', 'FB.BuildDirs.hasCount_iff_live', 'FB.BuildDirs.started_general',
                   'FB.BuildDirs.error_general', 'FB.BuildDirs.started_shadow', 'FB.BuildDirs.error_shadow',
                   'FB.ConcDirsF.ex_one_fails', 'FB.ConcDirsF.ex_both_fail']
THEOREMS['C17'] = ['FB.Conc.P3.C17_no_append_after_close', 'FB.Conc.P3.C17_completed_in_record', 'FB.Conc.P3.C17_sequential_fence',
                   'FB.Conc.P3.straggler_counterexample']
THEOREMS['C08'] += ['FB.Conc.P1.claim_unique', 'FB.Conc.P1.executed_at_most_once']
THEOREMS['C04'] = ['FB.C04_exists_iff', 'FB.C04_not_both', 'FB.C04_listDir_iff', 'FB.C04_listDir_errors',
                   'FB.C04_hidden', 'FB.C04_visible_elsewhere', 'FB.BuildDirs.run_inv', 'FB.BuildDirs.handleDirExists_inv',
                   'FB.BuildDirs.started_inv', 'FB.BuildDirs.registerUp_inv', 'FB.BuildDirs.error_inv', 'FB.BuildDirs.isRemoved_inv',
                   'FB.BuildDirs.C04_isRemoved_iff_gone', 'FB.BuildDirs.isRemoved_spec', 'FB.BuildDirs.checkMaybeRemoved_spec',
                   'FB.BuildDirs.checkLoop_spec', 'FB.BuildDirs.handleDirExists_qinv', 'FB.BuildDirs.qreach_qinv',
                   'FB.Overlay.not_both', 'FB.Overlay.exists_eq', 'FB.Overlay.filterExisting_sub',
                   'FB.Overlay.C04_start_exists', 'FB.Overlay.start_isFile', 'FB.Overlay.start_isDir',
                   'FB.Overlay.C04_start_matches_spec', 'FB.BuildDirs.preClean_gone_iff', 'FB.BuildDirs.preClean_isDir_iff',
                   'FB.BuildDirs.preClean_isFile_iff', 'FB.BuildDirs.isRemoved_specR', 'FB.BuildDirs.checkMaybeRemoved_specR',
                   'FB.BuildDirs.handleDirExists_qinvR', 'FB.BuildDirs.init_qinvR', 'FB.BuildDirs.hasCount_iff_live',
                   'FB.C04_view_wellformed', 'FB.C04_build_view_wellformed', 'FB.wf_visible', 'FB.bfSetup_good', 'FB.wf_preClean',
                   'FB.C04_target_hidden_while_running', 'FB.C04_target_visible_after_return', 'FB.C04_target_gone_after_failure',
                   'FB.C04_walk_consistent', 'FB.walkEntryOf_lists', 'FB.C04_walk_order', 'FB.walkAux_complete']
THEOREMS['C02'] = ['FB.C02_rolledBack_frame', 'FB.C02_rolledBack_files', 'FB.C02_spec_build_raises', 'FB.Backups.restoreAll_spec',
                   'FB.Backups.restoreOne_self', 'FB.Backups.restoreOne_other', 'FB.Backups.backUp_file',
                   'FB.Rollback.rollBack_restores_files', 'FB.Rollback.removeNew_spec', 'FB.Rollback.restoreAll_file_from',
                   'FB.Rollback.rmEmpty_removes', 'FB.Rollback.restoreAll_dir_from',
                   'FB.Rollback.Undoable.start', 'FB.Rollback.Undoable.mkdir', 'FB.Rollback.Undoable.moveAside', 'FB.Rollback.Undoable.overwrite',
                   'FB.Rollback.Undoable.writeNew', 'FB.Rollback.Undoable.dropOutput', 'FB.Rollback.Undoable.rmEmpty',
                   'FB.Rollback.makeDirs_undoable', 'FB.Rollback.makeRoom_undoable', 'FB.Rollback.Undoable.eraseDir', 'FB.Rollback.undoable_rollback', 'FB.Rollback.steps_undoable', 'FB.Rollback.steps_rollback']
THEOREMS['C14'] = ['FB.C14_fault_surfaces', 'FB.MakeRoomF.makeRoomF_moved', 'FB.MakeRoomF.makeRoomF_keeps_virtual', 'FB.MakeRoomF.makeRoomF_no_file_lost', 'FB.MakeRoomF.makeRoomF_raw', 'FB.MakeRoomF.makeRoomF_none', 'FB.Rollback.makeRoomF_undoable', 'FB.Rollback.C14_makeRoom_fault_rollback', 'FB.Rollback.C14_makeRoom_fault_rollback_first_step', 'FB.MakeDirsF.makeDirsF_error', 'FB.MakeDirsF.loop_none', 'FB.Rollback.makeDirsF_undoable', 'FB.Rollback.C14_makeDirs_fault_rollback', 'FB.Rollback.C14_makeDirs_fault_rollback_first_step', 'FB.Rollback.makeRoomF_saved_below', 'FB.Rollback.prepare_undoable', 'FB.Rollback.C14_prepare_fault_rollback', 'FB.Rollback.C14_prepare_fault_rollback_first_step', 'FB.Rollback.makeRoomF_wf', 'FB.Rollback.prepare_failure_leaves_nothing', 'FB.C02_spec_build_raises', 'FB.C02_rolledBack_files', 'FB.MakeDirs.makeDirs_error',
                   'FB.Rollback.rollBack_restores_files']
THEOREMS['C03'] = ['FB.C03_impl_build', 'FB.C03_impl_buildGo', 'FB.C03_impl_run_frame', 'FB.replayOp_frame', 'FB.C03_run_frame',
                   'FB.C12_preClean_frame', 'FB.C02_rolledBack_files', 'FB.C12_impl_clean_is_preClean',
                   'FB.MakeRoom.makeRoom_moved', 'FB.MakeRoom.makeRoom_keeps_virtual', 'FB.Rollback.rollBack_restores_files',
                   'FB.Commit.commit_frame', 'FB.Commit.commit_keeps_file', 'FB.Commit.commit_exact', 'FB.Commit.commit_exact_general', 'FB.Commit.commit_exact_instance', 'FB.Commit.commit_keeps_cache_file', 'FB.Commit.commit_matches_model_world']
THEOREMS['C16'] = ['FB.Codec.decode_encode', 'FB.Codec.decodeOps_encodeOps', 'FB.Codec.read_write', 'FB.Codec.replayOp_strip',
                   'FB.Codec.replayOps_strip', 'FB.Codec.isEqual_textRT', 'FB.Codec.textRT_of_wf']
THEOREMS['C11'] = ['FB.Heap.C11_records_immutable', 'FB.Heap.C11_records_immutable_from_init', 'FB.Heap.C11_served_value', 'FB.Heap.inv_run', 'FB.Heap.inv_step',
                   'FB.Heap.read_frame', 'FB.Heap.copy_faithful', 'FB.Heap.read_alloc', 'FB.Heap.alloc_post', 'FB.Heap.needs_argsIn', 'FB.Heap.needs_argsOut', 'FB.Heap.needs_retIn',
                   'FB.Heap.needs_retOut', 'FB.Heap.needs_retOut_cached', 'FB.Heap.needs_queryOut']
THEOREMS['C10'] = ['FB.C10_success', 'FB.C10_failure', 'FB.C10_setup', 'FB.MakeDirs.makeDirs_error', 'FB.MakeDirs.loop_error']
THEOREMS['C12'] = ['FB.C12_build_after_clean', 'FB.C12_preClean_frame', 'FB.C12_clean_noop_without_cache', 'FB.C12_clean_idempotent',
                   'FB.C12_impl_clean_is_preClean', 'FB.BuildDirs.preClean_gone_iff', 'FB.BuildDirs.preClean_isFile_iff',
                   'FB.BuildDirs.preClean_isDir_iff', 'FB.preClean_recovers']
THEOREMS['C15'] = ['FB.C15_spec_build_refused', 'FB.C15_impl_build_refused', 'FB.C15_spec_clean_refused']
THEOREMS['C18'] = ['FB.sanitize_shape', 'FB.sanitize_idempotent', 'FB.sanitize_rejects_iff', 'FB.isEqual_refl',
                   'FB.isEqual_symm', 'FB.isEqual_trans', 'FB.toHashable_iff',
                   'FB.isEqual_int_float', 'FB.isEqual_bool_num', 'FB.isEqual_list_tuple']
THEOREMS['C07'] = ['FB.C07_subkey_iff', 'FB.C07_lookupFile_needs_equal_args', 'FB.toHashable_iff', 'FB.sanitize_idempotent',
                   'FB.PathNorm.abspath_clean', 'FB.PathNorm.abspath_idempotent', 'FB.PathNorm.abspath_relative',
                   'FB.PathNorm.loop_skip', 'FB.PathNorm.loop_detour']

# oracle categories (hist.analyze) that are a failing input of the property on the real code
ORACLE = {
    'C01': ['res', 'tree', 'inv_extra'],
    'C02': ['rollback', 'exc_identity', 'tmp_leak'],
    'C03': ['foreign'],
    'C04': ['res', 'tree'],
    'C05': ['unjustified', 'rewritten'],
    'C06': ['res', 'tree', 'version_not_reexecuted', 'unjustified'],
    'C07': ['res', 'inv_extra', 'unjustified'],
    'C08': ['res', 'inv_extra', 'tree'],
    'C10': ['contract', 'res', 'tree'],
    'C12': ['clean_tree', 'clean_res', 'foreign'],
    'C13': ['res', 'tree', 'unjustified'],
    'C14': ['res', 'tree', 'rollback', 'tmp_leak', 'contract'],
    'C15': ['refused_effect', 'tmp_leak'],
    'C18': ['res', 'inv_extra', 'unjustified'],
    'C16': ['res', 'unjustified', 'rollback', 'clean_tree', 'cache_early'],
    'TIE': [],
}
# correspondence slices: disagreements between the real code and the implementation model FB.Impl
TIE = {
    'C01': ['impl_res', 'impl_tree', 'impl_inv', 'impl_cache'],
    'C02': ['impl_tree', 'impl_res'],
    'C03': ['impl_tree'],
    'C04': ['impl_res'],
    'C05': ['impl_inv'],
    'C06': ['impl_inv', 'impl_res'],
    'C07': ['impl_inv', 'impl_res'],
    'C08': ['impl_inv', 'impl_res'],
    'C10': ['impl_res', 'impl_tree'],
    'C12': ['impl_tree'],
    'C18': ['impl_inv', 'impl_res'],
    'C13': ['impl_inv', 'impl_res'],
    # under an injected fault the library may already have moved an old output aside when the call fails:
    # whether a later call can still reuse it is below the model's abstraction, so mtimes are not compared
    'C14': ['impl_res'],
    'C15': ['impl_res', 'impl_tree'],
    'C16': ['impl_cache', 'impl_res'],
    'TIE': ['impl_res', 'impl_tree', 'impl_inv', 'impl_cache'],
}


def budget(tier, quick, thorough):
    return quick if tier == 'quick' else thorough


# --------------------------------------------------------------------------------------------
def shrink_case(case, pred, max_rounds=150):
    """greedy delta-debugging: drop history steps, statements, tree nodes while `pred(case)` holds"""
    cur = json.loads(json.dumps(case))
    rounds = [0]

    def still(c):
        rounds[0] += 1
        if rounds[0] > max_rounds:
            return False
        try:
            return pred(c)
        except Exception:
            return False
    changed = True
    while changed and rounds[0] <= max_rounds:
        changed = False
        for i in range(len(cur['steps']) - 1, -1, -1):
            c = json.loads(json.dumps(cur)); del c['steps'][i]
            if c['steps'] and still(c):
                cur = c; changed = True
        for fi, f in enumerate(cur['funcs']):
            for si in range(len(f['stmts']) - 1, -1, -1):
                c = json.loads(json.dumps(cur)); del c['funcs'][fi]['stmts'][si]
                if still(c):
                    cur = c; changed = True
        for ni in range(len(cur['tree']) - 1, -1, -1):
            c = json.loads(json.dumps(cur)); del c['tree'][ni]
            if still(c):
                cur = c; changed = True
    return cur


def fault_step_of(case):
    for i, st in enumerate(case['steps']):
        if st[0] == 'build' and len(st) > 5 and isinstance(st[5], dict) and 'inject' in st[5]:
            return i
    return None


def run_with_fault_plan(case):
    """C14: real run first (where does the k-th call fall?), then the model with the derived plan"""
    b = fault_step_of(case)
    case['steps'][b][5] = {'inject': case['steps'][b][5]['inject'], 'inject_exc': case['steps'][b][5].get('inject_exc')}
    r = hist.real_worker(case)
    if 'harness_error' in r:
        raise core.HarnessError(r['harness_error'])
    f = r['steps'][b].get('fault', {}).get('fired')
    if f is None:
        return None
    case['steps'][b][5].update(fault_plan(f))
    s, = model.run_cases([case])
    return case, r, s


def discrepancies(case, cats):
    if fault_step_of(case) is not None:
        out = run_with_fault_plan(case)
        if out is None:
            return []
        c, r, s = out
        ds, _ = hist.analyze(c, r, s)
        return [d for d in ds if d['cat'] in cats]
    (c, r, s), = hist.run_batch([case], procs=1)
    ds, _ = hist.analyze(c, r, s)
    return [d for d in ds if d['cat'] in cats]


def corpus_cases(dirsize):
    """minimised past failures and defect witnesses: always run first"""
    out = []
    for f in sorted(glob.glob(os.path.join(core.VERIF, 'corpus', '*.json'))):
        with open(f) as fh:
            d = json.load(fh)
        c = d.get('case')
        if c and c.get('kind') == 'hist':
            c = dict(c); c['dirsize'] = dirsize; c['seed'] = 'corpus:' + os.path.basename(f)
            out.append(c)
    return out


def nontrivial_key(c, st):
    if st['hits'] > 0 and st['real_inv'] > 0:
        return json.dumps([c['funcs'], c['steps'], c['tree']], sort_keys=True)
    return None


def explore(prop, tier, rep, cases, precomputed=None, tie_cats=None):
    """gates 2 and 3 on a list of history cases"""
    oracle_cats, tie_cats = ORACLE[prop], (tie_cats if tie_cats is not None else TIE[prop])
    if precomputed is None:
        # every fifth generated case with sibling names one of which is a string prefix of the other (a, ab)
        cases = [gen.rename_components(c, {'b': 'ab'}) if (i % 5 == 2 and not str(c.get('seed', '')).startswith('corpus:') and c.get('kind', 'hist') == 'hist')
                 else c for i, c in enumerate(cases)]
    results = precomputed if precomputed is not None else hist.run_batch(cases)
    agg = {}
    n_oracle = n_tie = 0
    first_tie = None
    for c, r, s in results:
        ds, st = hist.analyze(c, r, s)
        for k, v in st.items():
            agg[k] = agg.get(k, 0) + v
        for ro in (r.get('steps') or []):
            for k_, v_ in (ro.get('spelled') or {}).items():
                agg['spelled_' + k_] = agg.get('spelled_' + k_, 0) + v_
        rep.count('evaluations')
        k = nontrivial_key(c, st)
        if k:
            rep.distinct.add(k)
        mine = [d for d in ds if d['cat'] in oracle_cats]
        tie = [d for d in ds if d['cat'] in tie_cats]
        if mine:
            n_oracle += 1
            if n_oracle <= 3:
                small = shrink_case(c, lambda cc: bool(discrepancies(cc, oracle_cats)))
                fails = discrepancies(small, oracle_cats) or mine
                known = core.match_known(prop, small, fails)
                if known:
                    rep.known.append(known)
                    n_oracle -= 1
                else:
                    rep.violation('seed%s' % str(c.get('seed')).replace(':', '_').replace('/', '_'), {
                        'property': prop, 'kind': 'failing-input', 'what': fails[:3], 'case': small,
                        'original_seed': c.get('seed'), 'how_to_replay': './check %s --replay <this file>' % prop},
                        note='%s: %s' % (fails[0]['cat'], json.dumps(fails[0]['detail'])[:220]))
        elif tie:
            n_tie += 1
            if first_tie is None:
                first_tie = (c, tie)
    rep.count('correspondence_disagreements', n_tie)
    if first_tie is not None and not rep.violations:
        # the model and the code disagree on this slice and the oracle found no failing input:
        # the property is no longer shown to hold
        c, tie = first_tie
        small = shrink_case(c, lambda cc: bool(discrepancies(cc, tie_cats)))
        found = discrepancies(small, oracle_cats)
        fails = discrepancies(small, tie_cats) or tie
        rep.violation('tie', {
            'property': prop, 'kind': 'correspondence-broken' if not found else 'failing-input',
            'no_longer_checks': 'correspondence of FB.Impl with the real code on slice %s' % tie_cats,
            'what': (found or fails)[:3], 'case': small, 'original_seed': c.get('seed')},
            note='model/code disagree: %s' % json.dumps(fails[0])[:220], no_input=not found)
    rep.coverage.update({'programs': len(cases), 'disagreements_checked': len(cases), 'history_stats': agg,
                         'failing_cases': n_oracle, 'traces_validated_against_impl': len(cases) - n_tie})
    if cases:
        mid = cases[len(cases) // 2]
        rep.samples.append({'seed': mid.get('seed'), 'funcs': mid['funcs'][:2], 'steps': mid['steps'][:4]})


def random_cases(tier, n_quick, n_thorough, salt, prof=gen.DEFAULT_PROFILE, dirsize=4096, **kw):
    base = core.seed() * 1000003 + salt * 7919
    return [gen.gen_case(base + i, prof, dirsize=dirsize, **kw) for i in range(budget(tier, n_quick, n_thorough))]


def measure():
    ds = realrun.measure_dirsize()
    if ds is None:
        raise core.HarnessError('directory sizes vary on %s; set FBH_TMP to an ext4-like file system' % realrun.SANDBOX_BASE)
    return ds


def finish(prop, rep, gate):
    if not gate['ok'] and not rep.violations:
        rep.violation('proofgate', {'property': prop, 'kind': 'broken-proof-obligation',
                                    'no_longer_checks': gate['failures']},
                      note='; '.join(gate['failures'])[:300], no_input=True)
    return rep.finish(gate)


def plant_cache_siblings(case, rng):
    """foreign files next to the cache file, with the names a careless implementation might use for its own
    temporary files"""
    cache = case.get('cache', 'cache.gz')
    d, _, base = cache.rpartition('/')
    taken = set(n[0] for n in case['tree'])
    for suffix in rng.sample(['.tmp', '.bak', '~', '.new', '.lock', '.old', '.part', '.swp'], 3):
        for name in (base + suffix, '.' + base + suffix):
            p = (d + '/' if d else '') + name
            if p not in taken and rng.random() < 0.7:
                case['tree'] = case['tree'] + [[p, 'file', 'foreign' + suffix, 120]]
                taken.add(p)


def run_hist_prop(prop, tier, salt, n_quick, n_thorough, families=gen.SCENARIOS, per_family=(25, 600),
                  prof=gen.DEFAULT_PROFILE, extra_cases=None, unit_tie=None, faults=None, _after=None, **kw):
    rep = core.Report(prop, tier)
    gate = core.proof_gate(THEOREMS[prop], tier)
    ds = measure()
    unit_problems = unit_tie[1](tier, rep) if unit_tie else []
    if faults:
        fault_batch(prop, tier, rep, ds, *faults)
    cases = corpus_cases(ds)
    cases += gen.gen_scenario_cases(core.seed() * 31 + salt, budget(tier, *per_family), ds, families)
    if extra_cases:
        cases += extra_cases(tier, ds)
    cases += random_cases(tier, n_quick, n_thorough, salt, prof=prof, dirsize=ds, **kw)
    # C07: every path handed to the library is spelled differently at every occurrence (relative, bytes,
    # PathLike, redundant separators, '.', '..', trailing separator); the model sees the normalised path
    for i, c in enumerate(cases):
        if not str(c.get('seed', '')).startswith('corpus:') and (prop == 'C07' or i % 4 == 0):
            c['spell'] = core.seed() * 7919 + i
        if not str(c.get('seed', '')).startswith('corpus:') and (prop == 'C07' or i % 4 == 1):
            c['callee_mutates'] = True     # the functions edit their (copied) arguments in place
        if prop in ('C03', 'C12', 'C02') and not str(c.get('seed', '')).startswith('corpus:') and i % 3 == 0:
            plant_cache_siblings(c, random.Random(core.seed() * 131 + i))
    explore(prop, tier, rep, cases)
    if _after:
        _after(rep)
    if unit_problems and not rep.violations:
        # a unit-level model and the code disagree and the histories exhibit no failing input
        q = unit_problems[0]
        rep.violation('unit_tie', {'property': prop, 'kind': 'correspondence-broken', 'no_longer_checks': unit_tie[0],
                                   'what': q}, note='%s: %s' % (q.get('what'), json.dumps(q, default=str)[:200]), no_input=True)
    return finish(prop, rep, gate)


# ---------------------------------------------------------------------------------------------
QUERY_DENSE = dict(gen.DEFAULT_PROFILE, p_q=0.7, p_bf=0.14, p_sb=0.08, p_raise=0.02, p_if=0.06, max_stmts=8)
RICH_ARGS = dict(gen.DEFAULT_PROFILE, args=[0, 1, 1.0, True, False, None, 'x', '', [1, 2], (1, 2), [1.0, 2], {'k': 1}, {8: 'a', '8': 'b'}, {'8': 'b'}, {'8': 'a'}, {None: 1, 'null': 2},
                                           {'k': 1.0}, {1: 'a'}, {'1': 'a'}, {'a': 1, 'b': 2}, {'b': 2, 'a': 1},
                                           2 ** 70, -0.0, 0, [[]], [()], {'a': [1, (2,)]}, 'é', '\U0001F600'],
                 kws=[{}, {}, {'k': 1}, {'k': True}, {'k': 1.0}, {'k': [1, (2,)]}, {'a': 1, 'b': 2}, {'b': 2, 'a': 1}, {'k': None}, {'k': 0}, {'k': False}, {'j': None}, {'j': 'x'}, {'m': None, 'k': 1}],
                 p_sb=0.35, p_bf=0.2, p_q=0.25, p_pool=0.3)
RICH_RETS = dict(gen.DEFAULT_PROFILE, rets=['acc', 'const', 'const', 'const'])


def check_C01(tier):
    # plus every argument pair of the identity family (a changed argument always shows up; an equal one never does)
    # the overlay a record is validated against is modelled by its specification in FB.Impl; FB.CreatedFiles is the
    # model of the class that maintains it (run_full), tied to created_files.py state by state
    return run_hist_prop('C01', tier, 1, 700, 40000, families=gen.SCENARIOS + [gen.scen_cache_subdir],
                         unit_tie=('FB.CreatedFiles (run_full: the overlay of created files is exact) describes created_files.py',
                                   lambda t, rep: [dict(q, what='created_files.py and FB.CreatedFiles differ after %s' % json.dumps(q['cmds'][-1]))
                                                   for q in datastructure_tie('C01', t, rep, salt=1)]),
                         extra_cases=lambda t, ds: gen.gen_scenario_cases(core.seed() * 31 + 101, budget(t, 130, 1200), ds, [gen.scen_identity]))
def check_C02(tier):
    from . import bkcheck, rbcheck
    return run_hist_prop('C02', tier, 2, 700, 40000, p_fail=0.5, families=gen.SCENARIOS + [gen.scen_cache_subdir],
                         unit_tie=('FB.Backups (restoreAll_spec, backUp_file) describes file_backups.py and FB.Rollback.rollBack describes FileBuilder._roll_back',
                                   lambda t, rep: bkcheck.run(t, rep) + rbcheck.run(t, rep, measure())),
                         _after=lambda rep: [rep.violation('bulk_rollback', {'property': 'C02', 'kind': 'failing-input', 'what': q},
                                                           note=json.dumps(q, default=str)[:250]) for q in bulk_rollback_probe(tier, rep)[:2]])
def _c03_after(tier, rep):
    for q in bulk_foreign_probe(tier, rep)[:2]:
        rep.violation('bulk_foreign', {'property': 'C03', 'kind': 'failing-input', 'what': q}, note=json.dumps(q, default=str)[:250])
    explore_threads('C03', tier, rep, ['overwrite_foreign_then_fail', 'rebuild_two_then_fail'], budget(tier, 2, 3), budget(tier, 300, 5000))
    # _make_room on its own: it may only move files the virtual tree does not know to the undo log and remove
    # directories the virtual tree does not know (oracle), and must do what FB.MakeRoom says (tie)
    from . import mdcheck
    for q in [x for x in mdcheck.run(tier, rep, salt=3) if x.get('foreign')][:2]:
        rep.violation('makedirs_foreign', {'property': 'C03', 'kind': 'failing-input', 'what': q}, note=json.dumps(q, default=str)[:250])
    # _commit: on every commit of generated histories and on random states it removes only old outputs the virtual
    # tree does not know and listed directories (oracle), does what FB.Commit says (tie), and where the hypotheses
    # of commit_exact hold the tree on disk is the virtual tree afterwards
    from . import cmcheck
    cprobs = cmcheck.run(tier, rep, measure())
    for q in [x for x in cprobs if x.get('oracle')][:2]:
        rep.violation('commit', {'property': 'C03', 'kind': 'failing-input', 'what': q}, note=json.dumps(q, default=str)[:250])
    ctie = [x for x in cprobs if not x.get('oracle')]
    rep.count('correspondence_disagreements_commit', len(ctie))
    if ctie and not rep.violations:
        rep.violation('commit_tie', {'property': 'C03', 'kind': 'correspondence-broken',
                                     'no_longer_checks': 'FB.Commit (commit_frame, commit_keeps_file, commit_exact) describes FileBuilder._commit',
                                     'what': ctie[0]}, note='%s: %s' % (ctie[0]['what'], json.dumps(ctie[0].get('differ_at') or ctie[0].get('case'))[:160]), no_input=True)
    from . import mrcheck
    probs = mrcheck.run(tier, rep)
    for q in [x for x in probs if x.get('oracle')][:2]:
        rep.violation('makeroom', {'property': 'C03', 'kind': 'failing-input', 'what': q}, note=json.dumps(q, default=str)[:250])
    tie = [x for x in probs if not x.get('oracle')]
    rep.count('correspondence_disagreements_makeroom', len(tie))
    if tie and not rep.violations:
        rep.violation('makeroom_tie', {'property': 'C03', 'kind': 'correspondence-broken',
                                       'no_longer_checks': 'FB.MakeRoom (makeRoom_moved, makeRoom_keeps_virtual) describes FileBuilder._make_room',
                                       'what': tie[0]}, note='%s: %s' % (tie[0]['what'], json.dumps(tie[0].get('case'))[:160]), no_input=True)


def check_C03(tier):
    # ... and when two threads overwrite foreign files in a build that is rolled back, both are back
    return run_hist_prop('C03', tier, 3, 700, 40000, p_fail=0.3, p_clean=0.2, families=gen.SCENARIOS + [gen.scen_cache_subdir],
                         _after=lambda rep: _c03_after(tier, rep))
def check_C04(tier):
    # query-dense programs, plus call-dense ones (what a later build sees depends on what earlier ones recorded),
    # plus the BuildDirs data structure on its own, state by state
    rep = core.Report('C04', tier)
    gate = core.proof_gate(THEOREMS['C04'], tier)
    ds = measure()
    from . import bdcheck
    probs = bdcheck.run(tier, rep)
    rep.count('correspondence_disagreements_builddirs', len(probs))
    # ... and SimpleOperationExecutor on top of it, answer by answer
    from . import ovcheck
    oprobs = ovcheck.run(tier, rep, ds)
    rep.count('correspondence_disagreements_overlay', len(oprobs))
    # a call that fails in its set-up must not stay "being built" (hidden) for the rest of the build
    fault_batch('C04', tier, rep, ds, (4, 100), (40, 2000), 104)
    cases = corpus_cases(ds)
    cases += gen.gen_scenario_cases(core.seed() * 31 + 4, budget(tier, 25, 600), ds, gen.SCENARIOS)
    cases += random_cases(tier, 400, 15000, 104, dirsize=ds)
    cases += random_cases(tier, 500, 20000, 4, prof=QUERY_DENSE, dirsize=ds)
    for i, c in enumerate(cases):
        if not str(c.get('seed', '')).startswith('corpus:') and i % 4 == 0:
            c['spell'] = core.seed() * 7919 + i
    explore('C04', tier, rep, cases)
    if probs and not rep.violations:
        p = probs[0]
        rep.violation('builddirs_tie', {'property': 'C04', 'kind': 'correspondence-broken',
                                        'no_longer_checks': 'FB.BuildDirs (run_inv) describes build_dirs.py',
                                        'case': p['case'], 'real': p['real'], 'model': p['model']},
                      note='build_dirs.py and FB.BuildDirs differ after %s' % json.dumps(p['case']['cmds'][-1]), no_input=True)
    if oprobs and not rep.violations:
        p = oprobs[0]
        rep.violation('overlay_tie', {'property': 'C04', 'kind': 'correspondence-broken',
                                      'no_longer_checks': 'FB.Overlay (not_both, exists_eq, filterExisting_sub) describes simple_operation_executor.py',
                                      'case': p['case'], 'real': p['real'], 'model': p['model']},
                      note='%s after %s' % (p['what'], json.dumps((p['case'].get('queries') or [None])[-1])), no_input=True)
    return finish('C04', rep, gate)


def datastructure_tie(prop, tier, rep, salt=0):
    """created_files.py against FB.CreatedFiles, state by state (a disagreement is a broken correspondence; the
    history exploration that follows is the search for a failing input)"""
    from . import cfcheck
    probs = cfcheck.run(tier, rep, salt)
    rep.count('correspondence_disagreements_createdfiles', len(probs))
    return probs


def check_C05(tier):
    rep = core.Report('C05', tier)
    gate = core.proof_gate(THEOREMS['C05'], tier)
    ds = measure()
    probs = datastructure_tie('C05', tier, rep)
    cases = corpus_cases(ds)
    cases += gen.gen_scenario_cases(core.seed() * 31 + 5, budget(tier, 25, 600), ds, gen.SCENARIOS)
    cases += random_cases(tier, 700, 40000, 5, dirsize=ds, p_fail=0.05, p_clean=0.03, min_builds=3, max_builds=6)
    # container arguments, handed to functions that edit them in place: the record must not change with them
    cases += gen.gen_scenario_cases(core.seed() * 31 + 105, budget(tier, 60, 1200), ds, [gen.scen_identity])
    for i, c in enumerate(cases):
        if not str(c.get('seed', '')).startswith('corpus:') and i % 4 == 0:
            c['spell'] = core.seed() * 7919 + i
        if not str(c.get('seed', '')).startswith('corpus:') and i % 4 in (1, 3):
            c['callee_mutates'] = True
    explore('C05', tier, rep, cases)
    if probs and not rep.violations:
        p = probs[0]
        rep.violation('createdfiles_tie', {'property': 'C05', 'kind': 'correspondence-broken',
                                           'no_longer_checks': 'FB.CreatedFiles (run_full: the overlay of created files is exact) describes created_files.py',
                                           'commands': p['cmds'], 'real': p['real'], 'model': p['model']},
                      note='created_files.py and FB.CreatedFiles differ after %s' % json.dumps(p['cmds'][-1]), no_input=True)
    return finish('C05', rep, gate)


def check_C06(tier):
    return run_hist_prop('C06', tier, 6, 500, 20000, families=[gen.scen_versions], per_family=(150, 4000),
                         versions_pool=gen.VERSION_POOL, p_fail=0.05, p_clean=0.0, min_builds=3, max_builds=6)


def spelling_probe(tier, rep):
    """C07, the spellings the models cannot express: a target below a symbolic link given as str, pathlib.Path, bytes and a
    custom PathLike is ONE file (links are not resolved: the identity is os.path.abspath of the spelling) - a second
    build_file in the same build is refused, a later build is a hit whatever the spelling; and keyword arguments with
    names the library uses internally (description, operation, ...) are ordinary keyword arguments."""
    import pathlib
    import shutil
    import tempfile
    fb = realrun.load_fb()
    FB = fb.FileBuilder
    problems = []
    root = os.path.realpath(tempfile.mkdtemp(prefix='fbh_sp_', dir=realrun.SANDBOX_BASE))

    class P:
        def __init__(self, v):
            self.v = v

        def __fspath__(self):
            return self.v
    try:
        os.mkdir(os.path.join(root, 'real'))
        os.symlink(os.path.join(root, 'real'), os.path.join(root, 'link'))
        cache = os.path.join(root, 'cache.gz')
        t = os.path.join(root, 'link', 'o', 'out.txt')
        spellings = [('str', t), ('pathlib', pathlib.Path(t)), ('bytes', os.fsencode(t)), ('PathLike', P(t)), ('PathLike(bytes)', P(os.fsencode(t)))]
        ran, got = [], []

        def f(b, fn, **kw):
            ran.append(sorted(kw))
            got.append(fn)
            with open(fn, 'w') as fh:
                fh.write('x')
            return sorted(kw.items())
        kws = {'description': 'd', 'operation': 1, 'created_files': [2], 'filename_': 'n'}
        for i, (name, sp) in enumerate(spellings):
            def rootf(b, sp=sp, i=i):
                r1 = b.build_file(sp, 'f', f, **kws)
                dup = None
                try:
                    b.build_file(spellings[(i + 1) % len(spellings)][1], 'f', f, **kws)
                except RuntimeError:
                    dup = 'refused'
                s1 = b.subbuild('g', lambda bb, **kw: sorted(kw.items()), **kws)
                return [r1, dup, s1]
            del ran[:]
            r = FB.build(cache, 'n', rootf)
            rep.count('spelling_probe_builds')
            if r[1] != 'refused':
                problems.append({'what': 'the same target below a symbolic link spelled as %s and as %s was accepted twice in one build' % (name, spellings[(i + 1) % len(spellings)][0])})
            if i > 0 and ran:
                problems.append({'what': 'the target built under the spelling %s was rebuilt under the spelling %s (nothing changed)' % (spellings[i - 1][0], name)})
            if r[0] != sorted(kws.items()) and r[0] != [list(x) for x in sorted(kws.items())]:
                problems.append({'what': 'keyword arguments named like internals of the library did not reach the function as they were: %r' % (r[0],)})
        if got and got[0] != t:
            problems.append({'what': 'the function received %r instead of os.path.abspath of the spelling %r' % (got[0], t)})
    except Exception as e:
        problems.append({'what': 'the spelling probe raised %s: %s' % (type(e).__name__, str(e)[:200])})
    finally:
        shutil.rmtree(root, ignore_errors=True)
    return problems


def check_C07(tier):
    from . import pathcheck
    return run_hist_prop_then_threads('C07', tier, 7, 700, 30000, families=[gen.scen_dups, gen.scen_identity], per_family=(380, 5000), prof=RICH_ARGS,
                         p_fail=0.05, p_clean=0.0,
                         unit_tie=('FB.PathNorm.abspath (abspath_clean, abspath_idempotent, loop_skip, loop_detour) describes '
                                   'FileBuilder._sanitize_filename', pathcheck.run))


def run_hist_prop_then_threads(prop, tier, *a, **kw):
    """C07: the identity of a key must not depend on its spelling when two threads race for it either"""
    def _after(rep):
        for q in spelling_probe(tier, rep)[:3]:
            rep.violation('spelling', {'property': prop, 'kind': 'failing-input', 'what': q}, note=q['what'][:250])
        explore_threads(prop, tier, rep, ['dup_sub_json_equal', 'dup_sub_json_equal_cached'], budget(tier, 2, 3), budget(tier, 300, 5000))
    kw['_after'] = _after
    return run_hist_prop(prop, tier, *a, **kw)


def check_C08(tier):
    rep = core.Report('C08', tier)
    gate = core.proof_gate(THEOREMS['C08'], tier)
    ds = measure()
    cases = corpus_cases(ds) + gen.gen_scenario_cases(core.seed() * 31 + 8, budget(tier, 120, 3000), ds, [gen.scen_dups, gen.scen_nested_failure])
    cases += random_cases(tier, 500, 30000, 8, prof=RICH_ARGS, dirsize=ds, p_fail=0.1)
    # "the same path": also when the second call spells it differently (relative, '..', '.', '//', bytes, PathLike)
    for i, c in enumerate(cases):
        if not str(c.get('seed', '')).startswith('corpus:') and i % 3 == 0:
            c['spell'] = core.seed() * 7919 + i
    explore('C08', tier, rep, cases)
    # the thread clause: two threads issuing the same key, every schedule up to the preemption bound
    explore_threads('C08', tier, rep, ['dup_file', 'dup_sub', 'dup_sub_cached', 'dup_sub_json_equal', 'dup_sub_json_equal_cached',
                                       'dup_cached_in_callers', 'dup_file_cached_in_callers', 'dup_file_in_cached_sub'],
                    budget(tier, 2, 3), budget(tier, 500, 8000))
    return finish('C08', rep, gate)


def symlink_probe(tier, rep):
    """C10 with a symbolic link among the ancestors of the target (not in the models: they have no links): the
    function receives os.path.abspath of the spelling it was called with - links are not resolved - and after a
    failure the directories made for the call are gone under that very spelling"""
    import shutil
    import tempfile
    fb = realrun.load_fb()
    FB = fb.FileBuilder
    problems = []
    root = os.path.realpath(tempfile.mkdtemp(prefix='fbh_ln_', dir=realrun.SANDBOX_BASE))
    try:
        os.mkdir(os.path.join(root, 'real'))
        os.symlink(os.path.join(root, 'real'), os.path.join(root, 'link'))
        cache = os.path.join(root, 'cache.gz')
        seen = {}

        def ok(b, fn):
            seen['ok'] = fn
            with open(fn, 'w') as fh:
                fh.write('x')

        def bad(b, fn):
            seen['bad'] = fn
            with open(fn, 'w') as fh:
                fh.write('x')
            raise ValueError('boom')

        def rootf(b):
            t1 = os.path.join(root, 'link', 'd1', 'out')
            t2 = os.path.join(root, 'link', 'd2', 'sub', 'out')
            b.build_file(t1, 'ok', ok)
            try:
                b.build_file(t2, 'bad', bad)
            except ValueError:
                pass
            return {'t1': t1, 't2': t2, 'is_file_t1': b.is_file(t1), 'is_dir_d2': b.is_dir(os.path.dirname(os.path.dirname(t2))),
                    'exists_d2sub': b.exists(os.path.dirname(t2)), 'list_link': sorted(b.list_dir(os.path.join(root, 'link')))}
        r = FB.build(cache, 'n', rootf)
        rep.count('symlink_probes')
        # (a) the function publishes its target as a symbolic link to a file it keeps elsewhere, then raises: the link goes
        # (b) a target given as bytes that are not valid UTF-8: the function gets os.path.abspath(os.fsdecode(target)), the
        #     file lies at exactly those bytes, two targets that differ in such a byte are two targets
        store = os.path.join(root, 'store.bin')
        with open(store, 'w') as fh:
            fh.write('blob')
        odd1 = os.path.join(os.fsencode(root), b'r\xe9s', b'caf\xe9.txt')
        odd2 = os.path.join(os.fsencode(root), b'r\xe9s', b'caf\xe8.txt')
        got = {}

        def publish_link_then_fail(b, fn):
            os.symlink(store, fn)
            raise ValueError('boom')

        def publish_link(b, fn):
            os.symlink(store, fn)

        def odd(b, fn, tag):
            got[tag] = fn
            with open(fn, 'w') as fh:
                fh.write(tag)

        def root2(b):
            t3 = os.path.join(root, 'l1', 'sub', 'linked')
            try:
                b.build_file(t3, 'plf', publish_link_then_fail)
                out = ['returned']
            except ValueError:
                out = ['raised']
            out += [os.path.lexists(t3), b.exists(t3), b.is_dir(os.path.join(root, 'l1'))]
            b.build_file(os.path.join(root, 'l2', 'linked'), 'pl', publish_link)
            b.build_file(odd1, 'odd', odd, 'one')
            b.build_file(odd2, 'odd', odd, 'two')
            return out
        try:
            r2 = FB.build(os.path.join(root, 'cache2.gz'), 'n', root2)
            if r2 != ['raised', False, False, False]:
                problems.append({'what': 'a function that published its target as a symbolic link and then raised: [outcome, link still there, exists(target), is_dir(made directory)] = %s' % r2})
            if os.path.lexists(os.path.join(root, 'l1')):
                problems.append({'what': 'the directories made for a failed build_file whose function left a symbolic link at the target are still there at the end of the build'})
            if not os.path.isfile(os.path.join(root, 'l2', 'linked')):
                problems.append({'what': 'a target published as a symbolic link to a regular file is missing after the build'})
            for tag, t in (('one', odd1), ('two', odd2)):
                if got.get(tag) != os.path.abspath(os.fsdecode(t)):
                    problems.append({'what': 'a bytes target that is not valid UTF-8: the function received %r instead of %r' % (got.get(tag), os.path.abspath(os.fsdecode(t)))})
                elif not os.path.isfile(t) or open(t).read() != tag:
                    problems.append({'what': 'a bytes target that is not valid UTF-8: build_file returned but %r is not the file its function wrote' % t})
        except Exception as e:
            problems.append({'what': 'odd targets (symbolic link published by the function, non-UTF-8 bytes): build raised %s: %s' % (type(e).__name__, str(e)[:160])})
        if seen.get('ok') != r['t1'] or seen.get('bad') != r['t2']:
            problems.append({'what': 'the function did not receive os.path.abspath of the path as spelled', 'passed': seen, 'spelled': [r['t1'], r['t2']]})
        if not r['is_file_t1'] or r['is_dir_d2'] or r['exists_d2sub'] or r['list_link'] != ['d1']:
            problems.append({'what': 'view below a symbolic link after a successful and a failed build_file', 'answers': r})
        if os.path.lexists(os.path.join(root, 'real', 'd2')) or not os.path.isfile(os.path.join(root, 'real', 'd1', 'out')):
            problems.append({'what': 'tree below a symbolic link after a successful and a failed build_file',
                             'real': sorted(os.listdir(os.path.join(root, 'real')))})
    finally:
        shutil.rmtree(root, ignore_errors=True)
    return problems


def bulk_rollback_probe(tier, rep):
    """C02 at a size no generated history reaches: a committed build with several hundred outputs, a second build
    that replaces every one of them (all are moved aside) and then fails.  Every file must be back with its bytes
    and modification time, and a third build - identical to the first - must re-run nothing."""
    import shutil
    import tempfile
    fb = realrun.load_fb()
    FB = fb.FileBuilder
    problems = []
    n = 450 if tier == 'quick' else 17000      # the backup store fans out over subdirectories of 128 entries
    root = os.path.realpath(tempfile.mkdtemp(prefix='fbh_bulk_', dir=realrun.SANDBOX_BASE))
    try:
        cache = os.path.join(root, 'cache.gz')
        ran = []

        def leaf(b, fn, tag, i):
            ran.append(i)
            with open(fn, 'w') as fh:
                fh.write('%s-%d' % (tag, i))
            os.utime(fn, ns=(1_600_000_000_000_000_000 + i, 1_600_000_000_000_000_000 + i))

        def rootf(b, tag, fail):
            for i in range(n):
                b.build_file(os.path.join(root, 'out', 'd%02d' % (i % 7), 'f%05d' % i), 'leaf', leaf, tag, i)
            if fail:
                raise fail
        FB.build_versioned(cache, 'n', {'leaf': 1}, rootf, 'one', None)

        def snap():
            out = {}
            for r_, _ds, fs in os.walk(root):
                for f in fs:
                    p = os.path.join(r_, f)
                    with open(p, 'rb') as fh:
                        out[os.path.relpath(p, root)] = (fh.read(), os.stat(p).st_mtime_ns)
            return out
        before = snap()
        boom = ValueError('boom')
        try:
            FB.build_versioned(cache, 'n', {'leaf': 2}, rootf, 'two', boom)
            problems.append({'what': 'the failing build did not raise'})
        except ValueError as e:
            if e is not boom:
                problems.append({'what': 'another exception object was raised'})
        after = snap()
        rep.count('bulk_rollback_outputs', n)
        if after != before:
            wrong = sorted(k for k in set(before) | set(after) if before.get(k) != after.get(k))
            problems.append({'what': 'after a rolled-back build that had moved %d outputs aside, %d files differ from the pre-build state' % (n, len(wrong)),
                             'outputs': n, 'first_differing': wrong[:5],
                             'how_to_replay': 'build %d outputs out/d<i%%7>/f<i>; rebuild all of them with a changed version and raise; compare bytes and mtimes' % n})
        del ran[:]
        FB.build_versioned(cache, 'n', {'leaf': 1}, rootf, 'one', None)
        if ran and not problems:
            problems.append({'what': 'the build after the rolled-back one re-ran %d functions (as if the failed build had left traces)' % len(ran), 'outputs': n})
    finally:
        shutil.rmtree(root, ignore_errors=True)
    return problems


def bulk_foreign_probe(tier, rep):
    """C03 at a size no generated history reaches: several hundred foreign files (the build never made them), a first
    build that overwrites every one of them and then fails.  Every file must be back with its bytes and
    modification time - the undo log fans out over subdirectories of 128 entries."""
    import shutil
    import tempfile
    fb = realrun.load_fb()
    FB = fb.FileBuilder
    problems = []
    n = 300 if tier == 'quick' else 17000
    root = os.path.realpath(tempfile.mkdtemp(prefix='fbh_bulkf_', dir=realrun.SANDBOX_BASE))
    try:
        cache = os.path.join(root, 'cache.gz')
        for i in range(n):
            p = os.path.join(root, 'u', 'd%02d' % (i % 5), 'f%05d' % i)
            os.makedirs(os.path.dirname(p), exist_ok=True)
            with open(p, 'w') as fh:
                fh.write('foreign-%d' % i)
            os.utime(p, ns=(1_500_000_000_000_000_000 + i, 1_500_000_000_000_000_000 + i))

        def leaf(b, fn, i):
            with open(fn, 'w') as fh:
                fh.write('built-%d' % i)

        def rootf(b):
            for i in range(n):
                b.build_file(os.path.join(root, 'u', 'd%02d' % (i % 5), 'f%05d' % i), 'leaf', leaf, i)
            raise ValueError('boom')

        def snap():
            out = {}
            for r_, _ds, fs in os.walk(root):
                for f in fs:
                    q = os.path.join(r_, f)
                    with open(q, 'rb') as fh:
                        out[os.path.relpath(q, root)] = (fh.read(), os.stat(q).st_mtime_ns)
            return out
        before = snap()
        try:
            FB.build(cache, 'n', rootf)
            problems.append({'what': 'the failing build did not raise'})
        except ValueError:
            pass
        after = snap()
        rep.count('bulk_foreign_files_overwritten', n)
        if after != before:
            wrong = sorted(k for k in set(before) | set(after) if before.get(k) != after.get(k))
            problems.append({'what': 'after a rolled-back build that had overwritten %d foreign files, %d files differ from the pre-build state' % (n, len(wrong)),
                             'files': n, 'first_differing': wrong[:5],
                             'how_to_replay': 'create %d files u/d<i%%5>/f<i>; build_file every one of them in a first build, then raise; compare bytes and mtimes' % n})
    finally:
        shutil.rmtree(root, ignore_errors=True)
    return problems


def bulk_target_probe(tier, rep):
    """C10 at a size no generated history reaches: several hundred targets that exist as foreign files before the
    build.  Every function must start with its target absent; a function that writes nothing must make build_file
    raise and leave no file at the target (the file that lay there was moved aside, not left in place)."""
    import shutil
    import tempfile
    fb = realrun.load_fb()
    FB = fb.FileBuilder
    problems = []
    n = 300 if tier == 'quick' else 9000
    root = os.path.realpath(tempfile.mkdtemp(prefix='fbh_bulkt_', dir=realrun.SANDBOX_BASE))
    try:
        cache = os.path.join(root, 'cache.gz')
        paths = [os.path.join(root, 'u', 'd%02d' % (i % 7), 'f%05d' % i) for i in range(n)]
        for i, p in enumerate(paths):
            os.makedirs(os.path.dirname(p), exist_ok=True)
            with open(p, 'w') as fh:
                fh.write('foreign-%d' % i)
        present_at_start, not_raised, left_behind = [], [], []

        def leaf(b, fn, i):
            if os.path.lexists(fn):
                present_at_start.append(i)
            if i % 3 != 2:
                with open(fn, 'w') as fh:
                    fh.write('built-%d' % i)

        def rootf(b):
            for i, p in enumerate(paths):
                try:
                    b.build_file(p, 'leaf', leaf, i)
                    if i % 3 == 2:
                        not_raised.append(i)
                except Exception:
                    if i % 3 != 2:
                        raise
                    if os.path.lexists(p):
                        left_behind.append(i)
        FB.build(cache, 'n', rootf)
        rep.count('bulk_targets_replaced', n)
        how = 'create %d files u/d<i%%7>/f<i>; build_file every one of them in one build; every third function writes nothing' % n
        if present_at_start:
            problems.append({'what': '%d of %d functions found the old file still at their target when they started' % (len(present_at_start), n),
                             'first': present_at_start[:5], 'how_to_replay': how})
        if not_raised:
            problems.append({'what': '%d build_file calls whose function wrote nothing returned normally' % len(not_raised),
                             'first': not_raised[:5], 'how_to_replay': how})
        if left_behind:
            problems.append({'what': '%d failed build_file calls left a file at the target' % len(left_behind),
                             'first': left_behind[:5], 'how_to_replay': how})
    except Exception as e:
        problems.append({'what': 'bulk build raised %s: %s' % (type(e).__name__, str(e)[:120])})
    finally:
        shutil.rmtree(root, ignore_errors=True)
    return problems


def _c10_after(tier, rep):
    for q in bulk_target_probe(tier, rep)[:2]:
        rep.violation('bulk_targets', {'property': 'C10', 'kind': 'failing-input', 'what': q}, note=json.dumps(q, default=str)[:250])
    for q in symlink_probe(tier, rep)[:2]:
        rep.violation('symlink', {'property': 'C10', 'kind': 'failing-input', 'what': q}, note=json.dumps(q, default=str)[:250])
    # _make_dirs on its own, with an OSError at every mkdir position: nothing may be left behind (oracle), and the
    # method must do what FB.MakeDirs says (tie)
    from . import mdcheck
    probs = mdcheck.run(tier, rep)
    for q in [x for x in probs if x.get('oracle')][:2]:
        rep.violation('makedirs', {'property': 'C10', 'kind': 'failing-input', 'what': q}, note=json.dumps(q, default=str)[:250])
    tie = [x for x in probs if not x.get('oracle')]
    rep.count('correspondence_disagreements_makedirs', len(tie))
    if tie and not rep.violations:
        rep.violation('makedirs_tie', {'property': 'C10', 'kind': 'correspondence-broken',
                                       'no_longer_checks': 'FB.MakeDirs (makeDirs_error: a failing _make_dirs leaves nothing behind) describes FileBuilder._make_dirs',
                                       'what': tie[0]}, note='%s: %s' % (tie[0]['what'], json.dumps(tie[0].get('case'))[:160]), no_input=True)


def check_C10(tier):
    # "... also when creating those directories, or moving the old file aside, itself fails": a batch of injected faults
    return run_hist_prop('C10', tier, 10, 500, 30000, families=[gen.scen_nested_failure, gen.scen_swap, gen.scen_stale_dir, gen.scen_longname, gen.scen_file_becomes_parent],
                         per_family=(80, 2000), p_fail=0.1, faults=((4, 100), (40, 2000), 110),
                         _after=lambda rep: _c10_after(tier, rep))


def check_C12(tier):
    return run_hist_prop('C12', tier, 12, 700, 40000, p_clean=0.4, families=gen.SCENARIOS + [gen.scen_cache_subdir])


def c13_cases(tier, ds):
    out = []
    for i in range(budget(tier, 300, 8000)):
        rng = random.Random(core.seed() * 77 + 13 * 1000003 + i)
        c = gen.scen_reads(rng, modes=rng.choice(['H', 'M']), samemeta=True)
        c.update({'kind': 'hist', 'seed': 'c13:%d' % i, 'dirsize': ds, 'cache': 'cache.gz'})
        out.append(c)
    return out


def bigfile_probe(tier, rep):
    """C13 at a size no generated history reaches: files of several MiB compared by HASH.  One byte changes - at the
    start, in the middle, at the very end - with size and modification time preserved: the reader of an input, the
    function of a tampered output and a reader of that output must run again; touching the file must run nothing."""
    import shutil
    import tempfile
    fb = realrun.load_fb()
    FB = fb.FileBuilder
    H = fb.FileComparison.HASH
    problems = []
    size = (3 << 20) + 17 if tier == 'quick' else (9 << 20) + 5
    root = os.path.realpath(tempfile.mkdtemp(prefix='fbh_big_', dir=realrun.SANDBOX_BASE))
    try:
        cache = os.path.join(root, 'cache.gz')
        inp = os.path.join(root, 'in.bin')
        out = os.path.join(root, 'o', 'out.bin')
        payload = bytes((i * 7 + 3) % 251 for i in range(4096)) * (size // 4096 + 1)
        payload = payload[:size]
        with open(inp, 'wb') as fh:
            fh.write(payload)
        ran = []

        def reader(b):
            ran.append('reader')
            with b.read_binary(inp, H) as fh:
                return len(fh.read())

        def maker(b, fn):
            ran.append('maker')
            with open(fn, 'wb') as fh:
                fh.write(payload)
            os.utime(fn, ns=(1_650_000_000_000_000_000, 1_650_000_000_000_000_000))

        def back(b):
            ran.append('back')
            b.declare_read(out, H)
            return 1

        def rootf(b):
            b.subbuild('reader', reader)
            b.build_file_with_comparison(out, H, 'maker', maker)
            b.subbuild('back', back)
        FB.build(cache, 'n', rootf)
        del ran[:]
        FB.build(cache, 'n', rootf)
        if ran:
            problems.append({'what': 'an unchanged rebuild with %d-byte files re-executed %s' % (size, ran)})

        def flip(path, pos):
            st = os.stat(path)
            with open(path, 'r+b') as fh:
                fh.seek(pos)
                c = fh.read(1)
                fh.seek(pos)
                fh.write(bytes([c[0] ^ 0x55]))
            os.utime(path, ns=(st.st_atime_ns, st.st_mtime_ns))
        for where, pos in (('first byte', 0), ('middle', size // 2), ('last byte', size - 1)):
            for target, expect in ((inp, {'reader'}), (out, {'maker'})):
                flip(target, pos)
                del ran[:]
                FB.build(cache, 'n', rootf)
                rep.count('bigfile_changes_checked')
                if not expect <= set(ran):
                    problems.append({'what': 'a change of the %s of a %d-byte %s compared by HASH (size and mtime preserved) went unnoticed: re-executed %s, expected at least %s'
                                             % (where, size, 'input' if target == inp else 'output', sorted(set(ran)), sorted(expect)),
                                     'how_to_replay': 'write %d bytes, build (read_binary HASH / build_file_with_comparison HASH / declare_read HASH), flip byte %d keeping size and mtime, build again' % (size, pos)})
        # a pure timestamp change runs nothing
        for target in (inp, out):
            st = os.stat(target)
            os.utime(target, ns=(st.st_atime_ns, st.st_mtime_ns + 12345))
            del ran[:]
            FB.build(cache, 'n', rootf)
            if ran:
                problems.append({'what': 'touching a %d-byte file compared by HASH re-executed %s' % (size, ran)})
    except Exception as e:
        problems.append({'what': 'big-file build raised %s: %s' % (type(e).__name__, str(e)[:120])})
    finally:
        shutil.rmtree(root, ignore_errors=True)
    return problems


def metadata_probe(tier, rep):
    """C13 where the models cannot go: an input reached through a symbolic link (the models have no links) and an output
    swapped for an identical copy (same bytes, size and mtime_ns - another inode).  METADATA is size + mtime_ns of what a
    read reads: editing the link's target must re-execute the reader; swapping an output for an identical copy must
    re-execute nothing; a changed mtime must re-execute the maker."""
    import shutil
    import tempfile
    fb = realrun.load_fb()
    FB = fb.FileBuilder
    problems = []
    root = os.path.realpath(tempfile.mkdtemp(prefix='fbh_meta_', dir=realrun.SANDBOX_BASE))
    try:
        cache = os.path.join(root, 'cache.gz')
        real = os.path.join(root, 'data', 'real.txt')
        link = os.path.join(root, 'link.txt')
        out = os.path.join(root, 'o', 'out.txt')
        os.makedirs(os.path.dirname(real))
        with open(real, 'w') as fh:
            fh.write('one')
        os.symlink(real, link)
        ran = []

        def rd(b, mode):
            ran.append('reader:' + mode)
            with b.read_text(link, getattr(fb.FileComparison, mode)) as fh:
                return fh.read()

        def mk(b, fn):
            ran.append('maker')
            with open(fn, 'w') as fh:
                fh.write('output')
            os.utime(fn, ns=(1_650_000_000_000_000_000, 1_650_000_000_000_000_000))

        def nested(b):
            ran.append('nested')
            return b.subbuild('rd_nested', rd, 'METADATA')

        def rootf(b):
            b.subbuild('rd_m', rd, 'METADATA')
            b.subbuild('rd_h', rd, 'HASH')
            b.subbuild('nested', nested)
            b.build_file(out, 'mk', mk)
        FB.build(cache, 'n', rootf)
        del ran[:]
        FB.build(cache, 'n', rootf)
        if ran:
            problems.append({'what': 'an unchanged rebuild with a symlinked input re-executed %s' % ran})
        # the target of the link is edited (new size, new mtime): every reader runs again
        with open(real, 'w') as fh:
            fh.write('two, longer')
        del ran[:]
        FB.build(cache, 'n', rootf)
        rep.count('metadata_probe_steps')
        for want in ('reader:METADATA', 'reader:HASH', 'nested'):
            if want not in ran:
                problems.append({'what': 'the target of a symbolic link read with %s was edited (size and mtime changed) and %s was not re-executed (re-executed: %s)'
                                         % (want.split(':')[-1] if ':' in want else 'METADATA in a nested subbuild', want, sorted(set(ran)))})
        # the output is swapped for an identical copy: same bytes, size, mtime_ns - nothing to re-execute
        st = os.stat(out)
        tmp = out + '.copy'
        shutil.copy2(out, tmp)
        os.utime(tmp, ns=(st.st_atime_ns, st.st_mtime_ns))
        os.replace(tmp, out)
        if os.stat(out).st_mtime_ns == st.st_mtime_ns and os.stat(out).st_ino != st.st_ino:
            del ran[:]
            FB.build(cache, 'n', rootf)
            rep.count('metadata_probe_steps')
            if ran:
                problems.append({'what': 'an output compared by METADATA was swapped for an identical copy (same size and mtime_ns, another inode) and %s was re-executed' % ran})
        # only the mtime changes: the maker runs again
        os.utime(out, ns=(st.st_atime_ns, st.st_mtime_ns + 1000))
        del ran[:]
        FB.build(cache, 'n', rootf)
        if 'maker' not in ran:
            problems.append({'what': 'the mtime of an output compared by METADATA changed and its function was not re-executed'})
    except Exception as e:
        problems.append({'what': 'the metadata probe raised %s: %s' % (type(e).__name__, str(e)[:160])})
    finally:
        shutil.rmtree(root, ignore_errors=True)
    return problems


def check_C13(tier):
    return run_hist_prop('C13', tier, 13, 200, 10000, families=[gen.scen_mode_switch, gen.scen_reads, gen.scen_stamped, gen.scen_selfread, gen.scen_sibling_outputs, gen.scen_read_after_caught_failure], per_family=(120, 3000),
                         extra_cases=c13_cases, prof=dict(gen.DEFAULT_PROFILE, p_hash=0.5),
                         _after=lambda rep: [rep.violation('bigfile', {'property': 'C13', 'kind': 'failing-input', 'what': q},
                                                           note=json.dumps(q, default=str)[:250]) for q in (bigfile_probe(tier, rep) + metadata_probe(tier, rep))[:3]])


def c15_cases(tier, ds):
    out = []
    classes = ['truncate:0', 'truncate:5', 'truncate:20', 'truncate:1000000', 'bitflip:3', 'bitflip:40', 'bitflip:97',
               'nongzip', 'gzip_nonjson', 'wrong_shape', 'other_software', 'no_software', 'newer_version', 'empty',
               'no_version', 'no_key:buildName', 'no_key:rootOperations', 'no_key:createdDirs', 'no_key:funcVersions', 'badutf8', 'badutf8:0', 'badutf8:1', 'badutf8:2', 'badutf8:5']
    # JSON of the wrong shape: a field of the document or of an operation holds a value of the wrong type
    for name in ('createdDirs', 'funcVersions', 'operationVersions', 'rootOperations', 'buildName'):
        for val in ('null', '7', 'true', '[7]', '"x"', '{"a": 1}'):
            if (name, val) in (('createdDirs', '"x"'), ('buildName', '"x"'), ('funcVersions', '{"a": 1}'), ('operationVersions', '{"a": 1}')):
                continue      # these are well-shaped (another build's cache, or a string read as a list of characters)
            classes.append('field:%s=%s' % (name, val))
    for name in ('filename', 'suboperations', 'kwargs', 'args', 'funcName', 'type', 'fileComparison'):
        for val in ('null', '7', '[7]'):
            if (name, val) == ('args', '[7]'):
                continue
            classes.append('opfield:%s=%s' % (name, val))
    for i in range(budget(tier, 120, 4000)):
        rng = random.Random(core.seed() * 91 + 15 * 1000003 + i)
        c = gen.gen_case(rng.randrange(10 ** 9), dirsize=ds, p_fail=0.0, p_clean=0.0, min_builds=1, max_builds=2)
        how = rng.choice(['corrupt', 'corrupt', 'corrupt', 'todir', 'name', 'rot'])
        if how == 'rot':
            # the cache file is read once without being replaced (a call refused for its build name), then rots in
            # place - same size, same modification time - and is used again in the same process
            c['steps'].append(['build', 'other', gen.enc_simple({}), 0, gen.enc_simple(0)])
            if rng.random() < 0.5:
                c['steps'].append(['clean', 'other'])
            c['steps'].append(['mut', 'corrupt', 'cache.gz', 'bitflipkeep:%d' % rng.randrange(0, 32), None])
            name = 'n'
        elif how == 'corrupt':
            cls = rng.choice(classes)
            if cls.startswith('bitflip') and tier == 'thorough':
                cls = 'bitflip:%d' % rng.randrange(0, 4000)
            if cls.startswith('truncate') and tier == 'thorough':
                cls = 'truncate:%d' % rng.randrange(0, 400)
            c['steps'].append(['mut', 'corrupt', 'cache.gz', cls, None])
            name = 'n'
        elif how == 'todir':
            c['steps'].append(['mut', 'todir', 'cache.gz', None, None])
            name = 'n'
        else:
            name = rng.choice(['other', '', ' ', 'N', 'n ', 'nn', 'n\n'])
        c['steps'].append(rng.choice([['build', name, gen.enc_simple({}), 0, gen.enc_simple(0)],
                                      ['clean', name], ['clean', name if how == 'name' else None]]))
        c['steps'].append(['build', name, gen.enc_simple({}), 0, gen.enc_simple(0)])
        c['seed'] = 'c15:%d' % i
        out.append(c)
    return out


def check_C15(tier):
    rep = core.Report('C15', tier)
    gate = core.proof_gate(THEOREMS['C15'], tier)
    ds = measure()
    explore('C15', tier, rep, corpus_cases(ds) + c15_cases(tier, ds))
    bad = wrong_argument_calls(rep)
    for b in bad[:3]:
        rep.violation('args', {'property': 'C15', 'kind': 'failing-input', 'what': b}, note=json.dumps(b)[:200])
    return finish('C15', rep, gate)


def wrong_argument_calls(rep):
    """every wrong-typed argument position of build / build_versioned / clean, in several states of the tree
    (outputs in place; recorded outputs and created directories deleted by the user; an output replaced by a
    directory; a foreign file in a created directory; no cache at all): TypeError (or the documented error),
    tree bit-identical, nothing called, no temp dir left"""
    import shutil
    import tempfile
    fb = realrun.load_fb()
    FB = fb.FileBuilder
    bad = []

    def tamper_none(root):
        pass

    def tamper_deleted(root):
        shutil.rmtree(os.path.join(root, 'o'))

    def tamper_deleted_deep(root):
        shutil.rmtree(os.path.join(root, 'p', 'q'))

    def tamper_todir(root):
        os.remove(os.path.join(root, 'o', 'x'))
        os.mkdir(os.path.join(root, 'o', 'x'))

    def tamper_foreign(root):
        with open(os.path.join(root, 'o', 'foreign'), 'w') as fh:
            fh.write('f')
        os.remove(os.path.join(root, 'o', 'x'))

    def tamper_nocache(root):
        os.remove(os.path.join(root, 'cache.gz'))
    for tamper in (tamper_none, tamper_deleted, tamper_deleted_deep, tamper_todir, tamper_foreign, tamper_nocache):
        root = os.path.realpath(tempfile.mkdtemp(prefix='fbh_c15_', dir=realrun.SANDBOX_BASE))
        priv = tempfile.mkdtemp(prefix='fbh_tmp_', dir=realrun.SANDBOX_BASE)
        old = tempfile.tempdir
        tempfile.tempdir = priv
        try:
            cache = os.path.join(root, 'cache.gz')
            called = []

            def good(b):
                called.append(1)
                b.build_file(os.path.join(root, 'o', 'x'), 'w', lambda bb, fn: open(fn, 'w').write('x') and None)
                b.build_file(os.path.join(root, 'p', 'q', 'y'), 'w', lambda bb, fn: open(fn, 'w').write('y') and None)
            FB.build(cache, 'n', good)
            tamper(root)
            calls = [
                ('build name int', lambda: FB.build(cache, 5, good)),
                ('build name None', lambda: FB.build(cache, None, good)),
                ('build func not callable', lambda: FB.build(cache, 'n', 'notcallable')),
                ('build func None', lambda: FB.build(cache, 'n', None)),
                ('build_versioned func not callable', lambda: FB.build_versioned(cache, 'n', {}, 5)),
                ('build cache path int', lambda: FB.build(5, 'n', good)),
                ('build cache path None', lambda: FB.build(None, 'n', good)),
                ('build_versioned versions list', lambda: FB.build_versioned(cache, 'n', [], good)),
                ('build_versioned versions non-json', lambda: FB.build_versioned(cache, 'n', {'f': {1, 2}}, good)),
                ('build_versioned versions None', lambda: FB.build_versioned(cache, 'n', None, good)),
                # version maps that are not JSON because of a KEY (at the top or nested), with harmless values
                ('build_versioned versions bytes key', lambda: FB.build_versioned(cache, 'n', {b'f': 'v'}, good)),
                ('build_versioned versions tuple key', lambda: FB.build_versioned(cache, 'n', {('f',): 'v', 'g': 'w'}, good)),
                ('build_versioned versions object key', lambda: FB.build_versioned(cache, 'n', {object(): 'v'}, good)),
                ('build_versioned versions nested bytes key', lambda: FB.build_versioned(cache, 'n', {'f': {b'k': 'v'}}, good)),
                ('build_versioned versions nested tuple key in list', lambda: FB.build_versioned(cache, 'n', {'f': [{(1, 2): 'v'}]}, good)),
                ('build_versioned versions non-json value in flat map', lambda: FB.build_versioned(cache, 'n', {'f': 'v', 'g': b'w'}, good)),
                ('build_versioned name bytes', lambda: FB.build_versioned(cache, b'n', {}, good)),
                ('clean name int', lambda: FB.clean(cache, 5)),
                ('clean cache path int', lambda: FB.clean(5, 'n')),
            ]
            if tamper is not tamper_nocache:
                # with a cache file present these are refused as well (another build's name)
                calls += [
                    ('clean other name', lambda: FB.clean(cache, 'zzz')),
                    ('build other name', lambda: FB.build(cache, 'zzz', good)),
                    ('build empty name', lambda: FB.build(cache, '', good)),
                    ('clean empty name', lambda: FB.clean(cache, '')),
                    ('build_versioned empty name', lambda: FB.build_versioned(cache, '', {}, good)),
                ]
            for label, call in calls:
                label = '%s [%s]' % (label, tamper.__name__[7:])
                before = realrun.snapshot(root, '<none>')
                del called[:]
                try:
                    call()
                    bad.append({'call': label, 'problem': 'did not raise'})
                except Exception:
                    pass
                rep.count('evaluations')
                rep.count('refused_calls')
                after = realrun.snapshot(root, '<none>')
                if before != after:
                    bad.append({'call': label, 'problem': 'tree changed',
                                'diff': [x for x in after if x not in before][:3] + [x for x in before if x not in after][:3]})
                if called:
                    bad.append({'call': label, 'problem': 'user function was called'})
                if os.listdir(priv):
                    bad.append({'call': label, 'problem': 'temporary directory left behind', 'left': os.listdir(priv)})
        finally:
            tempfile.tempdir = old
            shutil.rmtree(root, ignore_errors=True)
            shutil.rmtree(priv, ignore_errors=True)
    return bad


NAME_POOL = ['a b', 'ü', '.hidden', 'x.tar.gz', 'a\tb', "q'uote\"d", 'back\\slash', '\U0001F600', ' lead', 'trail ', '#%&', 'é/ß']


def c16_cases(tier, ds):
    """return values of every JSON shape and outputs with every legal name, served from the cache"""
    out = []
    vals = [0, -1, 2 ** 70, 1.5, -0.0, 1e300, float('inf'), '', 'é', '\U0001F600', 'a"b\\c', None, True, False,
            [], {}, [1, [2, [3]]], {'a': {'b': [None, 1.0]}}, {'': 0}, [1.0, 1, True], 'line\nbreak', ' ']
    for i in range(budget(tier, 200, 6000)):
        rng = random.Random(core.seed() * 53 + 16 * 1000003 + i)
        names = rng.sample(NAME_POOL, 3)
        p1 = names[0] if '/' not in names[0] else names[0]
        p2 = '%s/%s' % (names[1].replace('/', '_'), names[2].replace('/', '_'))
        v1, v2, v3 = (rng.choice(vals) if rng.random() < 0.6 else gen.pool_value(rng) for _ in range(3))
        funcs = [
            # with root argument 1 the build no longer produces the second output (dropped at the commit - and only then)
            gen._fn('f0', [gen._sb(1, arg=v3), gen._bf(p1.replace('/', '_'), 2, arg=v1, cmp_=rng.choice('MH')),
                           ['if', ['arg', gen._e(0)], [gen._bf(p2, 3, cmp_=rng.choice('MH'))], []], gen._sb(4)]),
            gen._fn('f1', [], {'const': gen.enc_simple(v1)}),
            gen._fn('f2', [['w', None]], {'const': gen.enc_simple(v2)}),
            gen._fn('f3', [gen._sb(1, arg=[v3], catch=True), ['w', None]], 'acc'),
            gen._fn('f4', [gen._q('read', p2, rng.choice('MH')), ['raise', 4]] if rng.random() < 0.3 else [gen._q('list_dir', '')], 'acc'),
        ]
        funcs.append(gen._fn('rootfail', funcs[0]['stmts'] + [['raise', 99]]))
        steps = [gen._build(), gen._build(), gen._build(root=rng.choice([0, 5])), gen._build()]
        if rng.random() < 0.4:
            # the cache write of one build whose root function succeeds fails (disk full / cannot create):
            # the previous cache content must be back - or no cache file left, if there was none
            b = rng.choice([i_ for i_, st_ in enumerate(steps) if st_[3] == 0])
            if b > 0 and rng.random() < 0.5:
                steps[b] = gen._build(arg=1)        # ... this one drops an output of the previous build
            steps[b] = steps[b] + [{'inject_op': rng.choice(['write-cache', 'open-for-write']), 'abort': 'end',
                                    'inject_exc': rng.choice(['EIO', 'ENOSPC', 'ValueError', 'ValueError'])}]
            if rng.random() < 0.5:
                steps.insert(b + 1, ['clean', 'n'])
        if rng.random() < 0.5:
            steps.append(['clean', 'n'])
        out.append({'kind': 'hist', 'seed': 'c16:%d' % i, 'dirsize': ds, 'cache': 'cache.gz', 'tree': [], 'funcs': funcs, 'steps': steps})
    return out


def surrogate_probe(tier, rep):
    """C16 with strings the Lean model cannot hold (its strings are sequences of Unicode scalar values): lone surrogates -
    as os.fsdecode produces them for file names that are not valid UTF-8, or as user data.  Real code only: build,
    unchanged rebuild (everything served from the cache), clean."""
    import shutil
    import tempfile
    fb = realrun.load_fb()
    FB = fb.FileBuilder
    problems = []
    root = os.path.realpath(tempfile.mkdtemp(prefix='fbh_sur_', dir=realrun.SANDBOX_BASE))
    try:
        cache = os.path.join(root, 'cache.gz')
        odd_name = os.path.join(os.fsencode(root), b'out', b'r\xe9sum\xe9-\xff.txt')
        vals = ['x\ud83dy', ['\udcff', {'k\udc80': '\ud800'}], 'plain \u00e9 \U0001F600']
        ran = []

        def mk(b, fn, v):
            ran.append('mk')
            with open(fn, 'w') as fh:
                fh.write('content')
            return v

        def sub(b, v):
            ran.append('sub')
            return [v, {'echo': v}]

        def rootf(b):
            out = [b.build_file(odd_name, 'mk', mk, vals[0])]
            for i, v in enumerate(vals):
                out.append(b.subbuild('sub%d' % i, sub, v))
            return out
        r1 = FB.build(cache, 'n', rootf)
        first = list(ran)
        del ran[:]
        r2 = FB.build(cache, 'n', rootf)
        rep.count('surrogate_values_checked', len(vals) + 1)
        if ran:
            problems.append({'what': 'an unchanged rebuild with lone surrogates in names and values re-executed %s' % ran})
        if r1 != r2:
            problems.append({'what': 'values with lone surrogates served from the cache differ from the values originally returned', 'first': repr(r1)[:200], 'second': repr(r2)[:200]})
        if not os.path.isfile(odd_name):
            problems.append({'what': 'the output whose name is not valid UTF-8 is missing after a committed build'})
        FB.clean(cache, 'n')
        left = [n for n in os.listdir(root)]
        if left:
            problems.append({'what': 'clean left %s behind' % left})
    except Exception as e:
        problems.append({'what': 'a build with lone surrogates in an output name / in values raised %s: %s' % (type(e).__name__, str(e)[:160])})
    finally:
        shutil.rmtree(root, ignore_errors=True)
    return problems


def check_C16(tier):
    rep = core.Report('C16', tier)
    gate = core.proof_gate(THEOREMS['C16'], tier)
    ds = measure()
    # the codec on its own: /repo's decode/encode against FB.Codec on random operation documents
    from . import codeccheck
    probs = codeccheck.run(tier, rep)
    oracle = [p for p in probs if p['cat'] == 'oracle']
    tie = [p for p in probs if p['cat'] == 'tie']
    for p in oracle[:3]:
        rep.violation('codec', {'property': 'C16', 'kind': 'failing-input', 'what': p['what'], 'document': p['doc'], 'got': p.get('real')},
                      note='%s: %s' % (p['what'], json.dumps(p['doc'])[:160]))
    if tie and not oracle:
        p = tie[0]
        rep.violation('codec_tie', {'property': 'C16', 'kind': 'correspondence-broken',
                                    'no_longer_checks': 'FB.Codec (decode_encode, read_write, replayOp_strip) describes cache.py: ' + p['what'],
                                    'document': p['doc'], 'real': p.get('real'), 'model': p.get('model')},
                      note='codec model/code disagree: %s' % p['what'], no_input=True)
    rep.count('correspondence_disagreements_codec', len(tie))
    # the codec inside whole builds
    cases = corpus_cases(ds) + c16_cases(tier, ds)
    # created directories - also the ones made for the cache file itself - survive the write/read cycle
    cases += gen.gen_scenario_cases(core.seed() * 31 + 16, budget(tier, 40, 800), ds, [gen.scen_cache_subdir])
    # failure markers and refused duplicates (set-up failed stubs) in the forest: what is a root, what is nested
    cases += gen.gen_scenario_cases(core.seed() * 31 + 116, budget(tier, 30, 600), ds, [gen.scen_dups, gen.scen_nested_failure, gen.scen_nested_reuse, gen.scen_double_failure])
    cases += random_cases(tier, 300, 15000, 16, prof=RICH_RETS, dirsize=ds, p_fail=0.1)
    for i, c in enumerate(cases):
        if not str(c.get('seed', '')).startswith('corpus:') and i % 4 == 0:
            c['spell'] = core.seed() * 7919 + i
    explore('C16', tier, rep, cases)
    for q in surrogate_probe(tier, rep)[:2]:
        rep.violation('surrogates', {'property': 'C16', 'kind': 'failing-input', 'what': q}, note=json.dumps(q, default=str)[:250])
    return finish('C16', rep, gate)


def check_C18(tier):
    rep = core.Report('C18', tier)
    gate = core.proof_gate(THEOREMS['C18'], tier)
    bad = jsoncheck.run(tier, rep)
    for what, inp, got in bad[:3]:
        rep.violation('json', {'property': 'C18', 'kind': 'failing-input', 'what': what, 'input': repr(inp), 'got': repr(got)},
                      note='%s on %r' % (what, inp))
    # "the JSON equality used for cache decisions": the same laws where the library applies them - argument pairs and
    # version pairs that are / are not JSON-equal decide hits across builds and duplicates within one (models: FB.Impl)
    ds = measure()
    cases = gen.gen_scenario_cases(core.seed() * 31 + 18, budget(tier, 260, 4000), ds, [gen.scen_identity])
    cases += gen.gen_scenario_cases(core.seed() * 31 + 118, budget(tier, 80, 1500), ds, [gen.scen_versions, gen.scen_dups])
    explore('C18', tier, rep, cases)
    rep.coverage.update({'programs': rep.counters.get('values', 0), 'disagreements_checked': rep.counters.get('evaluations', 0)})
    return finish('C18', rep, gate)


DIRS_SCENARIOS = {'shared_new_dir_deep': ['a/b/x', 'a/b/y'], 'sibling_dirs': ['a/b/x', 'a/c/y'], 'mixed_depth': ['a/b/x', 'a/y']}
# ... and with failing builds (FB.ConcDirsF): which threads' functions raise
DIRSF_SCENARIOS = {'one_fails': (['a/x', 'a/y'], [0]), 'both_fail': (['a/b/x', 'a/b/y'], [0, 1]), 'fail_alone_in_dir': (['a/x', 'c/y'], [0])}


def _scenario_classifier(name):
    if name in ('shared_new_dir', 'three_threads'):
        return threadcheck.classify_p2
    if name in DIRS_SCENARIOS or name in DIRSF_SCENARIOS:
        return threadcheck.classify_dirs
    if name in ('dup_file', 'dup_sub', 'dup_sub_cached', 'dup_sub_json_equal', 'dup_sub_json_equal_cached'):
        return threadcheck.classify_p1
    return None


def _explore_one_scenario(job):
    name, index, bound, cap, seed = job
    rng = random.Random(seed * 17 + 9 + 1000003 * index)
    classes = set()
    n, fails, e, maxdec, nseq = threadcheck.explore_scenario(name, threadcheck.scenarios()[name], bound, cap, rng,
                                                             _scenario_classifier(name), classes)
    return name, (n, fails, sorted(e), maxdec, nseq, sorted(classes))


def explore_threads(prop, tier, rep, names, bound, cap):
    """systematic schedule exploration of the named thread scenarios on the real code"""
    # one process per scenario (the schedules of one scenario are explored in order; scenarios are independent)
    jobs = [(name, i, bound, cap, core.seed()) for i, name in enumerate(names)]
    if len(jobs) > 1:
        ctx = core.multiprocessing.get_context('fork')
        import gc
        gc.collect()
        gc.freeze()         # see core.pmap
        try:
            with ctx.Pool(min(16, len(jobs))) as pool:
                results = dict(pool.map(_explore_one_scenario, jobs, chunksize=1))
        finally:
            gc.unfreeze()
    else:
        results = dict(_explore_one_scenario(j) for j in jobs)
    S = threadcheck.scenarios()
    total = 0
    edges = set()
    reported = set()
    tie = {}
    for name in names:
        classify, classes, proto = None, set(), None
        if name == 'shared_new_dir':
            classify, proto = threadcheck.classify_p2, ('P2', 2)
        elif name == 'three_threads':
            classify, proto = threadcheck.classify_p2, ('P2', 3)
        elif name in DIRS_SCENARIOS:
            classify, proto = threadcheck.classify_dirs, ('DIRS', 2, DIRS_SCENARIOS[name])
        elif name in DIRSF_SCENARIOS:
            classify, proto = threadcheck.classify_dirs, ('DIRSF', 2) + DIRSF_SCENARIOS[name]
        elif name in ('dup_file', 'dup_sub', 'dup_sub_cached', 'dup_sub_json_equal', 'dup_sub_json_equal_cached'):
            classify, proto = threadcheck.classify_p1, ('P1', 2)
        n, fails, e, maxdec, nseq, cl = results[name]
        classes |= set(cl)
        if proto is not None:
            mo, msched = threadcheck.model_outcomes(*proto)
            tie[name] = {'model': '%s with %d threads' % proto[:2], 'model_schedules': msched, 'model_outcomes': sorted(mo),
                         'real_outcomes': sorted(classes), 'real_schedules': n}
            extra = classes - mo
            if extra:
                rep.violation('tie_%s' % name, {'property': prop, 'kind': 'correspondence-broken',
                                                'no_longer_checks': 'outcomes of the real code under the explored schedules are outcomes of the protocol model %s' % ({'DIRS': 'FB.ConcDirs', 'DIRSF': 'FB.ConcDirsF'}.get(proto[0]) or 'FB.Conc.' + proto[0]),
                                                'scenario': name, 'real_only_outcomes': sorted(extra), 'model_outcomes': sorted(mo),
                                                'failing_schedules': [f for f in fails if core.match_known(prop, None, [f]) is None][:3]},
                              note='real outcome(s) %s not reachable in the model %s' % (sorted(extra), proto[0]),
                              no_input=not any(core.match_known(prop, None, [f]) is None for f in fails))
            rep.count('traces_validated_against_model', n)
        total += n
        edges |= set(tuple(x) for x in e)
        rep.count('evaluations', n)
        rep.count('schedules:' + name, n)
        rep.distinct.add(name)
        for f in fails:
            known = core.match_known(prop, None, [f])
            if known:
                if known not in reported:
                    reported.add(known)
                    rep.known.append('%s (e.g. scenario %s, deviations %s)' % (known, name, f['deviations']))
                rep.count('known_finding_hits')
            elif ('v', name) not in reported:
                reported.add(('v', name))
                rep.violation('sched_%s' % name, {'property': prop, 'kind': 'failing-schedule', 'what': f,
                                                  'how_to_replay': './check %s --replay <this file>' % prop},
                              note='scenario %s differs from every sequential order in %s' % (name, f['differs_in']))
    # lock order: acquisitions while holding another lock must follow one strict order (deadlock freedom)
    order_ok = all(a < b for a, b in edges) or all(a > b for a, b in edges)
    cyc = [(a, b) for a, b in edges if (b, a) in edges]
    if cyc:
        rep.violation('lockorder', {'property': prop, 'kind': 'lock-order-cycle', 'edges': sorted(edges)}, note='locks are acquired in both orders: %s' % cyc[:2])
    msched = sum(t['model_schedules'] for t in tie.values())
    rep.coverage.update({'states': sum(len(t['model_outcomes']) for t in tie.values()) + msched,
                         'transitions': msched * 6,
                         'traces_validated_against_impl': sum(t['real_schedules'] for t in tie.values()),
                         'states_note': 'states = schedules of the Lean protocol models enumerated exhaustively by the driver plus their distinct end states; transitions = atomic steps executed in that enumeration; traces_validated = real schedules whose outcome was checked against the model\'s outcome set',
                         'schedules': total, 'lock_order_edges': sorted(edges), 'preemption_bound': bound, 'model_tie': tie,
                         'scenarios': list(names)})
    rep.samples.append({'scenario': names[0], 'threads': [b.label for b in S[names[0]]['threads']], 'bound': bound})
    return total


C09_SCENARIOS = ['shared_new_dir', 'shared_new_dir_deep', 'sibling_dirs', 'mixed_depth', 'one_fails', 'both_fail', 'fail_alone_in_dir',
                 'stale_dir', 'stale_dir_queries', 'queries_vs_build', 'subbuilds', 'three_threads', 'dup_file', 'dup_sub',
                 'dup_sub_cached', 'dup_sub_json_equal', 'rebuild_two_then_fail', 'build_two_then_fail', 'overwrite_foreign_then_fail',
                 'hash_two_inputs', 'hash_two_outputs', 'dup_cached_in_callers', 'dup_file_cached_in_callers', 'dup_file_in_cached_sub']


def check_C09(tier):
    rep = core.Report('C09', tier)
    gate = core.proof_gate(THEOREMS['C09'], tier)
    explore_threads('C09', tier, rep, C09_SCENARIOS, budget(tier, 2, 3), budget(tier, 220, 8000))
    return finish('C09', rep, gate)


def fence_paths_probe(tier, rep):
    """C17, every query method x every kind of path on finished builders (sequentially): the cache file of the running
    build (str and bytes), the builder's own target, a path being built by nobody, the sandbox root, a missing path.
    Whatever the path, a finished builder raises RuntimeError - no answer is constant enough to skip the fence."""
    import shutil
    import tempfile
    fb = realrun.load_fb()
    FB = fb.FileBuilder
    problems = []
    root = os.path.realpath(tempfile.mkdtemp(prefix='fbh_fence_', dir=realrun.SANDBOX_BASE))
    try:
        cache = os.path.join(root, 'cache.gz')
        with open(os.path.join(root, 'inp'), 'w') as fh:
            fh.write('x')
        kept = {}

        def sub_ok(b):
            kept['subbuild'] = b
            return 1

        def sub_raises(b):
            kept['subbuild(raised)'] = b
            raise ValueError('boom')

        def bf_ok(b, fn):
            kept['build_file'] = b
            with open(fn, 'w') as fh:
                fh.write('o')

        def bf_raises(b, fn):
            kept['build_file(raised)'] = b
            raise ValueError('boom')

        def rootf(b):
            kept['root'] = b
            b.subbuild('s1', sub_ok)
            b.build_file(os.path.join(root, 'o', 'f1'), 'f1', bf_ok)
            for f_, a_ in ((b.subbuild, ('s2', sub_raises)), (b.build_file, (os.path.join(root, 'o', 'f2'), 'f2', bf_raises))):
                try:
                    f_(*a_)
                except ValueError:
                    pass
        FB.build(cache, 'n', rootf)   # twice: the second time with a cache file in place while the functions run
        FB.build_versioned(cache, 'n', {'s1': 1, 'f1': 1}, rootf)
        paths = {'cache file': cache, 'cache file (bytes)': os.fsencode(cache), 'an output': os.path.join(root, 'o', 'f1'),
                 'an input': os.path.join(root, 'inp'), 'the sandbox': root, 'a missing path': os.path.join(root, 'nope', 'x'),
                 'a failed target': os.path.join(root, 'o', 'f2')}
        H = fb.FileComparison.HASH
        calls = [('is_file', lambda b, q: b.is_file(q)), ('is_dir', lambda b, q: b.is_dir(q)), ('exists', lambda b, q: b.exists(q)),
                 ('list_dir', lambda b, q: b.list_dir(q)), ('walk', lambda b, q: b.walk(q)), ('walk(bottom up)', lambda b, q: b.walk(q, False)),
                 ('get_size', lambda b, q: b.get_size(q)), ('declare_read', lambda b, q: b.declare_read(q)),
                 ('declare_read(HASH)', lambda b, q: b.declare_read(q, H)), ('read_text', lambda b, q: b.read_text(q).close()),
                 ('read_binary', lambda b, q: b.read_binary(q, H).close())]
        for kind, b in sorted(kept.items()):
            for pname, q in paths.items():
                for mname, call in calls:
                    rep.count('fence_path_calls')
                    try:
                        r = call(b, q)
                        problems.append({'what': '%s(%s) on a finished %s builder returned %r instead of raising RuntimeError' % (mname, pname, kind, r)})
                    except RuntimeError:
                        pass
                    except Exception as e:
                        problems.append({'what': '%s(%s) on a finished %s builder raised %s instead of RuntimeError' % (mname, pname, kind, type(e).__name__)})
    except Exception as e:
        problems.append({'what': 'the fence probe could not be driven: %s: %s' % (type(e).__name__, str(e)[:160])})
    finally:
        shutil.rmtree(root, ignore_errors=True)
    return problems


def check_C17(tier):
    rep = core.Report('C17', tier)
    gate = core.proof_gate(THEOREMS['C17'], tier)
    for q in fence_paths_probe(tier, rep)[:3]:
        rep.violation('fence_paths', {'property': 'C17', 'kind': 'failing-input', 'what': q}, note=q['what'][:250])
    reported = set()
    real_classes = set()
    total = 0
    for owner, raises in ([(o_, False) for o_ in threadcheck.OWNERS] + [('subbuild', True), ('build_file', True), ('root', True),
                                                                          ('subbuild', 'base'), ('build_file', 'base')]):
        for m in threadcheck.METHODS:
            # the sequential fence: a call that starts after the owner has returned (or raised)
            o, _ = threadcheck.run_fence(owner, m, None, after=True, owner_raises=raises)
            pr = threadcheck.judge_fence(owner, m, o)
            if o['straggler'] is None or o['straggler'][:2] != ['RuntimeError', 'finished']:
                pr.append({'what': 'a call after the close did not raise RuntimeError', 'res': o['straggler']})
            # ... also a call the owner function itself had made before, with the same arguments
            o2, _ = threadcheck.run_fence(owner, m, None, after=True, owner_raises=raises, warm=True)
            if o2['straggler'] is None or o2['straggler'][:2] != ['RuntimeError', 'finished']:
                pr.append({'what': 'a call after the close, repeating one the function had made, did not raise RuntimeError', 'res': o2['straggler']})
            if pr:
                rep.violation('fence_seq_%s_%s_%s' % (owner, raises, m), {'property': 'C17', 'kind': 'failing-input', 'owner': owner, 'owner_raises': raises, 'method': m, 'problems': pr},
                              note='%s builder, %s after the close: %s' % (owner, m, pr[0]['what']))
            n = 0
            for dev, o, s in threadcheck.sched.explore(lambda d: threadcheck.run_fence(owner, m, d, owner_raises=raises), budget(tier, 2, 3), budget(tier, 150, 3000)):
                n += 1
                real_classes.add(threadcheck.classify_p3(owner, m, o))
                pr = threadcheck.judge_fence(owner, m, o)
                if not pr:
                    continue
                f = {'owner': owner, 'owner_raises': raises, 'method': m, 'deviations': {str(k): v for k, v in dev.items()}, 'straggler': o['straggler'], 'problems': pr}
                known = core.match_known('C17', None, [f])
                if known:
                    if known not in reported:
                        reported.add(known)
                        rep.known.append('%s (e.g. %s builder, straggler %s, deviations %s)' % (known, owner, m, f['deviations']))
                    rep.count('known_finding_hits')
                elif (owner, raises, m) not in reported:
                    reported.add((owner, raises, m))
                    rep.violation('fence_%s_%s_%s' % (owner, raises, m), dict(f, property='C17', kind='failing-schedule'),
                                  note='%s builder, straggler %s: %s' % (owner, m, pr[0]['what']))
            total += n
            rep.count('evaluations', n + 1)
            rep.distinct.add(owner + ':' + m)
    mo, msched = threadcheck.model_outcomes('P3', 2)
    mo_classes = set(x if not x.startswith('fenced-after-effect') else 'fenced-after-effect' for x in mo)
    extra = real_classes - mo_classes
    if extra:
        rep.violation('tie_P3', {'property': 'C17', 'kind': 'correspondence-broken',
                                 'no_longer_checks': 'outcomes of the real straggler runs are outcomes of the protocol model FB.Conc.P3',
                                 'real_only_outcomes': sorted(extra), 'model_outcomes': sorted(mo)},
                      note='real outcome(s) %s not reachable in FB.Conc.P3' % sorted(extra), no_input=True)
    rep.coverage['model_tie'] = {'model': 'P3 (owner + 1 straggler)', 'model_schedules': msched, 'model_outcomes': sorted(mo),
                                 'real_outcomes': sorted(real_classes)}
    rep.coverage.update({'schedules': total, 'owners': threadcheck.OWNERS, 'methods': threadcheck.METHODS})
    rep.samples.append({'owner': 'subbuild', 'method': 'build_file', 'schedule': 'deviations {12: straggler, 13: owner}'})
    return finish('C17', rep, gate)


def fault_plan(fired):
    ic = fired['in_call']
    if ic[0] == 'bf':
        return {'files': [ic[1]]}
    if ic[0] == 'sb' and ic[2] is not None:
        return {'subs': [[ic[1], ic[2], ic[3]]]}
    return {'abort': 'end' if fired.get('root_returned') else 'start'}


def c14_base(tier, ds, per_family=(12, 300), n_random=(150, 6000), salt=14):
    base = gen.gen_scenario_cases(core.seed() * 31 + salt, budget(tier, *per_family), ds, gen.SCENARIOS + [gen.scen_longname])
    base += random_cases(tier, n_random[0], n_random[1], salt, dirsize=ds, p_fail=0.0, p_clean=0.0, min_builds=2, max_builds=4)
    return base


def c14_jobs(tier, ds, per_family=(12, 300), n_random=(150, 6000), salt=14):
    """cases with one injected OSError at the k-th mutating library call of one committed build"""
    return c14_jobs_for(tier, c14_base(tier, ds, per_family, n_random, salt), random.Random(core.seed() * 101 + 14))


def c14_jobs_for(tier, base, rng):
    probe = []
    for c in base:
        c = json.loads(json.dumps(c))
        for st in c['steps']:
            if st[0] == 'build':
                st.append({'count_faults': True})
        probe.append(c)
    dry = core.pmap(hist.real_worker, probe)
    jobs = []
    for c, r in zip(base, dry):
        if 'harness_error' in r:
            raise core.HarnessError(r['harness_error'])
        for b, (st, ro) in enumerate(zip(c['steps'], r['steps'])):
            if st[0] != 'build' or 'ok' not in ro['res'] or not ro.get('fault'):
                continue
            n = ro['fault']['injectable_calls']
            ks = list(range(1, n + 1))
            # re-applying a cached subtree directory by directory: every position matters and there are few of them
            exhaustive = 'scen_nested_reuse' in str(c.get('seed', '')) and b >= 1 and n <= 16
            if tier == 'quick' and len(ks) > 2 and not exhaustive:
                ks = rng.sample(ks, 2)
            for k in ks:
                j = json.loads(json.dumps(c))
                j['steps'] = j['steps'][:b + 3]
                j['steps'][b] = j['steps'][b][:5] + [{'inject': k, 'inject_exc': rng.choice(['EIO', 'EXDEV', 'EACCES', 'ENOSPC', 'EPERM', 'EXDEV'])}]
                j['seed'] = '%s@step%d,k%d' % (c.get('seed'), b, k)
                j['fault_step'] = b
                jobs.append(j)
    return jobs


def fault_batch(prop, tier, rep, ds, per_family, n_random, salt):
    """the fault-injection flow of C14 inside another property's check: the same faults, judged by that
    property's oracle"""
    jobs = c14_jobs(tier, ds, per_family, n_random, salt)
    reals = core.pmap(hist.real_worker, jobs)
    for j, r in zip(jobs, reals):
        if 'harness_error' in r:
            raise core.HarnessError(r['harness_error'])
        f = r['steps'][j['fault_step']].get('fault', {}).get('fired')
        if f is None:
            raise core.HarnessError('injected fault did not fire: %s' % j['seed'])
        rep.count('faults_injected')
        j['steps'][j['fault_step']][5].update(fault_plan(f))
    specs = model.run_cases(jobs)
    # (the correspondence slice under faults is that of C14: see TIE['C14'])
    explore(prop, tier, rep, jobs, precomputed=list(zip(jobs, reals, specs)), tie_cats=TIE['C14'])


def check_C14(tier):
    rep = core.Report('C14', tier)
    gate = core.proof_gate(THEOREMS['C14'], tier)
    ds = measure()
    # the base cases in slices: every fault position of every build of a slice is run, judged and dropped before the next
    # slice (all of the thorough tier at once is some 10^5 faulted histories with their trees: tens of GB)
    base = c14_base(tier, ds, per_family=(12, 150), n_random=(150, 3000))
    rng = random.Random(core.seed() * 101 + 14)
    ops, totals, stats = {}, {'programs': 0, 'failing_cases': 0, 'traces_validated_against_impl': 0}, {}
    for lo in range(0, len(base), 700):
        jobs = c14_jobs_for(tier, base[lo:lo + 700], rng)
        reals = core.pmap(hist.real_worker, jobs)
        for j, r in zip(jobs, reals):
            if 'harness_error' in r:
                raise core.HarnessError(r['harness_error'])
            f = r['steps'][j['fault_step']].get('fault', {}).get('fired')
            if f is None:
                raise core.HarnessError('injected fault did not fire: %s' % j['seed'])
            ops[f['op']] = ops.get(f['op'], 0) + 1
            rep.count('in_call:' + f['in_call'][0])
            j['steps'][j['fault_step']][5].update(fault_plan(f))
        specs = model.run_cases(jobs)
        explore('C14', tier, rep, jobs, precomputed=list(zip(jobs, reals, specs)))
        for k in totals:
            totals[k] += rep.coverage.get(k, 0)
        for k, v in (rep.coverage.get('history_stats') or {}).items():
            stats[k] = stats.get(k, 0) + v
        del jobs, reals, specs
    rep.coverage.update(totals)
    rep.coverage.update({'disagreements_checked': totals['programs'], 'history_stats': stats, 'faulted_operations': ops})
    # _make_room on its own with the fault at EVERY one of its mutating calls (FB.MakeRoomF: makeRoomF_moved,
    # makeRoomF_no_file_lost, makeRoomF_raw, makeRoomF_none): oracle on the real side, tie with the model
    from . import mrcheck
    probs = mrcheck.run(tier, rep, salt=14, faults=True)
    for q in [x for x in probs if x.get('oracle')][:2]:
        rep.violation('makeroom_fault', {'property': 'C14', 'kind': 'failing-input', 'what': q}, note=json.dumps(q, default=str)[:250])
    tie = [x for x in probs if not x.get('oracle')]
    rep.count('correspondence_disagreements_makeroom_fault', len(tie))
    if tie and not rep.violations:
        rep.violation('makeroom_fault_tie', {'property': 'C14', 'kind': 'correspondence-broken',
                                             'no_longer_checks': 'FB.MakeRoomF (makeRoomF_moved, makeRoomF_no_file_lost, makeRoomF_raw) describes FileBuilder._make_room under an injected OSError',
                                             'what': tie[0]}, note='%s: %s' % (tie[0]['what'], json.dumps(tie[0].get('case'))[:160]), no_input=True)
    # the whole set-up of a build_file (_prepare_file_creation = _make_room where needed, then _make_dirs) with the fault
    # at every mutating call of either phase (FB.PrepareF: prepare_undoable, C14_prepare_fault_rollback)
    from . import prcheck
    probs = prcheck.run(tier, rep, salt=14)
    for q in [x for x in probs if x.get('oracle')][:2]:
        rep.violation('prepare_fault', {'property': 'C14', 'kind': 'failing-input', 'what': q}, note=json.dumps(q, default=str)[:250])
    tie = [x for x in probs if not x.get('oracle')]
    rep.count('correspondence_disagreements_prepare_fault', len(tie))
    if tie and not rep.violations:
        rep.violation('prepare_fault_tie', {'property': 'C14', 'kind': 'correspondence-broken',
                                            'no_longer_checks': 'FB.PrepareF (prepare_undoable, C14_prepare_fault_rollback) describes FileBuilder._prepare_file_creation under an OSError at any rename, rmdir or mkdir',
                                            'what': tie[0]}, note='%s: %s' % (tie[0]['what'], json.dumps(tie[0].get('case'))[:160]), no_input=True)
    # _make_dirs with the fault at every mkdir AND every rename that moves an old output aside (FB.MakeDirsF)
    from . import mdcheck
    probs = mdcheck.run(tier, rep, salt=14, faults=True)
    for q in [x for x in probs if x.get('oracle')][:2]:
        rep.violation('makedirs_fault', {'property': 'C14', 'kind': 'failing-input', 'what': q}, note=json.dumps(q, default=str)[:250])
    tie = [x for x in probs if not x.get('oracle')]
    rep.count('correspondence_disagreements_makedirs_fault', len(tie))
    if tie and not rep.violations:
        rep.violation('makedirs_fault_tie', {'property': 'C14', 'kind': 'correspondence-broken',
                                             'no_longer_checks': 'FB.MakeDirsF (makeDirsF_error, makeDirsF_undoable) describes FileBuilder._make_dirs under an OSError at any mkdir or rename',
                                             'what': tie[0]}, note='%s: %s' % (tie[0]['what'], json.dumps(tie[0].get('case'))[:160]), no_input=True)
    return finish('C14', rep, gate)


def alias_failing(case):
    a = hist.real_worker(case); b = hist.real_worker_mutating(case)
    if 'harness_error' in a or 'harness_error' in b:
        return []
    return hist.alias_diff(case, a, b)


def deep_value_probe(tier, rep):
    """C11 where copy.deepcopy itself gives up: a subbuild (fresh, then served from the cache) returns a list nested
    d levels deep.  The call may raise RecursionError (a refusal is no aliasing); if it RETURNS a value, appending to
    that value must not change what a later build returns."""
    import shutil
    import tempfile
    fb = realrun.load_fb()
    FB = fb.FileBuilder
    problems = []

    def nest(d):
        v = ['leaf']
        for i in range(d):
            v = [v, i % 7]
        return v

    def sig(v):
        out = []
        while isinstance(v, list):
            out.append((len(v), tuple(x for x in v if not isinstance(x, list))))
            nxt = [x for x in v if isinstance(x, list)]
            v = nxt[0] if nxt else None
        return out
    for d in ([40, 300, 480, 560, 640, 720, 800, 880] if tier == 'quick' else list(range(40, 960, 20))):
        root = os.path.realpath(tempfile.mkdtemp(prefix='fbh_deep_', dir=realrun.SANDBOX_BASE))
        cache = os.path.join(root, 'cache.gz')
        want = sig(nest(d))
        try:
            seen = []
            for n in range(3):
                def rootf(b):
                    outs = []
                    for k in range(2):
                        try:
                            v = b.subbuild('deep', lambda bb, dd, kk: nest(dd), d, k)
                        except RecursionError:
                            outs.append('recursion')
                            continue
                        outs.append(sig(v))
                        v.append('MUTATED')
                        w = v
                        while isinstance(w[0], list):
                            w = w[0]
                        w.append('MUTATED-LEAF')
                    return outs
                try:
                    outs = FB.build(cache, 'n', rootf)
                except RecursionError:
                    outs = ['recursion']
                rep.count('deep_value_builds')
                seen.append(['recursion' if o == 'recursion' else ('ok' if o == want else 'changed') for o in outs])
            if any('changed' in x for x in seen):
                problems.append({'what': 'a subbuild returning a list nested %d deep: after the caller appended to the value it was handed, later calls/builds returned a changed value (per build, per call: %s)' % (d, seen), 'depth': d})
        except Exception as e:
            problems.append({'what': 'deep value probe (depth %d) raised %s: %s' % (d, type(e).__name__, str(e)[:160]), 'depth': d})
        finally:
            shutil.rmtree(root, ignore_errors=True)
    return problems


def check_C11(tier):
    rep = core.Report('C11', tier)
    gate = core.proof_gate(THEOREMS['C11'], tier)
    ds = measure()
    # the heap model: real builds with in-place mutation at every edge, replayed on FB.Heap; records located on the real heap
    from . import heapcheck
    hp = heapcheck.run(tier, rep)
    h_oracle = [q for q in hp if q['cat'] == 'oracle']
    h_tie = [q for q in hp if q['cat'] == 'tie']
    rep.count('correspondence_disagreements_heap', len(h_tie))
    for q in h_oracle[:2]:
        rep.violation('heap', {'property': 'C11', 'kind': 'failing-input', 'what': q['what'], 'heap_case': q['case'], 'build': q.get('build'),
                               'detail': q.get('detail'), 'how_to_replay': './check C11 --replay <this file>'},
                      note='%s (build %s): %s' % (q['what'], q.get('build'), json.dumps(q.get('detail'))[:200]))
    for q in deep_value_probe(tier, rep)[:2]:
        rep.violation('deep%d' % q['depth'], {'property': 'C11', 'kind': 'failing-input', 'what': q}, note=q['what'][:260])
    prof = dict(RICH_ARGS, rets=['acc', 'acc', 'const', 'const'], p_q=0.35)
    cases = gen.gen_scenario_cases(core.seed() * 31 + 11, budget(tier, 20, 500), ds)
    cases += random_cases(tier, 500, 25000, 11, prof=prof, dirsize=ds, p_fail=0.1, p_clean=0.0, min_builds=3, max_builds=5)
    plain = core.pmap(hist.real_worker, cases)
    mutated = core.pmap(hist.real_worker_mutating, cases)
    nviol = 0
    edges = {'alias_res': 0, 'alias_inv': 0, 'alias_cache': 0, 'alias_tree': 0}
    for c, a, b in zip(cases, plain, mutated):
        if 'harness_error' in a or 'harness_error' in b:
            raise core.HarnessError(a.get('harness_error') or b.get('harness_error'))
        rep.count('evaluations')
        dsx = hist.alias_diff(c, a, b)
        if sum(len(s['inv']) for s in a['steps'] if 'inv' in s) > 0:
            rep.distinct.add(json.dumps([c['funcs'], c['steps']], sort_keys=True))
        for d in dsx:
            edges[d['cat']] += 1
        if dsx:
            nviol += 1
            if nviol <= 3:
                small = shrink_case(c, lambda cc: bool(alias_failing(cc)))
                fails = alias_failing(small) or dsx
                rep.violation('seed%s' % str(c.get('seed')).replace(':', '_'), {
                    'property': 'C11', 'kind': 'failing-input', 'what': fails[:3], 'case': small,
                    'how_to_replay': './check C11 --replay <this file>'},
                    note='mutating values that crossed the API changed %s: %s' % (fails[0]['cat'], json.dumps(fails[0]['detail'])[:200]))
    # the mutating run against the value-semantics model (FB.Impl has no aliasing by construction)
    specs = model.run_cases(cases)
    tie = 0
    for c, b, s_ in zip(cases, mutated, specs):
        dsx, _ = hist.analyze(c, b, s_)
        if [d for d in dsx if d['cat'] in ('impl_res', 'impl_inv', 'impl_cache')]:
            tie += 1
    rep.count('mutating_run_vs_model_disagreements', tie)
    if h_tie and not rep.violations:
        # FB.Heap no longer describes the code and neither the records on the real heap nor the mutating histories show a failing input
        q = h_tie[0]
        rep.violation('heap_tie', {'property': 'C11', 'kind': 'correspondence-broken',
                                   'no_longer_checks': 'FB.Heap (C11_records_immutable, inv_run: separation of records from user-held structures) describes the copies file_builder.py makes: ' + q['what'],
                                   'heap_case': q['case'], 'build': q.get('build'), 'model': q.get('model'), 'real': q.get('real')},
                      note=q['what'][:200], no_input=True)
    if tie and not rep.violations:
        rep.violation('tie', {'property': 'C11', 'kind': 'correspondence-broken',
                              'no_longer_checks': 'the mutating run of the real code against the value-semantics model FB.Impl'},
                      note='%d cases' % tie, no_input=True)
    rep.coverage.update({'programs': len(cases), 'disagreements_checked': len(cases), 'differences_by_slice': edges,
                         'edges': ['args into function', 'kwargs into function', 'caller argument objects after the call',
                                   'object returned by the function', 'value returned by build_file/subbuild (fresh and cached)',
                                   'query results (list_dir, walk, ...)']})
    rep.samples.append({'seed': cases[0].get('seed'), 'steps': cases[0]['steps'][:3]})
    return finish('C11', rep, gate)


def check_TIE(tier): return run_hist_prop('TIE', tier, 99, 800, 40000)


CHECKS = {'TIE': check_TIE, 'C11': check_C11, 'C14': check_C14, 'C09': check_C09, 'C17': check_C17, 'C01': check_C01, 'C02': check_C02, 'C03': check_C03, 'C04': check_C04, 'C05': check_C05,
          'C06': check_C06, 'C07': check_C07, 'C08': check_C08, 'C10': check_C10, 'C12': check_C12, 'C13': check_C13,
          'C15': check_C15, 'C16': check_C16, 'C18': check_C18}


def replay(prop, path):
    with open(path) as fh:
        payload = json.load(fh)
    if 'heap_case' in payload and prop == 'C11':
        from . import heapcheck
        builds = heapcheck.real_run(payload['heap_case'])
        bad = [(i, b['changed'][0]) for i, b in enumerate(builds) if b['changed']]
        shared = [(i, b['shared']) for i, b in enumerate(builds) if b['shared']]
        if bad or shared:
            print('VIOLATION property=C11 replay=%s' % path)
            print('  ' + json.dumps({'records_changed': bad[:2], 'records_shared_with_user_code': shared[:2]})[:400])
            return 1
        print('replay: the recorded input no longer fails')
        return 0
    if 'case' in payload and prop == 'C11':
        fails = alias_failing(payload['case'])
        if fails:
            print('VIOLATION property=C11 replay=%s' % path)
            print('  ' + json.dumps(fails[0])[:400])
            return 1
        print('replay: the recorded input no longer fails')
        return 0
    if 'case' in payload and prop in ORACLE:
        fails = discrepancies(payload['case'], ORACLE[prop] + TIE[prop])
        if fails:
            print('VIOLATION property=%s replay=%s' % (prop, path))
            print('  ' + json.dumps(fails[0])[:400])
            return 1
        print('replay: the recorded input no longer fails')
        return 0
    print('replay: nothing executable in this file (kind=%s): %s' % (payload.get('kind'), json.dumps(payload.get('no_longer_checks'))[:300]))
    return 0


from .levels import LEVELS, NOT_YET  # noqa: E402,F401
