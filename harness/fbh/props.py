"""Per-property checks.  Every check has the same three gates (DESIGN.md 2.5):
   1 proof gate, 2 correspondence on the property's slice, 3 oracle pass on the real code."""
import json
import random

from . import core, gen, hist, jsoncheck, model, realrun, wire

# theorems (fully qualified Lean names) whose proofs decide each property on the model
THEOREMS = {p: [] for p in ['C%02d' % i for i in range(1, 19)] + ['TIE']}

# discrepancy categories (hist.analyze) that count as a failing input of the property
THEOREMS['C18'] = ['FB.sanitize_shape', 'FB.sanitize_idempotent', 'FB.sanitize_rejects_iff', 'FB.isEqual_refl',
                   'FB.isEqual_int_float', 'FB.isEqual_bool_num', 'FB.isEqual_list_tuple']

HIST_CATS = {
    'C01': ['res', 'tree', 'inv_extra'],
    'TIE': ['impl_res', 'impl_tree', 'impl_inv', 'impl_cache'],
    'C02': ['rollback', 'exc_identity', 'tmp_leak'],
    'C03': ['foreign'],
    'C05': ['unjustified', 'rewritten'],
    'C12': ['clean_tree', 'clean_res'],
}


_ORACLE = ('Lean 4 reference semantics FB.Spec (from-scratch build on a pure tree) executed by fbdriver and compared with the '
           'real FileBuilder of /repo on generated programs x histories; ')
LEVELS = {
    'C01': dict(category='translation_validation', technique='Lean reference semantics (FB.Spec) as executable oracle + differential runs against /repo',
                text=_ORACLE + 'return values, exceptions and trees of every step must agree. The refinement theorem Impl ⊑ Spec is not proved yet, so this is not yet a proof-level claim.',
                note='trusted: FB.Spec as the meaning of "from scratch", the harness, the abstract FS; bounded/sampled exploration only'),
    'C02': dict(category='translation_validation', technique='FB.Spec oracle + byte/mtime/inode snapshot equality around every failing build',
                text=_ORACLE + 'after every failing build the real tree must equal the pre-build snapshot (bytes, mtime, inode, cache file included) up to the stated latitude, and the exception must be the raised object.',
                note='trusted: harness snapshots; raise points are those the generated programs contain'),
    'C03': dict(category='translation_validation', technique='FB.Spec oracle + snapshot of the complement of the managed set around every API call',
                text=_ORACLE + 'files outside {cache file, this build\'s targets, previous outputs} must keep bytes/mtime/inode and unrecorded directories must survive every build, rollback and clean.',
                note='trusted: harness snapshots, model record of the previous build (outputs, created dirs)'),
    'C05': dict(category='translation_validation', technique='FB.Spec call tree as oracle for justified re-execution on unchanged rebuilds',
                text=_ORACLE + 'on every unchanged rebuild the real invocation log must be within the set justified by the from-scratch call tree (raised records, nested setup failures) and no output may be rewritten.',
                note='only the unchanged-rebuild clause is decided so far; observed-path mutations are compared through C01'),
    'C12': dict(category='translation_validation', technique='FB.Spec.clean as executable oracle + differential runs',
                text=_ORACLE + 'clean at random positions of histories: resulting tree equals Spec.clean, foreign snapshot unchanged.',
                note='trusted: FB.Spec.clean, harness'),
}
LEVELS['C18'] = dict(category='translation_validation', technique='Lean model FB.Json of JsonUtil + exhaustive small-scope and random differential runs; laws evaluated on the real functions',
                     text='sanitize / is_equal / to_hashable of /repo agree with the Lean model FB.Json and with json.loads(json.dumps(v)) on all values up to a size bound over the collision atom set and on random deep values; the laws (idempotence, freshness, reflexive/symmetric/transitive, hashable-iff-equal, TypeError exactly on non-JSON) are evaluated on the real functions. Theorems about FB.Json are being added.',
                     note='json module, float repr trusted; NaN excluded by the property')
NOT_YET = {}


def budget(tier, quick, thorough):
    return quick if tier == 'quick' else thorough


def shrink_case(case, pred, max_rounds=200):
    """greedy delta-debugging: drop history steps, then statements, while `pred(case)` still holds"""
    cur = json.loads(json.dumps(case))
    rounds = 0

    def still(c):
        nonlocal rounds
        rounds += 1
        if rounds > max_rounds:
            return False
        try:
            return pred(c)
        except Exception:
            return False
    changed = True
    while changed and rounds <= max_rounds:
        changed = False
        for i in range(len(cur['steps']) - 1, -1, -1):
            c = json.loads(json.dumps(cur)); del c['steps'][i]
            if c['steps'] and still(c):
                cur = c; changed = True
        for fi, f in enumerate(cur['funcs']):
            for si in range(len(f['stmts']) - 1, -1, -1):
                c = json.loads(json.dumps(cur)); del c['funcs'][fi]['stmts'][si]
                if still(c):
                    cur = c; changed = True
        for ni in range(len(cur['tree']) - 1, -1, -1):
            c = json.loads(json.dumps(cur)); del c['tree'][ni]
            if still(c):
                cur = c; changed = True
    return cur


def hist_failing(case, cats):
    (c, r, s), = hist.run_batch([case], procs=1)
    ds, _ = hist.analyze(c, r, s)
    return [d for d in ds if d['cat'] in cats]


def check_history_property(prop, tier, rep, cases, cats, note=''):
    """run cases on real code + model, report discrepancies of the given categories"""
    results = hist.run_batch(cases)
    agg = {}
    nviol = 0
    for c, r, s in results:
        ds, st = hist.analyze(c, r, s)
        for k, v in st.items():
            agg[k] = agg.get(k, 0) + v
        rep.count('evaluations')
        if st['hits'] > 0 and (st['real_inv'] > 0):
            rep.distinct.add(json.dumps([c['funcs'], c['steps']], sort_keys=True))
        mine = [d for d in ds if d['cat'] in cats]
        if mine and nviol < 3:
            nviol += 1
            small = shrink_case(c, lambda cc: bool(hist_failing(cc, cats)))
            fails = hist_failing(small, cats) or mine
            rep.violation('seed%s' % c.get('seed'), {
                'property': prop, 'kind': 'failing-input', 'what': fails[:3], 'case': small,
                'original_seed': c.get('seed'), 'how_to_replay': './check %s --replay <this file>' % prop},
                note='%s: %s' % (fails[0]['cat'], json.dumps(fails[0]['detail'])[:200]))
        elif mine:
            nviol += 1
    rep.coverage.update({'programs': len(cases), 'disagreements_checked': len(cases),
                         'history_stats': agg, 'failing_cases': nviol})
    if cases:
        rep.samples.append({'seed': cases[0].get('seed'), 'funcs': cases[0]['funcs'][:2], 'steps': cases[0]['steps'][:4]})
    return nviol


def corpus_cases(dirsize):
    """minimised past failures and defect witnesses: always run first"""
    import glob
    import os
    out = []
    for f in sorted(glob.glob(os.path.join(core.VERIF, 'corpus', '*.json'))):
        with open(f) as fh:
            d = json.load(fh)
        c = d.get('case')
        if c and c.get('kind') == 'hist':
            c = dict(c); c['dirsize'] = dirsize; c['seed'] = 'corpus:' + os.path.basename(f)
            out.append(c)
    return out


def default_cases(tier, n_quick, n_thorough, salt, prof=gen.DEFAULT_PROFILE, dirsize=4096, **kw):
    base = core.seed() * 1000003 + salt * 7919
    n = budget(tier, n_quick, n_thorough)
    return [gen.gen_case(base + i, prof, dirsize=dirsize, **kw) for i in range(n)]


def run_hist_prop(prop, tier, salt, n_quick, n_thorough, **kw):
    rep = core.Report(prop, tier)
    gate = core.proof_gate(THEOREMS[prop], tier)
    ds = realrun.measure_dirsize()
    if ds is None:
        raise core.HarnessError('directory sizes vary on %s; set FBH_TMP to an ext4-like file system' % realrun.SANDBOX_BASE)
    cases = corpus_cases(ds) + default_cases(tier, n_quick, n_thorough, salt, dirsize=ds, **kw)
    check_history_property(prop, tier, rep, cases, HIST_CATS[prop])
    if not gate['ok'] and not rep.violations:
        rep.violation('proofgate', {'property': prop, 'kind': 'broken-proof-obligation',
                                    'failures': gate['failures']}, note='; '.join(gate['failures'])[:300],
                      no_input=True)
    return rep.finish(gate)


def check_C01(tier): return run_hist_prop('C01', tier, 1, 800, 40000)
def check_C02(tier): return run_hist_prop('C02', tier, 2, 800, 40000, p_fail=0.5)
def check_C03(tier): return run_hist_prop('C03', tier, 3, 800, 40000, p_fail=0.3, p_clean=0.2)
def check_C05(tier): return run_hist_prop('C05', tier, 5, 800, 40000, p_fail=0.05, p_clean=0.03, min_builds=3, max_builds=6)
def check_C12(tier): return run_hist_prop('C12', tier, 12, 800, 40000, p_clean=0.4)


def check_C18(tier):
    rep = core.Report('C18', tier)
    gate = core.proof_gate(THEOREMS['C18'], tier)
    bad = jsoncheck.run(tier, rep)
    for what, inp, got in bad[:3]:
        rep.violation('json', {'property': 'C18', 'kind': 'failing-input', 'what': what, 'input': repr(inp), 'got': repr(got)},
                      note='%s on %r' % (what, inp))
    rep.coverage.update({'programs': rep.counters.get('values', 0), 'disagreements_checked': rep.counters.get('evaluations', 0)})
    if not gate['ok'] and not rep.violations:
        rep.violation('proofgate', {'property': 'C18', 'kind': 'broken-proof-obligation', 'failures': gate['failures']},
                      note='; '.join(gate['failures'])[:300], no_input=True)
    return rep.finish(gate)


def check_TIE(tier): return run_hist_prop('TIE', tier, 99, 800, 40000)


CHECKS = {'TIE': check_TIE, 'C18': check_C18, 'C01': check_C01, 'C02': check_C02, 'C03': check_C03, 'C05': check_C05, 'C12': check_C12}


def replay(prop, path):
    with open(path) as fh:
        payload = json.load(fh)
    if 'case' in payload and prop in HIST_CATS:
        fails = hist_failing(payload['case'], HIST_CATS[prop])
        if fails:
            print('VIOLATION property=%s replay=%s' % (prop, path))
            print('  ' + json.dumps(fails[0])[:400])
            return 1
        print('replay: the recorded input no longer fails')
        return 0
    print('replay: nothing executable in this file (kind=%s)' % payload.get('kind'))
    return 0
