"""Run a history case against the real FileBuilder (from FB_REPO, default /repo) in a sandbox."""
import importlib
import logging
import hashlib
import os
import shutil
import sys
import tempfile

from . import dsl, wire

SANDBOX_BASE = os.environ.get('FBH_TMP', '/tmp')
_fb = None


def load_fb():
    """import file_builder from the repository under test (working tree, not an installed copy)"""
    global _fb
    if _fb is None:
        repo = os.environ.get('FB_REPO', '/repo')
        if sys.path[0] != repo:
            sys.path.insert(0, repo)
        os.environ.setdefault('FILE_BUILDER_VERIF', '1')
        mod = importlib.import_module('file_builder')
        assert os.path.dirname(os.path.dirname(os.path.abspath(mod.__file__))) == os.path.abspath(repo), mod.__file__
        logging.disable(logging.CRITICAL)
        _fb = mod
    return _fb


def measure_dirsize():
    d = tempfile.mkdtemp(prefix='fbh_ds_', dir=SANDBOX_BASE)
    try:
        a = os.path.getsize(d)
        for n in ('x', 'y', 'z'):
            open(os.path.join(d, n), 'w').close()
        os.mkdir(os.path.join(d, 'sub'))
        b = os.path.getsize(d)
        return a if a == b else None
    finally:
        shutil.rmtree(d, ignore_errors=True)


def snapshot(root, cache_abs):
    """sorted list of [rel, 'dir'] | [rel, 'file', bytes, mtime_ns, ino]"""
    out = []
    for r_, ds, fs in os.walk(root):
        for d in ds:
            p = os.path.join(r_, d)
            if os.path.islink(p):
                out.append([os.path.relpath(p, root), 'link'])
            else:
                out.append([os.path.relpath(p, root), 'dir'])
        for f in fs:
            p = os.path.join(r_, f)
            st = os.lstat(p)
            with open(p, 'rb') as fh:
                data = fh.read()
            if p == cache_abs:
                out.append([os.path.relpath(p, root), 'file', '<cache>', st.st_mtime_ns, st.st_ino,
                            data.hex()[:0] + str(hash(data))])
            else:
                out.append([os.path.relpath(p, root), 'file', data.decode('utf-8', 'surrogateescape'),
                            st.st_mtime_ns, st.st_ino])
    out.sort(key=lambda x: x[0])
    return out


def read_cache_json(cache_abs):
    import gzip
    import json
    try:
        with gzip.open(cache_abs, 'rt') as fh:
            return json.load(fh)
    except Exception as e:
        return {'unreadable': repr(e)[:100]}


def apply_tree(root, tree):
    for node in sorted(tree, key=lambda n: n[0]):
        p = os.path.join(root, node[0])
        if node[1] == 'dir':
            os.makedirs(p, exist_ok=True)
        else:
            os.makedirs(os.path.dirname(p), exist_ok=True)
            with open(p, 'w') as fh:
                fh.write(node[2])
            os.utime(p, ns=(node[3], node[3]))


def apply_mut(root, kind, rel, data, mtime):
    p = os.path.join(root, rel) if rel else root
    if kind == 'write':
        if rel == '' or os.path.isdir(p) or not os.path.isdir(os.path.dirname(p)):
            return
        # replace, do not rewrite in place: a new file (new inode), like an editor's save
        if os.path.lexists(p):
            os.remove(p)
        with open(p, 'w') as fh:
            fh.write(data)
        os.utime(p, ns=(mtime, mtime))
    elif kind == 'delete':
        if os.path.isfile(p):
            os.remove(p)
    elif kind == 'rmtree':
        if rel != '' and os.path.isdir(p):
            shutil.rmtree(p)
    elif kind == 'mkdir':
        if rel != '' and not os.path.lexists(p) and os.path.isdir(os.path.dirname(p)):
            os.mkdir(p)
    elif kind == 'touch':
        if os.path.isfile(p):
            os.utime(p, ns=(mtime, mtime))
    elif kind == 'samemeta':
        if os.path.isfile(p):
            st = os.stat(p)
            with open(p) as fh:
                b = fh.read()
            if b:
                c = 'y' if b[-1] == 'x' else 'x'
                with open(p, 'w') as fh:
                    fh.write(b[:-1] + c)
                os.utime(p, ns=(st.st_mtime_ns, st.st_mtime_ns))
    elif kind == 'corrupt':
        if os.path.isfile(p):
            corrupt_cache(p, data)
    elif kind == 'todir':
        if os.path.isfile(p):
            os.remove(p)
            os.mkdir(p)
    else:
        raise ValueError(kind)


def corrupt_cache(p, cls):
    """replace a valid cache file by a member of the corruption class `cls` (C15)"""
    import gzip
    import json
    with open(p, 'rb') as fh:
        raw = fh.read()
    kind, _, param = cls.partition(':')
    n = int(param) if param and param.lstrip('-').isdigit() else 0
    if kind == 'truncate':
        out = raw[:max(0, min(len(raw) - 1, n))]
    elif kind == 'bitflipkeep':
        # silent bit rot: one bit of the gzip trailer (CRC32) flips; size and modification time stay what they were
        st = os.stat(p)
        i = len(raw) - 8 + (n % 4)
        out = raw[:i] + bytes([raw[i] ^ (1 << (n % 8))]) + raw[i + 1:]
        with open(p, 'r+b') as fh:
            fh.write(out)
        os.utime(p, ns=(st.st_atime_ns, st.st_mtime_ns))
        return
    elif kind == 'bitflip':
        i = n % len(raw)
        out = raw[:i] + bytes([raw[i] ^ (1 << (n % 8))]) + raw[i + 1:]
        try:    # a flip that keeps the file readable and equal is not a corruption
            if json.loads(gzip.decompress(out)) == json.loads(gzip.decompress(raw)):
                out = raw[: len(raw) // 2]
        except Exception:
            pass
    elif kind == 'nongzip':
        out = b'this is not gzip'
    elif kind == 'gzip_nonjson':
        out = gzip.compress(b'{not json')
    elif kind in ('wrong_shape', 'other_software', 'newer_version', 'no_software'):
        j = json.loads(gzip.decompress(raw))
        if kind == 'wrong_shape':
            j = [j]
        elif kind == 'other_software':
            j['software'] = 'make'
        elif kind == 'no_software':
            del j['software']
        else:
            j['cacheFileVersion'] = 2
        out = gzip.compress(json.dumps(j).encode())
    elif kind == 'empty':
        out = b''
    elif kind in ('no_version', 'no_key'):
        # a member the format requires is missing altogether (not: present with another value)
        j = json.loads(gzip.decompress(raw))
        j.pop('cacheFileVersion' if kind == 'no_version' else param, None)
        out = gzip.compress(json.dumps(j).encode())
    elif kind == 'badutf8':
        # valid gzip whose text is not valid UTF-8: one byte inside a JSON string becomes 0xff.  Without a parameter the
        # string is the build name; with one it is the n-th string VALUE that steers nothing (an argument, a return value,
        # a created directory) - the document is a well-formed cache file except for that byte
        import re
        text = gzip.decompress(raw)
        i = text.find(b'"buildName"')
        i = text.find(b'"', text.find(b':', i)) + 1 if i >= 0 else -1
        if param:
            spots = []
            for m in re.finditer(rb'"((?:[^"\\]|\\.)+)"\s*([:,\]}])', text):
                before = text[max(0, m.start() - 20):m.start()]
                if m.group(2) == b':' or re.search(rb'"(buildName|software|type|fileComparison|filename|funcName)"\s*:\s*$', before):
                    continue
                if text[m.start() + 1:m.start() + 2] != b'\\':
                    spots.append(m.start() + 1)
            if spots:
                i = spots[n % len(spots)]
        out = gzip.compress(text[:i] + b'\xff' + text[i + 1:]) if i > 0 else gzip.compress(b'"\xff"')
    elif kind in ('field', 'opfield'):
        # valid gzip, valid JSON, right software and version - but one field has a value of the wrong type
        name, _, val = param.partition('=')
        j = json.loads(gzip.decompress(raw))
        if kind == 'field':
            j[name] = json.loads(val)
        else:
            ops = j.get('rootOperations') or []
            target = None
            stack = list(ops)
            while stack:            # the first operation (depth first) that has this field
                o = stack.pop(0)
                if isinstance(o, dict) and name in o:
                    target = o
                    break
                if isinstance(o, dict):
                    stack = list(o.get('suboperations') or []) + stack
            if target is None:
                j['createdDirs'] = json.loads(val) if not isinstance(json.loads(val), list) else 7
            else:
                target[name] = json.loads(val)
        out = gzip.compress(json.dumps(j).encode())
    else:
        raise ValueError(cls)
    with open(p, 'wb') as fh:
        fh.write(out)


class InjectedFault(OSError):
    pass


class InjectedValueError(ValueError):
    """a failure of the cache write that is not an OSError (json.dumps refusing a value, MemoryError ...)"""


def is_injected(e):
    """is this exception the injected fault, or was it raised while handling it / caused by it?"""
    seen = 0
    x = e
    while x is not None and seen < 20:
        if isinstance(x, (InjectedFault, InjectedValueError)):
            return True
        x = x.__cause__ or x.__context__
        seen += 1
    return False


class FaultInjector:
    """raise OSError at the k-th mutating file-system call made by the library (C14).  Installed from
    outside into the namespaces of the file_builder modules; /repo is not changed."""
    MODS = ['file_builder.file_builder', 'file_builder.cache', 'file_builder.file_backups']
    OPS = ['mkdir', 'makedirs', 'rename', 'replace', 'rmdir']

    def __init__(self, k=None, op=None, exc=None):
        self.k = k
        self.op = op     # fire at the first call of this kind instead of the k-th call
        self.exc = exc   # 'EIO' (default), 'EXDEV', 'EACCES', 'ENOSPC', 'EPERM' ... or 'ValueError'
        self.count = 0
        self.fired = None
        self.log = []
        self.saved = []
        self.ctx = None

    def _hit(self, op, path):
        import sys as _sys
        if op == 'rmdir':
            # only where the library promises to report the failure (_make_room); the best-effort
            # clean-ups (_remove_empty_dirs) swallow errors by design
            f = _sys._getframe(2)
            if f.f_code.co_name != '_make_room':
                return
        self.count += 1
        self.log.append([op, path])
        if self.fired is None and ((self.k is not None and self.count == self.k) or (self.op is not None and op == self.op)):
            in_call = list(self.ctx.call_stack[-1]) if self.ctx is not None and self.ctx.call_stack else ['root']
            self.fired = {'op': op, 'path': path, 'in_call': in_call, 'k': self.k,
                          'root_returned': bool(self.ctx is not None and getattr(self.ctx, 'root_returned', False))}
            if self.ctx is not None:
                self.ctx.fault_call = tuple(self.ctx.call_stack) if self.ctx.call_stack else ('root',)
            import errno
            if self.exc == 'ValueError':
                raise InjectedValueError('injected fault')
            raise InjectedFault(getattr(errno, self.exc or 'EIO'), 'injected fault', path)

    def __enter__(self):
        import gzip as real_gzip
        import importlib
        import os as real_os
        import types
        inj = self
        proxy = types.ModuleType('os_fault_proxy')
        proxy.__dict__.update({k: getattr(real_os, k) for k in dir(real_os) if not k.startswith('__')})

        def wrap(name, fn):
            def w(*a, **kw):
                inj._hit(name, str(a[0]) if a else '')
                return fn(*a, **kw)
            return w
        for n in self.OPS:
            setattr(proxy, n, wrap(n, getattr(real_os, n)))
        gz = types.ModuleType('gzip_fault_proxy')
        gz.__dict__.update({k: getattr(real_gzip, k) for k in dir(real_gzip) if not k.startswith('__')})

        def gzopen(filename, mode='rb', *a, **kw):
            if 'w' in mode:
                inj._hit('open-for-write', str(filename))
                fh = real_gzip.open(filename, mode, *a, **kw)
                real_write = fh.write

                def failing_write(data):
                    # the write itself can fail (disk full) after the file has been created
                    inj._hit('write-cache', str(filename))
                    return real_write(data)
                fh.write = failing_write
                return fh
            return real_gzip.open(filename, mode, *a, **kw)
        gz.open = gzopen
        for m in self.MODS:
            mod = importlib.import_module(m)
            if hasattr(mod, 'os'):
                self.saved.append((mod, 'os', mod.os)); mod.os = proxy
            if hasattr(mod, 'gzip'):
                self.saved.append((mod, 'gzip', mod.gzip)); mod.gzip = gz
        return self

    def __exit__(self, *a):
        for mod, name, val in self.saved:
            setattr(mod, name, val)


def show_exc(e, ctx=None):
    out = {'cls': dsl.exc_cls(e)}
    if isinstance(e, dsl.UserExc):
        out['tok'] = e.tok
        if ctx is not None:
            out['same_object'] = any(e is x for x in ctx.raised.get(e.tok, []))
    elif isinstance(e, RuntimeError):
        out['why'] = dsl.rt_why(e)
        out['msg'] = str(e)[:200]
    elif not isinstance(e, (OSError, TypeError)):
        out['msg'] = repr(e)[:200]
    return out


def tmp_leftovers():
    base = tempfile.gettempdir()
    try:
        return sorted(n for n in os.listdir(base) if n.startswith('file_builder_'))
    except OSError:
        return []


ROOT_EXTRA = [('t', 1), None]
ROOT_KW = {'rk': [1, {'z': (2,)}]}


def cache_probe_for(cache_abs):
    """the committed cache file as it is before a build starts; the probe says what changed about it (None: nothing)"""
    def sig():
        try:
            st = os.stat(cache_abs)
            with open(cache_abs, 'rb') as fh:
                return (st.st_ino, st.st_size, st.st_mtime_ns, hashlib.sha1(fh.read()).hexdigest())
        except OSError:
            return None
    before = sig()
    if before is None:
        return None

    def probe():
        now = sig()
        if now == before:
            return None
        return 'missing' if now is None else 'replaced or rewritten'
    return probe


def run_case(case, hooks=None, mutate=False):
    """-> {'steps': [obs...]}; obs for build: res, tree, inv, queries; for mut: tree"""
    fb = load_fb()
    FileBuilder = fb.FileBuilder
    root = tempfile.mkdtemp(prefix='fbh_sb_', dir=SANDBOX_BASE)
    root = os.path.realpath(root)
    # a private temp dir: FileBackups' mkdtemp lands here, so leftovers can be attributed
    priv = tempfile.mkdtemp(prefix='fbh_tmp_', dir=SANDBOX_BASE)
    old_tempdir = tempfile.tempdir
    tempfile.tempdir = priv
    cache_abs = os.path.join(root, case['cache'])
    old_cwd = os.getcwd()
    clock = [1000000]
    outs = []
    try:
        apply_tree(root, case['tree'])
        init = snapshot(root, cache_abs)
        spelled = {}
        for step_index, st in enumerate(case['steps']):
            k = st[0]
            if case.get('spell') is not None and k in ('build', 'clean'):
                # relative spellings are resolved against the working directory of the moment: move it around
                wd = [root, os.path.dirname(root), SANDBOX_BASE, '/', old_cwd][(case['spell'] + step_index) % 5]
                try:
                    os.chdir(wd)
                except OSError:
                    pass
            if k == 'mut':
                apply_mut(root, st[1], st[2], st[3], st[4])
                outs.append({'tree': snapshot(root, cache_abs)})
            elif k == 'build':
                _, name, versions_w, root_idx, arg_w = st[:5]
                versions = dsl.dec_pyval(versions_w)
                ctx = dsl.Ctx(case, root, versions, clock, fb.FileComparison)
                ctx.set_spelling(case.get('spell'), step_index)
                ctx.mutate = mutate
                before_tmp = tmp_leftovers()
                ctx.cache_probe = cache_probe_for(cache_abs)

                def rootf(b, a, *rest, **rkw):
                    # the root function's own arguments are passed through untouched (positional and keyword)
                    if list(rest) != ROOT_EXTRA or rkw != ROOT_KW:
                        raise RuntimeError('the root function received %r %r instead of %r %r' % (rest, rkw, ROOT_EXTRA, ROOT_KW))
                    ctx.root_entered = True
                    r_ = dsl.run_func(ctx, root_idx, b, None, a, {}, is_root=True)
                    if ctx.cache_probe is not None and not ctx.cache_early:
                        w_ = ctx.cache_probe()           # ... up to the moment the root function returns
                        if w_:
                            ctx.cache_early.append(['<root returning>', w_])
                    ctx.root_returned = True
                    return r_
                if hooks and 'pre_build' in hooks:
                    hooks['pre_build'](ctx, root, cache_abs)
                opts = st[5] if len(st) > 5 and isinstance(st[5], dict) else {}
                inj = (FaultInjector(opts.get('inject'), opts.get('inject_op'), opts.get('inject_exc'))
                       if (opts.get('inject') is not None or opts.get('inject_op') or opts.get('count_faults')) else None)
                if inj is not None:
                    inj.ctx = ctx
                    inj.__enter__()
                try:
                    try:
                        if versions == {} and step_index % 2 == 1:
                            r = FileBuilder.build(ctx.spell(cache_abs), name, rootf, dsl.dec_pyval(arg_w), *ROOT_EXTRA, **ROOT_KW)
                        else:
                            r = FileBuilder.build_versioned(ctx.spell(cache_abs), name, versions, rootf, dsl.dec_pyval(arg_w), *ROOT_EXTRA, **ROOT_KW)
                        res = {'ok': wire.enc(r)}
                    except Exception as e:
                        res = {'exc': show_exc(e, ctx)}
                        if is_injected(e):
                            res['exc']['cls'] = 'OSError'
                finally:
                    if inj is not None:
                        inj.__exit__()
                for k_, v_ in ctx.spellings.items():
                    spelled[k_] = spelled.get(k_, 0) + v_
                obs = {'res': res, 'tree': snapshot(root, cache_abs), 'inv': ctx.inv, 'root': root, 'spelled': dict(ctx.spellings),
                       'root_called': bool(getattr(ctx, 'root_entered', False)),
                       'cache_json': read_cache_json(cache_abs) if 'ok' in res and os.path.isfile(cache_abs) else None,
                       'queries': ctx.query_log, 'contract': ctx.contract, 'cache_early': ctx.cache_early, 'api_used': dict(ctx.api_used),
                       'tmp_leak': [n for n in tmp_leftovers() if n not in before_tmp]}
                if inj is not None:
                    obs['fault'] = {'fired': inj.fired, 'injectable_calls': inj.count, 'calls': inj.log[:60]}
                if hooks and 'post_build' in hooks:
                    hooks['post_build'](ctx, root, cache_abs, obs)
                outs.append(obs)
            elif k == 'clean':
                try:
                    cctx = dsl.Ctx(case, root, {}, clock, fb.FileComparison)
                    cctx.set_spelling(case.get('spell'), step_index)
                    FileBuilder.clean(cctx.spell(cache_abs), st[1])
                    res = {'ok': None}
                except Exception as e:
                    res = {'exc': show_exc(e)}
                outs.append({'res': res, 'tree': snapshot(root, cache_abs)})
            else:
                raise ValueError(k)
        return {'steps': outs, 'init': init}
    finally:
        try:
            os.chdir(old_cwd)
        except (OSError, NameError):
            pass
        tempfile.tempdir = old_tempdir
        shutil.rmtree(root, ignore_errors=True)
        shutil.rmtree(priv, ignore_errors=True)
