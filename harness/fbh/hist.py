"""History engine: run cases on the real code and on the model, compare, classify discrepancies."""
import json
import traceback

from . import core, model, realrun, wire


def static_targets(funcs):
    out = set()

    def rec(stmts):
        for st in stmts:
            if st[0] == 'bf':
                out.add(st[1])
            elif st[0] == 'if':
                rec(st[2]); rec(st[3])
    for f in funcs:
        rec(f['stmts'])
    return out


def real_worker(case):
    try:
        return realrun.run_case(case)
    except Exception:
        return {'harness_error': traceback.format_exc()[-1500:]}


def real_worker_mutating(case):
    try:
        return realrun.run_case(case, mutate=True)
    except Exception:
        return {'harness_error': traceback.format_exc()[-1500:]}


def alias_diff(case, plain, mutated):
    """C11: the same history with and without in-place mutation of every value that crossed the API"""
    ds = []
    for i, (st, a, b) in enumerate(zip(case['steps'], plain['steps'], mutated['steps'])):
        if st[0] != 'build':
            continue
        def strip(r):
            if 'exc' in r:
                return {'exc': {k: v for k, v in r['exc'].items() if k not in ('msg',)}}
            return r
        if strip(a['res']) != strip(b['res']):
            ds.append({'cat': 'alias_res', 'step': i, 'detail': {'plain': a['res'], 'mutating': b['res']}})
        if a['inv'] != b['inv']:
            ds.append({'cat': 'alias_inv', 'step': i, 'detail': {'plain': a['inv'][:5], 'mutating': b['inv'][:5]}})
        ta = [n[:3] for n in a['tree']]; tb = [n[:3] for n in b['tree']]
        if ta != tb:
            ds.append({'cat': 'alias_tree', 'step': i, 'detail': [x for x in tb if x not in ta][:4]})
        ca, cb = a.get('cache_json'), b.get('cache_json')
        if (ca is None) != (cb is None):
            ds.append({'cat': 'alias_cache', 'step': i, 'detail': 'cache written in one run only'})
        elif ca is not None and 'unreadable' not in ca and 'unreadable' not in cb:
            ra = json.dumps(sort_dicts(canon_real_cache(ca, a['root'], set())), sort_keys=True)
            rb = json.dumps(sort_dicts(canon_real_cache(cb, b['root'], set())), sort_keys=True)
            if ra != rb:
                ds.append({'cat': 'alias_cache', 'step': i, 'detail': first_diff(json.loads(ra), json.loads(rb))})
    return ds


def norm_root_value(w):
    """the root function's value is returned unsanitized: compare modulo tuple/list"""
    if isinstance(w, dict):
        if 't' in w:
            return {'l': [norm_root_value(x) for x in w['t']]}
        if 'l' in w:
            return {'l': [norm_root_value(x) for x in w['l']]}
        if 'd' in w:
            return {'d': [[k, norm_root_value(v)] for k, v in w['d']]}
    return w


def res_equal(rr, mr):
    if ('ok' in rr) != ('ok' in mr):
        return False
    if 'ok' in rr:
        a = norm_root_value(rr['ok']); b = norm_root_value(mr['ok'])
        return wire.type_exact_equal(wire.dec(a) if a is not None else None,
                                     wire.dec(b) if b is not None else None)
    re_, me = rr['exc'], mr['exc']
    if me.get('why') == 'corrupt':
        # an unreadable cache file: which exception class reports it is not specified
        return True
    if re_['cls'] != me['cls']:
        return False
    if re_['cls'] == 'UserExc':
        return re_.get('tok') == me.get('tok')
    if re_['cls'] == 'RuntimeError' and re_.get('why') not in (None, '?'):
        return re_.get('why') == me.get('why')
    return True


def tree_view(tree, cache, targets, with_mtime_for_foreign=True):
    """canonical comparison form of a snapshot: {path: ('dir',) | ('file', bytes[, mtime])}"""
    out = {}
    for n in tree:
        p = n[0]
        if n[1] != 'file':
            out[p] = (n[1],)
        elif p == cache:
            out[p] = ('file', '<cache>')
        elif p in targets or not with_mtime_for_foreign:
            out[p] = ('file', n[2])
        else:
            out[p] = ('file', n[2], n[3])
    return out


def tree_diff(a, b):
    return {k: [a.get(k), b.get(k)] for k in sorted(set(a) | set(b)) if a.get(k) != b.get(k)}


def inv_key(i):
    return json.dumps(i, sort_keys=True)


def multiset_minus(a, b):
    """elements of a (with multiplicity) not covered by b"""
    from collections import Counter
    cb = Counter(b)
    out = []
    for x in a:
        if cb[x] > 0:
            cb[x] -= 1
        else:
            out.append(x)
    return out


def justified_unchanged(trace):
    """invocations justified in an unchanged rebuild, from the from-scratch call tree of that build"""
    out = []

    def has_setup(n):
        return n['st'].startswith('setup:') or any(has_setup(c) for c in n['ch'])

    def visit_executing(children):
        for c in children:
            if c['st'].startswith('setup:'):
                continue
            if c['st'] != 'ok' or has_setup(c):
                out.append(inv_key([c['f'], c['t'], c['a'], c['k']]))
                visit_executing(c['ch'])
    visit_executing(trace)
    return out


def reads_rebuilt_output(case, fname, targets):
    """does the function `fname` of the case - or a function it calls - query a path that is, lies below or lies above
    one of `targets`?  (C05: a recorded query on an output that a justified re-execution has just rewritten - new
    modification time - answers differently, so the reader's re-execution is justified as well)"""
    funcs = {f['name']: f for f in case.get('funcs', [])}
    order = [f['name'] for f in case.get('funcs', [])]
    seen = set()

    def related(p):
        return any(p == t or p.startswith(t + '/') or t.startswith(p + '/') or p == '' for t in targets)

    def visit(name):
        if name in seen or name not in funcs:
            return False
        seen.add(name)
        return walk(funcs[name]['stmts'])

    def walk(stmts):
        for st in stmts:
            if not isinstance(st, list) or not st:
                continue
            if st[0] == 'q' and isinstance(st[2], str) and related(st[2]):
                return True
            if st[0] == 'if' and (walk(st[2]) or walk(st[3])):
                return True
            if st[0] == 'bf' and isinstance(st[3], int) and st[3] < len(order) and visit(order[st[3]]):
                return True
            if st[0] == 'sb' and isinstance(st[1], int) and st[1] < len(order) and visit(order[st[1]]):
                return True
        return False
    return visit(fname)


import hashlib


def canon_real_cache(cj, root, contents):
    """the decoded cache file of the real run in the canonical form of FB.Wire.showCache"""
    sha = {hashlib.sha256(c.encode('utf-8', 'surrogateescape')).hexdigest(): c for c in contents}

    def rel(p):
        if p == root:
            return ''
        return p[len(root) + 1:] if p.startswith(root + '/') else p

    def fix_ret(name, v):
        if name == 'walk' and isinstance(v, list):
            return [[('<R>' + e[0][len(root):]) if isinstance(e[0], str) and e[0].startswith(root) else e[0], e[1], e[2]]
                    for e in v]
        if name == 'read' and isinstance(v, str):
            return 'sha:' + sha[v] if v in sha else v
        return v

    def op(o):
        t = o['type']
        if t == 'build_file':
            cr = o['fileComparisonResult']
            if isinstance(cr, str):
                cr = 'sha:' + sha[cr] if cr in sha else cr
            return {'type': t, 'filename': rel(o['filename']), 'cmp': o['fileComparison'], 'func': o['funcName'],
                    'args': wire.enc(o['args']), 'kwargs': wire.enc(o['kwargs']), 'subs': [op(x) for x in o['suboperations']],
                    'ret': wire.enc(o['returnValue']), 'cmpRes': wire.enc(cr), 'raised': bool(o.get('raised', False)),
                    'setupFailed': bool(o.get('setupFailed', False))}
        if t == 'subbuild':
            return {'type': t, 'func': o['funcName'], 'args': wire.enc(o['args']), 'kwargs': wire.enc(o['kwargs']),
                    'subs': [op(x) for x in o['suboperations']], 'ret': wire.enc(o['returnValue']),
                    'raised': bool(o.get('raised', False)), 'setupFailed': bool(o.get('setupFailed', False))}
        args = list(o['args'])
        args[0] = rel(args[0])
        return {'type': t, 'args': args, 'ret': wire.enc(fix_ret(t, o['returnValue'])), 'exc': o.get('exceptionType')}
    return {'buildName': cj['buildName'], 'roots': sorted((op(x) for x in cj['rootOperations']), key=lambda x: json.dumps(x, sort_keys=True)),
            'createdDirs': sorted(rel(d) for d in cj['createdDirs']), 'versions': wire.enc(cj['funcVersions'])}


def canon_model_cache(c):
    def lists(v):
        # tuples recorded by simple operations become lists in the file
        if isinstance(v, dict):
            if 't' in v:
                return {'l': [lists(x) for x in v['t']]}
            if 'l' in v:
                return {'l': [lists(x) for x in v['l']]}
            if 'd' in v:
                return {'d': sorted([[k, lists(x)] for k, x in v['d']])}
        return v

    def op(o):
        o = dict(o)
        for k in ('ret', 'args', 'kwargs', 'cmpRes'):
            if k in o and not (o['type'] not in ('build_file', 'subbuild') and k == 'args'):
                o[k] = lists(o[k])
        if 'subs' in o:
            o['subs'] = [op(x) for x in o['subs']]
        return o
    return {'buildName': c['buildName'], 'roots': sorted((op(x) for x in c['roots']), key=lambda x: json.dumps(x, sort_keys=True)),
            'createdDirs': sorted(c['createdDirs']), 'versions': lists(c['versions'])}


def sort_dicts(v):
    if isinstance(v, dict):
        if 'd' in v and isinstance(v['d'], list):
            return {'d': sorted([[k, sort_dicts(x)] for k, x in v['d']], key=lambda kv: json.dumps(kv[0]))}
        return {k: sort_dicts(x) for k, x in v.items()}
    if isinstance(v, list):
        return [sort_dicts(x) for x in v]
    return v


def impl_compare(case, i, st, ro, mo, ds, all_contents):
    """gate 2: the implementation model (FB.Impl) against the real code, everything observable"""
    im = mo.get('impl')
    if im is None:
        return
    cache = case['cache']
    if 'res' in ro and not res_equal(ro['res'], im['res']):
        ds.append({'cat': 'impl_res', 'step': i, 'detail': {'real': ro['res'], 'impl': im['res']}})
    a = tree_view(ro['tree'], cache, set()); b = tree_view(im['tree'], cache, set())
    if a != b:
        ds.append({'cat': 'impl_tree', 'step': i, 'detail': tree_diff(a, b)})
    if st[0] == 'build':
        if [inv_key(x) for x in ro['inv']] != [inv_key(x) for x in im['inv']]:
            ds.append({'cat': 'impl_inv', 'step': i, 'detail': {'real': ro['inv'][:6], 'impl': im['inv'][:6]}})
        if ro.get('cache_json') is not None and im.get('cache') is not None:
            if 'unreadable' in ro['cache_json']:
                ds.append({'cat': 'impl_cache', 'step': i, 'detail': ro['cache_json']})
            else:
                rc = sort_dicts(canon_real_cache(ro['cache_json'], ro['root'], all_contents))
                mc = sort_dicts(canon_model_cache(im['cache']))
                if json.dumps(rc, sort_keys=True) != json.dumps(mc, sort_keys=True):
                    ds.append({'cat': 'impl_cache', 'step': i, 'detail': first_diff(rc, mc)})
        elif (ro.get('cache_json') is None) != (im.get('cache') is None):
            ds.append({'cat': 'impl_cache', 'step': i, 'detail': 'cache written on one side only'})


def first_diff(a, b, path=''):
    if type(a) != type(b):
        return {'at': path, 'real': a, 'impl': b}
    if isinstance(a, dict):
        for k in sorted(set(a) | set(b)):
            if a.get(k) != b.get(k):
                return first_diff(a.get(k), b.get(k), path + '/' + str(k))
    if isinstance(a, list):
        if len(a) != len(b):
            return {'at': path, 'real_len': len(a), 'impl_len': len(b), 'real': a[:3], 'impl': b[:3]}
        for j, (x, y) in enumerate(zip(a, b)):
            if x != y:
                return first_diff(x, y, path + '/' + str(j))
    return {'at': path, 'real': a, 'impl': b}


def trace_targets(trace):
    out = set()

    def rec(ns):
        for n in ns:
            if n['t'] is not None:
                out.add(n['t'])
            rec(n['ch'])
    rec(trace)
    return out


def canon_versions(w):
    from . import dsl
    v = dsl.dec_pyval(w) if w is not None else {}
    return json.dumps({k: dsl.canon(x) for k, x in v.items() if x is not None}, sort_keys=True)


def changed_version_names(w_old, w_new):
    from . import dsl
    a = dsl.dec_pyval(w_old) if w_old is not None else {}
    b = dsl.dec_pyval(w_new) if w_new is not None else {}
    out = set()
    for k in set(a) | set(b):
        if json.dumps(dsl.canon(a.get(k)), sort_keys=True) != json.dumps(dsl.canon(b.get(k)), sort_keys=True):
            out.add(k)
    return out


def must_reexecute(trace, names):
    """from-scratch invocations of the functions in `names` and of everything that transitively calls them"""
    out = []

    def rec(n):
        below = False
        for c in n['ch']:
            below = rec(c) or below
        mine = n['f'] in names
        if (mine or below) and not n['st'].startswith('setup:'):
            out.append(inv_key([n['f'], n['t'], n['a'], n['k']]))
        return mine or below
    for n in trace:
        rec(n)
    return out


def analyze(case, real, spec):
    """-> (discrepancies, stats).  discrepancy: dict(cat, step, detail)."""
    ds = []
    stats = {'builds': 0, 'failing_builds': 0, 'commits': 0, 'cleans': 0, 'muts': 0, 'hits': 0,
             'unchanged_rebuilds': 0, 'obl_cut': 0, 'real_inv': 0, 'spec_inv': 0, 'refused': 0,
             'rollback_checked': 0, 'foreign_checked': 0}
    cache = case['cache']
    no_spec = bool(case.get('no_spec'))
    targets = static_targets(case['funcs'])
    before = real['init']
    last_commit = None      # the last committed build, if nothing happened since
    committed_versions = None   # versions of the last committed build (None: no cache)
    rec = None              # the model's record of the last committed build (what the cache file stands for)
    all_contents = set(n[2] for n in real['init'] if n[1] == 'file')
    lenient = False         # the cache file was given a well-formed JSON document with a field of the wrong type
    for i, st in enumerate(case['steps']):
        ro, so = real['steps'][i], spec['steps'][i]
        kind = st[0]
        all_contents.update(n[2] for n in ro['tree'] if n[1] == 'file')
        if (kind == 'mut' and st[1] == 'corrupt' and str(st[3]).startswith(('field:', 'opfield:'))
                and any(n[0] == cache and n[1] == 'file' for n in before)):
            lenient = True
        if lenient and kind in ('build', 'clean'):
            # Parsing is documented as best effort: the library may accept such a file (then the history leaves
            # what the models describe and is not followed further) - but IF the call raises, it must have
            # changed nothing and called nothing (C15); which exception class it raises is not specified.
            if 'exc' not in ro['res']:
                stats['accepted_wrong_shape'] = stats.get('accepted_wrong_shape', 0) + 1
                break
            stats['refused'] += 1
            problems = {}
            if ro['tree'] != before:
                problems['tree'] = [x for x in ro['tree'] if x not in before][:3] + [x for x in before if x not in ro['tree']][:3]
            if ro.get('inv'):
                problems['called'] = ro['inv'][:3]
            if ro.get('root_called'):
                problems['called'] = ['<root function>']
            if problems:
                problems['exception'] = ro['res']['exc'].get('cls')
                ds.append({'cat': 'refused_effect', 'step': i, 'detail': problems})
            if ro.get('tmp_leak'):
                ds.append({'cat': 'tmp_leak', 'step': i, 'detail': ro['tmp_leak']})
            break
        if not so.get('obl'):
            impl_compare(case, i, st, ro, so, ds, all_contents)
        if kind == 'mut':
            stats['muts'] += 1
            if so.get('impl') is not None:
                a = tree_view(ro['tree'], cache, set()); b = tree_view(so['impl']['tree'], cache, set())
            else:
                a = tree_view(ro['tree'], cache, targets); b = tree_view(so['tree'], cache, targets)
            if a != b and not ds:
                raise core.HarnessError('external mutation applied differently on the two sides: %s %s'
                                        % (st, tree_diff(a, b)))
            last_commit = None
            before = ro['tree']
            rec = so.get('rec')
            continue
        if so.get('obl'):
            stats['obl_cut'] += 1
            break
        old_created = set(rec['created']) if rec else set()
        old_outputs = set(rec['outputs']) if rec else set()
        if kind == 'build':
            stats['builds'] += 1
            stats['real_inv'] += len(ro['inv']); stats['spec_inv'] += len(so['inv'])
            if not no_spec and not res_equal(ro['res'], so['res']):
                ds.append({'cat': 'res', 'step': i, 'detail': {'real': ro['res'], 'spec': so['res']}})
            a = tree_view(ro['tree'], cache, targets); b = tree_view(so['tree'], cache, targets)
            if a != b and not no_spec:
                d = tree_diff(a, b)
                if 'exc' in ro['res']:
                    # latitude of C02: old created directories may (or may not) reappear empty
                    for p in list(d):
                        if p in old_created and set(x for x in d[p] if x is not None) == {('dir',)} and not any(
                                q.startswith(p + '/') and v != ('dir',) for t in (a, b) for q, v in t.items()):
                            del d[p]
                if d:
                    ds.append({'cat': 'tree', 'step': i, 'detail': d})
            rk = [inv_key(x) for x in ro['inv']]; sk = [inv_key(x) for x in so['inv']]
            extra = multiset_minus(rk, sk)
            if extra and not no_spec:
                ds.append({'cat': 'inv_extra', 'step': i, 'detail': extra[:5]})
            stats['hits'] += max(0, len(sk) - len(rk))
            if ro.get('contract'):
                ds.append({'cat': 'contract', 'step': i, 'detail': ro['contract'][:3]})
            if ro.get('tmp_leak'):
                ds.append({'cat': 'tmp_leak', 'step': i, 'detail': ro['tmp_leak']})
            if ro.get('cache_early'):
                ds.append({'cat': 'cache_early', 'step': i, 'detail': ro['cache_early'][:2]})
            failed = 'exc' in ro['res']
            if failed:
                stats['failing_builds'] += 1
                e = ro['res']['exc']
                if e['cls'] == 'UserExc' and e.get('same_object') is False:
                    ds.append({'cat': 'exc_identity', 'step': i, 'detail': e})
                stats['rollback_checked'] += 1
                d = rollback_diff(before, ro['tree'], old_created)
                if d:
                    ds.append({'cat': 'rollback', 'step': i, 'detail': d})
            else:
                stats['commits'] += 1
                # C05: "... since a committed build that did not itself overwrite foreign files at its
                # target paths": then a recorded existence answer legitimately changes
                if last_commit is not None and last_commit.get('overwrote_foreign'):
                    last_commit = None
                # a path that is a directory for one call and a file for another call of the same build
                # (one of them failing) forces the library to move an output aside: not an unchanged rebuild
                tt = sorted(trace_targets(so.get('trace', [])))
                if any(b.startswith(a + '/') for a in tt for b in tt):
                    last_commit = None
                if (last_commit is not None and json.dumps(last_commit['spec']['trace'], sort_keys=True) ==
                        json.dumps(so['trace'], sort_keys=True) and last_commit['spec']['res'] == so['res']
                        and canon_versions(last_commit['versions']) == canon_versions(st[2])):
                    stats['unchanged_rebuilds'] += 1
                    just = justified_unchanged(so['trace'])
                    unj = multiset_minus(rk, just)
                    if unj:
                        # outputs that justified re-executions have just rewritten: their readers are justified too
                        rewritten_targets = [json.loads(k)[1] for k in rk if k in just and json.loads(k)[1] is not None]
                        if rewritten_targets:
                            unj = [k for k in unj if not reads_rebuilt_output(case, json.loads(k)[0], rewritten_targets)]
                    if unj:
                        ds.append({'cat': 'unjustified', 'step': i, 'detail': unj[:5]})
                    else:
                        bmap = {n[0]: n for n in before if n[1] == 'file'}
                        reexec_targets = set(json.loads(k)[1] for k in rk)
                        rewritten = [n[0] for n in ro['tree']
                                     if n[1] == 'file' and n[0] in old_outputs and n[0] in bmap
                                     and n[0] not in reexec_targets and bmap[n[0]][3:5] != n[3:5]]
                        if rewritten:
                            ds.append({'cat': 'rewritten', 'step': i, 'detail': rewritten})
                # C06: a changed version re-executes the function and all its transitive callers
                if committed_versions is not None:
                    names = changed_version_names(committed_versions, st[2])
                    if names:
                        stats['version_changes'] = stats.get('version_changes', 0) + 1
                        missing = multiset_minus(must_reexecute(so.get('trace', []), names), rk)
                        if missing:
                            ds.append({'cat': 'version_not_reexecuted', 'step': i, 'detail': {'changed': sorted(names), 'missing': missing[:5]}})
                committed_versions = st[2]
                bfiles = set(n[0] for n in before if n[1] == 'file')
                last_commit = {'spec': so, 'versions': st[2],
                               'overwrote_foreign': bool((trace_targets(so.get('trace', [])) & bfiles) - old_outputs)}
            managed = {cache} | old_outputs | trace_targets(so.get('trace', []))
        elif kind == 'clean':
            stats['cleans'] += 1
            if not res_equal(ro['res'], so['res']):
                ds.append({'cat': 'clean_res', 'step': i, 'detail': {'real': ro['res'], 'spec': so['res']}})
            a = tree_view(ro['tree'], cache, targets); b = tree_view(so['tree'], cache, targets)
            if a != b:
                ds.append({'cat': 'clean_tree', 'step': i, 'detail': tree_diff(a, b)})
            last_commit = None
            if 'ok' in ro['res'] and rec is not None:
                committed_versions = None
            managed = {cache} | old_outputs
            failed = False
        # C15: a call the model refuses (unreadable / foreign / misnamed cache, cache path a directory)
        # raises before changing anything: bit-identical tree, no user function called
        sres = so.get('res', {})
        if 'exc' in sres and (sres['exc'].get('why') in ('corrupt', 'nameMismatch') or
                              (sres['exc'].get('cls') == 'IsADirectoryError' and not so.get('inv') and not so.get('trace'))):
            stats['refused'] += 1
            problems = {}
            if 'exc' not in ro['res']:
                problems['did_not_raise'] = ro['res']
            if ro['tree'] != before:
                problems['tree'] = [x for x in ro['tree'] if x not in before][:3] + [x for x in before if x not in ro['tree']][:3]
            if ro.get('inv'):
                problems['called'] = ro['inv'][:3]
            if problems:
                ds.append({'cat': 'refused_effect', 'step': i, 'detail': problems})
        # C03: files outside the managed set keep bytes/mtime/inode; directories that no build
        # recorded as created survive (a rolled-back build is covered in full by rollback_diff)
        stats['foreign_checked'] += 1
        f = foreign_diff(before, ro['tree'], managed, old_created)
        if f:
            ds.append({'cat': 'foreign', 'step': i, 'detail': f})
        before = ro['tree']
        rec = so.get('rec')
    return ds, stats


def rollback_diff(before, after, old_created_dirs):
    """C02: every regular file back (bytes, mtime, inode, cache file included); nothing new remains,
    except that directories recorded as created by the previous committed build may reappear empty."""
    b = {n[0]: n for n in before}; a = {n[0]: n for n in after}
    out = {}
    for p in sorted(set(a) | set(b)):
        if b.get(p) == a.get(p):
            continue
        if p not in b and a[p][1] == 'dir' and p in old_created_dirs and not any(
                q.startswith(p + '/') and a[q][1] != 'dir' for q in a):
            continue
        out[p] = [b.get(p), a.get(p)]
    return out


def foreign_diff(before, after, managed, old_created):
    """C03: files outside the managed set keep bytes/mtime/inode; unrecorded dirs survive"""
    b = {n[0]: n for n in before}; a = {n[0]: n for n in after}
    out = {}
    for p, n in b.items():
        if n[1] == 'file' and p not in managed:
            if a.get(p) != n:
                out[p] = [n, a.get(p)]
        elif n[1] == 'dir' and p not in old_created:
            if p not in a or a[p][1] != 'dir':
                out[p] = [n, a.get(p)]
    return out


def run_batch(cases, procs=None):
    """-> list of (case, real, spec) ; raises HarnessError if either side broke"""
    specs = model.run_cases(cases)
    reals = core.pmap(real_worker, cases, procs)
    out = []
    for c, r, s in zip(cases, reals, specs):
        if 'harness_error' in r:
            raise core.HarnessError('real run crashed in the harness:\n' + r['harness_error'])
        out.append((c, r, s))
    return out
