"""Seeded generators: programs (DSL), initial trees, histories."""
import random

NAMES = ['a', 'b', 'c']


def all_paths(depth=3, names=NAMES):
    out = []

    def rec(p, d):
        if d == 0:
            return
        for n in names:
            q = p + [n]
            out.append('/'.join(q))
            rec(q, d - 1)
    rec([], depth)
    return out


def rename_components(case, mapping):
    """the same case with path components renamed (e.g. b -> ab: sibling names one of which is a string prefix of the
    other - `out/a` versus `out/ab` - which code that compares paths as strings gets wrong)"""
    import copy
    import json as _json
    # a case that already uses one of the new names would get two paths merged: leave it alone
    text = _json.dumps(case)
    if any(('/%s' % v) in text or ('"%s' % v) in text for v in mapping.values()):
        return case
    c = copy.deepcopy(case)

    def rp(p):
        if not isinstance(p, str) or p == '':
            return p
        return '/'.join(mapping.get(x, x) for x in p.split('/'))

    def stmts(ss):
        for st in ss:
            if not isinstance(st, list) or not st:
                continue
            if st[0] == 'bf':
                st[1] = rp(st[1])
            elif st[0] == 'q':
                st[2] = rp(st[2])
            elif st[0] == 'if':
                stmts(st[2]); stmts(st[3])
    for n in c.get('tree', []):
        n[0] = rp(n[0])
    for f in c.get('funcs', []):
        stmts(f.get('stmts', []))
    for st in c.get('steps', []):
        if st and st[0] == 'mut':
            st[2] = rp(st[2])
    if 'cache' in c:
        c['cache'] = rp(c['cache'])
    c['renamed'] = mapping
    return c


PATHS = all_paths(3)
PATHS2 = all_paths(2)
QUERY_KINDS = ['is_file', 'is_dir', 'exists', 'list_dir', 'walk', 'get_size', 'read']

DEFAULT_PROFILE = {
    'paths': PATHS, 'qpaths': PATHS + [''],
    'max_funcs': 6, 'max_stmts': 4,
    'p_q': 0.42, 'p_bf': 0.25, 'p_sb': 0.18, 'p_raise': 0.04, 'p_if': 0.08,
    'p_catch': 0.6, 'p_hash': 0.3,
    'write_modes': ['last', 'last', 'last', 'last', 'first', 'none', 'fail_after', 'const'],
    'rets': ['acc', 'acc', 'acc', 'acc', 'const', 'nonjson'],
    'args': [0, 0, 1, 1, 'x', [1, 2], {'k': 1}, None, True, 1.0],
    'kws': [{}, {}, {}, {'k': 1}, {'k': True}, {'k': 1.0}, {'opt': [1, 2], 'n': None}, {'k': {'a': [0]}}],
}


def enc_simple(v):
    from . import wire
    return wire.enc(v)


def _arg(rng, prof):
    if rng.random() < prof.get('p_pool', 0.0):
        return pool_value(rng)
    return rng.choice(prof['args'])


def _kw(rng, prof):
    if rng.random() < prof.get('p_pool', 0.0):
        return {k: pool_value(rng, 1) for k in rng.sample(['k', 'opt', 'n'], rng.randint(1, 2))}
    return rng.choice(prof.get('kws', [{}]))


def gen_query(rng, prof):
    kind = rng.choice(QUERY_KINDS)
    path = rng.choice(prof['qpaths'])
    extra = None
    if kind == 'walk':
        extra = rng.random() < 0.7
    elif kind == 'read':
        extra = 'H' if rng.random() < prof['p_hash'] else 'M'
    return ['q', kind, path, extra]


def gen_cond(rng):
    c = rng.random()
    if c < 0.35:
        return ['err']
    if c < 0.65:
        return ['true']
    if c < 0.85:
        return ['nonempty']
    return ['eq', enc_simple(rng.choice([False, [], 0, 'i1']))]


def gen_stmts(rng, prof, idx, nfuncs, n, depth=0):
    stmts = []
    for _ in range(n):
        c = rng.random()
        t = prof['p_q']
        if c < t:
            stmts.append(gen_query(rng, prof))
            continue
        t += prof['p_bf']
        if c < t:
            if idx + 1 < nfuncs:
                stmts.append(['bf', rng.choice(prof['paths']), 'H' if rng.random() < prof['p_hash'] else 'M',
                              rng.randrange(idx + 1, nfuncs), enc_simple(_arg(rng, prof)),
                              enc_simple(_kw(rng, prof)), rng.random() < prof['p_catch']])
            continue
        t += prof['p_sb']
        if c < t:
            if idx + 1 < nfuncs:
                stmts.append(['sb', rng.randrange(idx + 1, nfuncs), enc_simple(_arg(rng, prof)),
                              enc_simple(_kw(rng, prof)), rng.random() < prof['p_catch']])
            continue
        t += prof['p_raise']
        if c < t:
            stmts.append(['raise', rng.randrange(1, 50)])
            continue
        t += prof['p_if']
        if c < t and depth < 2 and stmts:
            stmts.append(['if', gen_cond(rng),
                          gen_stmts(rng, prof, idx, nfuncs, rng.randint(0, 2), depth + 1),
                          gen_stmts(rng, prof, idx, nfuncs, rng.randint(0, 2), depth + 1)])
            continue
    return stmts


def gen_func(rng, prof, idx, nfuncs):
    stmts = gen_stmts(rng, prof, idx, nfuncs, rng.randint(0, prof['max_stmts']))
    if idx > 0:
        wm = rng.choice(prof['write_modes'])
        if wm == 'last':
            stmts.append(['w', None])
        elif wm == 'first':
            stmts.insert(0, ['w', None])
        elif wm == 'const':
            stmts.append(['w', 'k%d' % rng.randint(0, 3)])
        elif wm == 'fail_after':
            stmts.append(['w', None])
            stmts.append(['raise', 50 + idx])
    r = rng.choice(prof['rets'])
    if r == 'const':
        r = {'const': enc_simple(pool_value(rng) if rng.random() < 0.3 else rng.choice([0, 'r', [1, [2]], {'a': None}, 2.5, None, {0: 'x', 1: 'y'}, {1.0: 'x', True: 'y'}, {-0.0: 1, None: 2}, (1, {2: [3]})]))}
    if idx == 0:
        r = 'acc'
    return {'name': 'f%d' % idx, 'stmts': stmts, 'ret': r}


def gen_prog(rng, prof=DEFAULT_PROFILE):
    n = rng.randint(2, prof['max_funcs'])
    funcs = [gen_func(rng, prof, i, n) for i in range(n)]
    # failing variant of the root: same body, then raise
    funcs.append({'name': 'rootfail', 'stmts': funcs[0]['stmts'] + [['raise', 99]], 'ret': 'acc'})
    return funcs


def gen_tree(rng, prof=DEFAULT_PROFILE):
    tree = {}
    for i in range(rng.randint(0, 5)):
        p = rng.choice(prof['paths'])
        comps = p.split('/')
        ok = True
        for k in range(1, len(comps)):
            anc = '/'.join(comps[:k])
            if tree.get(anc, ['', 'dir'])[1] != 'dir':
                ok = False
        if not ok or p in tree:
            continue
        for k in range(1, len(comps)):
            anc = '/'.join(comps[:k])
            tree[anc] = [anc, 'dir']
        if rng.random() < 0.25:
            tree[p] = [p, 'dir']
        else:
            tree[p] = [p, 'file', 'i%d' % rng.randint(0, 9), 100 + i]
    return list(tree.values())


MUT_KINDS = ['write', 'write', 'write', 'write', 'delete', 'delete', 'delete', 'rmtree', 'rmtree', 'mkdir', 'mkdir', 'touch', 'touch', 'todir']


def gen_mut(rng, prof, tcounter, kinds=MUT_KINDS, paths=None):
    kind = rng.choice(kinds)
    p = rng.choice(paths or prof['paths'])
    t = tcounter[0]
    tcounter[0] += 1
    data = 'm%d' % rng.randint(0, 9) if kind == 'write' else None
    return ['mut', kind, p, data, t if kind in ('write', 'touch') else None]


def gen_history(rng, prof=DEFAULT_PROFILE, nfuncs=None, min_builds=2, max_builds=5, p_clean=0.1,
                p_fail=0.2, mut_kinds=MUT_KINDS, versions_pool=None):
    steps = []
    tc = [5000]
    for _ in range(rng.randint(0, 2)):
        steps.append(gen_mut(rng, prof, tc, mut_kinds))
    versions = {}
    for _ in range(rng.randint(min_builds, max_builds)):
        if rng.random() < p_clean:
            steps.append(['clean', rng.choice(['n', 'n', None])])
        else:
            fail = rng.random() < p_fail
            if versions_pool and rng.random() < 0.4:
                fn = 'f%d' % rng.randrange(0, nfuncs)
                versions = dict(versions)
                versions[fn] = rng.choice(versions_pool)
            steps.append(['build', 'n', enc_simple(versions), (nfuncs if fail else 0), enc_simple(0)])
        for _ in range(rng.randint(0, 2)):
            steps.append(gen_mut(rng, prof, tc, mut_kinds))
    return steps


def gen_case(seed, prof=DEFAULT_PROFILE, dirsize=4096, **hist_kw):
    rng = random.Random(seed)
    funcs = gen_prog(rng, prof)
    nfuncs = len(funcs) - 1
    return {'kind': 'hist', 'seed': seed, 'dirsize': dirsize, 'cache': 'cache.gz',
            'tree': gen_tree(rng, prof), 'funcs': funcs,
            'steps': gen_history(rng, prof, nfuncs=nfuncs, **hist_kw)}


# ---------------------------------------------------------------------------------------------
# Scenario families: small hand-shaped programs around the mechanisms the properties name, with
# random paths / modes.  They run before the purely random cases in every history check.
# ---------------------------------------------------------------------------------------------
E = None


def _e(v):
    return enc_simple(v)


def _fn(name, stmts, ret='acc'):
    return {'name': name, 'stmts': stmts, 'ret': ret}


def _bf(path, callee, arg=0, catch=True, cmp_='M', kw=None, extra=None):
    return ['bf', path, cmp_, callee, _e(arg), _e(kw or {}), catch] + ([[_e(x) for x in extra]] if extra else [])


def _sb(callee, arg=0, catch=True, kw=None, extra=None):
    return ['sb', callee, _e(arg), _e(kw or {}), catch] + ([[_e(x) for x in extra]] if extra else [])


def _q(kind, path, extra=None):
    if kind == 'walk' and extra is None:
        extra = True
    if kind == 'read' and extra is None:
        extra = 'M'
    return ['q', kind, path, extra]


def _build(versions=None, root=0, arg=0, name='n'):
    return ['build', name, _e(versions or {}), root, _e(arg)]


def _probe(rng, paths, k=3):
    out = []
    for p in rng.sample(paths, min(k, len(paths))):
        kind = rng.choice(['is_file', 'is_dir', 'exists', 'list_dir', 'walk', 'get_size', 'read'])
        # both orders of walk, both comparison modes of a read
        out.append(_q(kind, p, (rng.random() < 0.6) if kind == 'walk' else (rng.choice('MMH') if kind == 'read' else None)))
    return out


def scen_nested_failure(rng):
    """a caught failing call whose function first built a nested file successfully into new directories"""
    d1, d2 = rng.sample(NAMES, 2)
    deep = rng.random() < 0.5
    y = '%s/%s/y' % (d1, d2) if deep else '%s/y' % d1
    x = '%s/x' % d1 if rng.random() < 0.6 else '%s/x' % d2
    outer_is_bf = rng.random() < 0.5
    fail = rng.choice(['raise', 'nowrite', 'nonjson', 'none'])
    body = [_bf(y, 3, catch=rng.random() < 0.8, cmp_=rng.choice('MH'))] + _probe(rng, [d1, '%s/%s' % (d1, d2), y, x, ''], 2)
    if fail == 'raise':
        body.append(['w', None]); body.append(['raise', 7])
    elif fail == 'nowrite':
        pass
    else:
        body.append(['w', None])
    funcs = [
        _fn('f0', _probe(rng, [d1, y, x, ''], 1) + [(_bf(x, 2) if outer_is_bf else _sb(1))] + _probe(rng, [d1, d2, y, x, '', '%s/%s' % (d1, d2)], 3)),
        _fn('f1', [_bf(x, 2, catch=rng.random() < 0.7)] + _probe(rng, [d1, y, x], 1)),
        _fn('f2', body, 'nonjson' if fail == 'nonjson' else 'acc'),
        _fn('f3', [['w', None]] if rng.random() < 0.85 else []),
    ]
    if rng.random() < 0.5:
        # the observations that follow the call are made inside a sibling subbuild: its record is replayed against
        # the reservations of the reused subtree
        funcs.append(_fn('f4', _probe(rng, [d1, d2, y, x, '', '%s/%s' % (d1, d2)], 3)))
        funcs[0]['stmts'] = funcs[0]['stmts'][:2] + [_sb(4, catch=True)]
    funcs.append(_fn('rootfail', funcs[0]['stmts'] + [['raise', 99]]))
    steps = [_build(), _build()]
    tail = rng.choice(['clean', 'mut', 'fail', 'empty'])
    if tail == 'mut':
        steps += [['mut', rng.choice(['delete', 'touch', 'write', 'rmtree']), rng.choice([y, x, d1]), 'm1', 6000 + rng.randint(1, 99)], _build()]
    elif tail == 'fail':
        steps += [_build(root=len(funcs) - 1), _build()]
    steps += [['clean', 'n']] if rng.random() < 0.6 else []
    return {'tree': [], 'funcs': funcs, 'steps': steps}


def scen_swap(rng):
    """a path that is a directory of outputs in one build and an output file in the next (and back)"""
    d = rng.choice(NAMES)
    sub = '%s/%s' % (d, rng.choice(NAMES))
    inner = sub + '/' + rng.choice(NAMES)
    foreign = rng.random() < 0.3
    # ... and outputs further down, in sub-directories the build made as well (making room has to descend)
    deeper = [_bf('%s/%s/%s' % (sub, m, rng.choice(['k', 'j/k'])), 1, catch=False) for m in rng.sample(['m', 'ab', 'zz'], rng.choice([0, 1, 1, 2]))
              if '%s/%s' % (sub, m) != inner]
    funcs = [
        _fn('f0', [['if', ['arg', _e(0)], [_bf(inner, 1, catch=False, cmp_=rng.choice('MH'))] + deeper, [_bf(sub, 1, arg=1, catch=rng.random() < 0.5)]]]
            + _probe(rng, [d, sub, inner, ''], 3)),
        _fn('f1', _probe(rng, [d, sub], 1) + [['w', None]]),
        # a build that makes nothing and only looks: what the swap left behind must not be visible
        _fn('f2', _probe(rng, [d, sub, inner, ''], 4)),
    ]
    funcs.append(_fn('rootfail', funcs[0]['stmts'] + [['raise', 99]]))
    steps = [_build(arg=0)]
    if foreign:
        steps.append(['mut', 'write', sub + '/zz', 'm3', 6001])
    steps += [_build(arg=1, root=rng.choice([0, 0, 3]))]
    if rng.random() < 0.5:
        steps.append(_build(root=2))
    steps += [_build(arg=1), _build(arg=0), _build(arg=0)]
    if rng.random() < 0.4:
        steps.append(_build(root=2))
    if rng.random() < 0.5:
        steps.append(['clean', 'n'])
    return {'tree': [], 'funcs': funcs, 'steps': steps}


def scen_stale_dir(rng):
    """directories created by an earlier build that now hold foreign content or nothing"""
    d = rng.choice(NAMES)
    sub = '%s/%s' % (d, rng.choice(NAMES))
    out = sub + '/o'
    funcs = [
        _fn('f0', [['if', ['arg', _e(0)], [_bf(out, 1, catch=False)], []]] + _probe(rng, [d, sub, out, sub + '/zz', ''], 4)
            + [_sb(2)]),
        _fn('f1', [['w', None]]),
        _fn('f2', _probe(rng, [d, sub, out, ''], 3)),
    ]
    funcs.append(_fn('rootfail', funcs[0]['stmts'] + [['raise', 99]]))
    steps = [_build(arg=0)]
    m = rng.choice(['foreign', 'none', 'deleteout', 'rmtree'])
    if m == 'foreign':
        steps.append(['mut', 'write', sub + '/zz', 'm4', 6002])
    elif m == 'deleteout':
        steps.append(['mut', 'delete', out, None, None])
    elif m == 'rmtree':
        steps.append(['mut', 'rmtree', d, None, None])
    steps += [_build(arg=1, root=rng.choice([0, 0, 3])), _build(arg=1), _build(arg=0)]
    if rng.random() < 0.5:
        steps.append(['clean', rng.choice(['n', None])])
    return {'tree': [], 'funcs': funcs, 'steps': steps}


def scen_dups(rng):
    """a second call with the same key: same level, nested, inside a reused subtree, first one failed"""
    p = rng.choice(PATHS2)
    first_fails = rng.random() < 0.4
    use_bf = rng.random() < 0.5
    kwa, kwb = rng.choice([({}, {}), ({'k': 1}, {'k': 1.0}), ({'k': [1, {'a': 2}]}, {'k': (1, {'a': 2.0})}), ({'a': 1, 'b': 2}, {'b': 2, 'a': 1})])
    call = (lambda catch: _bf(p, 2, catch=catch, kw=kwa)) if use_bf else (lambda catch: _sb(2, arg=[1, 2.0], catch=catch, kw=kwa))
    call2 = (lambda catch: _bf(p, 2, catch=catch, kw=kwb)) if use_bf else (lambda catch: _sb(2, arg=(1.0, 2), catch=catch, kw=kwb))
    where = rng.choice(['same', 'nested', 'cached'])
    if where == 'same':
        root = [call(True), call2(True)]
        f1 = []
    elif where == 'nested':
        root = [_sb(1), call2(True)] if rng.random() < 0.5 else [call(True), _sb(1)]
        f1 = [call(True)]
    else:
        root = [['if', ['arg', _e(0)], [_sb(1)], [call2(True), _sb(1)]]]
        f1 = [call(True)]
    funcs = [_fn('f0', root + _probe(rng, [p, ''], 1)), _fn('f1', f1 + _probe(rng, [p], 1)),
             _fn('f2', ([['raise', 5]] if first_fails else []) + [['w', None]], rng.choice(['acc', {'const': _e([1, {'a': 2.5}])}]))]
    funcs.append(_fn('rootfail', funcs[0]['stmts'] + [['raise', 99]]))
    steps = [_build(arg=0), _build(arg=rng.choice([0, 1])), _build(arg=rng.choice([0, 1]))]
    return {'tree': [], 'funcs': funcs, 'steps': steps}


VERSION_POOL = [None, 0, 1, 1.0, True, '1', [1], {'a': 1, 'b': 2}, {'b': 2, 'a': 1}, {'a': 1}, 2, False, 0.0, '', [], {},
                # maps of the same size with different keys, one of them null-valued; nested; null in a list
                {'opt': None, 'level': 1}, {'level': 1, 'mode': 'fast'}, {'level': 1, 'mode': None}, {'k': {'a': None}}, {'k': {'b': None}},
                [None], [None, None], {'a': None}, {'b': None},
                # keys that are not strings (stringified by the sanitiser: the recorded version must be the sanitised one), tuples
                {1: 'a'}, {'1': 'a'}, {'k': {2023: 'a', None: 1}}, (1, 2), {True: 0}, {'k': (1, [2, (3,)])}]


VERSION_PAIRS = [(True, 1.0), (False, 0.0), ([False], [-0.0]), ({'k': True}, {'k': 1.0}), ({1.0: 'a'}, {'1.0': 'a'}), ({1.0: 'a'}, {1: 'a'}),
                 ({1: 'a'}, {'1': 'a'}), ({'k': {2: 'x'}}, {'k': {'2': 'x'}}), ({None: 1}, {'null': 1}), ({'k': (1, 2)}, {'k': [1, 2]}), ({2023: 'a'}, {2023: 'a'}),
                 ({'opt': None, 'level': 1}, {'level': 1, 'mode': 'fast'}), ({'a': None}, {'b': None}), ({'a': None}, {}), ({'a': None}, None),
                 ({'k': {'a': None}}, {'k': {'b': None}}), ([None], []), ([None], [None, None]), (0, None), (0, False), ('', None), ([], None), ({}, None),
                 (0.0, 0), (1, 1.0), (1, True), ({'a': 1, 'b': 2}, {'b': 2, 'a': 1}), ([1, 2], (1, 2)), ({'a': [1, 2.0]}, {'a': [1.0, 2]}), ('1', 1),
                 (10 ** 18, 10 ** 18 + 1), (2 ** 53, 2 ** 53 + 1), (0.1 + 0.2, 0.3)]


def scen_versions(rng):
    """version changes for a function at some depth of a call graph, and JSON-equal non-changes"""
    p1, p2 = rng.sample(PATHS2, 2)
    funcs = [
        _fn('f0', [_sb(1), _sb(4), _bf(p2, 5, catch=True)]),
        _fn('f1', [_sb(2, catch=rng.random() < 0.5)] + _probe(rng, [p1, p2], 1)),
        _fn('f2', [_bf(p1, 3, catch=rng.random() < 0.7)]),
        _fn('f3', ([['raise', 3]] if rng.random() < 0.25 else []) + [['w', None]]),
        _fn('f4', _probe(rng, [p1, p2, ''], 2)),
        _fn('f5', [['w', None]]),
    ]
    funcs.append(_fn('rootfail', funcs[0]['stmts'] + [['raise', 99]]))
    names = ['f1', 'f2', 'f3', 'f4', 'f5', 'other']
    if rng.random() < 0.4:
        # user functions may be called what the library calls its own queries
        alias = dict(zip(['f1', 'f2', 'f3', 'f4', 'f5'], rng.sample(['read', 'list_dir', 'walk', 'exists', 'is_file', 'is_dir', 'get_size'], 5)))
        for f in funcs:
            f['name'] = alias.get(f['name'], f['name'])
        names = [alias.get(n, n) for n in names]
    v = {}
    steps = []
    for _ in range(rng.randint(3, 5)):
        if rng.random() < 0.3:
            # a version followed by one that is almost - or in fact - JSON-equal to it
            a, b = rng.choice(VERSION_PAIRS)
            if rng.random() < 0.4:
                a = pool_value(rng)
                b = twin(rng, a)
            if rng.random() < 0.5:
                a, b = b, a
            n = rng.choice(names)
            v = dict(v)
            v[n] = a
            steps.append(_build(versions=v))
            v = dict(v)
            v[n] = b
        elif rng.random() < 0.7:
            v = dict(v)
            n = rng.choice(names)
            if rng.random() < 0.2 and n in v:
                del v[n]
            else:
                v[n] = rng.choice(VERSION_POOL)
        steps.append(_build(versions=v))
    return {'tree': [], 'funcs': funcs, 'steps': steps}


def scen_reads(rng, modes=None, samemeta=False):
    """inputs and outputs read with HASH / METADATA, changed or merely touched between builds"""
    inp = rng.choice(PATHS2)
    out = rng.choice([p for p in PATHS2 if p != inp and not p.startswith(inp + '/') and not inp.startswith(p + '/')])
    c1, c2, c3 = (rng.choice(modes or 'MH') for _ in range(3))
    nested = rng.random() < 0.5
    funcs = [
        _fn('f0', [_sb(5)] if nested else [_sb(1), _bf(out, 2, cmp_=c2), _sb(3)]),
        _fn('f1', [_q('read', inp, c1)]),
        _fn('f2', [_q('read', inp, c1), ['w', None]]),
        _fn('f3', [_q('read', out, c3)] + _probe(rng, [out, inp], 1)),
        _fn('rootfail', []),
        _fn('f5', [_sb(1), _bf(out, 2, cmp_=c2), _sb(3)]),
    ]
    funcs[4] = _fn('rootfail', funcs[0]['stmts'] + [['raise', 99]])
    # half of the cases use present-day timestamps a few nanoseconds apart: mtime_ns must be compared exactly
    # (a float of seconds cannot tell them apart)
    base = EPOCH_NS if rng.random() < 0.5 else 0
    tree = [[inp, 'file', 'i%d' % rng.randint(0, 9), base + 150]]
    steps = [_build()]
    kinds = ['write', 'touch', 'delete'] + (['samemeta', 'samemeta', 'touch'] if samemeta else [])
    used_samemeta = False
    for i in range(rng.randint(1, 3)):
        k = rng.choice(kinds)
        used_samemeta = used_samemeta or k == 'samemeta'
        # every external write/touch gets a fresh modification time: only `samemeta` keeps one
        steps.append(['mut', k, rng.choice([inp, out]), 'm%d' % rng.randint(0, 9),
                      base + (151 + 3 * i + rng.randint(0, 2) if base else 7000 + 10 * i + rng.randint(0, 9))])
        steps.append(_build(root=rng.choice([0, 0, 0, 4])))
    steps.append(_build())
    c = {'tree': tree, 'funcs': funcs, 'steps': steps}
    if used_samemeta and 'M' in (c1, c2, c3):
        # METADATA cannot see a change that keeps size and mtime (by design): the from-scratch
        # reference does not apply, only the model of the comparison modes does
        c['no_spec'] = True
    return c


EPOCH_NS = 1790000000 * 10 ** 9      # a modification time of today, in nanoseconds



# ---------------------------------------------------------------------------------------------
# a value and a "twin": the same value with a few atoms / keys / container kinds exchanged for ones that are JSON-equal
# to them, or that a careless comparison would take for equal (1, 1.0, True; 0, -0.0, False, None; keys 1, '1', 1.0 ...)
_BIG = 2 ** 63
ATOM_TWINS = [   # (atom, what to exchange it for) - a list, not a dict: 1, 1.0 and True are one dict key
    (1, [1.0, True, '1', 2]), (1.0, [1, True, '1.0']), (True, [1, 1.0, 'true']), (0, [0.0, -0.0, False, None]), (False, [0, 0.0, -0.0, None]),
    (None, [0, '', False, 'null']), ('', [None, 0, ' ']), ('a', ['b', 'A']), (2, [2.0, 3]), (-0.0, [0, 0.0, False]), ('0', [0, 'O']),
    (_BIG, [float(_BIG), _BIG + 1]), (0.5, [0.25 + 0.25, 1]), ('é', ['e\u0301', 'e']),
]
KEY_TWINS = [(1, ['1', 1.0, True]), ('1', [1, 1.0]), (0, ['0', False, 0.0, -0.0]), (True, ['true', 1]), (None, ['null', '']), (1.0, ['1.0', 1, '1']),
             (0.5, ['0.5']), ('a', ['b']), ('', [None]), ('0', [0]), ('b', ['a']), (_BIG, [str(_BIG)]), (False, ['false', 0]), (-0.0, ['-0.0', 0])]


def _same_atom(a, v):
    return type(a) is type(v) and repr(a) == repr(v)


def _twins_of(table, v):
    for a, tw in table:
        if _same_atom(a, v):
            return tw
    return []


POOL_ATOMS = [None, False, True, 0, 1, 2, 1.0, -0.0, 0.5, '', '0', 'a', 'é', _BIG]
POOL_KEYS = ['', '0', 'a', 'b', 1, 0, True, False, None, 1.0, 0.5, -0.0, _BIG]


def pool_value(rng, depth=0):
    c = rng.random()
    if depth > 2 or c < 0.35:
        return rng.choice(POOL_ATOMS)
    if c < 0.55:
        return [pool_value(rng, depth + 1) for _ in range(rng.randint(0, 3))]
    if c < 0.65:
        return tuple(pool_value(rng, depth + 1) for _ in range(rng.randint(0, 2)))
    d = {}
    for _ in range(rng.randint(0, 3)):
        d[rng.choice(POOL_KEYS)] = pool_value(rng, depth + 1)
    return d


def twin(rng, v, p=0.45):
    """a value like `v` with some atoms, keys or container kinds exchanged"""
    if isinstance(v, dict):
        out = {}
        for k, x in v.items():
            cands = _twins_of(KEY_TWINS, k)
            k2 = rng.choice(cands) if cands and rng.random() < p else k
            if k2 in out:             # Python equality of keys (1 == 1.0 == True): never lose an entry to the exchange
                k2 = k
            out[k2] = twin(rng, x, p)
        if rng.random() < 0.1:
            out = dict(reversed(list(out.items())))       # key order never matters
        return out
    if isinstance(v, list):
        r = [twin(rng, x, p) for x in v]
        return tuple(r) if rng.random() < 0.25 else r
    if isinstance(v, tuple):
        r = [twin(rng, x, p) for x in v]
        return r if rng.random() < 0.5 else tuple(r)
    cands = _twins_of(ATOM_TWINS, v)
    if cands and rng.random() < p:
        return rng.choice(cands)
    return v


ARG_PAIRS = [  # (first build, second build, same JSON value?)
    # values whose Python hashes collide (hash(-1) == hash(-2), hash(0) == hash('')): a key is more than its hash
    (-1, -2, False), (0, '', False), ([0], [''], False), ({'k': -1}, {'k': -2}, False),
    # keys that collide once stringified: the LAST one wins (json.dumps writes both, json.loads keeps the last)
    ({8: 'a', '8': 'b'}, {'8': 'b'}, True), ({8: 'a', '8': 'b'}, {'8': 'a'}, False), ({'k': {None: 1, 'null': 2}}, {'k': {'null': 2}}, True),
    ({True: 1, 'true': 2}, {'true': 1}, False), ({'1.5': 'x', 1.5: 'y'}, {'1.5': 'y'}, True),
    # float keys are spelled by repr: 1.0 is '1.0', not '1'
    ({1.0: 'v'}, {'1.0': 'v'}, True), ({1.0: 'v'}, {1: 'v'}, False), ({-0.0: 'v'}, {'-0.0': 'v'}, True), ({1e22: 'v'}, {'1e+22': 'v'}, True),
    ({0: 'x', 1: 'y'}, {'0': 'x', '1': 'y'}, True), ({0: 'x'}, {False: 'x'}, False), (True, 1.0, False), ([False], [-0.0], False),
    (1, 1.0, True), (1, True, False), (0, False, False), ([1, 2], (1, 2), True), ([1, 2], [2, 1], False),
    ({'a': 1, 'b': 2}, {'b': 2, 'a': 1}, True), ({1: 'x'}, {'1': 'x'}, True), ({'a': 1}, {'a': 1, 'b': None}, False),
    (None, 0, False), ('1', 1, False), (2 ** 70, float(2 ** 70), True), (-0.0, 0, True), ([], {}, False), ([[]], [()], True),
    ({'k': True}, {'k': 1}, False), ({'k': [1.0]}, {'k': (1,)}, True), ('a', 'a', True), ([0], [], False),
    # same number of keys, different keys, null values (a `.get(key)` comparison would call these equal)
    ({'a': None}, {'b': 'x'}, False), ({'a': None}, {'b': None}, False), ({'a': None, 'c': 1}, {'b': 3, 'c': 1}, False),
    ({'': None}, {'0': False}, False), ({'b': 'x'}, {'a': None}, False), ([{'a': None}], [{'b': 2}], False),
]


def scen_identity(rng, index=None):
    """the same call in consecutive builds with arguments that are / are not the same JSON value, as
    positional argument or as keyword argument, for build_file and subbuild"""
    k = rng.randrange(10 ** 6) if index is None else index
    p = rng.choice(PATHS2)
    n = len(ARG_PAIRS)
    if k % 2 == 0:
        a, b, _same = ARG_PAIRS[(k // 10) % n]
    else:
        # a value of the shared pool and a twin of it: equal or almost equal - the model says which
        a = pool_value(rng)
        b = twin(rng, a)
    sel = (k // 2) % 5
    if sel < 4:
        mode = sel // 2                       # 0: keyword, 1: positional
        use_bf = sel % 2 == 0
    else:
        mode = 2                              # positional 'opt', v against keyword opt=v
        use_bf = (k // 10) % 2 == 0

    def call(v, first=True):
        if mode == 2:
            # never the same key: [0, 'opt', v] {} against [0] {'opt': v} - whatever a flattened key would say
            if first:
                return _bf(p, 1, arg=0, extra=['opt', v]) if use_bf else _sb(1, arg=0, extra=['opt', v])
            return _bf(p, 1, arg=0, kw={'opt': v}) if use_bf else _sb(1, arg=0, kw={'opt': v})
        if mode == 0:
            return _bf(p, 1, arg=0, kw={'opt': v}) if use_bf else _sb(1, arg=0, kw={'opt': v})
        return _bf(p, 1, arg=v) if use_bf else _sb(1, arg=v)
    funcs = [_fn('f0', [['if', ['arg', _e(0)], [call(a)], [call(b if mode != 2 else a, False)]]]),
             _fn('f1', [['w', None]], rng.choice(['acc', {'const': _e('r')}]))]
    funcs.append(_fn('rootfail', funcs[0]['stmts'] + [['raise', 99]]))
    steps = [_build(arg=0), _build(arg=1), _build(arg=1), _build(arg=0)]
    return {'tree': [], 'funcs': funcs, 'steps': steps}


def scen_stamped(rng):
    """an output whose function stamps a fixed modification time on it (and whose size rarely changes):
    a rebuild preserves size and mtime although the content changes"""
    inp = rng.choice(PATHS2)
    out = rng.choice([p for p in PATHS2 if p != inp and not p.startswith(inp + '/') and not inp.startswith(p + '/')])
    c_out, c_in, c_back = (rng.choice('HHM') for _ in range(3))
    stamp = 4242
    funcs = [
        _fn('f0', [_bf(out, 1, cmp_=c_out, catch=True), _sb(2, catch=True)]),
        _fn('f1', [_q('read', inp, c_in), ['w', None, stamp]]),
        _fn('f2', [_q('read', out, c_back)]),
    ]
    funcs.append(_fn('rootfail', funcs[0]['stmts'] + [['raise', 99]]))
    tree = [[inp, 'file', 'i%d' % rng.randint(0, 9), 150]]
    steps = [_build()]
    for i in range(rng.randint(1, 3)):
        k = rng.choice(['write', 'write', 'touch', 'tamper', 'none'])
        if k == 'tamper':
            steps.append(['mut', 'samemeta', out, None, None])
        elif k != 'none':
            steps.append(['mut', k, inp, 'm%d' % rng.randint(0, 9), 7100 + 10 * i])
        steps.append(_build(root=rng.choice([0, 0, 0, 3])))
    steps.append(_build())
    c = {'tree': tree, 'funcs': funcs, 'steps': steps}
    if 'M' in (c_out, c_back):
        c['no_spec'] = True
    return c


def scen_cache_subdir(rng):
    """the cache file lives in a directory the build has to create - its own, or one it shares with
    outputs.  (Directories that exist only to hold the cache file are not observed: no query looks at
    them or lists their parent.)"""
    d1, d2 = rng.sample(NAMES, 2)
    where = rng.choice(['own', 'own_deep', 'shared'])
    if where == 'own':
        cache = 'k/cache.gz'; out1 = '%s/x' % d1
    elif where == 'own_deep':
        cache = 'k/j/cache.gz'; out1 = '%s/x' % d1
    else:
        cache = '%s/cache.gz' % d1; out1 = '%s/x' % d1
    out2 = '%s/%s/y' % (d2, d1)
    # a build_file directly in the directory made for the cache file (or one level below it) that fails, caught: the
    # directory is the cache file's, whatever the failed call's bookkeeping thinks of it
    cdir = cache.rsplit('/', 1)[0]
    failing = [_bf('%s/%s' % (cdir, rng.choice(['bad', 'sub/bad'])), 2, catch=True)] if rng.random() < 0.5 else []
    funcs = [
        _fn('f0', [['if', ['arg', _e(0)], [_bf(out1, 1, catch=True), _bf(out2, 1, arg=1, catch=True)], [_bf(out2, 1, arg=1, catch=True)]]] + failing +
                  [_q('is_file', out2), _q('list_dir', d2)]),
        _fn('f1', [['w', None]]),
        _fn('f2', rng.choice([[['raise', 8]], [['w', None], ['raise', 8]], []])),
    ]
    funcs.append(_fn('rootfail', funcs[0]['stmts'] + [['raise', 99]]))
    steps = [_build(arg=0), _build(arg=rng.choice([0, 1])), _build(arg=0, root=rng.choice([0, 0, 3])), _build(arg=rng.choice([0, 1]))]
    steps.append(['clean', rng.choice(['n', None])])
    if rng.random() < 0.4:
        steps += [_build(arg=0), ['clean', 'n']]
    return {'tree': [], 'funcs': funcs, 'steps': steps, 'cache': cache}


LONG = 'L' * 300   # longer than NAME_MAX


def scen_longname(rng):
    """a target whose final or an intermediate component is longer than the file system allows: the
    mkdir resp. the function's own write fails with OSError; nothing may be left behind"""
    d1, d2 = rng.sample(NAMES, 2)
    where = rng.choice(['final', 'middle', 'first'])
    if where == 'final':
        target = '%s/%s/%s' % (d1, d2, LONG) if rng.random() < 0.6 else '%s/%s' % (d1, LONG)
    elif where == 'middle':
        target = '%s/%s/x' % (d1, LONG) if rng.random() < 0.5 else '%s/%s/%s/x' % (d1, d2, LONG)
    else:
        target = '%s/%s/x' % (LONG, d1)
    mode = rng.choice(['write', 'nowrite', 'raise'])
    body = {'write': [['w', None]], 'nowrite': [], 'raise': [['raise', 8]]}[mode]
    sibling = '%s/ok' % d1
    funcs = [
        _fn('f0', [_bf(target, 1, catch=True, cmp_=rng.choice('MH'))] + _probe(rng, [d1, '%s/%s' % (d1, d2), ''], 3)
            + [_bf(sibling, 2, catch=True)] + _probe(rng, [d1, sibling, ''], 2)),
        _fn('f1', _probe(rng, [d1, ''], 1) + body),
        _fn('f2', [['w', None]]),
    ]
    funcs.append(_fn('rootfail', funcs[0]['stmts'] + [['raise', 99]]))
    steps = [_build(), _build(root=rng.choice([0, 0, 3])), _build()]
    if rng.random() < 0.5:
        steps.append(['clean', 'n'])
    return {'tree': [], 'funcs': funcs, 'steps': steps}


def scen_foreign_swap(rng):
    """foreign files at the paths a build targets; inside ONE build the same name is first a (failing or
    succeeding) output file and then a directory of outputs; the build then commits or rolls back"""
    d = rng.choice(NAMES)
    P = '%s/%s' % (d, rng.choice(NAMES)) if rng.random() < 0.6 else d
    inner = P + '/' + rng.choice(NAMES)
    keep = '%s/keep' % d if P != d else 'keep'
    first = rng.choice(['raise', 'nowrite', 'ok', 'raise'])
    body = {'raise': [['w', None], ['raise', 5]], 'nowrite': [], 'ok': [['w', None]]}[first]
    tree = []
    if P != d:
        tree.append([d, 'dir'])
    if rng.random() < 0.85:
        tree.append([P, 'file', 'foreign', 111])
    tree.append([keep, 'file', 'k', 112])
    funcs = [
        _fn('f0', [_bf(P, 1, catch=True, cmp_=rng.choice('MH'))] + _probe(rng, [P, d, ''], 2)
            + [_bf(inner, 2, catch=True)] + _probe(rng, [P, inner, ''], 2)),
        _fn('f1', body),
        _fn('f2', [['w', None]] if rng.random() < 0.8 else [['raise', 6]]),
    ]
    funcs.append(_fn('rootfail', funcs[0]['stmts'] + [['raise', 99]]))
    steps = [_build(root=rng.choice([0, 3, 3])), _build(root=rng.choice([0, 3])), _build()]
    if rng.random() < 0.35:
        # the root function succeeds but the cache file cannot be written: the overwritten foreign file is back
        steps[0] = _build() + [{'inject_op': rng.choice(['write-cache', 'open-for-write']), 'abort': 'end', 'inject_exc': rng.choice(['EIO', 'ENOSPC'])}]
    if rng.random() < 0.5:
        steps.append(['clean', 'n'])
    return {'tree': tree, 'funcs': funcs, 'steps': steps}


def scen_sibling_failure(rng):
    """inside one recorded call: an output that succeeds in a new directory D, a sibling in D (or below it)
    that fails and is caught, then queries that depend on D; followed by unchanged rebuilds"""
    d = rng.choice(NAMES)
    D = d if rng.random() < 0.5 else '%s/%s' % (d, rng.choice(NAMES))
    ok = D + '/ok'
    bad = D + '/bad' if rng.random() < 0.6 else D + '/sub/bad'
    fail = rng.choice(['raise', 'nowrite', 'raise_written'])
    body = {'raise': [['raise', 4]], 'nowrite': [], 'raise_written': [['w', None], ['raise', 4]]}[fail]
    order = [_bf(ok, 2, catch=True, cmp_=rng.choice('MH')), _bf(bad, 3, catch=True)]
    if rng.random() < 0.3:
        order.reverse()
    inner = order + _probe(rng, [D, d, '', ok, bad, D + '/sub'], 3)
    outer_bf = rng.random() < 0.4
    funcs = [
        _fn('f0', _probe(rng, [D, d, ok], 1) + [(_bf('top', 1, catch=True) if outer_bf else _sb(1, catch=True))] + _probe(rng, [D, d, ''], 2)),
        _fn('f1', inner + ([['w', None]] if outer_bf else [])),
        _fn('f2', [['w', None]]),
        _fn('f3', body),
    ]
    funcs.append(_fn('rootfail', funcs[0]['stmts'] + [['raise', 99]]))
    steps = [_build(), _build(), _build()]
    if rng.random() < 0.4:
        steps += [['mut', rng.choice(['delete', 'touch', 'write']), rng.choice([ok, 'zz/unseen']), 'm1', 6100], _build(), _build()]
    if rng.random() < 0.3:
        steps.append(['clean', 'n'])
    return {'tree': [], 'funcs': funcs, 'steps': steps}


def scen_todir(rng):
    """the user replaces an output file (or the parent directory of one) by something of the other kind - an
    empty directory, a directory with a file in it, a regular file - and then builds again or cleans"""
    d = rng.choice(NAMES)
    out1 = '%s/%s' % (d, rng.choice(NAMES))
    out2 = '%s/sub/%s' % (d, rng.choice(NAMES))
    funcs = [
        _fn('f0', [_bf(out1, 1, catch=True, cmp_=rng.choice('MH')), _bf(out2, 1, arg=1, catch=True)] + _probe(rng, [d, out1, out2, d + '/sub', ''], 3)),
        _fn('f1', [['w', None]]),
    ]
    funcs.append(_fn('rootfail', funcs[0]['stmts'] + [['raise', 99]]))
    if rng.random() < 0.3:
        # the replaced output is not built any more, a sibling in the same directory still is; later the user's
        # directory goes away again: the directory they share has changed hands and clean must leave it alone
        out3 = '%s/%s' % (d, rng.choice([n for n in NAMES if d + '/' + n != out1] + ['z']))
        funcs[0] = _fn('f0', [['if', ['arg', _e(0)], [_bf(out1, 1, catch=True, cmp_=rng.choice('MH')), _bf(out3, 1, arg=1, catch=True)],
                               [_bf(out3, 1, arg=1, catch=True)]]] + _probe(rng, [d, out1, out3, ''], 2))
        funcs[2] = _fn('rootfail', funcs[0]['stmts'] + [['raise', 99]])
        steps = [_build(arg=0), ['mut', 'todir', out1, None, None]]
        if rng.random() < 0.5:
            steps.append(['mut', 'write', out1 + '/inside', 'u', 6200])
        steps += [_build(arg=1)]
        if rng.random() < 0.3:
            steps += [_build(arg=1)]
        steps += [['mut', 'rmtree', out1, None, None], rng.choice([['clean', 'n'], ['clean', None], _build(arg=1)]), ['clean', 'n']]
        return {'tree': [], 'funcs': funcs, 'steps': steps}
    steps = [_build()]
    how = rng.choice(['empty_dir', 'dir_with_file', 'parent_to_file', 'both'])
    if how in ('empty_dir', 'both'):
        steps.append(['mut', 'todir', out1, None, None])
    if how == 'dir_with_file':
        steps.append(['mut', 'todir', out1, None, None])
        steps.append(['mut', 'write', out1 + '/inside', 'u', 6200])
    if how in ('parent_to_file', 'both'):
        steps.append(['mut', 'rmtree', d + '/sub', None, None])
        steps.append(['mut', 'write', d + '/sub', 'now a file', 6201])
    tail = rng.choice(['clean', 'build', 'fail', 'build_clean'])
    if tail == 'clean':
        steps.append(['clean', rng.choice(['n', None])])
    elif tail == 'build':
        steps += [_build(), _build()]
    elif tail == 'fail':
        steps += [_build(root=2), _build()]
    else:
        steps += [_build(), ['clean', 'n']]
    return {'tree': [], 'funcs': funcs, 'steps': steps}


def scen_file_becomes_parent(rng):
    """an output FILE of the previous build whose path is a parent DIRECTORY in the next build - after the directory
    that held it (pre-existing or created by the build) was removed by the user; the call that creates it there
    succeeds or fails, and the view is then asked top-down"""
    d = rng.choice(NAMES)
    e = '%s/%s' % (d, rng.choice(NAMES))
    x = '%s/%s' % (e, rng.choice(NAMES + ['sub/x']))
    fail = rng.choice(['raise', 'raise', 'nowrite', 'ok'])
    top_down = [_q('exists', d), _q('list_dir', ''), _q('walk', '', True), _q('is_dir', e), _q('list_dir', d), _q('exists', x)]
    rng.shuffle(top_down)
    funcs = [
        _fn('f0', [['if', ['arg', _e(0)], [_bf(e, 1, catch=True, cmp_=rng.choice('MH'))],
                    [_bf(x, 2, arg=1, catch=True)] + top_down[:rng.randint(2, 5)]]]),
        _fn('f1', [['w', None]]),
        _fn('f2', ([['w', None], ['raise', 7]] if fail == 'raise' else [] if fail == 'nowrite' else [['w', None]])),
    ]
    funcs.append(_fn('rootfail', funcs[0]['stmts'] + [['raise', 99]]))
    pre = rng.random() < 0.6
    steps = [_build(arg=0)]
    steps.append(['mut', 'rmtree', d, None, None] if rng.random() < 0.8 else ['mut', 'delete', e, None, None])
    steps += [_build(arg=1), _build(arg=1, root=rng.choice([0, 0, 3])), rng.choice([['clean', 'n'], _build(arg=0)])]
    return {'tree': [[d, 'dir']] if pre else [], 'funcs': funcs, 'steps': steps}


def scen_olddir_becomes_target(rng):
    """a DIRECTORY the previous build created is replaced by the user with a regular file, and the next build uses
    that very path as a build_file target (overwriting the user's file) - and then fails, or succeeds and is cleaned"""
    d = rng.choice(NAMES)
    sub = '%s/%s' % (d, rng.choice(NAMES))
    x = '%s/%s' % (sub, rng.choice(NAMES))
    funcs = [
        _fn('f0', [['if', ['arg', _e(0)], [_bf(x, 1, catch=True, cmp_=rng.choice('MH'))],
                    [_bf(sub, 1, arg=1, catch=True, cmp_=rng.choice('MH'))] + _probe(rng, [d, sub, x, ''], 2)]]),
        _fn('f1', [['w', None]]),
    ]
    funcs.append(_fn('rootfail', funcs[0]['stmts'] + [['raise', 99]]))
    steps = [_build(arg=0), ['mut', 'rmtree', sub, None, None], ['mut', 'write', sub, 'the user\'s file', 6300]]
    tail = rng.choice(['fail', 'fail', 'fail_then_build', 'build_clean', 'build_fail'])
    if tail == 'fail':
        steps += [_build(arg=1, root=2)]
    elif tail == 'fail_then_build':
        steps += [_build(arg=1, root=2), _build(arg=1), ['clean', 'n']]
    elif tail == 'build_clean':
        steps += [_build(arg=1), ['clean', 'n']]
    else:
        steps += [_build(arg=1), _build(arg=0, root=2), _build(arg=0)]
    return {'tree': [[d, 'dir']] if rng.random() < 0.5 else [], 'funcs': funcs, 'steps': steps}


def scen_prefix_siblings(rng):
    """sibling directories one of whose names is a string prefix of the other (a, ab): one holds an output of the
    previous build that is reused, the other is made by a build that then fails - or the other way round"""
    d = rng.choice(NAMES)
    long_, short = ('%s/ab' % d, '%s/a' % d) if rng.random() < 0.7 else ('%s/a' % d, '%s/ab' % d)
    x = '%s/x' % long_
    y = '%s/%s' % (short, rng.choice(['y', 'sub/y']))
    funcs = [
        _fn('f0', [['if', ['arg', _e(0)], [_bf(x, 1, catch=True, cmp_=rng.choice('MH'))],
                    [_bf(x, 1, catch=True, cmp_=rng.choice('MH')), _bf(y, 1, arg=1, catch=True)]]] + _probe(rng, [d, long_, short, ''], 2)),
        _fn('f1', [['w', None]]),
    ]
    funcs.append(_fn('rootfail', funcs[0]['stmts'] + [['raise', 99]]))
    steps = [_build(arg=0), _build(arg=1, root=2), _build(arg=0)]
    tail = rng.choice(['clean', 'build', 'fail_again'])
    if tail == 'clean':
        steps.append(['clean', 'n'])
    elif tail == 'build':
        steps += [_build(arg=1), _build(arg=0), ['clean', 'n']]
    else:
        steps += [_build(arg=1, root=2), ['clean', 'n']]
    return {'tree': [[d, 'dir']] if rng.random() < 0.3 else [], 'funcs': funcs, 'steps': steps}


def scen_overlay_order(rng):
    """a caught failing build_file inside a subbuild that returns; the failing function lists (walks) the parent of
    the directory made for it, next to real entries whose names sort before and after that directory's name: when
    the record is validated again, real and overlay names have to come out in one sorted order"""
    d = rng.choice(NAMES)
    names = list(NAMES) + ['ab']
    m = rng.choice(names)
    others = [n for n in names if n != m]
    real = rng.sample(others, rng.randint(1, len(others)))
    out = '%s/%s/%s' % (d, m, rng.choice(['o', 'deep/o']))
    look = rng.choice([_q('list_dir', d), _q('walk', d, True), _q('walk', d, False), _q('list_dir', '')])
    funcs = [
        _fn('f0', [_sb(1)] + _probe(rng, [d, out], 1)),
        _fn('f1', [_bf(out, 2, catch=True, cmp_=rng.choice('MH'))] + ([_q('list_dir', d)] if rng.random() < 0.5 else [])),
        _fn('f2', [look, ['w', None], ['raise', 5]] if rng.random() < 0.8 else [look, ['w', None]]),
    ]
    funcs.append(_fn('rootfail', funcs[0]['stmts'] + [['raise', 99]]))
    tree = [[d, 'dir']] + [['%s/%s' % (d, n), 'file', 'r' + n, 300 + i] if rng.random() < 0.7 else ['%s/%s' % (d, n), 'dir'] for i, n in enumerate(real)]
    steps = [_build(), _build(), _build()]
    if rng.random() < 0.4:
        steps += [['clean', 'n'], _build(), _build()]
    return {'tree': tree, 'funcs': funcs, 'steps': steps}


def scen_selfread(rng):
    """a build_file function that looks at its own target while it is writing it (the target is invisible to it:
    FileNotFoundError), writes it in two steps, and is later read back by a sibling - with HASH nothing may be
    recorded from the half-written file"""
    d = rng.choice(NAMES)
    out = '%s/%s' % (d, rng.choice(NAMES))
    c_out, c_self, c_back = rng.choice('HHM'), rng.choice('HHM'), rng.choice('HHM')
    body = [['w', 'half', None], _q('read', out, c_self)] + _probe(rng, [out, d], 1) + [['w', 'complete-content', None]]
    funcs = [
        _fn('f0', [_bf(out, 1, cmp_=c_out, catch=True), _sb(2, catch=True)]),
        _fn('f1', body),
        _fn('f2', [_q('read', out, c_back)]),
    ]
    funcs.append(_fn('rootfail', funcs[0]['stmts'] + [['raise', 99]]))
    steps = [_build(), _build(), _build()]
    if rng.random() < 0.5:
        steps += [['mut', 'touch', out, None, EPOCH_NS + 77], _build(), _build()]
    return {'tree': [], 'funcs': funcs, 'steps': steps}


def scen_nested_reuse(rng):
    """a recorded subbuild whose outputs lie at several depths of nesting (inside an inner subbuild or an inner
    build_file, and next to it) in different new directories; the builds after the first are unchanged, so the whole
    subtree is re-applied from the cache - directory by directory, which is where an injected OSError (C14) has to
    unwind what the nested records had already reserved.  The root function catches."""
    d = rng.choice(NAMES)
    names = rng.sample(NAMES + ['ab', 'k'], 3)
    first = '%s/%s/%s' % (d, names[0], rng.choice(['o', 'deep/o']))
    second = '%s/%s/o' % (d, names[1])
    third = '%s/%s/o' % (d, names[2])
    inner_is_bf = rng.random() < 0.35
    inner = _bf('%s/inner' % d, 2, catch=False) if inner_is_bf else _sb(2, catch=False)
    outer = [inner, _bf(second, 4, catch=False, cmp_=rng.choice('MH'))]
    if rng.random() < 0.5:
        outer.append(_bf(third, 4, 1, catch=False))
    if rng.random() < 0.3:
        outer.reverse()
    funcs = [
        _fn('f0', _probe(rng, [d, first], 1) + [_sb(1, catch=True)] + _probe(rng, [d, '%s/%s' % (d, names[0]), '%s/%s' % (d, names[1]), first, second], 3)),
        _fn('f1', outer),
        _fn('f2', [_bf(first, 3, catch=False)] + ([['w', None]] if inner_is_bf else [])),
        _fn('f3', [['w', None]]),
        _fn('f4', [['w', None]]),
    ]
    funcs.append(_fn('rootfail', funcs[0]['stmts'] + [['raise', 99]]))
    tree = [[d, 'dir']] if rng.random() < 0.5 else []
    steps = [_build(), _build(), _build()]
    if rng.random() < 0.3:
        steps.append(['clean', 'n'])
    return {'tree': tree, 'funcs': funcs, 'steps': steps}


def scen_double_failure(rng):
    """a failing build_file whose function first makes a nested build_file fail (caught) in a sibling directory below
    a common ancestor G, all inside a subbuild that catches and then looks at G; G exists independently of the build
    at first and is removed (or emptied, or replaced) before the next build: while the record is validated the
    bookkeeping of the two failures must release every reservation, or the stale answers about G are served"""
    g = rng.choice(NAMES)
    e_, d_ = rng.sample(NAMES + ['ab'], 2)
    # the deepest common ancestor of the two targets is G itself, or lies one or two levels below G
    mid = rng.choice(['', '', 'm/', 'm/n/'])
    if mid and rng.random() < 0.3:
        d_ = e_                                  # ... or the two targets share their directory
    outer = '%s/%s%s/out' % (g, mid, e_)
    inner = '%s/%s%s/%s' % (g, mid, d_, rng.choice(['helper', 'deep/helper']))
    inner_body = rng.choice([[['raise', 4]], [], [['w', None], ['raise', 9]]])
    outer_tail = rng.choice([[['raise', 5]], [['raise', 2]], []])       # raises, or returns without writing
    looks = [_q('is_dir', g), _q('exists', g), _q('list_dir', '')] + _probe(rng, [g, '%s/%s%s' % (g, mid, e_), '%s/%s%s' % (g, mid, d_), outer, inner] + (['%s/%s' % (g, mid.rstrip('/'))] if mid else []), 2)
    funcs = [
        _fn('f0', [_sb(1, catch=True)] + _probe(rng, [g, ''], 1)),
        _fn('f1', [_bf(outer, 2, catch=True)] + looks),
        _fn('f2', [_bf(inner, 3, catch=True)] + ([_bf('%s/%s%s/ok' % (g, mid, d_), 4, catch=True)] if rng.random() < 0.3 else []) + outer_tail),
        _fn('f3', inner_body),
        _fn('f4', [['w', None]]),
    ]
    funcs.append(_fn('rootfail', funcs[0]['stmts'] + [['raise', 99]]))
    tree = [[g, 'dir']] + ([['README', 'file', 'r', 300]] if rng.random() < 0.5 else [])
    mut = rng.choice([['mut', 'rmtree', g, None, None], ['mut', 'rmtree', g, None, None], ['mut', 'write', 'zz', 'm', 6300]])
    steps = [_build(), mut, _build(), _build()]
    if rng.random() < 0.3:
        steps += [['mut', 'mkdir', g, None, None], _build()]
    return {'tree': tree, 'funcs': funcs, 'steps': steps}


def scen_funcname(rng):
    """the same target (or the same subbuild arguments) under a different function name in consecutive builds: the name
    is part of the identity of a record, whatever the arguments say"""
    p = rng.choice(PATHS2)
    use_bf = rng.random() < 0.6
    a = rng.choice([0, [1, 2], {'k': 1}])
    kw = rng.choice([{}, {'opt': 1}])
    nested = rng.random() < 0.4

    def call(callee):
        return _bf(p, callee, arg=a, kw=kw, cmp_=rng.choice('MH')) if use_bf else _sb(callee, arg=a, kw=kw)
    pick = [['if', ['arg', _e(0)], [call(2)], [call(3)]]]
    funcs = [_fn('f0', ([['if', ['arg', _e(0)], [_sb(1, arg=0)], [_sb(1, arg=1)]]] if nested else pick) + _probe(rng, [p, ''], 1)),
             _fn('f1', pick if nested else []),
             _fn('f2', [['w', 'one']], {'const': _e('from f2')}),
             _fn('f3', [['w', 'two']], {'const': _e('from f3')})]
    funcs.append(_fn('rootfail', funcs[0]['stmts'] + [['raise', 99]]))
    steps = [_build(arg=0), _build(arg=1), _build(arg=1), _build(arg=0)]
    return {'tree': [], 'funcs': funcs, 'steps': steps}


def scen_failed_target_becomes_dir(rng):
    """a build_file whose function fails (caught), after which the same function uses the failed target's path as a
    directory: it builds a file below it.  On an unchanged rebuild the path exists on disk - as a directory the previous
    build made - but not in the virtual tree the record is validated against, so the record of the caught failure is
    still good and nothing but ... nothing runs"""
    g = rng.choice(NAMES)
    x = '%s/%s' % (g, rng.choice(['x', 'ab']))
    below = '%s/%s' % (x, rng.choice(['d', 'e/d']))
    fail_body = rng.choice([[['raise', 4]], [], [['w', None], ['raise', 6]]])
    wrap = rng.random() < 0.7
    inner = [_bf(x, 2, catch=True), _bf(below, 3, catch=False)] + _probe(rng, [x, g, below], 1)
    funcs = [_fn('f0', ([_sb(1, catch=True)] if wrap else inner) + _probe(rng, [g, ''], 1)),
             _fn('f1', inner if wrap else []),
             _fn('f2', fail_body),
             _fn('f3', [['w', None]])]
    funcs.append(_fn('rootfail', funcs[0]['stmts'] + [['raise', 99]]))
    tree = [[g, 'dir']] if rng.random() < 0.4 else []
    steps = [_build(), _build(), _build()]
    if rng.random() < 0.3:
        steps += [['clean', 'n'], _build()]
    return {'tree': tree, 'funcs': funcs, 'steps': steps}


def scen_reuse_inside_failing(rng):
    """a build_file whose function reuses a cached subbuild (which built a file in the same new directory) and then
    fails, caught by the caller: the directory still holds the reused output, so it must stay visible - the
    reservation made for the reused output keeps it alive when the failing call gives its own up"""
    g = rng.choice(NAMES)
    sub = rng.choice(['x', 'x/y'])
    p_b = '%s/%s/b' % (g, sub)
    p_a = '%s/%s/%s' % (g, sub, rng.choice(['a', 'in/a']))
    tail = rng.choice([[['raise', 5]], [['raise', 5]], []])          # raises after writing / returns having written nothing?
    outer = [_sb(2, catch=False)] + ([['w', None]] if rng.random() < 0.8 else []) + [['if', ['arg', _e(1)], tail or [['raise', 7]], []]]
    looks = [_q('is_dir', '%s/%s' % (g, sub)), _q('list_dir', g), _q('exists', g), _q('walk', '', True), _q('is_file', p_a)]
    rng.shuffle(looks)
    funcs = [_fn('f0', [['if', ['arg', _e(0)], [_bf(p_b, 1, arg=0, catch=True)], [_bf(p_b, 1, arg=1, catch=True)]]] + looks[:rng.randint(2, 5)]),
             _fn('f1', outer),
             _fn('f2', [_bf(p_a, 3, catch=False, cmp_=rng.choice('MH'))]),
             _fn('f3', [['w', None]])]
    funcs.append(_fn('rootfail', funcs[0]['stmts'] + [['raise', 99]]))
    steps = [_build(arg=0), _build(arg=1), _build(arg=1), _build(arg=0)]
    return {'tree': [], 'funcs': funcs, 'steps': steps}


def scen_fail_then_succeed(rng):
    """a build_file that raised (caught) in a committed build succeeds in the next build - which then fails, or commits
    and is cleaned: the old cache has a record for the path, but no output; what the second build wrote there is new"""
    g = rng.choice(NAMES)
    p = rng.choice(['%s/p' % g, '%s/q/p' % g, 'p'])
    extra = '%s/other' % g
    funcs = [_fn('f0', [['if', ['arg', _e(0)], [_bf(p, 1, arg=0, catch=True)], [_bf(p, 1, arg=1, catch=True)]]]
                 + ([_bf(extra, 2, catch=True)] if rng.random() < 0.5 else []) + _probe(rng, [p, g, ''], 2)),
             _fn('f1', [['if', ['arg', _e(0)], [['w', None], ['raise', 3]] if rng.random() < 0.5 else [['raise', 3]], []], ['w', None]]),
             _fn('f2', [['w', None]])]
    funcs.append(_fn('rootfail', funcs[0]['stmts'] + [['raise', 99]]))
    tail = rng.choice(['fail', 'fail', 'fail_then_build', 'build_clean'])
    steps = [_build(arg=0)]
    if tail == 'fail':
        steps += [_build(arg=1, root=3), _build(arg=0)]
    elif tail == 'fail_then_build':
        steps += [_build(arg=1, root=3), _build(arg=1), ['clean', 'n']]
    else:
        steps += [_build(arg=1), ['clean', 'n'], _build(arg=0)]
    return {'tree': [[g, 'dir']] if rng.random() < 0.3 else [], 'funcs': funcs, 'steps': steps}


def scen_mode_switch(rng):
    """the same output requested with one comparison mode in one build and with the other in the next (a hit on the same
    record), then tampered with - a new modification time only, new bytes with the same size and time, new bytes - and
    requested again: the mode of the request that vouched for it last decides, directly in the root function or below a
    subbuild that is re-executed for the switch, with a reader in a third mode"""
    out = rng.choice(PATHS2)
    a, b = rng.choice([('H', 'M'), ('H', 'M'), ('M', 'H')])
    nested = rng.random() < 0.5
    body = [['if', ['arg', _e(0)], [_bf(out, 1, cmp_=a, catch=False)], [_bf(out, 1, cmp_=b, catch=False)]]]
    if rng.random() < 0.4:
        body.append(_q('read', out, rng.choice('MH')))
    funcs = [
        _fn('f0', [['if', ['arg', _e(0)], [_sb(2, arg=0)], [_sb(2, arg=1)]]] if nested else body),
        _fn('f1', [['w', None, 4242 if rng.random() < 0.3 else None]]),
        _fn('f2', body),
    ]
    funcs.append(_fn('rootfail', funcs[0]['stmts'] + [['raise', 99]]))
    steps = [_build(arg=0), _build(arg=1)]
    muts = 0
    for i in range(rng.randint(1, 2)):
        k = rng.choice(['touch', 'samemeta', 'write', 'touch', 'samemeta'])
        muts += k == 'samemeta'
        steps.append(['mut', k, out, None if k == 'samemeta' else 'm%d' % rng.randint(0, 9), None if k == 'samemeta' else 7500 + 10 * i + rng.randint(0, 5)])
        steps.append(_build(arg=rng.choice([1, 1, 0]), root=rng.choice([0, 0, 0, 3])))
    steps.append(_build(arg=1))
    c = {'tree': [], 'funcs': funcs, 'steps': steps}
    if muts:
        c['no_spec'] = True
    return c


def scen_sibling_outputs(rng):
    """one cached subbuild (or build_file) with several outputs in the same new directory and below it; one of them -
    not necessarily the first - is tampered with between builds (content with the same size and mtime, or a new mtime,
    or deleted): every recorded output is compared, whatever else the record already vouched for in that directory"""
    d = rng.choice(NAMES)
    cmp_ = rng.choice('HHM')
    outs = ['%s/a' % d, '%s/b' % d, '%s/sub/c' % d, '%s/sub/e' % d][:rng.randint(2, 4)]
    inner = [_bf(o, 2, catch=False, cmp_=cmp_) for o in outs]
    if rng.random() < 0.3:
        inner.append(_q('read', outs[0], cmp_))
    funcs = [_fn('f0', [_sb(1, catch=True)] + _probe(rng, outs + [d], 2)),
             _fn('f1', inner),
             _fn('f2', [['w', None, 4242 if rng.random() < 0.5 else None]])]
    funcs.append(_fn('rootfail', funcs[0]['stmts'] + [['raise', 99]]))
    victim = rng.choice(outs[1:] + outs)
    how = rng.choice(['samemeta', 'samemeta', 'touch', 'write', 'delete'])
    if how == 'samemeta':
        mut = ['mut', 'samemeta', victim, None, None]
    elif how == 'touch':
        mut = ['mut', 'touch', victim, None, 7300]
    elif how == 'write':
        mut = ['mut', 'write', victim, 'tampered', 7400]
    else:
        mut = ['mut', 'delete', victim, None, None]
    c = {'tree': [], 'funcs': funcs, 'steps': [_build(), mut, _build(), _build()]}
    if cmp_ == 'M':
        c['no_spec'] = True
    return c


def scen_read_after_caught_failure(rng):
    """a function that makes a nested call fail, catches the failure, and only then reads its input (or lists a
    directory): what it observed after the failure is part of its record like everything before"""
    inp = rng.choice(PATHS2)
    x = rng.choice([p for p in PATHS2 if p != inp and not p.startswith(inp + '/') and not inp.startswith(p + '/')])
    mode = rng.choice('HHM')
    failing = _bf(x, 2, catch=True) if rng.random() < 0.5 else _sb(2, catch=True)
    before = [_q('exists', inp)] if rng.random() < 0.3 else []
    outer_is_bf = rng.random() < 0.4
    body = before + [failing, _q('read', inp, mode)] + ([['w', None]] if outer_is_bf else [])
    funcs = [_fn('f0', [_bf('out_' + inp.replace('/', '_'), 1, catch=True) if outer_is_bf else _sb(1, catch=True)]),
             _fn('f1', body),
             _fn('f2', rng.choice([[['raise', 6]], [['w', None], ['raise', 6]]]))]
    funcs.append(_fn('rootfail', funcs[0]['stmts'] + [['raise', 99]]))
    tree = [[inp, 'file', 'i0', 150]]
    steps = [_build()]
    for i in range(rng.randint(1, 3)):
        k = rng.choice(['write', 'samemeta', 'touch', 'none'])
        if k == 'samemeta':
            steps.append(['mut', 'samemeta', inp, None, None])
        elif k != 'none':
            steps.append(['mut', k, inp, 'm%d' % rng.randint(0, 9), 7100 + 10 * i])
        steps.append(_build())
    c = {'tree': tree, 'funcs': funcs, 'steps': steps}
    if mode == 'M':
        c['no_spec'] = True
    return c


def scen_deep_reuse(rng):
    """a build_file whose function runs a subbuild that builds another file in a directory of its own (build_file ->
    subbuild -> build_file), called from the root; unchanged rebuilds reuse the outer record directly, and whatever is
    nested in it - at any depth - is registered, its directories reserved and recorded; a cached observer looks"""
    d, e = rng.sample(NAMES + ['ab'], 2)
    main = '%s/main' % d
    part = '%s/%s' % (e, rng.choice(['p', 'q/p']))
    mid_is_sb = rng.random() < 0.7
    funcs = [_fn('f0', [_bf(main, 1, catch=True), _sb(4)] + _probe(rng, [e, part, ''], 1)),
             _fn('f1', [_sb(2, catch=False) if mid_is_sb else _bf('%s/mid' % d, 2, catch=False), ['w', None]]),
             _fn('f2', [_bf(part, 3, catch=False)] + ([] if mid_is_sb else [['w', None]])),
             _fn('f3', [['w', None]]),
             _fn('f4', [_q('is_dir', e), _q('list_dir', ''), _q('exists', part)])]
    funcs.append(_fn('rootfail', funcs[0]['stmts'] + [['raise', 99]]))
    steps = [_build(), _build(), _build()]
    if rng.random() < 0.6:
        steps.append(['clean', rng.choice(['n', None])])
    return {'tree': [], 'funcs': funcs, 'steps': steps}


SCENARIOS = [scen_mode_switch, scen_deep_reuse, scen_read_after_caught_failure, scen_sibling_outputs, scen_fail_then_succeed, scen_reuse_inside_failing, scen_failed_target_becomes_dir, scen_funcname, scen_nested_failure, scen_swap, scen_stale_dir, scen_dups, scen_versions, scen_reads, scen_identity, scen_foreign_swap, scen_sibling_failure, scen_todir, scen_selfread, scen_file_becomes_parent, scen_olddir_becomes_target, scen_prefix_siblings, scen_overlay_order, scen_nested_reuse, scen_double_failure]


def gen_scenario_cases(seed, per_family, dirsize=4096, families=SCENARIOS):
    out = []
    for fi, fam in enumerate(families):
        for i in range(per_family):
            rng = random.Random(seed * 1009 + fi * 100003 + i)
            c = fam(rng, i) if fam is scen_identity else fam(rng)
            c.update({'kind': 'hist', 'seed': 'scen:%s:%d:%d' % (fam.__name__, seed, i), 'dirsize': dirsize})
            c.setdefault('cache', 'cache.gz')
            out.append(c)
    return out
