"""Seeded generators: programs (DSL), initial trees, histories."""
import random

NAMES = ['a', 'b', 'c']


def all_paths(depth=3, names=NAMES):
    out = []

    def rec(p, d):
        if d == 0:
            return
        for n in names:
            q = p + [n]
            out.append('/'.join(q))
            rec(q, d - 1)
    rec([], depth)
    return out


PATHS = all_paths(3)
PATHS2 = all_paths(2)
QUERY_KINDS = ['is_file', 'is_dir', 'exists', 'list_dir', 'walk', 'get_size', 'read']

DEFAULT_PROFILE = {
    'paths': PATHS, 'qpaths': PATHS + [''],
    'max_funcs': 6, 'max_stmts': 4,
    'p_q': 0.42, 'p_bf': 0.25, 'p_sb': 0.18, 'p_raise': 0.04, 'p_if': 0.08,
    'p_catch': 0.6, 'p_hash': 0.3,
    'write_modes': ['last', 'last', 'last', 'last', 'first', 'none', 'fail_after', 'const'],
    'rets': ['acc', 'acc', 'acc', 'acc', 'const', 'nonjson'],
    'args': [0, 0, 1, 1, 'x', [1, 2], {'k': 1}, None, True, 1.0],
}


def enc_simple(v):
    from . import wire
    return wire.enc(v)


def gen_query(rng, prof):
    kind = rng.choice(QUERY_KINDS)
    path = rng.choice(prof['qpaths'])
    extra = None
    if kind == 'walk':
        extra = rng.random() < 0.7
    elif kind == 'read':
        extra = 'H' if rng.random() < prof['p_hash'] else 'M'
    return ['q', kind, path, extra]


def gen_cond(rng):
    c = rng.random()
    if c < 0.35:
        return ['err']
    if c < 0.65:
        return ['true']
    if c < 0.85:
        return ['nonempty']
    return ['eq', enc_simple(rng.choice([False, [], 0, 'i1']))]


def gen_stmts(rng, prof, idx, nfuncs, n, depth=0):
    stmts = []
    for _ in range(n):
        c = rng.random()
        t = prof['p_q']
        if c < t:
            stmts.append(gen_query(rng, prof))
            continue
        t += prof['p_bf']
        if c < t:
            if idx + 1 < nfuncs:
                stmts.append(['bf', rng.choice(prof['paths']), 'H' if rng.random() < prof['p_hash'] else 'M',
                              rng.randrange(idx + 1, nfuncs), enc_simple(rng.choice(prof['args'])),
                              enc_simple({}), rng.random() < prof['p_catch']])
            continue
        t += prof['p_sb']
        if c < t:
            if idx + 1 < nfuncs:
                stmts.append(['sb', rng.randrange(idx + 1, nfuncs), enc_simple(rng.choice(prof['args'])),
                              enc_simple({}), rng.random() < prof['p_catch']])
            continue
        t += prof['p_raise']
        if c < t:
            stmts.append(['raise', rng.randrange(1, 50)])
            continue
        t += prof['p_if']
        if c < t and depth < 2 and stmts:
            stmts.append(['if', gen_cond(rng),
                          gen_stmts(rng, prof, idx, nfuncs, rng.randint(0, 2), depth + 1),
                          gen_stmts(rng, prof, idx, nfuncs, rng.randint(0, 2), depth + 1)])
            continue
    return stmts


def gen_func(rng, prof, idx, nfuncs):
    stmts = gen_stmts(rng, prof, idx, nfuncs, rng.randint(0, prof['max_stmts']))
    if idx > 0:
        wm = rng.choice(prof['write_modes'])
        if wm == 'last':
            stmts.append(['w', None])
        elif wm == 'first':
            stmts.insert(0, ['w', None])
        elif wm == 'const':
            stmts.append(['w', 'k%d' % rng.randint(0, 3)])
        elif wm == 'fail_after':
            stmts.append(['w', None])
            stmts.append(['raise', 50 + idx])
    r = rng.choice(prof['rets'])
    if r == 'const':
        r = {'const': enc_simple(rng.choice([0, 'r', [1, [2]], {'a': None}, 2.5, None]))}
    if idx == 0:
        r = 'acc'
    return {'name': 'f%d' % idx, 'stmts': stmts, 'ret': r}


def gen_prog(rng, prof=DEFAULT_PROFILE):
    n = rng.randint(2, prof['max_funcs'])
    funcs = [gen_func(rng, prof, i, n) for i in range(n)]
    # failing variant of the root: same body, then raise
    funcs.append({'name': 'rootfail', 'stmts': funcs[0]['stmts'] + [['raise', 99]], 'ret': 'acc'})
    return funcs


def gen_tree(rng, prof=DEFAULT_PROFILE):
    tree = {}
    for i in range(rng.randint(0, 5)):
        p = rng.choice(prof['paths'])
        comps = p.split('/')
        ok = True
        for k in range(1, len(comps)):
            anc = '/'.join(comps[:k])
            if tree.get(anc, ['', 'dir'])[1] != 'dir':
                ok = False
        if not ok or p in tree:
            continue
        for k in range(1, len(comps)):
            anc = '/'.join(comps[:k])
            tree[anc] = [anc, 'dir']
        if rng.random() < 0.25:
            tree[p] = [p, 'dir']
        else:
            tree[p] = [p, 'file', 'i%d' % rng.randint(0, 9), 100 + i]
    return list(tree.values())


MUT_KINDS = ['write', 'write', 'write', 'delete', 'delete', 'rmtree', 'mkdir', 'touch']


def gen_mut(rng, prof, tcounter, kinds=MUT_KINDS, paths=None):
    kind = rng.choice(kinds)
    p = rng.choice(paths or prof['paths'])
    t = tcounter[0]
    tcounter[0] += 1
    data = 'm%d' % rng.randint(0, 9) if kind == 'write' else None
    return ['mut', kind, p, data, t if kind in ('write', 'touch') else None]


def gen_history(rng, prof=DEFAULT_PROFILE, nfuncs=None, min_builds=2, max_builds=5, p_clean=0.1,
                p_fail=0.2, mut_kinds=MUT_KINDS, versions_pool=None):
    steps = []
    tc = [5000]
    for _ in range(rng.randint(0, 2)):
        steps.append(gen_mut(rng, prof, tc, mut_kinds))
    versions = {}
    for _ in range(rng.randint(min_builds, max_builds)):
        if rng.random() < p_clean:
            steps.append(['clean', rng.choice(['n', 'n', None])])
        else:
            fail = rng.random() < p_fail
            if versions_pool and rng.random() < 0.4:
                fn = 'f%d' % rng.randrange(0, nfuncs)
                versions = dict(versions)
                versions[fn] = rng.choice(versions_pool)
            steps.append(['build', 'n', enc_simple(versions), (nfuncs if fail else 0), enc_simple(0)])
        for _ in range(rng.randint(0, 2)):
            steps.append(gen_mut(rng, prof, tc, mut_kinds))
    return steps


def gen_case(seed, prof=DEFAULT_PROFILE, dirsize=4096, **hist_kw):
    rng = random.Random(seed)
    funcs = gen_prog(rng, prof)
    nfuncs = len(funcs) - 1
    return {'kind': 'hist', 'seed': seed, 'dirsize': dirsize, 'cache': 'cache.gz',
            'tree': gen_tree(rng, prof), 'funcs': funcs,
            'steps': gen_history(rng, prof, nfuncs=nfuncs, **hist_kw)}
