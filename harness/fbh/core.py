"""Shared machinery of the checks: proof gate, evidence, violations, known findings, workers."""
import hashlib
import json
import multiprocessing
import os
import re
import subprocess
import sys
import time

VERIF = os.path.dirname(os.path.dirname(os.path.dirname(os.path.abspath(__file__))))
LEAN_DIR = os.path.join(VERIF, 'lean')
EVIDENCE_DIR = os.path.join(VERIF, 'evidence')
REPLAY_DIR = os.path.join(VERIF, 'replays')
KNOWN_FINDINGS = os.path.join(VERIF, 'known_findings.json')
ALLOWED_AXIOMS = {'propext', 'Classical.choice', 'Quot.sound'}
FORBIDDEN = re.compile(r'\b(sorry|admit|native_decide|bv_decide|implemented_by|unsafe)\b|^\s*axiom\s|maxHeartbeats\s+0\b')

TRUSTED_BASE = [
    'Lean 4.33.0 kernel (thorough tier re-checks the compiled modules with leanchecker)',
    'axioms: only propext, Classical.choice, Quot.sound (audited with #print axioms on every run); no native_decide, no bv_decide, no axioms of ours',
    'the hand-written Lean model (FB.*) is trusted only as far as the correspondence check exercises it: counts below',
    'harness: DSL interpreter, generators, canonicalisation, fbdriver wire glue (FB/Wire.lean, Main.lean)',
    'modelled, not verified: the OS file system (FB.FS abstract tree), gzip/json text layer, tempfile/shutil, SHA-256 (injective), CPython dict/set/sorted and float repr',
]


class HarnessError(Exception):
    """the check itself is broken (exit 2), never a violation"""


def seed():
    try:
        return int(os.environ.get('VERIF_SEED', '0'))
    except ValueError:
        return 0


def strip_comments(src):
    src = re.sub(r'/-.*?-/', lambda m: '\n' * m.group(0).count('\n'), src, flags=re.S)
    return '\n'.join(l.split('--')[0] for l in src.split('\n'))


def lean_sources():
    out = []
    for r, _, fs in os.walk(LEAN_DIR):
        if '.lake' in r:
            continue
        for f in fs:
            if f.endswith('.lean'):
                out.append(os.path.join(r, f))
    return sorted(out)


_gate_cache = {}


def proof_gate(theorems, tier='quick'):
    """Build the Lean project, scan for forbidden constructs, audit the axioms of `theorems`.

    Returns dict(ok, obligations, discharged, failures[list of str], axioms{thm: [..]}, wall_s).
    A failure here is a broken proof obligation (the caller then searches for a failing input).
    """
    key = (tuple(theorems), tier)
    if key in _gate_cache:
        return _gate_cache[key]
    t0 = time.time()
    failures = []
    p = subprocess.run(['lake', 'build', 'FB', 'fbdriver'], cwd=LEAN_DIR, stdout=subprocess.PIPE,
                       stderr=subprocess.STDOUT, timeout=3000)
    out = p.stdout.decode('utf-8', 'replace')
    if p.returncode != 0:
        errs = [l for l in out.splitlines() if 'error' in l][:10]
        failures.append('lake build failed: ' + ' | '.join(errs))
    if re.search(r"declaration uses 'sorry'", out):
        failures.append("build output reports a declaration using 'sorry'")
    for f in lean_sources():
        src = strip_comments(open(f, encoding='utf-8').read())
        for i, line in enumerate(src.split('\n'), 1):
            if FORBIDDEN.search(line):
                failures.append('forbidden construct in %s:%d: %s' % (os.path.relpath(f, VERIF), i, line.strip()[:80]))
    axioms = {}
    if theorems and not failures:
        src = 'import FB\n' + '\n'.join('#print axioms %s' % t for t in theorems) + '\n'
        tmp = os.path.join(LEAN_DIR, '.lake', 'audit_%d.lean' % os.getpid())
        with open(tmp, 'w') as fh:
            fh.write(src)
        try:
            q = subprocess.run(['lake', 'env', 'lean', tmp], cwd=LEAN_DIR, stdout=subprocess.PIPE,
                               stderr=subprocess.STDOUT, timeout=1200)
        finally:
            try:
                os.remove(tmp)
            except OSError:
                pass
        aout = q.stdout.decode('utf-8', 'replace')
        if q.returncode != 0:
            failures.append('axiom audit failed: ' + aout[-400:].replace('\n', ' | '))
        else:
            # "'FB.thm' depends on axioms: [propext, Quot.sound]" / "'FB.thm' does not depend on any axioms"
            flat = re.sub(r'\s+', ' ', aout)
            for t in theorems:
                m = re.search(r"'%s' depends on axioms: \[([^\]]*)\]" % re.escape(t), flat)
                if m:
                    axs = [a.strip() for a in m.group(1).split(',') if a.strip()]
                elif re.search(r"'%s' does not depend on any axioms" % re.escape(t), flat):
                    axs = []
                else:
                    failures.append('theorem %s not found by the audit' % t)
                    continue
                axioms[t] = axs
                bad = [a for a in axs if a not in ALLOWED_AXIOMS]
                if bad:
                    failures.append('theorem %s depends on non-standard axioms %s' % (t, bad))
    if tier == 'thorough' and not failures:
        # every module FB.* replayed by the independent checker; 4 threads: 45 s and 7.5 GB instead of 65 s and 26 GB with one per core
        q = subprocess.run(['lake', 'env', 'leanchecker', 'FB'], cwd=LEAN_DIR, stdout=subprocess.PIPE,
                           stderr=subprocess.STDOUT, timeout=3000, env=dict(os.environ, LEAN_NUM_THREADS='4'))
        if q.returncode != 0:
            failures.append('leanchecker rejected the compiled modules: ' + q.stdout.decode('utf-8', 'replace')[-300:])
    res = {'ok': not failures, 'obligations': len(theorems), 'discharged': len(axioms) if not failures else
           len([t for t in axioms if all(a in ALLOWED_AXIOMS for a in axioms[t])]),
           'failures': failures, 'axioms': axioms, 'wall_s': round(time.time() - t0, 2)}
    _gate_cache[key] = res
    return res


# ---------------- parallel map ----------------
def _init_worker(repo):
    os.environ['FB_REPO'] = repo


def pmap(fn, items, procs=None):
    procs = procs or min(16, os.cpu_count() or 4)
    if len(items) < 8 or procs <= 1:
        return [fn(x) for x in items]
    ctx = multiprocessing.get_context('fork')
    # the workers are forks of a parent that may hold gigabytes of earlier results: without freezing, the first garbage
    # collection in each worker writes to the header of every inherited object and copies the whole heap 16 times
    import gc
    gc.collect()
    gc.freeze()
    try:
        with ctx.Pool(procs) as pool:
            return pool.map(fn, items, chunksize=max(1, len(items) // (procs * 8)))
    finally:
        gc.unfreeze()


# ---------------- findings ----------------
def load_known_findings():
    if not os.path.exists(KNOWN_FINDINGS):
        return []
    with open(KNOWN_FINDINGS) as fh:
        data = json.load(fh)
    return [f for f in data.get('findings', []) if f.get('status') == 'known']


MATCHERS = {}


def matcher(name):
    def deco(f):
        MATCHERS[name] = f
        return f
    return deco


def match_known(prop, case, fails):
    """a failing input that is a recorded known finding (specific signature)? -> description or None"""
    for f in load_known_findings():
        if prop in f.get('properties', []) and f.get('matcher') in MATCHERS:
            try:
                if MATCHERS[f['matcher']](case, fails):
                    return '%s %s' % (f['id'], f.get('what', ''))
            except Exception:
                pass
    return None


def write_replay(prop, tag, payload):
    os.makedirs(REPLAY_DIR, exist_ok=True)
    h = hashlib.sha1(json.dumps(payload, sort_keys=True, default=str).encode()).hexdigest()[:10]
    path = os.path.join(REPLAY_DIR, '%s-%s-%s.json' % (prop, tag, h))
    with open(path, 'w') as fh:
        json.dump(payload, fh, indent=1, default=str)
    return path


class Report:
    """collects what a check run covered and what it found; writes the evidence file"""

    def __init__(self, prop, tier, level='proof'):
        self.prop = prop
        self.tier = tier
        self.level = level
        self.t0 = time.time()
        self.coverage = {}
        self.assumptions = []
        self.violations = []      # (signature, replay_path, note)
        self.known = []
        self.samples = []
        self.counters = {}
        self.distinct = set()

    def count(self, key, n=1):
        self.counters[key] = self.counters.get(key, 0) + n

    def violation(self, tag, payload, note='', no_input=False):
        path = write_replay(self.prop, tag, payload)
        self.violations.append((tag, path, note, no_input))

    def finish(self, gate, extra=None):
        cov = dict(self.coverage)
        cov['obligations'] = gate['obligations']
        cov['discharged'] = gate['discharged']
        cov['checker_cmd'] = 'cd lean && lake build FB fbdriver && lake env lean <#print axioms of the property theorems>' + (
            ' && lake env leanchecker FB' if self.tier == 'thorough' else '')
        cov['trusted_base'] = TRUSTED_BASE
        cov['theorems'] = gate['axioms']
        cov['proof_gate_failures'] = gate['failures']
        cov['counters'] = self.counters
        cov['samples'] = self.samples[:5] or ['(none)']
        cov.setdefault('evaluations', self.counters.get('evaluations', 0))
        cov.setdefault('distinct_nontrivial', len(self.distinct))
        if extra:
            cov.update(extra)
        from . import levels
        level = levels.LEVELS.get(self.prop, {}).get('category', self.level)
        cov.setdefault('rule', 'cases: corpus of past failures, then seeded scenario families and random DSL programs x histories x trees '
                               '(VERIF_SEED); distinct_nontrivial counts distinct cases (program, history, tree) with at least one cache hit and '
                               'one executed function; for schedule exploration: distinct scenarios / (builder kind, method) pairs')
        if level == 'proof' and cov['obligations'] == 0:
            level = 'translation_validation'
        ev = {'property_id': self.prop, 'tier': self.tier, 'seed': seed(), 'level': level,
              'coverage': cov, 'assumptions': self.assumptions, 'wall_s': round(time.time() - self.t0, 2),
              'violations': len(self.violations)}
        os.makedirs(EVIDENCE_DIR, exist_ok=True)
        with open(os.path.join(EVIDENCE_DIR, self.prop + '.json'), 'w') as fh:
            json.dump(ev, fh, indent=1, default=str)
        for k in self.known:
            print('KNOWN-FINDING: property=%s %s' % (self.prop, k))
        for tag, path, note, no_input in self.violations:
            print('VIOLATION property=%s replay=%s%s' % (self.prop, path, ' no-failing-input-found' if no_input else ''))
            if note:
                print('  ' + note[:300])
        return 1 if self.violations else 0
