"""FileBuilder._roll_back against the Lean model FB.Rollback, on the states in which the real code really rolls back:
generated histories (half of the builds failing, external mutations in between, scenario families) are run on /repo
with a wrapper around _roll_back that records - at the moment of the failure - the tree, the bookkeeping the
function reads (BuildDirs.created_dirs / error-created dirs, the directories made for the cache file, the outputs of
the failed and of the previous build, the previous build's created directories, the undo log with the bytes and
modification time of every saved file) and the tree when it returns.  The model's rollBack on the recorded state
must produce exactly the recorded result (kinds, bytes, modification times).

In addition the hypothesis of the theorem rollBack_restores_files (`Undoable`) is evaluated on every recorded state
against the pre-build tree: it tells how often the theorem speaks about what really happens."""
import hashlib
import os

from . import core, gen, model, realrun


def _snap(root, cache_abs):
    out = []
    for r_, ds, fs in os.walk(root):
        for d in ds:
            p = os.path.join(r_, d)
            out.append([os.path.relpath(p, root), 'dir'])
        for f in fs:
            p = os.path.join(r_, f)
            out.append([os.path.relpath(p, root), 'file', _content(p, cache_abs, p), os.lstat(p).st_mtime_ns])
    out.sort(key=lambda x: x[0])
    return out


def _content(path, cache_abs, orig):
    with open(path, 'rb') as fh:
        data = fh.read()
    if orig == cache_abs:
        return 'CACHE:' + hashlib.sha256(data).hexdigest()[:16]
    return data.decode('utf-8', 'surrogateescape')


def capture_case(case):
    """run the history on /repo; -> list of captured rollbacks"""
    fb = realrun.load_fb()
    FB = fb.FileBuilder
    shared = {}
    caps = []
    orig = FB._roll_back

    def wrapper(self, cache_file_created_dirs):
        root, cache_abs = shared['root'], shared['cache']

        def rel(x):
            x = os.path.abspath(x)
            return os.path.relpath(x, root) if x == root or x.startswith(root + os.sep) else None

        def rels(xs):
            return sorted(set(r for r in (rel(x) for x in xs) if r not in (None, '.')))
        cap = {'kind': 'rb', 'tree': _snap(root, cache_abs)}
        cap['createdDirs'] = rels(list(self._build_dirs.created_dirs()) + list(cache_file_created_dirs) +
                                  list(self._build_dirs.norm_cased_error_created_dirs()))
        cap['newOutputs'] = rels(self._new_cache.created_files())
        cap['oldOutputs'] = rels(self._old_cache.created_files())
        cap['oldCreatedDirs'] = rels(self._old_cache.created_dirs())
        cap['absent'] = rels(self._backups._absent)
        saved = []
        for o, bak in self._backups._backups:
            r = rel(o)
            if r is not None:
                saved.append([r, _content(bak, cache_abs, os.path.abspath(o)), os.lstat(bak).st_mtime_ns])
        cap['saved'] = saved
        cap['before_build'] = shared.get('before')
        try:
            return orig(self, cache_file_created_dirs)
        finally:
            cap['after'] = _snap(root, cache_abs)
            caps.append(cap)

    def pre(ctx, root, cache_abs):
        shared.update(root=root, cache=cache_abs, before=_snap(root, cache_abs))
    FB._roll_back = wrapper
    try:
        realrun.run_case(case, hooks={'pre_build': pre})
    finally:
        FB._roll_back = orig
    return caps


def _worker(case):
    try:
        return capture_case(case)
    except Exception as e:      # pragma: no cover - the library cannot be driven this way any more
        return {'error': '%s: %s' % (type(e).__name__, str(e)[:200])}


def undoable(cap):
    """the hypothesis `Undoable P0 P r` of FB.Rollback.rollBack_restores_files, field by field, evaluated on a
    captured state (P0 = the tree before the build, P = the tree when _roll_back starts)"""
    p0 = {n[0]: n for n in cap['before_build'] or []}
    p = {n[0]: n for n in cap['tree']}
    saved = [s[0] for s in cap['saved']]
    savedset = set(saved)
    absent, new, old = set(cap['absent']), set(cap['newOutputs']), set(cap['oldOutputs'])

    def removable(f):
        return f not in old or f in absent
    if len(saved) != len(savedset):
        return 'saved_nodup'
    for s in cap['saved']:
        n = p0.get(s[0])
        if not n or n[1] != 'file' or [n[2], n[3]] != [s[1], s[2]]:
            return 'saved_pre'
    for path, n in p0.items():
        if n[1] == 'file' and p.get(path) != n and path not in savedset:
            return 'kept'
    for path, n in p.items():
        if n[1] == 'file' and p0.get(path) != n and path not in savedset and not (path in new and removable(path)):
            return 'fresh'
    for path in new:
        n = p0.get(path)
        if removable(path) and n and n[1] == 'file' and path not in savedset:
            return 'moved'
    created = set(cap['createdDirs'])
    for path, n in p.items():
        if n[1] == 'dir' and (p0.get(path) or [None, None])[1] != 'dir' and path not in created:
            return 'newdirs'
    return None


def run(tier, rep, ds, salt=0):
    n_rand, per_fam = (150, 12) if tier == 'quick' else (12000, 400)
    base = core.seed() * 1000003 + 991 + salt
    cases = [gen.gen_case(base + i, gen.DEFAULT_PROFILE, dirsize=ds, p_fail=0.6) for i in range(n_rand // 2)]
    # rebuilding histories: changed versions and touched inputs make the failing build move old outputs aside first
    cases += [gen.gen_case(base + 500000 + i, gen.DEFAULT_PROFILE, dirsize=ds, p_fail=0.5, p_clean=0.0, versions_pool=gen.VERSION_POOL,
                           min_builds=3, max_builds=6) for i in range(n_rand - n_rand // 2)]
    cases += gen.gen_scenario_cases(core.seed() * 31 + 202 + salt, per_fam, ds, gen.SCENARIOS + [gen.scen_cache_subdir])
    cases = [gen.rename_components(c, {'b': 'ab'}) if i % 3 == 1 else c for i, c in enumerate(cases)]
    caps_per_case = core.pmap(_worker, cases)
    caps = []
    problems = []
    for c, cc in zip(cases, caps_per_case):
        if isinstance(cc, dict):
            problems.append({'what': '_roll_back cannot be observed as FB.Rollback describes it: ' + cc['error'], 'case': {'seed': c.get('seed')}})
            break
        caps += cc
    rep.count('rollbacks_captured', len(caps))
    outs = model.run_cases([{k: v for k, v in c.items() if k not in ('after', 'before_build')} for c in caps]) if caps else []
    for c, mo in zip(caps, outs):
        why = undoable(c)
        rep.count('rollbacks_undoable' if why is None else 'rollbacks_outside_hypothesis:' + why)
        if c['saved']:
            rep.count('rollbacks_with_saved_files')
        if mo['tree'] != c['after']:
            got = {x[0]: x for x in c['after']}
            exp = {x[0]: x for x in mo['tree']}
            diff = sorted(k for k in set(got) | set(exp) if got.get(k) != exp.get(k))
            problems.append({'what': 'FileBuilder._roll_back and FB.Rollback.rollBack differ', 'differ_at': diff[:6],
                             'real': [got.get(k) for k in diff[:6]], 'model': [exp.get(k) for k in diff[:6]],
                             'state': {k: v for k, v in c.items() if k not in ('after', 'before_build')}})
    return problems
