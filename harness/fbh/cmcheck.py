"""FileBuilder._commit against the Lean model FB.Commit.

(1) On the states in which the real code really commits: generated histories are run on /repo with a wrapper around
_commit that records - when it is entered - the physical tree P, the answers of the virtual tree (the build's
SimpleOperationExecutor.is_file / is_dir, asked for every path of P and every recorded path; the bookkeeping of
BuildDirs is put back afterwards, the queries memoise), the old outputs, the old created directories and the
error-created directories, and the tree when it returns.  FB.Commit.commit on the recorded state must give the recorded
result.  The hypotheses of the theorems commit_exact / commit_exact_general (the physical tree is the virtual tree plus
stale outputs plus directories only the disk knows; for the former also: the cache file's directory is virtually there)
are evaluated on every recorded state, and where they hold the conclusion is judged on the real tree: after _commit it
is the virtual tree, the cache file aside (and, under the general theorem only, its directory and ancestors aside).

(2) On random trees with random (also contradictory) answers of the virtual tree, the real method on a stand-in
object: result equal to the model's, and - judged on the real side - nothing but old outputs unknown to the virtual
tree and listed directories is gone (commit_frame)."""
import copy
import importlib
import logging
import os
import random
import shutil
import tempfile
import types

from . import core, gen, model, realrun
from .rbcheck import _snap

NAMES = ['a', 'b', 'c']
BASE_NS = 1_600_000_000_000_000_000


def capture_case(case):
    fb = realrun.load_fb()
    FB = fb.FileBuilder
    shared = {}
    caps = []
    orig = FB._commit

    def wrapper(self, norm_cased_error_created_dirs):
        root, cache_abs = shared['root'], shared['cache']

        def rel(x):
            x = os.path.abspath(x)
            return os.path.relpath(x, root) if x.startswith(root + os.sep) else None

        def rels(xs):
            return sorted(set(r for r in (rel(x) for x in xs) if r is not None))
        err = list(norm_cased_error_created_dirs)
        cap = {'kind': 'cm', 'tree': _snap(root, cache_abs), 'cf': rel(cache_abs),
               'oldFiles': rels(self._old_cache.created_files()), 'oldDirs': rels(self._old_cache.created_dirs()),
               'errDirs': rels(err)}
        paths = sorted(set([n[0] for n in cap['tree']] + cap['oldFiles'] + cap['oldDirs'] + cap['errDirs']))
        bd = self._build_dirs
        keep = {k: copy.copy(v) for k, v in bd.__dict__.items() if isinstance(v, (set, dict, list))}
        ex = self._simple_operation_executor
        cap['virtFiles'] = [p for p in paths if ex.is_file(os.path.join(root, p))]
        cap['virtDirs'] = [p for p in paths if ex.is_dir(os.path.join(root, p))]
        for k, v in keep.items():
            bd.__dict__[k] = v
        try:
            return orig(self, norm_cased_error_created_dirs)
        finally:
            cap['after'] = _snap(root, cache_abs)
            caps.append(cap)

    def pre(ctx, root, cache_abs):
        shared.update(root=root, cache=cache_abs)
    FB._commit = wrapper
    try:
        realrun.run_case(case, hooks={'pre_build': pre})
    finally:
        FB._commit = orig
    return caps


def _worker(case):
    try:
        return capture_case(case)
    except Exception as e:      # pragma: no cover - the library cannot be driven this way any more
        return {'error': '%s: %s' % (type(e).__name__, str(e)[:200])}


def hypotheses(cap):
    """the hypotheses of FB.Commit.commit_exact on a captured state; None if all hold, else the name of the first that fails"""
    P = {n[0]: n for n in cap['tree']}
    vf, vd = set(cap['virtFiles']), set(cap['virtDirs'])
    cf = cap['cf']
    if vf & vd:
        return 'virtual_kinds'
    for q in vf:
        if (P.get(q) or [None, None])[1] != 'file':
            return 'hsub'
    for q in vd:
        if (P.get(q) or [None, None])[1] != 'dir':
            return 'hsub'
    for q in vf | vd:       # TreeWF V
        par = os.path.dirname(q)
        if par and par not in vd:
            return 'hwfV'
    old_files, old_dirs, err = set(cap['oldFiles']), set(cap['oldDirs']), set(cap['errDirs'])
    for q, n in P.items():
        if q in vf or q in vd:
            continue
        if n[1] == 'file' and q != cf and q not in old_files:
            return 'hfiles'
        if n[1] == 'dir' and q not in err and q not in old_dirs:
            return 'hdirs'
    if err & vd:         # an error-created directory the virtual tree lists as a directory (one that is a regular file by now is harmless)
        return 'herr'
    if cf in P and os.path.dirname(cf) and os.path.dirname(cf) not in vd:
        return 'hcf'
    return None


def run_histories(tier, rep, ds, salt=0):
    n_rand, per_fam = (120, 8) if tier == 'quick' else (3000, 120)
    base = core.seed() * 1000003 + 4242 + salt
    cases = [gen.gen_case(base + i, gen.DEFAULT_PROFILE, dirsize=ds, p_fail=0.15, p_clean=0.05, versions_pool=gen.VERSION_POOL,
                          min_builds=3, max_builds=6) for i in range(n_rand)]
    cases += gen.gen_scenario_cases(core.seed() * 31 + 404 + salt, per_fam, ds, gen.SCENARIOS + [gen.scen_cache_subdir])
    problems = []
    # in slices, so that the recorded trees of tens of thousands of commits are never all in memory
    for lo in range(0, len(cases), 1500):
        problems += _judge(rep, cases[lo:lo + 1500])
        if any('cannot be observed' in q['what'] for q in problems):
            break
    return problems


def _judge(rep, cases):
    caps_per_case = core.pmap(_worker, cases)
    caps, problems = [], []
    for c, cc in zip(cases, caps_per_case):
        if isinstance(cc, dict):
            problems.append({'what': '_commit cannot be observed as FB.Commit describes it: ' + cc['error'], 'case': {'seed': c.get('seed')}})
            break
        caps += cc
    rep.count('commits_captured', len(caps))
    outs = model.run_cases([{k: v for k, v in c.items() if k != 'after'} for c in caps]) if caps else []
    for c, mo in zip(caps, outs):
        why = hypotheses(c)
        rep.count('commits_within_commit_exact' if why is None else 'commits_within_commit_exact_general_only' if why == 'hcf' else 'commits_outside_hypothesis:' + why)
        before = {x[0]: x for x in c['tree']}
        got = {x[0]: x for x in c['after']}
        removed = [k for k in before if k not in got]
        if any(before[k][1] == 'file' for k in removed):
            rep.count('commits_removing_stale_outputs')
        if any(before[k][1] == 'dir' for k in removed):
            rep.count('commits_removing_directories')
        if why in (None, 'hcf'):
            # outside `hcf` the theorem is commit_exact_general: the cache file's directory and its ancestors may stay
            vf, vd = set(c['virtFiles']), set(c['virtDirs'])
            cfp = c['cf']
            bad = [k for k in set(got) | vf | vd if k != cfp and (why is None or k in vf or k in vd or not cfp.startswith(k + '/')) and
                   ((got.get(k) or [None, None])[1] != ('file' if k in vf else 'dir' if k in vd else None))]
            if bad:
                problems.append({'what': 'after _commit the tree on disk is not the virtual tree', 'oracle': True, 'differ_at': sorted(bad)[:6],
                                 'state': {k: v for k, v in c.items() if k != 'after'}})
        if mo.get('tree') != c['after']:
            exp = {x[0]: x for x in mo.get('tree', [])}
            diff = sorted(k for k in set(got) | set(exp) if got.get(k) != exp.get(k))
            problems.append({'what': 'FileBuilder._commit and FB.Commit.commit differ', 'differ_at': diff[:6],
                             'real': [got.get(k) for k in diff[:6]], 'model': [exp.get(k) for k in diff[:6]],
                             'state': {k: v for k, v in c.items() if k != 'after'}})
    return problems


def gen_unit(rng):
    tree = {}
    for _ in range(rng.randint(1, 9)):
        comps = [rng.choice(NAMES) for _ in range(rng.randint(1, 3))]
        p = '/'.join(comps)
        ok = all(tree.get('/'.join(comps[:k]), 'dir') == 'dir' for k in range(1, len(comps)))
        if not ok or p in tree:
            continue
        for k in range(1, len(comps)):
            tree['/'.join(comps[:k])] = 'dir'
        tree[p] = 'dir' if rng.random() < 0.45 else 'file'
    files = [p for p, k in tree.items() if k == 'file']
    dirs = [p for p, k in tree.items() if k == 'dir']
    ghosts = ['/'.join(rng.choice(NAMES) for _ in range(rng.randint(1, 3))) for _ in range(2)]
    pv = rng.choice([0.0, 0.3, 0.6])
    cf = rng.choice(files + ['cache.gz', 'cache.gz'])
    nodes = [[p, 'dir'] if k == 'dir' else [p, 'file', 'c%d' % i, 30 + i] for i, (p, k) in enumerate(sorted(tree.items()))]
    return {'kind': 'cm', 'tree': nodes, 'cf': cf,
            'oldFiles': sorted(set(p for p in files + ghosts + dirs if rng.random() < 0.6)),
            'oldDirs': sorted(set(p for p in dirs + ghosts if rng.random() < 0.6)),
            'errDirs': sorted(set(p for p in dirs + ghosts if rng.random() < 0.3)),
            'virtFiles': sorted(set(p for p in files + ghosts if rng.random() < pv)),
            'virtDirs': sorted(set(p for p in dirs + ghosts if rng.random() < pv))}


def real_unit(case):
    fb = realrun.load_fb()
    root = os.path.realpath(tempfile.mkdtemp(prefix='fbh_cm_', dir=realrun.SANDBOX_BASE))

    def ab(p):
        return os.path.join(root, p)
    was = logging.root.manager.disable
    logging.disable(logging.CRITICAL)
    try:
        for n in case['tree']:
            p = ab(n[0])
            if n[1] == 'dir':
                os.makedirs(p, exist_ok=True)
            else:
                os.makedirs(os.path.dirname(p), exist_ok=True)
                with open(p, 'w') as fh:
                    fh.write(n[2])
                os.utime(p, ns=(BASE_NS + n[3], BASE_NS + n[3]))
        vf = set(ab(p) for p in case['virtFiles'])
        vd = set(ab(p) for p in case['virtDirs'])
        fake = types.SimpleNamespace(
            _old_cache=types.SimpleNamespace(created_files=lambda: [ab(p) for p in case['oldFiles']],
                                             created_dirs=lambda: [ab(p) for p in case['oldDirs']]),
            _simple_operation_executor=types.SimpleNamespace(is_file=lambda f: f in vf, is_dir=lambda f: f in vd,
                                                             is_cache_file=lambda f: f == ab(case['cf'])))
        fb.FileBuilder._commit(fake, [ab(p) for p in case['errDirs']])
        out = []
        for r_, ds, fs in os.walk(root):
            for d in ds:
                out.append([os.path.relpath(os.path.join(r_, d), root), 'dir'])
            for f in fs:
                q = os.path.join(r_, f)
                with open(q) as fh:
                    out.append([os.path.relpath(q, root), 'file', fh.read(), os.stat(q).st_mtime_ns - BASE_NS])
        out.sort(key=lambda x: x[0])
        return out
    finally:
        logging.disable(was)
        shutil.rmtree(root, ignore_errors=True)


def run_units(tier, rep, salt=0):
    n = 400 if tier == 'quick' else 12000
    rng = random.Random(core.seed() * 86028121 + 5 + salt)
    cases = [gen_unit(rng) for _ in range(n)]
    outs = model.run_cases(cases)
    problems = []
    for c, mo in zip(cases, outs):
        try:
            after = real_unit(c)
        except Exception as e:
            problems.append({'what': '_commit cannot be driven as FB.Commit describes it: %s: %s' % (type(e).__name__, str(e)[:200]), 'case': c})
            break
        rep.count('commit_unit_calls')
        got = {x[0]: x for x in after}
        for x in c['tree']:
            if x[0] in got:
                continue
            rep.count('commit_unit_removed_' + x[1])
            stale = x[1] == 'file' and x[0] in c['oldFiles'] and x[0] not in c['virtFiles'] and x[0] != c['cf']
            listed = x[1] == 'dir' and (x[0] in c['errDirs'] or (x[0] in c['oldDirs'] and x[0] not in c['virtDirs']))
            if not stale and not listed:
                problems.append({'what': '_commit removed something that is neither an old output unknown to the virtual tree nor a listed directory',
                                 'oracle': True, 'path': x[0], 'case': c})
                break
        if mo.get('tree') != after:
            problems.append({'what': 'FileBuilder._commit and FB.Commit.commit differ', 'case': c, 'real': after, 'model': mo.get('tree')})
    return problems


def run(tier, rep, ds, salt=0):
    return run_units(tier, rep, salt) + run_histories(tier, rep, ds, salt)
