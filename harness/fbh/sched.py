"""Deterministic cooperative scheduler for the real, multi-threaded FileBuilder.

Only one library thread runs at a time.  A thread gives up control at *yield points*: every lock
operation of the library (its `threading.Lock`s are replaced by logical locks) and every file-system
call the library makes (its `os` module is replaced by a yielding proxy).  Nothing in /repo is
changed: the proxies are installed in the namespaces of the file_builder modules from outside.

A schedule is a dict {decision index: thread id} of deviations from the default policy ("keep running
the current thread; when it cannot run, take the runnable thread with the lowest id").  `explore`
enumerates every schedule with at most `bound` preemptions.
"""
import os as real_os
import sys
import threading as real_threading
import types

_MODS = ['file_builder.file_builder', 'file_builder.cache', 'file_builder.build_dirs',
         'file_builder.file_backups', 'file_builder.simple_operation_executor', 'file_builder.created_files']

OS_FUNCS = ['mkdir', 'rmdir', 'rename', 'replace', 'remove', 'makedirs', 'listdir', 'stat']
PATH_FUNCS = ['isfile', 'isdir', 'exists', 'getsize', 'islink']


_MISSING = object()


class Deadlock(Exception):
    pass


class Scheduler:
    def __init__(self, deviations=None, trace_fs_reads=True):
        self.deviations = dict(deviations or {})
        self.threads = {}          # tid -> dict(sem, state, waiting, thread, exc)
        self.current = None
        self.decisions = []        # (index, runnable tids, chosen, was_preemption_possible)
        self.trace = []            # (tid, label)
        self.main_sem = real_threading.Semaphore(0)
        self.next_tid = 0
        self.locks = []
        self.held = {}             # lock id -> tid
        self.lock_edges = set()    # (held lock name, acquired lock name)
        self.fs_exec = []          # (len(trace) when the call really ran, tid, name)
        self.active = False

    # ---- called from library threads -------------------------------------------------------
    def _me(self):
        return getattr(_tls, 'tid', None)

    def yield_point(self, label):
        tid = self._me()
        if tid is None or not self.active:
            return
        self.trace.append((tid, label))
        t = self.threads[tid]
        t['state'] = 'ready'
        self.main_sem.release()
        t['sem'].acquire()

    def block_on(self, pred, label):
        """wait (logically) until pred() holds; pred is evaluated by the scheduler"""
        tid = self._me()
        t = self.threads[tid]
        while not pred():
            t['state'] = 'blocked'
            t['pred'] = pred
            self.trace.append((tid, 'blocked:' + label))
            self.main_sem.release()
            t['sem'].acquire()
        t['state'] = 'running'

    def spawn(self, fn, name=None):
        tid = self.next_tid
        self.next_tid += 1
        rec = {'sem': real_threading.Semaphore(0), 'state': 'ready', 'pred': None, 'exc': None, 'result': None,
               'name': name or 'T%d' % tid}

        def runner():
            _tls.tid = tid
            rec['sem'].acquire()
            try:
                rec['result'] = fn()
            except BaseException as e:   # noqa
                rec['exc'] = e
            finally:
                rec['state'] = 'done'
                self.trace.append((tid, 'done'))
                self.main_sem.release()
        th = real_threading.Thread(target=runner, daemon=True)
        rec['thread'] = th
        self.threads[tid] = rec
        th.start()
        return tid

    def join(self, tids):
        self.block_on(lambda: all(self.threads[t]['state'] == 'done' for t in tids), 'join')

    # ---- main loop ----------------------------------------------------------------------------
    def runnable(self):
        out = []
        for tid, t in sorted(self.threads.items()):
            if t['state'] == 'ready':
                out.append(tid)
            elif t['state'] == 'blocked' and t['pred']():
                out.append(tid)
        return out

    def run(self, root_fn, max_steps=200000):
        self.active = True
        root = self.spawn(root_fn, 'root')
        self.current = root
        steps = 0
        try:
            while True:
                r = self.runnable()
                if not r:
                    if all(t['state'] == 'done' for t in self.threads.values()):
                        break
                    raise Deadlock('no runnable thread: %s' % {k: v['state'] for k, v in self.threads.items()})
                idx = len(self.decisions)
                default = self.current if self.current in r else r[0]
                chosen = self.deviations.get(idx, default)
                if chosen not in r:
                    chosen = default
                self.decisions.append((idx, r, chosen, default))
                self.current = chosen
                t = self.threads[chosen]
                t['state'] = 'running'
                t['sem'].release()
                self.main_sem.acquire()
                steps += 1
                if steps > max_steps:
                    raise Deadlock('step limit')
        finally:
            self.active = False
        return self.threads[root]


_tls = real_threading.local()
_current = [None]    # the active Scheduler


class SchedLock:
    """logical lock: only one library thread runs at a time, so ownership is a field"""
    _count = [0]

    def __init__(self, name=None):
        SchedLock._count[0] += 1
        self.name = name or 'L%d' % SchedLock._count[0]
        self.owner = None
        self.fallback = real_threading.Lock()

    def acquire(self, blocking=True, timeout=-1):
        s = _current[0]
        if s is None or not s.active or getattr(_tls, 'tid', None) is None:
            return self.fallback.acquire(blocking, timeout)
        tid = _tls.tid
        s.yield_point('acquire:' + self.name)
        if self.owner is not None and self.owner != tid:
            s.block_on(lambda: self.owner is None, 'lock:' + self.name)
        for l in s.locks:
            if l.owner == tid and l is not self:
                s.lock_edges.add((l.kind, self.kind))
        self.owner = tid
        if self not in s.locks:
            s.locks.append(self)
        return True

    def release(self):
        s = _current[0]
        if s is None or not s.active or getattr(_tls, 'tid', None) is None:
            return self.fallback.release()
        self.owner = None
        s.yield_point('release:' + self.name)

    def __enter__(self):
        self.acquire()
        return self

    def __exit__(self, *a):
        self.release()

    def locked(self):
        return self.owner is not None

    kind = '?'


def _make_threading_proxy(modname):
    proxy = types.ModuleType('threading_proxy')
    proxy.__dict__.update({k: getattr(real_threading, k) for k in dir(real_threading) if not k.startswith('__')})

    def Lock():
        l = SchedLock()
        # name the lock after the attribute it is about to be stored in (set by the caller's frame)
        f = sys._getframe(1)
        l.kind = '%s:%d' % (f.f_code.co_filename.rsplit('/', 1)[-1], f.f_lineno)
        return l
    proxy.Lock = Lock
    return proxy


def _make_os_proxy():
    proxy = types.ModuleType('os_proxy')
    proxy.__dict__.update({k: getattr(real_os, k) for k in dir(real_os) if not k.startswith('__')})
    pathp = types.ModuleType('os_path_proxy')
    pathp.__dict__.update({k: getattr(real_os.path, k) for k in dir(real_os.path) if not k.startswith('__')})

    def wrap(name, fn):
        def w(*a, **k):
            s = _current[0]
            if s is not None:
                arg = a[0] if a else ''
                s.yield_point('%s:%s' % (name, arg))
                s.fs_exec.append((len(s.trace), s._me(), name, str(arg)))
            return fn(*a, **k)
        w.__name__ = name
        return w
    for n in OS_FUNCS:
        setattr(proxy, n, wrap(n, getattr(real_os, n)))
    for n in PATH_FUNCS:
        setattr(pathp, n, wrap(n, getattr(real_os.path, n)))
    proxy.path = pathp
    return proxy


class _YieldingFile:
    """a file object that gives up control after every read: between reading a chunk and using it another thread may run"""

    def __init__(self, f, name):
        self._f = f
        self._name = name

    def _yield(self, what):
        s = _current[0]
        if s is not None:
            s.yield_point('%s:%s' % (what, self._name))

    def read(self, *a):
        data = self._f.read(*a)
        self._yield('read')
        return data

    def readinto(self, b):
        n = self._f.readinto(b)
        self._yield('readinto')
        return n

    def __enter__(self):
        self._f.__enter__()
        return self

    def __exit__(self, *a):
        return self._f.__exit__(*a)

    def __iter__(self):
        return iter(self._f)

    def __getattr__(self, k):
        return getattr(self._f, k)


def _yielding_open(file, mode='r', *a, **k):
    f = open(file, mode, *a, **k)
    if 'r' in mode and _current[0] is not None:
        return _YieldingFile(f, str(file))
    return f


# modules whose own reads of file contents (hashing) are interleaved: the bytes read must not be shared between threads
_OPEN_MODS = ['file_builder.simple_operation_executor']


class Installed:
    """context manager: route the library's locks and file-system calls through the scheduler"""

    def __init__(self, sched):
        self.sched = sched
        self.saved = []

    def __enter__(self):
        import importlib
        osp = _make_os_proxy()
        for m in _MODS:
            mod = importlib.import_module(m)
            if hasattr(mod, 'threading'):
                self.saved.append((mod, 'threading', mod.threading))
                mod.threading = _make_threading_proxy(m)
            if hasattr(mod, 'os'):
                self.saved.append((mod, 'os', mod.os))
                mod.os = osp
            if m in _OPEN_MODS:
                self.saved.append((mod, 'open', mod.__dict__.get('open', _MISSING)))
                mod.open = _yielding_open
        _current[0] = self.sched
        return self

    def __exit__(self, *a):
        _current[0] = None
        for mod, name, val in self.saved:
            if val is _MISSING:
                delattr(mod, name)
            else:
                setattr(mod, name, val)


def explore(run_one, bound, max_schedules=None, rng=None):
    """run_one(deviations) -> (outcome, scheduler).  Enumerate schedules with <= bound preemptions
    (depth-first over the deviation sets), yielding (deviations, outcome, scheduler)."""
    stack = [{}]
    seen = 0
    while stack:
        dev = stack.pop()
        outcome, s = run_one(dev)
        seen += 1
        yield dev, outcome, s
        if max_schedules is not None and seen >= max_schedules:
            return
        if len(dev) >= bound:
            continue
        last = max(dev) if dev else -1
        children = []
        for idx, runnable, chosen, default in s.decisions:
            if idx <= last:
                continue
            for t in runnable:
                if t != chosen:
                    d2 = dict(dev)
                    d2[idx] = t
                    children.append(d2)
        if rng is not None:
            rng.shuffle(children)
        stack.extend(reversed(children))
