"""C07 (path half): FileBuilder._sanitize_filename of /repo against the Lean model FB.PathNorm.abspath on random
spellings (leading slashes 0..4, empty / '.' / '..' / ordinary / non-ASCII components, as str, bytes and
os.PathLike), under the harness's own working directory."""
import os
import random

from . import core, model, realrun

COMPS = ['a', 'b', 'c d', 'é', '', '', '.', '..', '..', 'x.txt', '...', '.h']


class P:
    def __init__(self, p):
        self.p = p

    def __fspath__(self):
        return self.p


def run(tier, rep):
    fb = realrun.load_fb()
    n = 3000 if tier == 'quick' else 200000
    rng = random.Random(core.seed() * 49979687 + 7)
    cwd = os.getcwd()
    cwd_comps = [c for c in cwd.split('/') if c]
    items, strings = [], []
    for _ in range(n):
        k = rng.choice([0, 0, 0, 1, 1, 2, 3, 4])
        comps = [rng.choice(COMPS) for _ in range(rng.randint(0, 6))]
        s = '/' * k + '/'.join(comps)
        rest = s[len(s) - len(s.lstrip('/')):]
        kk = len(s) - len(rest)
        items.append([kk, rest.split('/')])
        strings.append(s)
    outs = model.run_cases([{'kind': 'path', 'cwd': cwd_comps, 'items': items}])[0]['outs']
    problems = []
    for s, (mn, mcomps) in zip(strings, outs):
        want = '/' * mn + '/'.join(mcomps)
        kind = rng.choice(['str', 'bytes', 'pathlike', 'pathlike_bytes'])
        arg = {'str': s, 'bytes': os.fsencode(s), 'pathlike': P(s), 'pathlike_bytes': P(os.fsencode(s))}[kind]
        try:
            got = fb.FileBuilder._sanitize_filename(arg)
        except Exception as e:
            got = 'EXC:' + type(e).__name__
        rep.count('path_spellings')
        if got != want or type(got) is not str:
            problems.append({'what': '_sanitize_filename differs from FB.PathNorm.abspath', 'input': repr(arg if kind in ('str', 'bytes') else s),
                             'as': kind, 'real': got, 'model': want})
    return problems
