"""Wire format shared with FB/Wire.lean (see the header comment there)."""
import math

class Other:
    """a non-JSON Python value"""
    def __repr__(self): return 'Other()'

class StrSub(str): pass
class IntSub(int): pass
class FloatSub(float): pass
class ListSub(list): pass
class TupleSub(tuple): pass
class DictSub(dict): pass


def enc_num(x):
    if isinstance(x, bool):
        raise TypeError('bool is not a number here')
    if isinstance(x, int):
        return {'i': str(int(x))}
    if x != x:
        raise ValueError('NaN is outside the model')
    if math.isinf(x):
        return {'inf': x < 0}
    n, d = float(x).as_integer_ratio()
    k = d.bit_length() - 1
    assert d == 1 << k
    negzero = (x == 0 and math.copysign(1.0, x) < 0)
    return {'f': [str(n), str(k), negzero]}


def enc_key(k):
    c = k.__class__
    if c is str:
        return k
    if isinstance(k, str):
        return {'sub': str(k)}
    if c is bool:
        return k
    if c is int:
        return {'i': str(k)}
    if c is float:
        if k != k:
            return {'nan': 1}
        e = enc_num(k)
        e['r'] = float.__repr__(k)
        return e
    if k is None:
        return None
    return {'o': 1}


def enc(v):
    """Python value -> wire JSON"""
    c = v.__class__
    if v is None or c is bool:
        return v
    if c is int or c is float:
        return enc_num(v)
    if c is str:
        return v
    if c is list:
        return {'l': [enc(x) for x in v]}
    if c is tuple:
        return {'t': [enc(x) for x in v]}
    if c is dict:
        return {'d': [[enc_key(k), enc(x)] for k, x in v.items()]}
    if isinstance(v, bool):
        return {'o': 1}
    if isinstance(v, str):
        return {'sub': str(v)}
    if isinstance(v, int):
        return {'sub': enc_num(int(v))}
    if isinstance(v, float):
        return {'sub': enc_num(float(v))}
    if isinstance(v, list):
        return {'sub': {'l': [enc(x) for x in v]}}
    if isinstance(v, tuple):
        return {'sub': {'t': [enc(x) for x in v]}}
    if isinstance(v, dict):
        return {'sub': {'d': [[enc_key(k), enc(x)] for k, x in v.items()]}}
    return {'o': 1}


def dec_num(j):
    if 'i' in j:
        return int(j['i'])
    if 'inf' in j:
        return -math.inf if j['inf'] else math.inf
    n, k, nz = j['f']
    n = int(n); k = int(k)
    if n == 0:
        return -0.0 if nz else 0.0
    return math.ldexp(float(n), -k)


def dec(j):
    """wire JSON (as emitted by the model: sanitized values, tuples, hashables) -> Python value"""
    if j is None or isinstance(j, bool) or isinstance(j, str):
        return j
    if 'l' in j:
        return [dec(x) for x in j['l']]
    if 't' in j:
        return tuple(dec(x) for x in j['t'])
    if 'd' in j:
        return {k: dec(x) for k, x in j['d']}
    return dec_num(j)


def type_exact_equal(a, b):
    """equality that distinguishes bool/int/float, list/tuple, -0.0/0.0 and dict order is ignored"""
    if a.__class__ is not b.__class__:
        return False
    if isinstance(a, (list, tuple)):
        return len(a) == len(b) and all(type_exact_equal(x, y) for x, y in zip(a, b))
    if isinstance(a, dict):
        return (len(a) == len(b) and all(k in b and type_exact_equal(v, b[k]) for k, v in a.items()))
    if isinstance(a, float):
        return a == b and math.copysign(1, a) == math.copysign(1, b)
    return a == b
