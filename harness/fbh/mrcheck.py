"""FileBuilder._make_room against the Lean model FB.MakeRoom: on random trees with a random choice of which paths the
virtual tree knows (stub SimpleOperationExecutor.is_dir/is_file), the real method of /repo is called on a stand-in
object with a real FileBackups (os.listdir of the module is made to return sorted names, as the model assumes).
Outcome (returns / IsADirectoryError), the resulting tree and the undo log must equal the model's.  On the real side
the property is judged as well: nothing the virtual tree knows is touched, and no regular file disappears without
being in the undo log.

With `failAt` in the case (C14) the k-th mutating call the method makes - the os.rename of back_up_and_remove, the
os.rmdir of a cleared directory - raises OSError(EIO), and the model is FB.MakeRoomF (theorems makeRoomF_moved,
makeRoomF_no_file_lost, makeRoomF_raw, makeRoomF_none): outcome (returns / IsADirectoryError / the raw OSError),
number of calls that went through, tree and undo log must agree, and the same real-side judgement applies."""
import importlib
import logging
import os
import random
import shutil
import tempfile
import types

from . import core, model, realrun

NAMES = ['a', 'b', 'c']
BASE_NS = 1_600_000_000_000_000_000


def gen_case(rng):
    tree = {'d': 'dir'}
    for _ in range(rng.randint(0, 7)):
        comps = ['d'] + [rng.choice(NAMES) for _ in range(rng.randint(1, 3))]
        p = '/'.join(comps)
        ok = all(tree.get('/'.join(comps[:k]), 'dir') == 'dir' for k in range(1, len(comps)))
        if not ok or p in tree:
            continue
        for k in range(1, len(comps)):
            tree['/'.join(comps[:k])] = 'dir'
        tree[p] = 'dir' if rng.random() < 0.4 else 'file'
    pv = rng.choice([0.0, 0.0, 0.15, 0.4])
    virt_dirs = sorted(p for p, k in tree.items() if k == 'dir' and p != 'd' and rng.random() < pv)
    virt_files = sorted(p for p, k in tree.items() if k == 'file' and rng.random() < pv)
    # answers that contradict the real kind (another thread, external changes) are part of the input space too
    if rng.random() < 0.1:
        virt_files += [p for p, k in tree.items() if k == 'dir' and rng.random() < 0.2]
    nodes = [[p, 'dir'] if k == 'dir' else [p, 'file', 'c%d' % i, 70 + i] for i, (p, k) in enumerate(sorted(tree.items()))]
    return {'kind': 'mr', 'tree': nodes, 'dir': 'd', 'virtDirs': virt_dirs, 'virtFiles': sorted(set(virt_files))}


def real_run(case):
    fb = realrun.load_fb()
    mod = importlib.import_module('file_builder.file_builder')
    bkmod = importlib.import_module('file_builder.file_backups')
    root = os.path.realpath(tempfile.mkdtemp(prefix='fbh_mr_', dir=realrun.SANDBOX_BASE))

    def ab(p):
        return os.path.join(root, p) if p else root

    def rel(x):
        return os.path.relpath(x, root)

    def tree():
        out = []
        for r_, ds, fs in os.walk(root):
            for d in ds:
                out.append([rel(os.path.join(r_, d)), 'dir'])
            for f in fs:
                q = os.path.join(r_, f)
                with open(q) as fh:
                    out.append([rel(q), 'file', fh.read(), os.stat(q).st_mtime_ns - BASE_NS])
        out.sort(key=lambda x: x[0])
        return out
    proxy = type(os)('os_sorted_listdir')
    proxy.__dict__.update({k: getattr(os, k) for k in dir(os) if not k.startswith('__')})
    proxy.listdir = lambda d: sorted(os.listdir(d))
    fail_at = case.get('failAt')
    calls = [0]

    def counted(fn):
        def w(*a, **kw):
            if fail_at is not None and calls[0] == fail_at:
                fail_at_fired.append(1)
                raise OSError(5, 'injected fault', str(a[0]) if a else '')
            calls[0] += 1
            return fn(*a, **kw)
        return w
    fail_at_fired = []
    bkproxy = type(os)('os_counted_rename')
    bkproxy.__dict__.update({k: getattr(os, k) for k in dir(os) if not k.startswith('__')})
    if fail_at is not None:
        proxy.rmdir = counted(os.rmdir)
        bkproxy.rename = counted(os.rename)
        bkproxy.replace = counted(os.replace)
    saved_os = mod.os
    saved_bkos = bkmod.os
    was = logging.root.manager.disable
    logging.disable(logging.CRITICAL)
    try:
        for n in case['tree']:
            p = ab(n[0])
            if n[1] == 'dir':
                os.makedirs(p, exist_ok=True)
            else:
                os.makedirs(os.path.dirname(p), exist_ok=True)
                with open(p, 'w') as fh:
                    fh.write(n[2])
                os.utime(p, ns=(BASE_NS + n[3], BASE_NS + n[3]))
        before = tree()
        vd = set(ab(p) for p in case['virtDirs'])
        vf = set(ab(p) for p in case['virtFiles'])
        with bkmod.FileBackups() as backups:
            fake = types.SimpleNamespace(
                _simple_operation_executor=types.SimpleNamespace(is_dir=lambda f: f in vd, is_file=lambda f: f in vf),
                _backups=backups)
            fake._make_room = lambda d, fn: fb.FileBuilder._make_room(fake, d, fn)
            mod.os = proxy
            if fail_at is not None:
                bkmod.os = bkproxy
            try:
                fb.FileBuilder._make_room(fake, ab(case['dir']), ab(case['dir']))
                outcome = 'ok'
            except IsADirectoryError:
                outcome = 'IsADirectoryError'
            except OSError as e:
                if fail_at is None or not fail_at_fired or e.errno != 5:
                    raise
                outcome = 'OSError'
            finally:
                mod.os = saved_os
                bkmod.os = saved_bkos
            saved = []
            for orig, bak in backups._backups:
                with open(bak) as fh:
                    saved.append([rel(orig), fh.read(), os.stat(bak).st_mtime_ns - BASE_NS])
            after = tree()
        return {'outcome': outcome, 'tree': after, 'saved': saved, 'before': before, 'calls': calls[0]}
    finally:
        mod.os = saved_os
        bkmod.os = saved_bkos
        logging.disable(was)
        shutil.rmtree(root, ignore_errors=True)


def run(tier, rep, salt=0, faults=False):
    n = 400 if tier == 'quick' else (3000 if faults else 20000)
    rng = random.Random(core.seed() * 49979693 + 3 + salt)
    cases = [gen_case(rng) for _ in range(n)]
    if faults:
        # every position of the fault for each tree: 0 .. (number of mutating calls of the fault-free run)
        base = model.run_cases([dict(c, failAt=10 ** 6) for c in cases])
        cases = [dict(c, failAt=k) for c, b in zip(cases, base) for k in range(b['calls'] + 1)]
        if tier == 'quick':
            cases = rng.sample(cases, min(len(cases), 700))
    outs = model.run_cases(cases)
    problems = []
    for c, mo in zip(cases, outs):
        try:
            ro = real_run(c)
        except Exception as e:      # the method can no longer be driven this way
            problems.append({'what': '_make_room cannot be driven as FB.MakeRoom describes it: %s: %s' % (type(e).__name__, str(e)[:200]), 'case': c})
            break
        rep.count('makeroom_calls' if not faults else 'makeroom_fault_runs')
        rep.count(('makeroom_' if not faults else 'makeroom_fault_') + ro['outcome'])
        rep.count('makeroom_files_moved_aside', len(ro['saved']))
        # the property itself, on the real code
        a = {x[0]: x for x in ro['tree']}
        logged = {s[0]: s for s in ro['saved']}
        for x in ro['before']:
            if x[0] == c['dir']:
                continue
            known = x[0] in (c['virtFiles'] if x[1] == 'file' else c['virtDirs'])
            if known and a.get(x[0]) != x:
                problems.append({'what': '_make_room touched something the virtual tree knows', 'oracle': True, 'path': x[0], 'case': c})
                break
            if x[1] == 'file' and a.get(x[0]) != x and logged.get(x[0]) != [x[0], x[2], x[3]]:
                problems.append({'what': '_make_room removed a regular file without saving it', 'oracle': True, 'path': x[0], 'case': c})
                break
        got = {'outcome': ro['outcome'], 'tree': ro['tree'], 'saved': ro['saved']}
        exp = {'outcome': mo['outcome'], 'tree': mo['tree'], 'saved': mo['saved']}
        if faults:
            got['calls'] = ro['calls']
            exp['calls'] = mo.get('calls')
        if got != exp:
            problems.append({'what': 'FileBuilder._make_room and FB.MakeRoom%s.makeRoom differ' % ('F' if faults else ''), 'case': c, 'real': got, 'model': exp})
    return problems
