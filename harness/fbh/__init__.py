"""fbh - correspondence / oracle harness tying the Lean model (/verif/lean) to /repo."""
