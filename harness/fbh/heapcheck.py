"""C11 on the heap: real builds of /repo against the Lean model FB.Heap.

User code (this harness) builds container values, passes them to build_file / subbuild, receives arguments, returns
containers, receives results (fresh and served from the cache), queries list_dir / walk - and mutates IN PLACE, at
every such edge, the structures it holds: the caller's own argument objects after the call, the arguments inside the
callee, the object a function returned (kept by the function), the result the caller received, query results.
Every edge is logged as an event of FB.Heap (handles instead of addresses); the model replays the trace.

Judged on the real heap
  * oracle (the property itself): a record of the library - args/kwargs/return_value of the operation objects - has at
    the end of the build the value it had when it was made;
  * tie (FB.Heap describes the code): the model's records (C11_records_immutable says: unchanged) equal the real
    records, and the invariant `Inv.sep` holds on the real heap: no list/dict object reachable from a record is
    reachable from anything user code holds (by `id`).
The operation objects are located through FileBuilder._operation (a private attribute: when it cannot be found the
record comparison is skipped and counted, the separation of handed-out values from what was handed in is still
checked)."""
import os
import random
import shutil
import tempfile

from . import core, model, realrun

KEYS = ['a', 'b', 'c', 'd']


def gen_val(rng, depth=0):
    r = rng.random()
    if depth >= 3 or r < 0.35:
        return rng.choice([0, 1, 2, 'x', 'y', None, True, 1.5])
    if r < 0.7:
        return [gen_val(rng, depth + 1) for _ in range(rng.randint(0, 3))]
    if r < 0.78 and depth > 0:
        return tuple(gen_val(rng, depth + 1) for _ in range(rng.randint(0, 2)))
    ks = rng.sample(KEYS, rng.randint(0, 3))
    return {k: gen_val(rng, depth + 1) for k in ks}


def gen_container(rng):
    while True:
        v = gen_val(rng)
        if isinstance(v, (list, dict)):
            return v


def gen_func(rng, depth, counter, paths):
    kind = rng.choice(['sb', 'bf'])
    counter[0] += 1
    f = {'kind': kind, 'name': 'f%d' % counter[0],
         'args': [gen_container(rng) if rng.random() < 0.7 else gen_val(rng) for _ in range(rng.randint(0, 2))],
         'kwargs': {k: gen_container(rng) for k in rng.sample(['p', 'q'], rng.randint(0, 2))},
         'ret': gen_container(rng) if rng.random() < 0.8 else gen_val(rng),
         'ret_arg': rng.random() < 0.25,      # the function hands back one of the arguments it received
         'body': []}
    if kind == 'bf':
        f['path'] = 'out/%s.txt' % f['name']
    for _ in range(rng.randint(0, 3)):
        if depth < 2 and rng.random() < 0.5:
            f['body'].append(['call', gen_func(rng, depth + 1, counter, paths)])
        else:
            f['body'].append(['query', rng.choice(['list_dir', 'walk', 'walk']), rng.choice(paths)])
    return f


def gen_case(rng):
    counter = [0]
    paths = ['', 'd', 'd/e']
    main = {'kind': 'sb', 'name': 'main', 'args': [gen_container(rng)], 'kwargs': {}, 'ret': gen_container(rng),
            'body': [['query', 'list_dir', 'd']] + [['call', gen_func(rng, 1, counter, paths)] for _ in range(rng.randint(1, 3))] +
                    [['query', rng.choice(['list_dir', 'walk']), rng.choice(paths)]]}
    return {'main': main, 'mut_seed': rng.randrange(10 ** 9), 'p_mut': rng.choice([0.3, 0.6, 0.9]),
            'touch': rng.choice(['d/new', 'd/e/new', None])}


# ---------------------------------------------------------------------------------------------
class Tracer:
    """one build: the event trace for FB.Heap, the registry of user-held structures, the located records"""

    def __init__(self, rng, p_mut):
        self.cmds = []
        self.nroots = 0
        self.reg = {}          # id(container) -> (root, path)
        self.keep = []         # every registered object (ids stay valid)
        self.atoms = {}
        self.recs = []         # (label, getter of the real record value, value when recorded)
        self.unlocated = 0
        self.rng = rng
        self.p_mut = p_mut
        self.mutations = 0
        self.zz = 0
        self.edges = {}

    def atom(self, v):
        k = repr((type(v).__name__, v))
        if k not in self.atoms:
            self.atoms[k] = len(self.atoms)
        return self.atoms[k]

    def enc(self, v):
        if isinstance(v, (list, tuple)):
            return [self.enc(x) for x in v]
        if isinstance(v, dict):
            out = []
            for k in sorted(v):
                out.append(self.atom(k))
                out.append(self.enc(v[k]))
            return out
        return self.atom(v)

    def register(self, v, root, path):
        if isinstance(v, (list, tuple, dict)):
            self.reg[id(v)] = (root, list(path))
            self.keep.append(v)
            if isinstance(v, dict):
                for j, k in enumerate(sorted(v)):
                    self.register(v[k], root, path + [2 * j + 1])
            else:
                for i, x in enumerate(v):
                    self.register(x, root, path + [i])

    def forget_below(self, v):
        if isinstance(v, dict):
            kids = list(v.values())
        elif isinstance(v, (list, tuple)):
            kids = list(v)
        else:
            return
        for x in kids:
            if isinstance(x, (list, tuple, dict)):
                self.reg.pop(id(x), None)
                self.forget_below(x)

    def new_root(self, v, path=()):
        r = self.nroots
        self.nroots += 1
        self.register(v, r, list(path))
        return r

    def mk(self, v):
        """user code builds `v` from scratch"""
        self.cmds.append(['mk', self.enc(v)])
        return self.new_root(v)

    def count(self, k):
        self.edges[k] = self.edges.get(k, 0) + 1

    # -- in-place mutation of anything user code holds -----------------------------------------
    def mutate(self, v, edge):
        """mutate some list / dict inside `v` (a structure user code holds) in place"""
        if self.rng.random() >= self.p_mut:
            return
        cands = []

        def walk(x):
            if isinstance(x, (list, dict)) and id(x) in self.reg:
                cands.append(x)
            if isinstance(x, dict):
                for k in sorted(x):
                    walk(x[k])
            elif isinstance(x, (list, tuple)):
                for y in x:
                    walk(y)
        walk(v)
        if not cands:
            return
        c = self.rng.choice(cands)
        root, path = self.reg[id(c)]
        op = self.rng.choice(['clear', 'append', 'append', 'drop'])
        if op == 'drop' and len(c) == 0:
            op = 'append'
        self.mutations += 1
        self.count('mutated:' + edge)
        if op == 'clear':
            self.forget_below(c)
            c.clear()
            self.cmds.append(['clear', root, path])
        elif op == 'drop':
            if isinstance(c, dict):
                k = sorted(c)[-1]
                gone = c.pop(k)
                self.cmds.append(['drop', root, path, 2])
            else:
                gone = c.pop()
                self.cmds.append(['drop', root, path, 1])
            if isinstance(gone, (list, tuple, dict)):
                self.reg.pop(id(gone), None)
                self.forget_below(gone)
        else:
            new = self.rng.choice([7, 'added', [8], {'n': [9]}])
            if isinstance(c, dict):
                k = 'zz%03d' % self.zz
                self.zz += 1
                c[k] = new
                self.cmds.append(['append', root, path, self.atom(k)])
                self.cmds.append(['append', root, path, self.enc(new)])
                self.register(new, root, path + [2 * (len(c) - 1) + 1])
            else:
                c.append(new)
                self.cmds.append(['append', root, path, self.enc(new)])
                self.register(new, root, path + [len(c) - 1])

    # -- records ----------------------------------------------------------------------------------
    def record(self, label, getter, later=False):
        """the library made a record (same position as in the model's list); `later`: its value is read by fix()"""
        self.recs.append([label, getter, None])
        if not later:
            self.fix(len(self.recs) - 1)
        return len(self.recs) - 1

    def fix(self, i):
        label, getter, _ = self.recs[i]
        try:
            self.recs[i][2] = self.enc(getter())
        except Exception:
            self.unlocated += 1
            self.recs[i][1] = None


def run_build(FB, cache, root_dir, case, build_index):
    rng = random.Random('%s:%s' % (case['mut_seed'], build_index))
    tr = Tracer(rng, case['p_mut'])
    executed = []

    def ab(rel):
        return os.path.join(root_dir, rel) if rel else root_dir

    def do_call(b, f):
        """user code calls build_file / subbuild with freshly built arguments"""
        args = [realrun_copy(a) for a in f['args']]
        kwargs = {k: realrun_copy(v) for k, v in f['kwargs'].items()}
        arg_roots = [tr.mk(a) for a in args]
        kw_roots = {k: tr.mk(v) for k, v in kwargs.items()}
        state = {'entered': False, 'ret_obj': None}

        def body(bb, *a, **kw):
            if f['kind'] == 'bf':
                fn, a = a[0], a[1:]
            state['entered'] = True
            executed.append(f['name'])
            # the edge "arguments in": the bundle the caller passed, the record, what the callee receives
            bundle = [[{'h': [r, []]} for r in arg_roots], sum([[tr.atom(k), {'h': [kw_roots[k], []]}] for k in sorted(kw_roots)], [])]
            tr.cmds.append(['mk', bundle])
            bundle_root = tr.nroots
            tr.nroots += 1
            tr.cmds.append(['call', bundle_root])
            handed = tr.nroots
            tr.nroots += 1
            for i, x in enumerate(a):
                tr.register(x, handed, [0, i])
            for j, k in enumerate(sorted(kw)):
                tr.register(kw[k], handed, [1, 2 * j + 1])
            tr.count('args_in')
            op = getattr(bb, '_operation', None)
            tr.record('args of %s' % f['name'], lambda: [list(op.args), dict(op.kwargs)])
            for x in list(a) + [kw[k] for k in sorted(kw)]:
                tr.mutate(x, 'args inside the callee')
            run_body(bb, f)
            if f['kind'] == 'bf':
                with open(fn, 'w') as fh:
                    fh.write(f['name'])
            own = [i for i, x in enumerate(a) if isinstance(x, (list, dict)) and id(x) in tr.reg] if f.get('ret_arg') else []
            if own:
                # the function returns an object it was handed (and keeps it): the structure at (handed, [0, i])
                i = own[0]
                rv = a[i]
                state['ret_obj'] = rv
                tr.count('ret_own_argument')
                tr.cmds.append(['ret', handed, [0, i]])
            else:
                rv = realrun_copy(f['ret'])
                r = tr.mk(rv)
                state['ret_obj'] = rv
                # the edge "return value in": recorded, and a copy goes to the caller
                tr.cmds.append(['ret', r, []])
            state['handed_ret'] = tr.nroots
            tr.nroots += 1
            tr.count('ret_in')
            state['ret_rec'] = tr.record('return value of %s' % f['name'], lambda: op.return_value, later=True)
            return rv

        if f['kind'] == 'bf':
            res = b.build_file(ab(f['path']), f['name'], body, *args, **kwargs)
        else:
            res = b.subbuild(f['name'], body, *args, **kwargs)
        if state['entered']:
            tr.fix(state['ret_rec'])
            tr.register(res, state['handed_ret'], [])
            tr.count('ret_out_fresh')
        else:
            # served from the cache: the record was loaded by the library; the caller receives a copy
            tr.cmds.append(['query', tr.enc(res)])
            tr.new_root(res)
            tr.count('ret_out_cached')
            pop = getattr(b, '_operation', None)
            sub = pop.suboperations[-1] if pop is not None else None
            tr.record('cached return value of %s' % f['name'], lambda: sub.return_value)
        # the caller edits its own argument objects, the function edits the object it returned, the caller edits the result
        for x in args + [kwargs[k] for k in sorted(kwargs)]:
            tr.mutate(x, "the caller's own arguments after the call")
        if state['ret_obj'] is not None:
            tr.mutate(state['ret_obj'], 'the object the function returned (kept by the function)')
        tr.mutate(res, 'the result the caller received')
        return res

    def run_body(b, f):
        for act in f['body']:
            if act[0] == 'call':
                do_call(b, act[1])
            else:
                _, kind, rel = act
                try:
                    res = b.list_dir(ab(rel)) if kind == 'list_dir' else b.walk(ab(rel))
                except OSError:
                    continue
                res_names = strip_root(res, root_dir)
                tr.cmds.append(['query', tr.enc(res_names)])
                # the user holds `res` (absolute paths inside: the encoding goes through strip_root, structure is the same)
                shadow_register(tr, res, res_names)
                tr.count('query_out')
                pop = getattr(b, '_operation', None)
                sub = pop.suboperations[-1] if pop is not None else None
                tr.record('%s(%s)' % (kind, rel), lambda sub=sub: strip_root(sub.return_value, root_dir))
                tr.mutate(res, 'a query result')

    def rootf(b):
        return do_call(b, case['main'])
    result = FB.build(cache, 'heap', rootf)
    return tr, executed, result


def realrun_copy(v):
    import copy
    return copy.deepcopy(v)


def strip_root(v, root_dir):
    """walk/list_dir results with the sandbox prefix removed from path strings (same structure)"""
    if isinstance(v, str):
        if v == root_dir:
            return ''
        if v.startswith(root_dir + os.sep):
            return v[len(root_dir) + 1:]
        return v
    if isinstance(v, list):
        return [strip_root(x, root_dir) for x in v]
    if isinstance(v, tuple):
        return tuple(strip_root(x, root_dir) for x in v)
    if isinstance(v, dict):
        return {k: strip_root(x, root_dir) for k, x in v.items()}
    return v


def shadow_register(tr, real, names):
    """register the containers of `real` under a new root whose encoding is that of `names` (same shape)"""
    r = tr.nroots
    tr.nroots += 1

    def go(x, path):
        if isinstance(x, (list, tuple)):
            tr.reg[id(x)] = (r, list(path))
            tr.keep.append(x)
            for i, y in enumerate(x):
                go(y, path + [i])
    go(real, [])
    return r


def containers(v, out):
    if isinstance(v, (list, dict)):
        if id(v) in out:
            return
        out[id(v)] = v
    if isinstance(v, dict):
        for x in v.values():
            containers(x, out)
    elif isinstance(v, (list, tuple)):
        for x in v:
            containers(x, out)


def real_run(case):
    fb = realrun.load_fb()
    FB = fb.FileBuilder
    root_dir = os.path.realpath(tempfile.mkdtemp(prefix='fbh_heap_', dir=realrun.SANDBOX_BASE))
    import logging
    was = logging.root.manager.disable
    logging.disable(logging.CRITICAL)
    builds = []
    try:
        os.makedirs(os.path.join(root_dir, 'd', 'e'))
        for p in ('d/one', 'd/two', 'd/e/three', 'top'):
            with open(os.path.join(root_dir, p), 'w') as fh:
                fh.write(p)
        cache = os.path.join(root_dir, 'cache.gz')
        for bi in range(3):
            if bi == 2 and case.get('touch'):
                with open(os.path.join(root_dir, case['touch']), 'w') as fh:
                    fh.write('new')
            tr, executed, result = run_build(FB, cache, root_dir, case, bi)
            # the real heap at the end of the build
            lib_ids = {}
            changed = []
            real_recs = []
            for label, getter, then in tr.recs:
                if getter is None:
                    real_recs.append(None)
                    continue
                val = getter()
                now = tr.enc(val)
                real_recs.append(now)
                if now != then:
                    changed.append({'record': label, 'when_recorded': then, 'at_the_end': now})
                containers(val, lib_ids)
            shared = [i for i in lib_ids if i in tr.reg]
            builds.append({'cmds': tr.cmds, 'recs': real_recs, 'changed': changed, 'shared': len(shared),
                           'shared_example': (tr.reg[shared[0]] if shared else None),
                           'unlocated': tr.unlocated, 'mutations': tr.mutations, 'edges': tr.edges,
                           'executed': executed, 'labels': [r[0] for r in tr.recs]})
        return builds
    finally:
        logging.disable(was)
        shutil.rmtree(root_dir, ignore_errors=True)


def run(tier, rep, salt=0):
    n = 60 if tier == 'quick' else 2500
    rng = random.Random(core.seed() * 1000003 + 1100 + salt)
    cases = [gen_case(rng) for _ in range(n)]
    problems = []
    reqs, owners = [], []
    for ci, c in enumerate(cases):
        try:
            builds = real_run(c)
        except Exception as e:
            problems.append({'cat': 'tie', 'what': 'the heap scenario cannot be driven: %s: %s' % (type(e).__name__, str(e)[:200]), 'case': c})
            break
        rep.count('heap_cases')
        for bi, b in enumerate(builds):
            rep.count('heap_builds')
            rep.count('heap_events', len(b['cmds']))
            rep.count('heap_mutations', b['mutations'])
            rep.count('heap_records_compared', len([r for r in b['recs'] if r is not None]))
            rep.count('heap_records_unlocated', b['unlocated'])
            for k, v in b['edges'].items():
                rep.count('heap_edge_' + k.replace(' ', '_'), v)
            for ch in b['changed'][:1]:
                problems.append({'cat': 'oracle', 'what': 'a record changed under in-place mutation by user code: %s' % ch['record'],
                                 'case': c, 'build': bi, 'detail': ch})
            if b['shared']:
                problems.append({'cat': 'tie', 'what': 'Inv.sep fails on the real heap: %d list/dict objects of the records are also held by user code (handle %s)' % (b['shared'], b['shared_example']),
                                 'case': c, 'build': bi})
            reqs.append({'kind': 'heap', 'cmds': b['cmds']})
            owners.append((ci, bi, b))
    outs = model.run_cases(reqs) if reqs else []
    for (ci, bi, b), mo in zip(owners, outs):
        if mo.get('stuck'):
            problems.append({'cat': 'tie', 'what': 'the trace of the real build is not a run of FB.Heap: %s' % mo['stuck'][:2], 'case': cases[ci], 'build': bi})
            continue
        if not mo.get('sep'):
            problems.append({'cat': 'tie', 'what': 'FB.Heap: separation lost in the model (contradicts inv_run)', 'case': cases[ci], 'build': bi})
        mrecs = mo['recs']
        real = b['recs']
        if len(mrecs) != len(real):
            problems.append({'cat': 'tie', 'what': 'FB.Heap made %d records, the real build %d' % (len(mrecs), len(real)), 'case': cases[ci], 'build': bi})
            continue
        for i, (m, r) in enumerate(zip(mrecs, real)):
            if r is not None and m != r:
                problems.append({'cat': 'tie', 'what': 'record %d (%s): FB.Heap and the real heap differ' % (i, b['labels'][i]),
                                 'case': cases[ci], 'build': bi, 'model': m, 'real': r})
                break
    return problems
