"""FileBuilder._prepare_file_creation against the Lean model FB.PrepareF (C14): on random trees - the target absent, a
regular file, or a directory holding old outputs, foreign files and sub-directories; the parents partly there, partly
regular files (old outputs or foreign) - the real method of /repo is called on a stand-in object (real _make_room,
_make_dirs and FileBackups; _dirs_to_make, the old cache and the virtual tree's answers supplied) with OSError(EIO)
injected at the k-th mutating call it makes: the os.rename of a file moved aside, the os.rmdir of a cleared
directory, the os.mkdir of a parent - for EVERY k of the fault-free run.  Outcome (returns / IsADirectoryError /
OSError), tree, undo log and, when it returns, the number of calls must equal the model's.  Judged on the real side
as well: nothing the virtual tree knows is touched, no regular file is gone without being in the undo log, and after
a failure no directory exists that was not there before."""
import errno
import importlib
import logging
import os
import random
import shutil
import tempfile
import types

from . import core, model, realrun

NAMES = ['a', 'b', 'c']
BASE_NS = 1_600_000_000_000_000_000


def gen_case(rng):
    tree = {}
    for _ in range(rng.randint(0, 7)):
        comps = [rng.choice(NAMES) for _ in range(rng.randint(1, 4))]
        p = '/'.join(comps)
        ok = all(tree.get('/'.join(comps[:k]), 'dir') == 'dir' for k in range(1, len(comps)))
        if not ok or p in tree:
            continue
        for k in range(1, len(comps)):
            tree['/'.join(comps[:k])] = 'dir'
        tree[p] = 'dir' if rng.random() < 0.45 else 'file'
    dirs_in_tree = [p for p, k in tree.items() if k == 'dir']
    if dirs_in_tree and rng.random() < 0.6:
        target = rng.choice(dirs_in_tree).split('/')       # a directory on disk is to become an output
    else:
        target = [rng.choice(NAMES) for _ in range(rng.randint(1, 4))]
    start = rng.randint(0, len(target) - 1)
    dirs = ['/'.join(target[:k]) for k in range(start + 1, len(target))]
    files = [p for p, k in tree.items() if k == 'file']
    pv = rng.choice([0.0, 0.0, 0.15, 0.4])
    t = '/'.join(target)
    nodes = [[p, 'dir'] if k == 'dir' else [p, 'file', 'c%d' % i, 50 + i] for i, (p, k) in enumerate(sorted(tree.items()))]
    return {'kind': 'pr', 'tree': nodes, 'target': t, 'dirs': dirs,
            'oldCreated': sorted(set(p for p in files + dirs if rng.random() < 0.5)),
            # what _dirs_to_make returns is absent from the virtual tree (that is its contract): never known as a file or directory
            'virtDirs': sorted(p for p in dirs_in_tree if p not in dirs and rng.random() < (pv if p.startswith(t + '/') or p == t else 0.8)),
            'virtFiles': sorted(p for p in files if p not in dirs and rng.random() < (pv if p.startswith(t + '/') else 0.5))}


def real_run(case):
    fb = realrun.load_fb()
    mod = importlib.import_module('file_builder.file_builder')
    bkmod = importlib.import_module('file_builder.file_backups')
    root = os.path.realpath(tempfile.mkdtemp(prefix='fbh_pr_', dir=realrun.SANDBOX_BASE))

    def ab(p):
        return os.path.join(root, p) if p else root

    def rel(x):
        return os.path.relpath(x, root)

    def tree():
        out = []
        for r_, ds, fs in os.walk(root):
            for d in ds:
                out.append([rel(os.path.join(r_, d)), 'dir'])
            for f in fs:
                q = os.path.join(r_, f)
                with open(q) as fh:
                    out.append([rel(q), 'file', fh.read(), os.stat(q).st_mtime_ns - BASE_NS])
        out.sort(key=lambda x: x[0])
        return out
    fail_at = case['failAt']
    calls = [0]

    fired = [False]

    def inject(path):
        # a single fault: the k-th mutating call fails; the clean-up that follows is not faulted again
        if not fired[0] and calls[0] == fail_at:
            fired[0] = True
            raise OSError(errno.EIO, 'injected fault', path)

    def counted(fn):
        def w(*a, **kw):
            inject(str(a[0]) if a else '')
            if not fired[0]:
                calls[0] += 1
            return fn(*a, **kw)
        return w
    proxy = type(os)('os_prepare_fault')
    proxy.__dict__.update({k: getattr(os, k) for k in dir(os) if not k.startswith('__')})
    proxy.listdir = lambda d: sorted(os.listdir(d))
    proxy.rmdir = counted(os.rmdir)
    real_mkdir = os.mkdir

    def mkdir_counted(p, *a, **k):
        # a mkdir that is made counts, whether it succeeds or finds the directory there
        inject(p)
        try:
            r = real_mkdir(p, *a, **k)
        except FileExistsError:
            calls[0] += 1
            raise
        calls[0] += 1
        return r
    proxy.mkdir = mkdir_counted
    bkproxy = type(os)('os_prepare_fault_bk')
    bkproxy.__dict__.update({k: getattr(os, k) for k in dir(os) if not k.startswith('__')})
    bkproxy.rename = counted(os.rename)
    bkproxy.replace = counted(os.replace)
    saved_os, saved_bkos = mod.os, bkmod.os
    was = logging.root.manager.disable
    logging.disable(logging.CRITICAL)
    try:
        for n in case['tree']:
            p = ab(n[0])
            if n[1] == 'dir':
                os.makedirs(p, exist_ok=True)
            else:
                os.makedirs(os.path.dirname(p), exist_ok=True)
                with open(p, 'w') as fh:
                    fh.write(n[2])
                os.utime(p, ns=(BASE_NS + n[3], BASE_NS + n[3]))
        before = tree()
        vd = set(ab(p) for p in case['virtDirs'])
        vf = set(ab(p) for p in case['virtFiles'])
        old = set(ab(p) for p in case['oldCreated'])
        with bkmod.FileBackups() as backups:
            fake = types.SimpleNamespace(
                _operation=types.SimpleNamespace(filename=ab(case['target'])),
                _simple_operation_executor=types.SimpleNamespace(is_dir=lambda f: f in vd, is_file=lambda f: f in vf),
                _dirs_to_make=lambda d, cf: [ab(p) for p in case['dirs']],
                _old_cache=types.SimpleNamespace(created_norm_cased_file=lambda f: f in old),
                _backups=backups)
            fake._make_room = lambda d, fn: fb.FileBuilder._make_room(fake, d, fn)
            fake._make_dirs = lambda d: fb.FileBuilder._make_dirs(fake, d)
            mod.os, bkmod.os = proxy, bkproxy
            try:
                fb.FileBuilder._prepare_file_creation(fake)
                outcome = 'ok'
            except IsADirectoryError:
                outcome = 'IsADirectoryError'
            except OSError:
                outcome = 'OSError'
            finally:
                mod.os, bkmod.os = saved_os, saved_bkos
            saved = []
            for orig, bak in backups._backups:
                with open(bak) as fh:
                    saved.append([rel(orig), fh.read(), os.stat(bak).st_mtime_ns - BASE_NS])
            after = tree()
        return {'outcome': outcome, 'tree': after, 'saved': saved, 'before': before, 'calls': calls[0]}
    finally:
        mod.os, bkmod.os = saved_os, saved_bkos
        logging.disable(was)
        shutil.rmtree(root, ignore_errors=True)


def run(tier, rep, salt=0):
    n = 500 if tier == 'quick' else 3000
    rng = random.Random(core.seed() * 15485863 + 7 + salt)
    bases = [gen_case(rng) for _ in range(n)]
    free = model.run_cases([dict(c, failAt=10 ** 6) for c in bases])
    cases = [dict(c, failAt=k) for c, b in zip(bases, free) for k in range(b['calls'] + 1)]
    if tier == 'quick':
        cases = rng.sample(cases, min(len(cases), 900))
    outs = model.run_cases(cases)
    problems = []
    for c, mo in zip(cases, outs):
        try:
            ro = real_run(c)
        except Exception as e:
            problems.append({'what': '_prepare_file_creation cannot be driven as FB.PrepareF describes it: %s: %s' % (type(e).__name__, str(e)[:200]), 'case': c})
            break
        rep.count('prepare_fault_runs')
        rep.count('prepare_fault_' + ro['outcome'])
        if ro['saved']:
            rep.count('prepare_fault_moved_files_aside')
        a = {x[0]: x for x in ro['tree']}
        b = {x[0]: x for x in ro['before']}
        logged = {s[0]: s for s in ro['saved']}
        t = c['target']
        for x in ro['before']:
            known = x[0] in (c['virtFiles'] if x[1] == 'file' else c['virtDirs'])
            if known and x[0] != t and a.get(x[0]) != x:
                problems.append({'what': '_prepare_file_creation touched something the virtual tree knows', 'oracle': True, 'path': x[0], 'case': c})
                break
            if x[1] == 'file' and a.get(x[0]) != x and logged.get(x[0]) != [x[0], x[2], x[3]]:
                problems.append({'what': '_prepare_file_creation removed a regular file without saving it', 'oracle': True, 'path': x[0], 'case': c})
                break
        if ro['outcome'] != 'ok':
            new_dirs = [x[0] for x in ro['tree'] if x[1] == 'dir' and (b.get(x[0]) or [None, None])[1] != 'dir']
            if new_dirs:
                problems.append({'what': '_prepare_file_creation failed and left directories behind', 'oracle': True, 'left': new_dirs, 'case': c})
        got = {'outcome': ro['outcome'], 'tree': ro['tree'], 'saved': ro['saved']}
        exp = {'outcome': mo['outcome'], 'tree': mo['tree'], 'saved': mo['saved']}
        if ro['outcome'] == 'ok':
            got['calls'] = ro['calls']
            exp['calls'] = mo.get('calls')
        if got != exp:
            problems.append({'what': 'FileBuilder._prepare_file_creation and FB.PrepareF.prepare differ', 'case': c, 'real': got, 'model': exp})
    return problems
