"""created_files.py against the Lean model FB.CreatedFiles: random command sequences (mostly well-formed:
start a fresh file, finish or fail a live one; plus malformed ones that make the Python raise KeyError) are run
on the real class of /repo and on the model; after EVERY command all four private fields and the three query
methods must agree."""
import importlib
import random

from . import core, model, realrun

NAMES = ['a', 'b', 'c']


def gen_cmds(rng):
    live, done = [], []
    cmds = []
    for _ in range(rng.randint(1, 14)):
        r = rng.random()
        q = '/'.join(rng.choice(NAMES) for _ in range(rng.randint(0, 3)))
        if r < 0.45 or not live:
            p = '/'.join(rng.choice(NAMES) for _ in range(rng.randint(1, 4)))
            if p in live or p in done or any(x.startswith(p + '/') or p.startswith(x + '/') for x in live + done):
                if rng.random() < 0.8:
                    continue              # keep most sequences within the documented use
            live.append(p)
            cmds.append(['s', p, q])
        elif r < 0.7:
            p = rng.choice(live)
            if p not in done:
                done.append(p)
            cmds.append(['f', p, q])
        elif r < 0.95:
            p = rng.choice(live)
            live.remove(p)
            if p in done:
                done.remove(p)
            cmds.append(['e', p, q])
        else:
            cmds.append(['e', '/'.join(rng.choice(NAMES) for _ in range(rng.randint(1, 3))), q])   # possibly never started
    return cmds


def real_states(cmds):
    realrun.load_fb()
    CF = importlib.import_module('file_builder.created_files').CreatedFiles
    c = CF()
    out = []
    dead = False

    def ab(p):
        return '/' + p

    def rel(p):
        return p[1:] if p != '/' else ''
    for k, p, q in cmds:
        if dead:
            out.append('dead')
            continue
        try:
            if k == 's':
                c.started_building_file(ab(p))
            elif k == 'f':
                c.finished_building_file(ab(p))
            else:
                c.error_building_file(ab(p))
        except KeyError:
            out.append('KeyError')
            dead = True
            continue
        out.append({'state': {
            'files': sorted(rel(x) for x in c._norm_cased_files),
            'dirs': sorted(rel(x) for x in c._norm_cased_dirs),
            'subfiles': sorted([rel(d), sorted(v.values())] for d, v in c._norm_cased_dir_to_subfiles.items()),
            'count': sorted([rel(d), n] for d, n in c._norm_cased_dir_to_started_count.items())},
            'query': {'hasFile': c.has_norm_cased_file(ab(q)), 'hasDir': c.has_norm_cased_dir(ab(q) if q else '/'),
                      'listDir': sorted(c.list_dir(ab(q) if q else '/'))}})
    return out


def canon_model(o):
    if isinstance(o, str):
        return o
    st = o['state']
    return {'state': {'files': sorted(st['files']), 'dirs': sorted(st['dirs']),
                      'subfiles': sorted([d, sorted(ns)] for d, ns in st['subfiles']),
                      'count': sorted([d, n] for d, n in st['count'])},
            'query': {'hasFile': o['query']['hasFile'], 'hasDir': o['query']['hasDir'], 'listDir': sorted(o['query']['listDir'])}}


def run(tier, rep, salt=0):
    n = 600 if tier == 'quick' else 30000
    rng = random.Random(core.seed() * 15485863 + 5 + salt)
    seqs = [gen_cmds(rng) for _ in range(n)]
    outs = model.run_cases([{'kind': 'cf', 'cmds': s} for s in seqs])
    problems = []
    keyerrors = 0
    for s, mo in zip(seqs, outs):
        try:
            ro = real_states(s)
        except Exception as e:      # the class no longer has the interface the model describes
            problems.append({'what': 'created_files.py cannot be driven as FB.CreatedFiles describes it: %s: %s' % (type(e).__name__, str(e)[:200]),
                             'cmds': s[:1], 'real': None, 'model': None})
            break
        rep.count('createdfiles_sequences')
        rep.count('createdfiles_commands', len(s))
        mm = [canon_model(x) for x in mo['outs']]
        if 'KeyError' in ro:
            keyerrors += 1
        if ro != mm:
            i = next(i for i, (a, b) in enumerate(zip(ro, mm)) if a != b)
            problems.append({'what': 'created_files.py and FB.CreatedFiles differ', 'cmds': s[:i + 1], 'real': ro[i], 'model': mm[i]})
    rep.count('createdfiles_keyerror_sequences', keyerrors)
    return problems
