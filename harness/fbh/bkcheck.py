"""file_backups.py against the Lean model FB.Backups: on random trees a random command sequence - the class's
back_up_and_remove / record_absent / was_absent / restore_all, mixed with environment actions on the tree (write a
file, make a directory, remove a subtree: what a build and its rollback do between the calls) - is run on the real
FileBackups of /repo (on a real directory tree) and on the model; after EVERY command the whole tree (kinds, bytes,
modification times), the log (original path, bytes and modification time of every saved file, in order; the set of
paths recorded absent) and the return value must agree.  restore_all's two skip branches (path is a directory now;
a parent is a regular file now) are reached by the environment actions."""
import importlib
import logging
import os
import random
import shutil
import tempfile

from . import core, model, realrun

NAMES = ['a', 'b', 'c']
BASE_NS = 1_600_000_000_000_000_000


def rand_path(rng, lo=1, hi=3):
    return '/'.join(rng.choice(NAMES) for _ in range(rng.randint(lo, hi)))


def gen_case(rng):
    tree = {}
    for _ in range(rng.randint(1, 8)):
        comps = rand_path(rng).split('/')
        p = '/'.join(comps)
        ok = all(tree.get('/'.join(comps[:k]), 'dir') == 'dir' for k in range(1, len(comps)))
        if not ok or p in tree:
            continue
        for k in range(1, len(comps)):
            tree['/'.join(comps[:k])] = 'dir'
        tree[p] = 'dir' if rng.random() < 0.3 else 'file'
    files = [p for p, k in tree.items() if k == 'file']
    cmds = []
    stamp = [10]
    saved = []

    def fresh():
        stamp[0] += 1
        return stamp[0]
    for _ in range(rng.randint(2, 14)):
        r = rng.random()
        pool = files + saved + list(tree) + [rand_path(rng) for _ in range(3)]
        p = rng.choice(pool)
        if r < 0.3:
            cmds.append(['backup', rng.choice(files + saved) if (files or saved) and rng.random() < 0.8 else p])
            saved.append(cmds[-1][1])
        elif r < 0.38:
            cmds.append(['absent', p])
        elif r < 0.46:
            cmds.append(['wasAbsent', p])
        elif r < 0.64:
            q = rng.choice(saved) if saved and rng.random() < 0.6 else p
            cmds.append(['write', q, 'w%d' % fresh(), fresh()])
        elif r < 0.76:
            # a directory where a saved file was, or a file where one of its parents was
            q = rng.choice(saved) if saved and rng.random() < 0.6 else p
            if rng.random() < 0.4 and '/' in q:
                q = q.rsplit('/', 1)[0]
                cmds.append(['rmtree', q])
                cmds.append(['write', q, 'blocker%d' % fresh(), fresh()] if rng.random() < 0.5 else ['mkdir', q])
            else:
                cmds.append(['mkdir', q])
        elif r < 0.88:
            q = rng.choice(saved) if saved and rng.random() < 0.5 else p
            if rng.random() < 0.5 and '/' in q:
                q = q.rsplit('/', 1)[0]
            cmds.append(['rmtree', q])
        else:
            cmds.append(['restore'])
            saved = []
    if rng.random() < 0.7:
        cmds.append(['restore'])
    nodes = []
    for i, (p, k) in enumerate(sorted(tree.items())):
        nodes.append([p, 'dir'] if k == 'dir' else [p, 'file', 'orig%d' % i, 100 + i])
    return {'kind': 'bk', 'tree': nodes, 'cmds': cmds}


def real_states(case):
    realrun.load_fb()
    mod = importlib.import_module('file_builder.file_backups')
    root = os.path.realpath(tempfile.mkdtemp(prefix='fbh_bk_', dir=realrun.SANDBOX_BASE))

    def ab(p):
        return os.path.join(root, p) if p else root

    def rel(x):
        return os.path.relpath(x, root)

    def put(p, data, m):
        with open(p, 'w') as fh:
            fh.write(data)
        os.utime(p, ns=(BASE_NS + m, BASE_NS + m))

    def tree():
        out = []
        for r_, ds, fs in os.walk(root):
            for d in ds:
                out.append([rel(os.path.join(r_, d)), 'dir'])
            for f in fs:
                q = os.path.join(r_, f)
                with open(q) as fh:
                    out.append([rel(q), 'file', fh.read(), os.stat(q).st_mtime_ns - BASE_NS])
        out.sort(key=lambda x: x[0])
        return out
    was = logging.root.manager.disable
    logging.disable(logging.CRITICAL)
    try:
        for n in case['tree']:
            p = ab(n[0])
            if n[1] == 'dir':
                os.makedirs(p, exist_ok=True)
            else:
                os.makedirs(os.path.dirname(p), exist_ok=True)
                put(p, n[2], n[3])
        out = []
        with mod.FileBackups() as b:
            for cmd in case['cmds']:
                k = cmd[0]
                p = ab(cmd[1]) if len(cmd) > 1 else None
                ret = None
                if k == 'backup':
                    try:
                        ret = b.back_up_and_remove(p)
                    except NotADirectoryError:
                        ret = 'NotADirectoryError'
                elif k == 'absent':
                    b.record_absent(p)
                elif k == 'wasAbsent':
                    ret = b.was_absent(p)
                elif k == 'restore':
                    b.restore_all()
                elif k == 'write':
                    if os.path.isdir(os.path.dirname(p)) and not os.path.isdir(p):
                        put(p, cmd[2], cmd[3])
                elif k == 'mkdir':
                    if os.path.isdir(os.path.dirname(p)) and not os.path.lexists(p):
                        os.mkdir(p)
                elif k == 'rmtree':
                    if os.path.isdir(p):
                        shutil.rmtree(p)
                    elif os.path.lexists(p):
                        os.remove(p)
                saved = []
                for orig, bak in b._backups:
                    with open(bak) as fh:
                        saved.append([rel(orig), fh.read(), os.stat(bak).st_mtime_ns - BASE_NS])
                out.append({'tree': tree(), 'log': {'saved': saved, 'absent': sorted(rel(x) for x in b._absent)}, 'ret': ret})
            tmp = b._temp_dir
        out.append({'temp_dir_removed': not os.path.exists(tmp)})
        return out
    finally:
        logging.disable(was)
        shutil.rmtree(root, ignore_errors=True)


def canon_model(o):
    return {'tree': o['tree'], 'log': {'saved': o['log']['saved'], 'absent': sorted(o['log']['absent'])}, 'ret': o['ret']}


def run(tier, rep, salt=0):
    n = 300 if tier == 'quick' else 15000
    rng = random.Random(core.seed() * 49979687 + 9 + salt)
    cases = [gen_case(rng) for _ in range(n)]
    outs = model.run_cases(cases)
    problems = []
    stats = {'restores': 0, 'skipped_dir': 0, 'backups_true': 0}
    for c, mo in zip(cases, outs):
        try:
            ro = real_states(c)
        except Exception as e:      # the class no longer has the interface the model describes
            problems.append({'what': 'file_backups.py cannot be driven as FB.Backups describes it: %s: %s' % (type(e).__name__, str(e)[:200]),
                             'case': dict(c, cmds=c['cmds'][:1]), 'real': None, 'model': None})
            break
        rep.count('backups_sequences')
        rep.count('backups_commands', len(c['cmds']))
        mm = [canon_model(x) for x in mo['outs']] + [{'temp_dir_removed': True}]
        prev = None
        for cmd, r in zip(c['cmds'], ro):
            if cmd[0] == 'backup':
                rep.count('backups_backup_' + ('saved_a_file' if r['ret'] is True else 'nothing_or_directory' if r['ret'] is False else 'raised'))
            if cmd[0] == 'restore' and prev is not None:
                rep.count('backups_restore_all')
                now = {x[0]: x for x in r['tree']}
                for orig, data, m in prev['log']['saved']:
                    back = now.get(orig) == [orig, 'file', data, m]
                    rep.count('backups_restore_' + ('put_back' if back else 'skipped_or_overwritten_by_later_entry'))
            prev = r
        if ro != mm:
            i = next(i for i, (a, b) in enumerate(zip(ro, mm)) if a != b)
            problems.append({'what': 'file_backups.py and FB.Backups differ', 'case': dict(c, cmds=c['cmds'][:i + 1]),
                             'real': ro[i], 'model': mm[i]})
    return problems
