#!/bin/bash
# usage: harness/scoreboard_prop.sh <prop>...   every seeded change of the named properties against that property's own
# quick check, each in a scratch worktree of /repo (never in /repo itself); one line per seed
cd "$(dirname "$0")/.."
(cd lean && lake build FB fbdriver >/dev/null 2>&1)
for prop in "$@"; do
  for d in seeded/$prop-*; do
    s=$(basename $d); wt=/tmp/wtp_$$_$s
    git -C /repo worktree add -q $wt HEAD || continue
    git -C $wt apply "$PWD/$d/patch.diff" || { echo "$s NOAPPLY"; git -C /repo worktree remove --force $wt; continue; }
    FB_REPO=$wt ./check $prop --tier quick > /tmp/scorep_$$.txt 2>&1; e=$?
    echo "$s $prop=exit$e/$(grep -c '^VIOLATION' /tmp/scorep_$$.txt)viol"
    git -C /repo worktree remove --force $wt; git -C /repo worktree prune
  done
done
rm -f /tmp/scorep_$$.txt
echo DONE
