#!/bin/bash
# every check once in the thorough tier on the unchanged tree; prints exit status and wall time per check
cd "$(dirname "$0")/.."
(cd lean && lake build FB fbdriver >/dev/null 2>&1)
# PROPS="C01 C02" harness/thoroughsweep.sh <seed> restricts the sweep (to run halves side by side)
for p in ${PROPS:-C18 C07 C16 C15 C06 C13 C10 C12 C04 C03 C02 C05 C01 C11 C14 C08 C17 C09}; do
  t0=$(date +%s)
  VERIF_SEED=${1:-0} ./check $p --tier thorough > /tmp/thor_$$.txt 2>&1; e=$?
  t1=$(date +%s)
  echo "THOROUGH $p exit $e wall $((t1-t0))s"
  if [ $e != 0 ]; then grep -v KNOWN-FINDING /tmp/thor_$$.txt | head -4 | cut -c1-400; fi
done
