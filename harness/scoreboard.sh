#!/bin/bash
# usage: harness/scoreboard.sh <suffix>...   e.g. harness/scoreboard.sh R S
# every seeded change seeded/<prop>-<suffix> is applied in a scratch worktree of /repo (never in /repo itself); the
# property's own quick check and C01's are run against the worktree; one line per seed on stdout
cd "$(dirname "$0")/.."
(cd lean && lake build FB fbdriver >/dev/null 2>&1)
for suf in "$@"; do
  for d in seeded/*-$suf; do
    s=$(basename $d); prop=${s%%-*}; wt=/tmp/wts_$$_$s
    git -C /repo worktree add -q $wt HEAD || continue
    git -C $wt apply "$PWD/$d/patch.diff" || { echo "$s NOAPPLY"; git -C /repo worktree remove --force $wt; continue; }
    line="$s"
    checks="$prop C01"; [ "$prop" = "C01" ] && checks="C01"
    for c in $checks; do
      FB_REPO=$wt ./check $c --tier quick > /tmp/score_$$.txt 2>&1; e=$?
      line="$line $c=exit$e/$(grep -c '^VIOLATION' /tmp/score_$$.txt)viol"
    done
    echo "$line"
    git -C /repo worktree remove --force $wt; git -C /repo worktree prune
  done
done
rm -f /tmp/score_$$.txt
echo DONE
