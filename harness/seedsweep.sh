#!/bin/bash
# run every quick check on the unchanged tree for a range of seeds; print only the runs that do not exit 0
# usage: harness/seedsweep.sh <from> <to> [tier]
cd "$(dirname "$0")/.."
(cd lean && lake build FB fbdriver >/dev/null 2>&1)
for s in $(seq $1 $2); do
  for p in C01 C02 C03 C04 C05 C06 C07 C08 C09 C10 C11 C12 C13 C14 C15 C16 C17 C18; do
    VERIF_SEED=$s ./check $p --tier ${3:-quick} > /tmp/sweep_$$.txt 2>&1; e=$?
    if [ $e != 0 ]; then echo "SEED $s $p exit $e"; grep -v KNOWN-FINDING /tmp/sweep_$$.txt | head -4 | cut -c1-400; fi
  done
  echo "seed $s done"
done
