"""Confirm every seeded change in a scratch worktree of /repo and write seeded/<id>/meta.json:
  - the patch applies to /repo's HEAD, the pinned test suite still passes (69 tests),
  - demo.py exits 1 with the patch and 0 without it,
  - which registered checks catch it (from a scoreboard log of seedscore.py, if given).
Usage: seedconfirm.py <seed-root> [scoreboard.log ...]"""
import ast
import glob
import json
import os
import re
import subprocess
import sys

root = sys.argv[1]
score = {}
for log in sys.argv[2:]:
    for line in open(log):
        if line.startswith('('):
            try:
                name, verdict, _ = ast.literal_eval(line.strip())
            except Exception:
                continue
            if verdict.startswith('caught by '):
                score.setdefault(name, set()).update(x for x in verdict[len('caught by '):].split(',') if 'ERR' not in x)
            else:
                score.setdefault(name, set())
WT = '/tmp/seedconfirm_%d' % os.getpid()
subprocess.run(['git', '-C', '/repo', 'worktree', 'add', '--detach', WT, 'HEAD'], check=True, capture_output=True)
head = subprocess.run(['git', '-C', '/repo', 'rev-parse', '--short', 'HEAD'], capture_output=True, text=True).stdout.strip()
PY = '/venv/bin/python'


def section(notes, *keys):
    """text of the first markdown section whose heading contains one of the keys"""
    parts = re.split(r'^(#+ .*)$', notes, flags=re.M)
    for i in range(1, len(parts), 2):
        if any(k in parts[i].lower() for k in keys):
            return ' '.join(parts[i + 1].split())[:1500]
    return ''


try:
    for patch in sorted(glob.glob(os.path.join(root, '*', 'patch.diff'))):
        d = os.path.dirname(patch)
        name = os.path.basename(d)
        env = dict(os.environ, FB_REPO=WT, PYTHONDONTWRITEBYTECODE='1')
        subprocess.run(['git', '-C', WT, 'reset', '-q', '--hard'])
        without = subprocess.run([PY, os.path.join(d, 'demo.py')], capture_output=True, env=env, cwd='/tmp', timeout=900)
        ap = subprocess.run(['git', '-C', WT, 'apply', patch], capture_output=True)
        suite = subprocess.run([PY, '-m', 'pytest', '-q', '-p', 'no:cacheprovider', '--timeout=900'], capture_output=True,
                               text=True, cwd=WT, env=env)
        tail = suite.stdout.strip().splitlines()[-1] if suite.stdout.strip() else ''
        with_ = subprocess.run([PY, os.path.join(d, 'demo.py')], capture_output=True, env=env, cwd='/tmp', timeout=900)
        files = subprocess.run(['git', '-C', WT, 'diff', '--stat'], capture_output=True, text=True).stdout.strip().splitlines()
        notes = open(os.path.join(d, 'notes.md')).read() if os.path.exists(os.path.join(d, 'notes.md')) else ''
        meta = {
            'id': name,
            'property': name.split('-')[0],
            'breaks': section(notes, 'clause', 'which', 'break') or section(notes, 'change'),
            'change': section(notes, 'change'),
            'needs_to_manifest': section(notes, 'needed', 'manifest', 'needs'),
            'repo_head': head,
            'rebased_onto_repaired_tree': os.path.exists(os.path.join(d, 'patch.orig.diff')),
            'confirmed': {
                'patch_applies': ap.returncode == 0,
                'files_changed': files[:-1],
                'test_suite_with_patch': tail,
                'test_suite_passes': suite.returncode == 0,
                'demo_exit_with_patch': with_.returncode,
                'demo_exit_without_patch': without.returncode,
                'commands': ['git -C <worktree> apply patch.diff',
                             '/venv/bin/python -m pytest -q -p no:cacheprovider --timeout=900   (in the worktree)',
                             'FB_REPO=<worktree> /venv/bin/python demo.py   (1 = property broken, 0 = holds)'],
            },
            'caught_by_quick_checks': sorted(score.get(name, [])) if name in score else None,
        }
        ok = (ap.returncode == 0 and suite.returncode == 0 and with_.returncode == 1 and without.returncode == 0)
        meta['kept'] = ok
        json.dump(meta, open(os.path.join(d, 'meta.json'), 'w'), indent=1, sort_keys=True)
        print(name, 'OK' if ok else 'NOT-CONFIRMED', tail, with_.returncode, without.returncode, meta['caught_by_quick_checks'], flush=True)
finally:
    subprocess.run(['git', '-C', '/repo', 'worktree', 'remove', '--force', WT])
