import sys, json, os
sys.path.insert(0, os.path.dirname(os.path.abspath(__file__)))
from fbh import gen, realrun, model, wire
lo, hi = int(sys.argv[1]), int(sys.argv[2])
cases = [gen.gen_case(s) for s in range(lo, hi)]
mouts = model.run_cases(cases)
bad = 0
for c, m in zip(cases, mouts):
    r = realrun.run_case(c)
    for i, (st, ro, mo) in enumerate(zip(c['steps'], r['steps'], m['steps'])):
        if mo.get('obl'):
            break
        rt = [x[:3] if x[1] == 'file' else x[:2] for x in ro['tree']]
        mt = [x[:3] if x[1] == 'file' else x[:2] for x in mo['tree']]
        rt = [x if x[0] != 'cache.gz' else x[:2] for x in rt]
        mt = [x if x[0] != 'cache.gz' else x[:2] for x in mt]
        problems = []
        if rt != mt:
            problems.append(('tree', [x for x in rt if x not in mt], [x for x in mt if x not in rt]))
        if 'res' in ro:
            rr, mr = ro['res'], mo['res']
            if ('ok' in rr) != ('ok' in mr):
                problems.append(('res', rr, mr))
            elif 'ok' in rr:
                if not wire.type_exact_equal(wire.dec(rr['ok']) if rr['ok'] is not None else None, wire.dec(mr['ok']) if mr['ok'] is not None else None):
                    problems.append(('val', rr, mr))
            else:
                if rr['exc']['cls'] != mr['exc']['cls'] or rr['exc'].get('tok') != mr['exc'].get('tok'):
                    problems.append(('exc', rr, mr))
        if problems:
            bad += 1
            print('SEED', c['seed'], 'step', i, st[:2], json.dumps(problems)[:600])
            break
print('done', lo, hi, 'bad', bad)
