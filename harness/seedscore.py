"""Score the seeded changes: for each one, apply it to a scratch worktree of /repo, run the checks of a
snapshot copy of /verif against that worktree (FB_REPO), undo it.  Neither /repo nor /verif is touched.
Usage: seedscore.py <seed-root> [props...]   (env SEED_TIER, VERIF_SEED, SEED_ONLY=<substr>)"""
import glob
import json
import os
import shutil
import subprocess
import sys

root = sys.argv[1]
props = sys.argv[2:] or None
VERIF = os.path.dirname(os.path.dirname(os.path.abspath(__file__)))
SNAP = '/tmp/verif_snap_%d' % os.getpid()
WT = '/tmp/seedwt_%d' % os.getpid()
subprocess.run(['rsync', '-a', '--exclude', '.git', '--exclude', 'replays', VERIF + '/', SNAP + '/'], check=True)
subprocess.run(['git', '-C', '/repo', 'worktree', 'add', '--detach', WT, 'HEAD'], check=True, capture_output=True)
manifest = json.load(open(os.path.join(SNAP, 'MANIFEST.json')))
allprops = [c['property_id'] for c in manifest['checks']]
rows = []
only = os.environ.get('SEED_ONLY')
try:
    for patch in sorted(glob.glob(os.path.join(root, '*', 'patch.diff'))):
        name = os.path.relpath(os.path.dirname(patch), root)
        if only and only not in name:
            continue
        subprocess.run(['git', '-C', WT, 'reset', '-q', '--hard'])
        r = subprocess.run(['git', '-C', WT, 'apply', '--3way', patch], capture_output=True)
        if r.returncode != 0:
            rows.append((name, 'PATCH-DOES-NOT-APPLY', r.stderr.decode()[-200:]))
            print(rows[-1], flush=True)
            continue
        caught = []
        own = name.split('-')[0]
        todo = props or ([own] + ([p for p in allprops if p != own] if os.environ.get('SEED_FULL') else
                                    [p for p in ('C01',) if p != own]))
        for p in todo:
            q = subprocess.run([os.path.join(SNAP, 'check'), p, '--tier', os.environ.get('SEED_TIER', 'quick')],
                               capture_output=True, cwd=SNAP,
                               env=dict(os.environ, FB_REPO=WT, VERIF_SEED=os.environ.get('VERIF_SEED', '0')))
            if q.returncode == 1:
                caught.append(p)
            elif q.returncode != 0:
                caught.append(p + ':ERR(' + q.stdout.decode()[-120:].replace('\n', ' ') + ')')
        rows.append((name, 'caught by ' + ','.join(caught) if caught else 'MISSED', ''))
        print(rows[-1], flush=True)
finally:
    subprocess.run(['git', '-C', '/repo', 'worktree', 'remove', '--force', WT])
    shutil.rmtree(SNAP, ignore_errors=True)
print(json.dumps(rows, indent=1))
