"""Apply each seeded change to /repo, run the given checks, undo it.  Usage: seedscore.py <seed-root> [props...]"""
import glob
import json
import os
import subprocess
import sys

root = sys.argv[1]
props = sys.argv[2:] or None
VERIF = os.path.dirname(os.path.dirname(os.path.abspath(__file__)))
manifest = json.load(open(os.path.join(VERIF, 'MANIFEST.json')))
allprops = [c['property_id'] for c in manifest['checks']]
rows = []
for patch in sorted(glob.glob(os.path.join(root, '*', 'patch.diff')) + glob.glob(os.path.join(root, '*', '*', 'patch.diff'))):
    name = os.path.relpath(os.path.dirname(patch), root)
    assert subprocess.run(['git', '-C', '/repo', 'status', '--porcelain'], capture_output=True).stdout == b'', 'repo dirty'
    r = subprocess.run(['git', '-C', '/repo', 'apply', '--3way', patch], capture_output=True)
    if r.returncode != 0:
        subprocess.run(['git', '-C', '/repo', 'checkout', '--', '.'])
        subprocess.run(['git', '-C', '/repo', 'reset', '-q', '--hard'])
        rows.append((name, 'PATCH-DOES-NOT-APPLY', r.stderr.decode()[-200:]))
        print(rows[-1]); continue
    try:
        caught = []
        for p in (props or allprops):
            q = subprocess.run([os.path.join(VERIF, 'check'), p, '--tier', os.environ.get('SEED_TIER', 'quick')], capture_output=True, cwd=VERIF,
                               env=dict(os.environ, VERIF_SEED=os.environ.get('VERIF_SEED', '0')))
            if q.returncode == 1:
                caught.append(p)
            elif q.returncode != 0:
                caught.append(p + ':ERR')
        rows.append((name, 'caught by ' + ','.join(caught) if caught else 'MISSED', ''))
        print(rows[-1], flush=True)
    finally:
        subprocess.run(['git', '-C', '/repo', 'reset', '-q', '--hard'])
        subprocess.run(['git', '-C', '/repo', 'checkout', '--', '.'])
print(json.dumps(rows, indent=1))
